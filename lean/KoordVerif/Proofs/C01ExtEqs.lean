import KoordVerif.Proofs.C01Extra
/-
C01 extension (schedules quantifier), part 1: the tree equations WITHOUT any reference to the pod cache.

`ReqEqs s` / `UsedEqs s`: every group satisfies its children equations (childRequest = selfRequest + Σ limited
children, request = lend/min rule, used = selfUsed + Σ children's used, non-preemptible likewise) and its self
figures are >= 0 — nothing is said about how the self figures relate to the cached pods.  This is the part of the
invariant that holds BETWEEN the separately locked sections of concurrently running pod handlers.

* `propReq_eqs` / `propUsed_eqs`: a self-index-0 propagation from `n` that keeps the self figures of `n`
  non-negative fires no clamp, adds exactly (d, dnp) to the self figures of `n`, restores every tree equation and
  touches nothing else.
* `eqs_unique`: the tree equations determine every figure from the self figures (and the static data).
-/
namespace KoordVerif.C01

def ReqEqs (s : State) : Prop := ∀ m q, get? s m = some q →
  0 ≤ q.selfRequest ∧ 0 ≤ q.selfNpRequest ∧ dCR s m q = 0 ∧ dNpReq s m q = 0 ∧
  (m ≠ rootName → q.request = lendRule q q.childRequest)

def UsedEqs (s : State) : Prop := ∀ m q, get? s m = some q →
  0 ≤ q.selfUsed ∧ 0 ≤ q.selfNpUsed ∧ dUsed s m q = 0 ∧ dNpUsed s m q = 0

theorem mem_of_map_eq {α} (f : Quota → α) {s s' : State} (h : s'.map f = s.map f) {q' : Quota} (hq' : q' ∈ s') :
    ∃ q ∈ s, f q = f q' := by
  have : f q' ∈ s.map f := by rw [← h]; exact List.mem_map.mpr ⟨q', hq', rfl⟩
  obtain ⟨q, hq, he⟩ := List.mem_map.mp this
  exact ⟨q, hq, he⟩

/-- the request side of a group as far as the request equations can see it -/
def rproj (q : Quota) : Nat × Bool × Int × Option Int × Int × Int × Int × Int × Int :=
  (q.parent, q.lend, q.min, q.max, q.request, q.npRequest, q.childRequest, q.selfRequest, q.selfNpRequest)

def uproj (q : Quota) : Nat × Int × Int × Int × Int := (q.parent, q.used, q.npUsed, q.selfUsed, q.selfNpUsed)

theorem reqEqs_of_map {s s' : State}
    (h : s'.map (fun q => (q.name, rproj q)) = s.map (fun q => (q.name, rproj q))) (he : ReqEqs s) : ReqEqs s' := by
  intro m q' hq'
  obtain ⟨q, hq, hp⟩ := get?_of_map rproj m s s' h.symm q' hq'
  obtain ⟨a, b, c, d, e⟩ := he m q hq
  simp only [rproj, Prod.mk.injEq] at hp
  obtain ⟨_, p2, p3, p4, p5, p6, p7, p8, p9⟩ := hp
  have hn : q'.name = q.name := by rw [get?_name hq, get?_name hq']
  have k1 : sumKids Quota.limited m s' = sumKids Quota.limited m s :=
    sumKids_eq_of_map _ m s s' (by
      have := congrArg (List.map (fun (e : Nat × Nat × Bool × Int × Option Int × Int × Int × Int × Int × Int) =>
        (e.2.1, limit e.2.2.2.2.1 e.2.2.2.2.2.1))) h
      simpa [List.map_map, Function.comp_def, rproj, Quota.limited] using this)
  have k2 : sumKids (·.npRequest) m s' = sumKids (·.npRequest) m s :=
    sumKids_eq_of_map _ m s s' (by
      have := congrArg (List.map (fun (e : Nat × Nat × Bool × Int × Option Int × Int × Int × Int × Int × Int) =>
        (e.2.1, e.2.2.2.2.2.2.1))) h
      simpa [List.map_map, Function.comp_def, rproj] using this)
  have hcr : crOf q' = crOf q := by simp [crOf, hn, ← p5, ← p7]
  refine ⟨by omega, by omega, ?_, ?_, ?_⟩
  · simp only [dCR, k1, hcr] at c ⊢; omega
  · simp only [dNpReq, k2] at d ⊢; omega
  · intro hr; rw [← p5, ← p7, lendRule_congr p2.symm p3.symm]; exact e hr

theorem usedEqs_of_map {s s' : State}
    (h : s'.map (fun q => (q.name, uproj q)) = s.map (fun q => (q.name, uproj q))) (he : UsedEqs s) : UsedEqs s' := by
  intro m q' hq'
  obtain ⟨q, hq, hp⟩ := get?_of_map uproj m s s' h.symm q' hq'
  obtain ⟨a, b, c, d⟩ := he m q hq
  simp only [uproj, Prod.mk.injEq] at hp
  obtain ⟨_, p2, p3, p4, p5⟩ := hp
  have k1 : sumKids (·.used) m s' = sumKids (·.used) m s :=
    sumKids_eq_of_map _ m s s' (by
      have := congrArg (List.map (fun (e : Nat × Nat × Int × Int × Int × Int) => (e.2.1, e.2.2.1))) h
      simpa [List.map_map, Function.comp_def, uproj] using this)
  have k2 : sumKids (·.npUsed) m s' = sumKids (·.npUsed) m s :=
    sumKids_eq_of_map _ m s s' (by
      have := congrArg (List.map (fun (e : Nat × Nat × Int × Int × Int × Int) => (e.2.1, e.2.2.2.1))) h
      simpa [List.map_map, Function.comp_def, uproj] using this)
  refine ⟨by omega, by omega, ?_, ?_⟩
  · simp only [dUsed, k1] at c ⊢; omega
  · simp only [dNpUsed, k2] at d ⊢; omega

/-- Request propagation with self index 0 from `n`, pod-cache agnostic. -/
theorem propReq_eqs {s : State} {pth : List Nat} {n : Nat} {d dnp : Int}
    (hc : Chain s pth) (hnd : pth.Nodup) (hh : pth.head? = some n)
    (ht : TreeOK (tree s)) (hmax : ∀ q ∈ s, ∀ m, q.max = some m → 0 ≤ m) (he : ReqEqs s)
    (hself : ∀ q, get? s n = some q → 0 ≤ q.selfRequest + d ∧ 0 ≤ q.selfNpRequest + dnp) :
    propReq s pth true d dnp = propReqW id s pth true d dnp ∧
    ReqEqs (propReq s pth true d dnp) ∧
    (∀ m q', get? (propReq s pth true d dnp) m = some q' → ∃ q, get? s m = some q ∧ SameButReq q q' ∧
      q'.selfRequest = q.selfRequest + (if m = n then d else 0) ∧
      q'.selfNpRequest = q.selfNpRequest + (if m = n then dnp else 0)) := by
  have hfr := propReq_frame pth s true d dnp hc hnd
  have htree : tree (propReqW id s pth true d dnp) = tree s :=
    propReqW_map _ (fun q q' h => by simp [h.name, h.parent]) id pth s true d dnp
  have hmax' : ∀ q ∈ propReqW id s pth true d dnp, ∀ m, q.max = some m → 0 ≤ m := by
    intro q' hq' m hm
    obtain ⟨q, hq, hqe⟩ := mem_of_map_eq (·.max)
      (propReqW_map (·.max) (fun q q' h => h.max) id pth s true d dnp) hq'
    exact hmax q hq m (by rw [hqe]; exact hm)
  have hall : ∀ m q', get? (propReqW id s pth true d dnp) m = some q' → ∃ q, get? s m = some q ∧ SameButReq q q' ∧
      q'.selfRequest = q.selfRequest + (if m = n then d else 0) ∧
      q'.selfNpRequest = q.selfNpRequest + (if m = n then dnp else 0) ∧
      dCR (propReqW id s pth true d dnp) m q' = 0 ∧ dNpReq (propReqW id s pth true d dnp) m q' = 0 ∧
      (m ≠ rootName → q'.request = lendRule q' q'.childRequest) := by
    intro m q' hq'
    cases hq : get? s m with
    | none => rw [(hfr m).1 hq] at hq'; cases hq'
    | some q =>
      obtain ⟨q'', h1, h2, h3, h4, h5, h6, h7, _⟩ := (hfr m).2 q hq
      rw [h1] at hq'; cases hq'
      obtain ⟨_, _, c, e, f⟩ := he m q hq
      simp [hh] at h3 h4 h5 h6
      have sw : ∀ x : Int, (if n = m then x else 0) = (if m = n then x else 0) := by
        intro x; by_cases hmn : m = n
        · subst hmn; simp
        · have : ¬ n = m := fun e => hmn e.symm
          simp [hmn, this]
      rw [sw] at h3 h4
      exact ⟨q, rfl, h2, h3, h4, by omega, by omega, fun hr => h7 hr (Or.inr (f hr))⟩
  have hself' : ∀ m q', get? (propReqW id s pth true d dnp) m = some q' →
      0 ≤ q'.selfRequest ∧ 0 ≤ q'.selfNpRequest := by
    intro m q' hq'
    obtain ⟨q, hq, h2, h3, h4, _⟩ := hall m q' hq'
    obtain ⟨a1, b1, _⟩ := he m q hq
    by_cases hm : m = n
    · subst hm; simp at h3 h4; have := hself q hq; omega
    · simp [hm] at h3 h4; omega
  have hnn := reqNonneg_of_eqs (htree ▸ ht) hmax' (fun m q' hq' => by
    obtain ⟨q, hq, h2, h3, h4, h5, h6, h7⟩ := hall m q' hq'
    exact ⟨(hself' m q' hq').1, (hself' m q' hq').2, h5, h6, h7⟩)
  have heq : propReq s pth true d dnp = propReqW id s pth true d dnp :=
    propReq_noclamp pth s true d dnp hnd (fun m _ q' hq' =>
      ⟨(hnn m q' hq').cr, (hnn m q' hq').npRequest, (hnn m q' hq').selfRequest, (hnn m q' hq').selfNpRequest⟩)
  rw [heq]
  refine ⟨rfl, ?_, ?_⟩
  · intro m q' hq'
    obtain ⟨q, hq, h2, h3, h4, h5, h6, h7⟩ := hall m q' hq'
    exact ⟨(hself' m q' hq').1, (hself' m q' hq').2, h5, h6, h7⟩
  · intro m q' hq'
    obtain ⟨q, hq, h2, h3, h4, _⟩ := hall m q' hq'
    exact ⟨q, hq, h2, h3, h4⟩

/-- Used propagation with self index 0 from `n`, pod-cache agnostic. -/
theorem propUsed_eqs {s : State} {pth : List Nat} {n : Nat} {d dnp : Int}
    (hc : Chain s pth) (hnd : pth.Nodup) (hh : pth.head? = some n)
    (ht : TreeOK (tree s)) (he : UsedEqs s)
    (hself : ∀ q, get? s n = some q → 0 ≤ q.selfUsed + d ∧ 0 ≤ q.selfNpUsed + dnp) :
    propUsed s pth true d dnp = propUsedW id s pth true d dnp ∧
    UsedEqs (propUsed s pth true d dnp) ∧
    (∀ m q', get? (propUsed s pth true d dnp) m = some q' → ∃ q, get? s m = some q ∧ SameButUsed q q' ∧
      q'.selfUsed = q.selfUsed + (if m = n then d else 0) ∧
      q'.selfNpUsed = q.selfNpUsed + (if m = n then dnp else 0)) := by
  have hfr := propUsed_frame pth s true d dnp hc hnd
  have htree : tree (propUsedW id s pth true d dnp) = tree s :=
    propUsedW_map _ (fun q q' h => by simp [h.name, h.parent]) id pth s true d dnp
  have hall : ∀ m q', get? (propUsedW id s pth true d dnp) m = some q' → ∃ q, get? s m = some q ∧ SameButUsed q q' ∧
      q'.selfUsed = q.selfUsed + (if m = n then d else 0) ∧
      q'.selfNpUsed = q.selfNpUsed + (if m = n then dnp else 0) ∧
      dUsed (propUsedW id s pth true d dnp) m q' = 0 ∧ dNpUsed (propUsedW id s pth true d dnp) m q' = 0 := by
    intro m q' hq'
    cases hq : get? s m with
    | none => rw [(hfr m).1 hq] at hq'; cases hq'
    | some q =>
      obtain ⟨q'', h1, h2, h3, h4, h5, h6⟩ := (hfr m).2 q hq
      rw [h1] at hq'; cases hq'
      obtain ⟨_, _, c, e⟩ := he m q hq
      simp [hh] at h3 h4 h5 h6
      have sw : ∀ x : Int, (if n = m then x else 0) = (if m = n then x else 0) := by
        intro x; by_cases hmn : m = n
        · subst hmn; simp
        · have : ¬ n = m := fun e => hmn e.symm
          simp [hmn, this]
      rw [sw] at h3 h4
      exact ⟨q, rfl, h2, h3, h4, by omega, by omega⟩
  have hself' : ∀ m q', get? (propUsedW id s pth true d dnp) m = some q' → 0 ≤ q'.selfUsed ∧ 0 ≤ q'.selfNpUsed := by
    intro m q' hq'
    obtain ⟨q, hq, h2, h3, h4, _⟩ := hall m q' hq'
    obtain ⟨a1, b1, _⟩ := he m q hq
    by_cases hm : m = n
    · subst hm; simp at h3 h4; have := hself q hq; omega
    · simp [hm] at h3 h4; omega
  have hnn := usedNonneg_of_eqs (htree ▸ ht) (fun m q' hq' => by
    obtain ⟨q, hq, h2, h3, h4, h5, h6⟩ := hall m q' hq'
    exact ⟨(hself' m q' hq').1, (hself' m q' hq').2, h5, h6⟩)
  have heq : propUsed s pth true d dnp = propUsedW id s pth true d dnp :=
    propUsed_noclamp pth s true d dnp hnd (fun m _ q' hq' =>
      ⟨(hnn m q' hq').used, (hnn m q' hq').npUsed, (hnn m q' hq').selfUsed, (hnn m q' hq').selfNpUsed⟩)
  rw [heq]
  refine ⟨rfl, ?_, ?_⟩
  · intro m q' hq'
    obtain ⟨q, hq, h2, h3, h4, h5, h6⟩ := hall m q' hq'
    exact ⟨(hself' m q' hq').1, (hself' m q' hq').2, h5, h6⟩
  · intro m q' hq'
    obtain ⟨q, hq, h2, h3, h4, _⟩ := hall m q' hq'
    exact ⟨q, hq, h2, h3, h4⟩

/-! ### the tree equations determine the figures from the self figures -/

/-- static data + self figures of a group -/
def skey (q : Quota) : Nat × Bool × Int × Option Int × Int × Int × Int × Int :=
  (q.parent, q.lend, q.min, q.max, q.selfRequest, q.selfNpRequest, q.selfUsed, q.selfNpUsed)

theorem sumKids_lockstep' (v : Quota → Int) (m : Nat) : ∀ (l l' : State),
    l'.map (fun q => (q.name, skey q)) = l.map (fun q => (q.name, skey q)) →
    (∀ x ∈ l, ∀ x' ∈ l', x'.name = x.name → x.parent = m → v x' = v x) → sumKids v m l' = sumKids v m l
  | [], [], _, _ => rfl
  | [], _ :: _, h, _ => by simp at h
  | _ :: _, [], h, _ => by simp at h
  | x :: t, x' :: t', h, hv => by
    simp only [List.map_cons, List.cons.injEq] at h
    have ho := h.1
    simp only [skey, Prod.mk.injEq] at ho
    have ih := sumKids_lockstep' v m t t' h.2 (fun y hy y' hy' hn hp =>
      hv y (List.mem_cons_of_mem _ hy) y' (List.mem_cons_of_mem _ hy') hn hp)
    simp only [sumKids, ih, ho.2.1]
    split
    · next hp => rw [hv x (by simp) x' (by simp) ho.1 hp]
    · rfl

/-- Two states with the same groups, static data and self figures that both satisfy the tree equations report the
same figures for every group. -/
theorem eqs_unique {s s' : State} (hkey : s'.map (fun q => (q.name, skey q)) = s.map (fun q => (q.name, skey q)))
    (ht : TreeOK (tree s)) (hr : ReqEqs s) (hu : UsedEqs s) (hr' : ReqEqs s') (hu' : UsedEqs s') :
    ∀ m q q', get? s m = some q → get? s' m = some q' → aggs q' = aggs q := by
  have htree : tree s' = tree s := by
    have := congrArg (List.map (fun (e : Nat × Nat × Bool × Int × Option Int × Int × Int × Int × Int) => (e.1, e.2.1))) hkey
    simpa [List.map_map, Function.comp_def, skey, tree] using this
  have ht' : TreeOK (tree s') := htree ▸ ht
  obtain ⟨hrk, hrank⟩ := ht.ranked
  suffices H : ∀ n, ∀ m q q', hrk m < n → get? s m = some q → get? s' m = some q' → aggs q' = aggs q from
    fun m q q' hq hq' => H (hrk m + 1) m q q' (by omega) hq hq'
  intro n
  induction n with
  | zero => intro m q q' hlt; omega
  | succ n ih =>
    intro m q q' hlt hq hq'
    obtain ⟨q0, hq0, ho⟩ := get?_of_map skey m s' s hkey q hq
    rw [hq'] at hq0; cases hq0
    simp only [skey, Prod.mk.injEq] at ho
    obtain ⟨op, ol, omn, omx, e1, e2, e3, e4⟩ := ho
    have on : q'.name = q.name := by rw [get?_name hq, get?_name hq']
    have hkid : ∀ (v : Quota → Int), (∀ c c', aggs c' = aggs c → c'.max = c.max → v c' = v c) →
        sumKids v m s' = sumKids v m s := by
      intro v hvv
      apply sumKids_lockstep' v m s s' hkey
      intro c hc c' hc' hn hp
      have hk := kid_rank ht hrank hq hc hp
      have hc1 := hk.2
      have hc2 : get? s' c'.name = some c' := mem_get? ht'.nodup hc'
      rw [hn] at hc2
      have hagg := ih c.name c c' (by omega) hc1 hc2
      obtain ⟨c0, hc0, hoc⟩ := get?_of_map skey c.name s' s hkey c hc1
      rw [hc2] at hc0; cases hc0
      simp only [skey, Prod.mk.injEq] at hoc
      exact hvv c c' hagg hoc.2.2.2.1
    have k1 := hkid Quota.limited (fun c c' ha hm => by
      simp only [aggs, Prod.mk.injEq] at ha
      simp [Quota.limited, hm, ha.2.2.1])
    have k2 := hkid (·.npRequest) (fun c c' ha _ => by simp only [aggs, Prod.mk.injEq] at ha; exact ha.2.2.2.1)
    have k3 := hkid (·.used) (fun c c' ha _ => by simp only [aggs, Prod.mk.injEq] at ha; exact ha.1)
    have k4 := hkid (·.npUsed) (fun c c' ha _ => by simp only [aggs, Prod.mk.injEq] at ha; exact ha.2.1)
    obtain ⟨_, _, c1, c2, rule⟩ := hr m q hq
    obtain ⟨_, _, c1', c2', rule'⟩ := hr' m q' hq'
    obtain ⟨_, _, c3, c4⟩ := hu m q hq
    obtain ⟨_, _, c3', c4'⟩ := hu' m q' hq'
    simp only [dCR, dNpReq, dUsed, dNpUsed] at c1 c1' c2 c2' c3 c3' c4 c4'
    rw [k1] at c1'; rw [k2] at c2'; rw [k3] at c3'; rw [k4] at c4'
    have f1 : crOf q' = crOf q := by omega
    have f2 : q'.npRequest = q.npRequest := by omega
    have f3 : q'.used = q.used := by omega
    have f4 : q'.npUsed = q.npUsed := by omega
    have hqn := get?_name hq
    have f5 : q'.request = q.request := by
      by_cases hroot : m = rootName
      · simp only [crOf, on, hqn, hroot, if_true] at f1; exact f1
      · have a := rule hroot; have a' := rule' hroot
        simp only [crOf, on, hqn, hroot, if_false] at f1
        rw [a', a, f1, lendRule_congr ol omn]
    simp only [aggs, Prod.mk.injEq]
    exact ⟨f3, f4, f5, f2, f1, e3, e4, e1, e2⟩

end KoordVerif.C01
