import KoordVerif.Model.C09Strategy
/-
C09 extension 4 — per-node strategy resolution (Model/C09Strategy.lean): helper lemmas.
-/
namespace KoordVerif.C09

theorem fld_mergeV (o n : StratV) (i : Nat) (h : n.length ≤ o.length) :
    fld (mergeV o n) i = match fld n i with | some v => some v | none => fld o i := by
  induction o generalizing n i with
  | nil =>
    cases n with
    | nil => simp [mergeV, fld]
    | cons a as => simp at h
  | cons a as ih =>
    cases n with
    | nil => simp [mergeV, fld]
    | cons b bs =>
      cases i with
      | zero => cases b <;> simp [mergeV, fld]
      | succ j =>
        have := ih bs j (by simpa using h)
        simpa [mergeV, fld] using this

theorem mergeV_length (o n : StratV) (h : n.length ≤ o.length) : (mergeV o n).length = o.length := by
  induction o generalizing n with
  | nil => cases n <;> simp [mergeV]
  | cons a as ih =>
    cases n with
    | nil => simp [mergeV]
    | cons b bs => simp [mergeV, ih bs (by simpa using h)]

/-- a merge never clears a field -/
theorem mergeV_some (o n : StratV) (i : Nat) (h : n.length ≤ o.length) (ho : (fld o i).isSome) :
    (fld (mergeV o n) i).isSome := by
  rw [fld_mergeV o n i h]
  cases fld n i <;> simp [ho]

theorem mergeV_none_right (o n : StratV) (h : n.length ≤ o.length) (hn : ∀ i, fld n i = none) : mergeV o n = o := by
  induction o generalizing n with
  | nil => cases n <;> simp [mergeV]
  | cons a as ih =>
    cases n with
    | nil => simp [mergeV]
    | cons b bs =>
      have hb : b = none := by simpa [fld] using hn 0
      have : ∀ i, fld bs i = none := fun i => by simpa [fld] using hn (i + 1)
      simp [mergeV, hb, ih bs (by simpa using h) this]

theorem firstMatch_mem (pool : Option Int) (l : List (Sel × StratV)) (s : StratV) (h : firstMatch pool l = some s) :
    ∃ sel, (sel, s) ∈ l ∧ sel.matchesPool pool = true := by
  induction l with
  | nil => simp [firstMatch] at h
  | cons e es ih =>
    obtain ⟨sel, t⟩ := e
    unfold firstMatch at h
    by_cases hm : sel.matchesPool pool = true
    · simp [hm] at h; subst h; exact ⟨sel, by simp, hm⟩
    · simp [hm] at h
      obtain ⟨sel', hin, hm'⟩ := ih h
      exact ⟨sel', by simp [hin], hm'⟩

theorem firstMatch_none (pool : Option Int) (l : List (Sel × StratV))
    (h : ∀ e ∈ l, e.1.matchesPool pool = false) : firstMatch pool l = none := by
  induction l with
  | nil => rfl
  | cons e es ih =>
    obtain ⟨sel, t⟩ := e
    have h0 : sel.matchesPool pool = false := h (sel, t) (by simp)
    unfold firstMatch
    simp [h0]
    exact ih (fun e he => h e (by simp [he]))

/-! ### the config state over an event history -/

theorem cfgStep_other_cache (st : CState) (e : CEvent) (k : Nat) (h : e.concerns k = false) :
    (cfgStep st e).1.cache = st.cache ∧ (cfgStep st e).1.metas k = st.metas k := by
  cases e with
  | cm d => simp [CEvent.concerns] at h
  | nodeMeta j m =>
    have hj : ¬ k = j := by intro hk; simp [CEvent.concerns, hk] at h
    simp [cfgStep, hj]
  | reconcile j => simp [cfgStep]

/-- two config states that agree on the cache and on node k's metadata log the same strategies for k -/
theorem stratLog_congr (k : Nat) (es : List CEvent) (s t : CState) (hc : s.cache = t.cache) (hm : s.metas k = t.metas k) :
    stratLog k s es = stratLog k t es := by
  induction es generalizing s t with
  | nil => rfl
  | cons e es ih =>
    cases e with
    | cm d =>
      simp only [stratLog, cfgStep]
      exact ih _ _ (by simp [hc]) hm
    | nodeMeta j m =>
      simp only [stratLog, cfgStep]
      refine ih _ _ hc ?_
      by_cases hj : k = j <;> simp [hj, hm]
    | reconcile j =>
      simp only [stratLog, cfgStep]
      by_cases hj : j = k
      · subst hj; simp [hc, hm]; exact ih _ _ hc hm
      · simp [hj]; exact ih _ _ hc hm

theorem stratLog_filter (k : Nat) (es : List CEvent) (st : CState) :
    stratLog k st es = stratLog k st (es.filter (fun e => e.concerns k)) := by
  induction es generalizing st with
  | nil => rfl
  | cons e es ih =>
    by_cases hc : e.concerns k = true
    · rw [List.filter_cons_of_pos hc]
      cases e with
      | cm d => simp only [stratLog, cfgStep]; exact ih _
      | nodeMeta j m => simp only [stratLog, cfgStep]; exact ih _
      | reconcile j =>
        simp only [stratLog, cfgStep]
        by_cases hj : j = k
        · simp [hj]; exact ih _
        · simp [hj]; exact ih _
    · have hc' : e.concerns k = false := by simpa using hc
      rw [List.filter_cons_of_neg (by simpa using hc')]
      obtain ⟨h1, h2⟩ := cfgStep_other_cache st e k hc'
      have hout : ∀ j en s, (cfgStep st e).2 = some (j, en, s) → j ≠ k := by
        intro j en s hs
        cases e with
        | cm d => simp [cfgStep] at hs
        | nodeMeta j' m => simp [cfgStep] at hs
        | reconcile j' =>
          simp [cfgStep] at hs
          intro hk
          simp [CEvent.concerns, hs.1, hk] at hc'
      have : stratLog k st (e :: es) = stratLog k (cfgStep st e).1 es := by
        simp only [stratLog]
        rcases hx : (cfgStep st e).2 with _ | ⟨j, en, s⟩
        · rfl
        · have := hout j en s hx
          simp [this]
      rw [this, ← ih st]
      exact stratLog_congr k es _ _ h1 h2

end KoordVerif.C09
