import KoordVerif.Proofs.C01Unique
/-
C01: the rebuild keeps the objects; zero-delta propagations are the identity (dimension-wise decomposition).
-/
namespace KoordVerif.C01

theorem obj_clF (q : Quota) : obj (clF q) = obj q := by unfold clF; split <;> rfl

theorem resetAll_obj (s : State) : (resetAll s).map obj = s.map obj := by
  rw [resetAll_eq]
  have hfold : ∀ (todo : List Quota) (st : State), (todo.foldl reAdd st).map obj = st.map obj := by
    intro todo
    induction todo with
    | nil => intro st; rfl
    | cons q t ih =>
      intro st
      simp only [List.foldl_cons]
      rw [ih, reAdd_eq]
      have h1 : ∀ (x : State) n d dnp sf, (deltaUsed x n d dnp sf).map obj = x.map obj := fun x n d dnp sf =>
        propUsedW_map obj (fun q q' h => by simp [obj, h.name, h.parent, h.isParent, h.lend, h.max, h.min, h.pods]) clamp0 _ x sf d dnp
      have h2 : ∀ (x : State) n d dnp sf, (deltaReq x n d dnp sf).map obj = x.map obj := fun x n d dnp sf =>
        propReqW_map obj (fun q q' h => by simp [obj, h.name, h.parent, h.isParent, h.lend, h.max, h.min, h.pods]) clamp0 _ x sf d dnp
      rw [h1, h2]
  rw [hfold, List.map_map]
  apply List.map_congr_left
  intro q _; exact obj_clF q

theorem set_self {s : State} {n : Nat} {q : Quota} (hq : get? s n = some q) : set s q = s := by
  induction s with
  | nil => rfl
  | cons x t ih =>
    simp only [get?] at hq
    have hqn : q.name = n := by
      by_cases hx : x.name = n
      · simp only [hx, if_true, Option.some.injEq] at hq; rw [← hq]; exact hx
      · simp only [hx, if_false] at hq; exact get?_name hq
    by_cases hx : x.name = n
    · simp only [hx, if_true, Option.some.injEq] at hq
      subst hq; simp [set]
    · simp only [hx, if_false] at hq
      have : ¬ x.name = q.name := by rw [hqn]; exact hx
      simp only [set, this, if_false, ih hq]

/-- A propagation of (0, 0) changes nothing when the figures on the path are non-negative and
`request = lendRule childRequest` holds there.  This is the only difference between the per-dimension model
(short-cuts `IsZero(delta)` / `Equals(max, …)` evaluated per dimension) and the multi-dimension Go code. -/
theorem propReq_zero_id : ∀ (pth : List Nat) (s : State) (self : Bool),
    (∀ m ∈ pth, ∀ q, get? s m = some q → 0 ≤ q.request ∧ 0 ≤ q.npRequest ∧ 0 ≤ q.childRequest ∧ 0 ≤ q.selfRequest ∧
      0 ≤ q.selfNpRequest ∧ (m ≠ rootName → q.request = lendRule q q.childRequest)) →
    propReq s pth self 0 0 = s
  | [], _, _, _ => rfl
  | g :: rest, s, self, h => by
    unfold propReq
    simp only [propReqW]
    cases hq : get? s g with
    | none => rfl
    | some q =>
      obtain ⟨n1, n2, n3, n4, n5, hrule⟩ := h g (by simp) q hq
      simp only
      split
      · have : addReq clamp0 q 0 0 self = q := by
          cases self <;> simp [addReq, clamp0_of_nonneg, *]
        rw [this, set_self hq]
      · next hroot =>
        have hr := hrule hroot
        have : reqNode clamp0 q 0 0 self = q := by
          cases self <;> simp [reqNode, addReq, clamp0_of_nonneg, lendRule, *] <;>
            (simp only [lendRule] at hr; rw [← hr])
        rw [this, set_self hq]
        have hz : q.limited - q.limited = 0 := by omega
        rw [hz]
        exact propReq_zero_id rest s false (fun m hm => h m (List.mem_cons_of_mem _ hm))

theorem propUsed_zero_id : ∀ (pth : List Nat) (s : State) (self : Bool),
    (∀ m ∈ pth, ∀ q, get? s m = some q → 0 ≤ q.used ∧ 0 ≤ q.npUsed ∧ 0 ≤ q.selfUsed ∧ 0 ≤ q.selfNpUsed) →
    propUsed s pth self 0 0 = s
  | [], _, _, _ => rfl
  | g :: rest, s, self, h => by
    unfold propUsed
    simp only [propUsedW]
    cases hq : get? s g with
    | none => rfl
    | some q =>
      obtain ⟨n1, n2, n3, n4⟩ := h g (by simp) q hq
      have : addUsed clamp0 q 0 0 self = q := by
        cases self <;> simp [addUsed, clamp0_of_nonneg, *]
      simp only [this, set_self hq]
      exact propUsed_zero_id rest s false (fun m hm => h m (List.mem_cons_of_mem _ hm))

end KoordVerif.C01
