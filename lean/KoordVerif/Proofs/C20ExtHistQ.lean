import KoordVerif.Model.C20HistQ
import KoordVerif.Proofs.C20ExtHist
/-
C20 extension — the delivery invariants for ARBITRARY interleavings of API changes/events and reconciles
(Model/C20HistQ.lean): every name that is not pending in the work queue is delivered correctly.
-/
namespace KoordVerif.C20

/-- every name that is not queued is correct (and before the first availability check there are no unqueued nodes). -/
def InvQ (x : QWorld) : Prop :=
  ∀ m, m ∉ x.q → Correct x.w.cfg x.w.nodes x.w.slos m ∧ (x.w.avail = false → lookupA x.w.nodes m = none)

theorem invQ_quiescent (x : QWorld) (h : InvQ x) (hq : x.q = []) : Inv x.w := by
  intro m; exact h m (by simp [hq])

theorem qcmSync_frame (d : Defaults) (parse : Ident → CM) (x : QWorld) (i : Ident) :
    (qcmSync d parse x i).w.cfg = sync d x.w.cfg (some (parse i)) ∧ (qcmSync d parse x i).w.avail = true ∧
    (qcmSync d parse x i).w.cm = x.w.cm ∧ (qcmSync d parse x i).w.nodes = x.w.nodes ∧
    (qcmSync d parse x i).w.slos = x.w.slos := by
  simp [qcmSync, syncIfChanged]

theorem qcmSync_inv (d : Defaults) (parse : Ident → CM) (x : QWorld) (i : Ident) (h : InvQ x) :
    InvQ (qcmSync d parse x i) := by
  have hf := qcmSync_frame d parse x i
  intro m hm
  refine ⟨?_, by simp [hf.2.1]⟩
  rw [hf.1, hf.2.2.2.1, hf.2.2.2.2]
  by_cases hch : sync d x.w.cfg (some (parse i)) ≠ x.w.cfg
  · have hdec : decide (sync d x.w.cfg (some (parse i)) ≠ x.w.cfg) = true := decide_eq_true hch
    have hq : (qcmSync d parse x i).q = x.q ++ x.w.nodes.map (·.1) := by
      simp only [qcmSync, syncIfChanged, hdec, if_true]
    rw [hq] at hm
    simp only [List.mem_append, not_or] at hm
    have h1 := (h m hm.1).1
    have h2 := lookupA_none_of_not_mem x.w.nodes m hm.2
    unfold Correct at *
    rw [h1, h2]; rfl
  · have heq : sync d x.w.cfg (some (parse i)) = x.w.cfg := by simpa using hch
    have hq : (qcmSync d parse x i).q = x.q := by
      simp [qcmSync, syncIfChanged, heq]
    rw [hq] at hm
    rw [heq]
    exact (h m hm).1

theorem qcmEv_frame (d : Defaults) (parse : Ident → CM) (x : QWorld) :
    (qcmEv d parse x).w.nodes = x.w.nodes ∧ (qcmEv d parse x).w.slos = x.w.slos := by
  unfold qcmEv
  split
  · exact ⟨(qcmSync_frame d parse x _).2.2.2.1, (qcmSync_frame d parse x _).2.2.2.2⟩
  · exact ⟨rfl, rfl⟩

theorem invQ_of_node_change (x : QWorld) (n : Nat) (nodes' : List (Nat × Labels))
    (hn : ∀ m, m ≠ n → lookupA nodes' m = lookupA x.w.nodes m) (h : InvQ x) :
    InvQ { w := { x.w with nodes := nodes' }, q := x.q ++ [n] } := by
  intro m hm
  simp only [List.mem_append, List.mem_singleton, not_or] at hm
  have := h m hm.1
  unfold Correct at *
  simp only
  rw [hn m hm.2]; exact this

theorem qevent_inv (d : Defaults) (parse : Ident → CM) (x : QWorld) (s : HStep) (h : InvQ x) :
    InvQ (qevent d parse x s) := by
  cases s with
  | cmCreate i => exact qcmSync_inv d parse _ i h
  | cmUpdate i =>
    simp only [qevent]
    split
    · exact h
    · exact qcmSync_inv d parse _ i h
  | cmDelete => exact h
  | cmForeign => exact h
  | nodeAdd n ls =>
    apply invQ_of_node_change x n _ _ h
    intro m hmn; simp [lookupA_setA, hmn]
  | nodeUpdate n ls =>
    simp only [qevent]
    split
    · exact h
    · next old hold =>
      by_cases heq : old = ls
      · simp only [heq, if_true]
        intro m hm
        have := h m hm
        unfold Correct at *
        simp only
        have hl : lookupA (setA x.w.nodes n ls) m = lookupA x.w.nodes m := by
          simp only [lookupA_setA]
          by_cases hmn : m = n
          · subst hmn; simp [hold, heq]
          · simp [hmn]
        rw [hl]; exact this
      · simp only [heq, if_false]
        apply invQ_of_node_change x n _ _ h
        intro m hmn; simp [lookupA_setA, hmn]
  | nodeDelete n =>
    apply invQ_of_node_change x n _ _ h
    intro m hmn; simp [lookupA_delA, hmn]
  | restart f =>
    simp only [qevent]
    intro m hm
    simp only [List.mem_append, not_or] at hm
    have hn := lookupA_none_of_not_mem x.w.nodes m hm.2.1
    have hs := lookupA_none_of_not_mem x.w.slos m hm.2.2
    have hf := qcmEv_frame d parse { w := { x.w with cfg := Cfg.default d, avail := false }, q := [] }
    unfold Correct
    simp only
    rw [hf.1, hf.2]
    simp only
    rw [hn, hs]; exact ⟨rfl, fun _ => rfl⟩

theorem qrec_inv (d : Defaults) (parse : Ident → CM) (x : QWorld) (n : Nat) (h : InvQ x) :
    InvQ (qstep d parse x (.reco n)) := by
  simp only [qstep]
  intro m hm
  have hf := reconcile_frame d parse x.w n
  refine ⟨?_, by simp [hf.2.1]⟩
  simp only
  by_cases hmn : m = n
  · subst hmn
    rw [hf.2.2.2]
    exact reconcile_correct d parse x.w m
  · have hmq : m ∉ x.q := by
      intro hin
      apply hm
      simp [List.mem_filter, hin, hmn]
    have hm' := h m hmq
    unfold Correct at *
    rw [reconcile_other d parse x.w n m hmn, hf.2.2.2, hm'.1]
    by_cases ha : x.w.avail = true
    · rw [hf.1, ensure_of_avail d parse x.w ha]
    · have : lookupA x.w.nodes m = none := hm'.2 (by simpa using ha)
      simp [this]

theorem qrecFail_inv (d : Defaults) (parse : Ident → CM) (x : QWorld) (n : Nat) (h : InvQ x) :
    InvQ (qstep d parse x (.recoFail n)) := by
  simp only [qstep]
  intro m hm
  simp only [List.mem_append, List.mem_singleton, not_or] at hm
  have he := ensure_frame d parse x.w
  refine ⟨?_, by simp [he.1]⟩
  have hm' := h m hm.1
  unfold Correct at *
  simp only
  rw [he.2.2.1, he.2.2.2, hm'.1]
  by_cases ha : x.w.avail = true
  · rw [ensure_of_avail d parse x.w ha]
  · have : lookupA x.w.nodes m = none := hm'.2 (by simpa using ha)
    simp [this]

theorem qstep_inv (d : Defaults) (parse : Ident → CM) (x : QWorld) (s : QStep) (h : InvQ x) :
    InvQ (qstep d parse x s) := by
  cases s with
  | ev s => exact qevent_inv d parse x s h
  | reco n => exact qrec_inv d parse x n h
  | recoFail n => exact qrecFail_inv d parse x n h

theorem qrun_inv (d : Defaults) (parse : Ident → CM) (ss : List QStep) : ∀ (x : QWorld), InvQ x → InvQ (qrun d parse x ss) := by
  induction ss with
  | nil => intro x h; exact h
  | cons s ss ih => intro x h; exact ih _ (qstep_inv d parse x s h)

theorem qinit_inv (d : Defaults) : InvQ (QWorld.init d) := by
  intro m _; exact init_inv d m

/-! ### the cache tracks the latest data, for arbitrary interleavings -/

theorem qcmSync_cinv (d : Defaults) (parse : Ident → CM) (x : QWorld) (i : Ident) (hcm : x.w.cm = some i) :
    CInv d parse (qcmSync d parse x i).w := by
  have hf := qcmSync_frame d parse x i
  intro _ j hj
  rw [hf.2.2.1, hcm] at hj
  cases hj
  rw [hf.1]
  exact sync_tracks d x.w.cfg (parse i)

theorem qcmEv_cinv (d : Defaults) (parse : Ident → CM) (x : QWorld) (h : CInv d parse x.w) :
    CInv d parse (qcmEv d parse x).w := by
  unfold qcmEv
  split
  · next i hi => exact qcmSync_cinv d parse x i hi
  · exact h

theorem qstep_cinv (d : Defaults) (parse : Ident → CM) (x : QWorld) (s : QStep) (h : CInv d parse x.w) :
    CInv d parse (qstep d parse x s).w := by
  cases s with
  | reco n =>
    simp only [qstep]
    exact drain_cinv d parse [n] x.w h
  | recoFail n =>
    simp only [qstep]
    exact ensure_cinv d parse x.w h
  | ev s =>
    cases s with
    | cmCreate i => exact qcmSync_cinv d parse _ i rfl
    | cmUpdate i =>
      simp only [qstep, qevent]
      split
      · exact h
      · exact qcmSync_cinv d parse _ i rfl
    | cmDelete => intro _ i hi; simp [qstep, qevent] at hi
    | cmForeign => exact h
    | nodeAdd n ls => exact h
    | nodeUpdate n ls =>
      simp only [qstep, qevent]
      split
      · exact h
      · exact h
    | nodeDelete n => exact h
    | restart f =>
      simp only [qstep, qevent]
      apply qcmEv_cinv
      intro ha; simp at ha

theorem qrun_cinv (d : Defaults) (parse : Ident → CM) (ss : List QStep) : ∀ (x : QWorld),
    CInv d parse x.w → CInv d parse (qrun d parse x ss).w := by
  induction ss with
  | nil => intro x h; exact h
  | cons s ss ih => intro x h; exact ih _ (qstep_cinv d parse x s h)

end KoordVerif.C20
