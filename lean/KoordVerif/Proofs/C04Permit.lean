import KoordVerif.Proofs.C04Inv
/-
C04 helper lemmas for Permit / Unreserve / AfterPostFilter: lookups after an update, the waiting-map
filters, and the two possible results of Permit.
-/
namespace KoordVerif.C04

theorem findGang_updGang (gs : List Gang) (id h : GangId) (f : Gang → Gang) (hf : ∀ g, (f g).id = g.id) :
    findGang (updGang gs id f) h = (findGang gs h).map (fun g => if g.id == id then f g else g) := by
  unfold findGang updGang
  induction gs with
  | nil => rfl
  | cons a t ih =>
    simp only [List.map_cons, List.find?_cons]
    have e : ((if a.id == id then f a else a).id == h) = (a.id == h) := by
      split <;> simp [hf]
    rw [e]
    split
    · rfl
    · exact ih

theorem allValid_congr {s t : State} (h1 : s.gangs = t.gangs) (h2 : s.infos = t.infos) (grp : List GangId) :
    allValid s grp = allValid t grp := by
  unfold allValid validForPermit infoSat
  rw [h1, h2]

theorem mem_fwHit {s : State} {grp : List GangId} {q : Pod} :
    q ∈ fwHit s grp ↔ ∃ h, (q, h) ∈ s.fw ∧ h ∈ grp := by
  unfold fwHit inGroup
  simp only [List.mem_map, List.mem_filter, decide_eq_true_eq]
  constructor
  · rintro ⟨⟨q', h⟩, ⟨hm, hg⟩, rfl⟩
    exact ⟨h, hm, hg⟩
  · rintro ⟨h, hm, hg⟩
    exact ⟨(q, h), ⟨hm, hg⟩, rfl⟩

theorem mem_fwDrop {s : State} {grp : List GangId} {e : Pod × GangId} :
    e ∈ (fwDrop s grp).fw ↔ e ∈ s.fw ∧ e.2 ∉ grp := by
  unfold fwDrop inGroup
  simp [List.mem_filter]

/-- the state after `gang.addAssumedPod(pod)` -/
def assumed (s : State) (p : Pod) (id : GangId) : State :=
  { s with gangs := updGang s.gangs id (fun g => g.addAssumed p) }

/-- the framework parks the pod in its waiting map -/
def parked (s : State) (p : Pod) (id : GangId) : State :=
  { s with fw := (p, id) :: s.fw.filter (fun e => e.1 != p) }

/-- Permit, gang in the cache: what the call returns and the state it leaves. -/
theorem permit_spec (s : State) (p : Pod) (id : GangId) (g : Gang) (hg : findGang s.gangs id = some g) :
    (allValid (assumed s p id) g.group = true →
        permit s p id = (fwDrop (assumed s p id) g.group, { verdict := 0, allowed := fwHit (assumed s p id) g.group })) ∧
    (allValid (assumed s p id) g.group = false →
        permit s p id = (parked (assumed s p id) p id, { verdict := 1 })) := by
  unfold permit assumed parked
  rw [hg]
  simp only
  constructor
  · intro h; rw [if_pos h]
  · intro h; rw [if_neg (by rw [h]; decide)]

theorem findGang_assumed (s : State) (p : Pod) (id : GangId) (g : Gang) (hg : findGang s.gangs id = some g) :
    findGang (assumed s p id).gangs id = some (g.addAssumed p) := by
  have hid : g.id = id := (mem_of_findGang hg).2
  unfold assumed
  simp only
  rw [findGang_updGang s.gangs id id (fun g => g.addAssumed p) (fun _ => rfl), hg]
  simp [hid]

theorem infoSat_congr {s t : State} (h : s.infos = t.infos) (oid : Nat) : infoSat s oid = infoSat t oid := by
  unfold infoSat
  rw [h]

/-- the state after `gang.delAssumedPod(pod)` of Unreserve (the framework removed the pod from its map before) -/
def unassumed (s : State) (p : Pod) (id : GangId) : State :=
  { fwRemove s p with gangs := updGang s.gangs id (fun g => g.delAssumed p) }

theorem findGang_unassumed (s : State) (p : Pod) (id : GangId) (g : Gang) (hg : findGang s.gangs id = some g) :
    findGang (unassumed s p id).gangs id = some (g.delAssumed p) := by
  have hid : g.id = id := (mem_of_findGang hg).2
  unfold unassumed
  simp only
  rw [findGang_updGang s.gangs id id (fun g => g.delAssumed p) (fun _ => rfl), hg]
  simp [hid]

theorem delAssumed_group (g : Gang) (p : Pod) : (g.delAssumed p).group = g.group := rfl

/-- Unreserve, gang in the cache: the two possible results. -/
theorem unreserve_spec (s : State) (p : Pod) (id : GangId) (g : Gang) (hg : findGang s.gangs id = some g) :
    ((exempt s g = false ∧ g.strict = true) →
        unreserve s p id = (fwDrop (unassumed s p id) g.group, { rejected := fwHit (unassumed s p id) g.group })) ∧
    (¬ (exempt s g = false ∧ g.strict = true) → unreserve s p id = (unassumed s p id, {})) := by
  have hg0 : findGang (fwRemove s p).gangs id = some g := hg
  have hex : exempt (unassumed s p id) g = exempt s g := by
    unfold exempt
    rw [infoSat_congr (s := unassumed s p id) (t := s) rfl]
  have hr : rejectGroup (unassumed s p id) id
      = (fwDrop (unassumed s p id) g.group, fwHit (unassumed s p id) g.group) := by
    unfold rejectGroup
    rw [findGang_unassumed s p id g hg]
    rfl
  constructor
  · rintro ⟨h1, h2⟩
    unfold unreserve
    simp only
    rw [hg0]
    simp only
    change (if (!(exempt (unassumed s p id) g) && g.strict) = true then _ else _) = _
    rw [hex, h1, h2]
    simp only [Bool.not_false, Bool.and_self, if_true]
    change ((rejectGroup (unassumed s p id) id).1, ({ rejected := (rejectGroup (unassumed s p id) id).2 } : Out)) = _
    rw [hr]
  · intro h
    unfold unreserve
    simp only
    rw [hg0]
    simp only
    change (if (!(exempt (unassumed s p id) g) && g.strict) = true then _ else _) = _
    rw [hex]
    have : (!(exempt s g) && g.strict) = false := by
      cases h1 : exempt s g <;> cases h2 : g.strict <;> simp_all
    rw [this]
    rfl

/-- AfterPostFilter, gang in the cache: the two possible results. -/
theorem postFilter_spec (s : State) (id : GangId) (g : Gang) (hg : findGang s.gangs id = some g) :
    ((exempt s g = false ∧ g.strict = true) →
        postFilter s id = (fwDrop s g.group, { rejected := fwHit s g.group })) ∧
    (¬ (exempt s g = false ∧ g.strict = true) → postFilter s id = (s, {})) := by
  have hr : rejectGroup s id = (fwDrop s g.group, fwHit s g.group) := by
    unfold rejectGroup
    rw [hg]
  constructor
  · rintro ⟨h1, h2⟩
    unfold postFilter
    rw [hg]
    simp only
    rw [h1, h2]
    simp only [Bool.false_eq_true, if_false, if_true]
    rw [hr]
  · intro h
    unfold postFilter
    rw [hg]
    simp only
    cases h1 : exempt s g
    · cases h2 : g.strict
      · simp
      · exact absurd ⟨h1, h2⟩ h
    · simp

end KoordVerif.C04
