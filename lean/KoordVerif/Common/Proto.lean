/-
Line protocol shared by every model driver (DESIGN.md Appendix B).
Core-only: this file is linked into the `drv_*` executables.

ops.txt is a sequence of cases:   `case <idx>` followed by operation lines.
The driver echoes `case <idx>` and then whatever `runCase` returns for the operation lines.
A line the model does not understand must yield `bad-op` (never a default).
-/
namespace KoordVerif.Proto

def toks (line : String) : List String :=
  (line.splitOn " ").filter (fun s => s ≠ "")

def int? (s : String) : Option Int := s.toInt?

def nat? (s : String) : Option Nat := s.toNat?

def ints? (ts : List String) : Option (List Int) := ts.mapM String.toInt?

def nats? (ts : List String) : Option (List Nat) := ts.mapM String.toNat?

def showInts (xs : List Int) : String := " ".intercalate (xs.map toString)

def showNats (xs : List Nat) : String := " ".intercalate (xs.map toString)

def b2i (b : Bool) : Int := if b then 1 else 0

/-- chunk `xs` into groups of `n` (drops an incomplete tail). -/
def chunks {α} (n : Nat) (xs : List α) : List (List α) :=
  if n = 0 then [] else
  let rec go (fuel : Nat) (xs : List α) (acc : List (List α)) : List (List α) :=
    match fuel with
    | 0 => acc.reverse
    | fuel+1 =>
      if xs.length < n then acc.reverse else go fuel (xs.drop n) (xs.take n :: acc)
  go xs.length xs []

private def stripNl (s : String) : String :=
  let s := if s.endsWith "\n" then (s.dropEnd 1).toString else s
  if s.endsWith "\r" then (s.dropEnd 1).toString else s

partial def readLines (h : IO.FS.Stream) (acc : Array String) : IO (Array String) := do
  let line ← h.getLine
  if line.isEmpty then return acc
  readLines h (acc.push (stripNl line))

/-- Generic driver: group stdin by `case` lines, run the model on each group. -/
def mainWith (runCase : List String → List String) : IO Unit := do
  let stdin ← IO.getStdin
  let stdout ← IO.getStdout
  let lines ← readLines stdin #[]
  let mut cur : Array String := #[]
  let mut started := false
  let flush := fun (cur : Array String) => do
    for o in runCase cur.toList do
      stdout.putStrLn o
  for l in lines do
    if l.startsWith "case " then
      if started then flush cur
      stdout.putStrLn l
      cur := #[]
      started := true
    else
      cur := cur.push l
  if started then flush cur
  stdout.flush

end KoordVerif.Proto
