#!/bin/sh
# Offline build of the framework: extractor, generated facts, Lean library + drivers, and a
# warm-up build of every Go harness so that later checks only pay incremental cost.
set -e
cd "$(dirname "$0")"
mkdir -p build evidence replays
python3 - <<'PY'
import sys, os, subprocess
sys.path.insert(0, os.getcwd())
import check
from propdefs import PROPS
READY = set(open('props/READY').read().split())
PROPS = {k: v for k, v in PROPS.items() if k in READY}
for pid, cfg in PROPS.items():
    if cfg.get("facts"):
        ok, msg = check.regenerate_facts(pid, [])
        print("facts", pid, ok)
PY
(cd lean && lake build KoordVerif 2>&1 | tail -3)
python3 - <<'PY'
import sys, os, subprocess
sys.path.insert(0, os.getcwd())
import check
from propdefs import PROPS
READY = set(open('props/READY').read().split())
PROPS = {k: v for k, v in PROPS.items() if k in READY}
from concurrent.futures import ThreadPoolExecutor
targets = []
for pid, cfg in PROPS.items():
    targets.append(cfg.get("driver", "drv_" + pid.lower()))
    targets.append("KoordVerif.Props." + pid)
    if os.path.exists(os.path.join(check.LEAN, "KoordVerif", "Ties", pid + ".lean")):
        targets.append("KoordVerif.Ties." + pid)
rc = subprocess.call(["lake", "build"] + targets, cwd=check.LEAN)
print("lake build rc", rc)
def warm(pid):
    bins, err = check.build_harness(pid, PROPS[pid], [])
    check.cleanup(pid)
    return pid, err
with ThreadPoolExecutor(4) as ex:
    for pid, err in ex.map(warm, list(PROPS)):
        print("harness", pid, "ok" if err is None else err[-500:])
PY
echo setup done
