#!/usr/bin/env python3
"""
seed_eval.py <src_dir> <seed_id> [--check Cxx]

Confirms a seeded change (patch.diff + demo_test.go + meta.json in <src_dir>) in a scratch
worktree of /repo (never in /repo itself):
  1. demo passes on the unchanged tree, 2. patch applies, code builds, the touched packages'
  existing tests pass, 3. demo fails with the patch, 4. runs ./check.py <property> against
  the patched worktree (VERIF_REPO) and records whether it reports a VIOLATION and how.
Keeps the change as /verif/seeded/<seed_id>/ (patch.diff, demo_test.go, meta.json).
"""
import sys, os, json, subprocess, shutil, re, time

VERIF = os.path.dirname(os.path.abspath(__file__))
STUB = os.path.join(VERIF, "harness", "stubs", "perf_group_linux.go")


def sh(cmd, cwd=None, env=None, timeout=3600):
    p = subprocess.run(cmd, cwd=cwd, env=env, shell=isinstance(cmd, str), stdout=subprocess.PIPE,
                       stderr=subprocess.STDOUT, text=True, errors="replace", timeout=timeout)
    return p.returncode, p.stdout


def goenv():
    e = dict(os.environ)
    e["GOFLAGS"] = "-mod=mod"
    e["GOPROXY"] = "off"
    e.pop("GOTOOLCHAIN", None)
    e.pop("GOSUMDB", None)
    return e


def main():
    src, sid = sys.argv[1], sys.argv[2]
    meta = json.load(open(os.path.join(src, "meta.json")))
    meta.pop("confirmed_by_main_agent", None)
    pid = meta["property"]
    if "--check" in sys.argv:
        pid = sys.argv[sys.argv.index("--check") + 1]
    wt = f"/var/tmp/seedwt-{sid}"
    sh(["git", "-C", "/repo", "worktree", "remove", "--force", wt])
    rc, out = sh(["git", "-C", "/repo", "worktree", "add", "--detach", wt, "HEAD"])
    assert rc == 0, out
    res = {"seed_id": sid, "property": pid, "evaluated_at_repo_head":
           sh(["git", "-C", "/repo", "log", "-1", "--format=%h"])[1].strip()}
    try:
        ov = os.path.join(wt, ".verif_overlay.json")
        json.dump({"Replace": {os.path.join(wt, "pkg/koordlet/util/perf_group/perf_group_linux.go"): STUB}}, open(ov, "w"))
        demo = open(os.path.join(src, "demo_test.go")).read()
        m = re.match(r"\s*//\s*(\S+_test\.go)", demo)
        assert m, "first line of demo_test.go must be a comment with the repo-relative path"
        demo_rel = m.group(1)
        demo_pkg = "./" + os.path.dirname(demo_rel)
        demo_path = os.path.join(wt, demo_rel)
        shutil.copy(os.path.join(src, "demo_test.go"), demo_path)
        tests = re.findall(r"^func (Test\w+)\(", demo, flags=re.M)
        run = "^(" + "|".join(tests) + ")$"
        demo_cmd = ["go", "test", "-vet=off", "-count=1", "-overlay", ov, "-run", run, demo_pkg]
        rc0, out0 = sh(demo_cmd, cwd=wt, env=goenv())
        res["demo_passes_without_change"] = rc0 == 0
        # apply
        rc, out = sh(["git", "apply", os.path.join(os.path.abspath(src), "patch.diff")], cwd=wt)
        res["patch_applies"] = rc == 0
        if rc != 0:
            res["apply_error"] = out[-500:]
            return res
        touched = sorted({"./" + os.path.dirname(l[6:]) for l in open(os.path.join(src, "patch.diff")) if l.startswith("+++ b/")})
        res["touched_packages"] = touched
        os.remove(demo_path)
        rc, out = sh(["go", "test", "-vet=off", "-count=1", "-overlay", ov] + touched, cwd=wt, env=goenv())
        res["existing_tests_pass_with_change"] = rc == 0
        if rc != 0:
            res["existing_tests_tail"] = out[-1500:]
        shutil.copy(os.path.join(src, "demo_test.go"), demo_path)
        rc1, out1 = sh(demo_cmd, cwd=wt, env=goenv())
        res["demo_fails_with_change"] = rc1 != 0
        res["demo_output_tail"] = out1[-600:]
        os.remove(demo_path)
        # our check
        e = dict(os.environ)
        e["VERIF_REPO"] = wt
        t = time.time()
        rc, out = sh([os.path.join(VERIF, "check.py"), pid], cwd=VERIF, env=e)
        res["check_rc"] = rc
        res["check_wall_s"] = round(time.time() - t, 1)
        res["check_lines"] = [l for l in out.split("\n") if l.startswith("VIOLATION") or l.startswith("KNOWN-FINDING") or l.startswith(pid + " tier")]
        res["detected"] = rc == 1 and any(l.startswith("VIOLATION") for l in res["check_lines"])
        res["detected_with_failing_input"] = res["detected"] and any(
            l.startswith("VIOLATION") and "no-failing-input-found" not in l for l in res["check_lines"])
        # keep replays of this evaluation next to the seed
        rp = os.path.join(VERIF, "build", "mut", "replays", pid)
        dst = os.path.join(VERIF, "seeded", sid)
        os.makedirs(dst, exist_ok=True)
        if os.path.isdir(rp):
            shutil.rmtree(os.path.join(dst, "replays_found"), ignore_errors=True)
            shutil.copytree(rp, os.path.join(dst, "replays_found"))
    finally:
        sh(["git", "-C", "/repo", "worktree", "remove", "--force", wt])
    dst = os.path.join(VERIF, "seeded", sid)
    os.makedirs(dst, exist_ok=True)
    if os.path.abspath(src) != os.path.abspath(dst):
        shutil.copy(os.path.join(src, "patch.diff"), dst)
        shutil.copy(os.path.join(src, "demo_test.go"), dst)
    meta["confirmed_by_main_agent"] = res
    json.dump(meta, open(os.path.join(dst, "meta.json"), "w"), indent=1)
    return res


if __name__ == "__main__":
    r = main()
    print(json.dumps({k: v for k, v in r.items() if k not in ("demo_output_tail",)}, indent=1))
