#!/usr/bin/env python3
"""
check.py <Cxx> [--tier quick|thorough] [--replay <file>]        (DESIGN.md §1.1)

One run = regenerate facts from /repo -> re-check Lean proofs + ties + axiom audit ->
rebuild the in-package Go harness from /repo's current working tree (go test -overlay,
nothing is written under /repo) -> run it (implementation observations + property
oracle) -> run the Lean model driver on the same operations -> diff -> triage ->
evidence/<Cxx>.json.  Exit 0 = held on everything explored; exit 1 + VIOLATION line.
"""
import sys, os, json, subprocess, time, re, shutil, hashlib, glob

VERIF = os.path.dirname(os.path.abspath(__file__))
REPO = os.environ.get("VERIF_REPO", "/repo")
# Evidence and replays of a run against a scratch worktree (VERIF_REPO, mutation testing only) are kept
# apart, so that evidence/ and replays/ always come from a run against /repo itself.
MUT = os.path.realpath(REPO) != "/repo"
LEAN = os.path.join(VERIF, "lean")
BUILD = os.path.join(VERIF, "build")
REPLAYS = os.path.join(BUILD, "mut", "replays") if MUT else os.path.join(VERIF, "replays")
sys.path.insert(0, VERIF)
from propdefs import PROPS  # noqa: E402

ALLOWED_AXIOMS = {"propext", "Classical.choice", "Quot.sound"}
FORBIDDEN = re.compile(r"\b(sorry|admit|native_decide|bv_decide|implemented_by|unsafe)\b|^\s*axiom\s|maxHeartbeats\s+0")
MODULE = "github.com/koordinator-sh/koordinator"
RUNTAG = str(os.getpid())  # build artefacts are per process, so concurrent runs never share files


def goenv():
    e = dict(os.environ)
    e["GOFLAGS"] = "-mod=mod"
    e["GOPROXY"] = "off"
    e.pop("GOSUMDB", None)
    e.pop("GOTOOLCHAIN", None)
    e.setdefault("GOCACHE", "/root/.cache/go-build")
    return e


def run(cmd, cwd=None, env=None, timeout=None, stdin=None, stdout=subprocess.PIPE):
    t = time.time()
    try:
        p = subprocess.run(cmd, cwd=cwd, env=env, timeout=timeout, stdin=stdin, stdout=stdout,
                           stderr=subprocess.STDOUT, text=True, errors="replace")
        return p.returncode, (p.stdout or ""), time.time() - t
    except subprocess.TimeoutExpired as ex:
        out = ex.stdout.decode(errors="replace") if isinstance(ex.stdout, bytes) else (ex.stdout or "")
        return 124, out + "\n[timeout]", time.time() - t


# ------------------------------------------------------------------ facts

def build_extractor(pid, log):
    """one extractor binary per property: common files + that property's facts file only, so that a
    half-written facts file of another property cannot break this check."""
    exe = os.path.join(BUILD, "extract_" + pid)
    src = os.path.join(VERIF, "harness", "extract")
    files = ["main.go", "facts.go"]
    own = "facts_" + pid.lower() + ".go"
    if os.path.exists(os.path.join(src, own)):
        files.append(own)
    newest = max(os.path.getmtime(os.path.join(src, f)) for f in files)
    if os.path.exists(exe) and os.path.getmtime(exe) >= newest:
        return exe, None
    e = dict(os.environ)
    e["GOFLAGS"] = "-mod=mod"
    e["GOPROXY"] = "off"
    e["GOTOOLCHAIN"] = "local"
    tmp = exe + ".tmp%d" % os.getpid()
    rc, out, _ = run(["go", "build", "-o", tmp] + files, cwd=src, env=e)
    if rc != 0:
        return None, out
    os.replace(tmp, exe)
    return exe, None


def regenerate_facts(pid, log):
    gen_dir = os.path.join(LEAN, "KoordVerif", "Generated")
    os.makedirs(gen_dir, exist_ok=True)
    out = os.path.join(gen_dir, pid + ".lean")
    exe, err = build_extractor(pid, log)
    if exe is None:
        return False, "extractor build failed: " + err[-2000:]
    tmp = out + f".new.{RUNTAG}"  # private to this run: concurrent runs of one property must not share it
    rc, o, _ = run([exe, REPO, pid, tmp])
    if rc != 0 or not os.path.exists(tmp):
        return False, "extractor failed: " + o[-2000:]
    # only touch the file when its content changed, so lake does not rebuild needlessly
    new = open(tmp).read()
    old = open(out).read() if os.path.exists(out) else None
    if new != old:
        os.replace(tmp, out)
    else:
        os.remove(tmp)
    return True, o


# ------------------------------------------------------------------ lean

def theorem_names(path, namespace):
    """top-level `theorem` names of a Props/Ties file, fully qualified."""
    names = []
    if not os.path.exists(path):
        return names
    ns_stack = []
    for line in open(path):
        m = re.match(r"^namespace\s+(\S+)", line)
        if m:
            ns_stack.append(m.group(1))
            continue
        m = re.match(r"^end\s+(\S+)", line)
        if m and ns_stack and ns_stack[-1] == m.group(1):
            ns_stack.pop()
            continue
        m = re.match(r"^(?:protected\s+|private\s+)?theorem\s+([^\s:({\[]+)", line)
        if m:
            names.append(".".join(ns_stack + [m.group(1)]))
    return names


def lean_sources_for(pid):
    pats = ["Common/*.lean", f"Model/{pid}*.lean", f"Props/{pid}*.lean", f"Proofs/{pid}*.lean",
            f"Proofs/{pid}/*.lean", f"Ties/{pid}*.lean", f"Driver/{pid}*.lean"]
    files = []
    for p in pats:
        files += glob.glob(os.path.join(LEAN, "KoordVerif", p))
    return sorted(set(files))


def strip_comments(src):
    src = re.sub(r"/-.*?-/", lambda m: "\n" * m.group(0).count("\n"), src, flags=re.S)
    src = re.sub(r"--.*", "", src)
    return src


def grep_forbidden(pid):
    hits = []
    for f in lean_sources_for(pid):
        src = strip_comments(open(f).read())
        for i, line in enumerate(src.split("\n"), 1):
            if FORBIDDEN.search(line):
                hits.append(f"{os.path.relpath(f, VERIF)}:{i}: {line.strip()[:100]}")
    return hits


def lean_check(pid, cfg, tier, log):
    """returns dict(obligations=[{name, ok, axioms, why}], build_ok, driver_ok, text)"""
    res = {"obligations": [], "build_ok": False, "driver_ok": False, "text": "", "ties_ok": True}
    props_mod = f"KoordVerif.Props.{pid}"
    ties_path = os.path.join(LEAN, "KoordVerif", "Ties", pid + ".lean")
    has_ties = os.path.exists(ties_path)
    drv = cfg.get("driver", "drv_" + pid.lower())
    # driver first (needed for correspondence even when a proof breaks)
    rc, out, _ = run(["lake", "build", drv], cwd=LEAN, timeout=3600)
    res["driver_ok"] = rc == 0
    if rc != 0:
        res["text"] += "driver build failed:\n" + out[-3000:]
    rc, out, _ = run(["lake", "build", props_mod], cwd=LEAN, timeout=3600)
    res["build_ok"] = rc == 0
    if rc != 0:
        res["text"] += "Props build failed:\n" + out[-3000:]
    ties_build_ok = True
    if has_ties:
        rc, out, _ = run(["lake", "build", f"KoordVerif.Ties.{pid}"], cwd=LEAN, timeout=3600)
        ties_build_ok = rc == 0
        if rc != 0:
            res["text"] += "Ties build failed:\n" + out[-3000:]
    res["ties_ok"] = ties_build_ok
    props_path = os.path.join(LEAN, "KoordVerif", "Props", pid + ".lean")
    pnames = theorem_names(props_path, None)
    tnames = theorem_names(ties_path, None) if has_ties else []
    forb = grep_forbidden(pid)
    if forb:
        res["text"] += "forbidden tokens:\n" + "\n".join(forb) + "\n"
    # audit
    audit_dir = os.path.join(LEAN, "KoordVerif", "Audit")
    os.makedirs(audit_dir, exist_ok=True)

    def audit(mod, names, okbuild):
        if not names:
            return
        if not okbuild:
            for n in names:
                res["obligations"].append({"name": n, "ok": False, "axioms": [], "why": "module does not build"})
            return
        apath = os.path.join(audit_dir, mod.replace(".", "_") + ".lean")
        with open(apath, "w") as f:
            f.write(f"import {mod}\n")
            for n in names:
                f.write(f"#print axioms {n}\n")
        rc, out, _ = run(["lake", "env", "lean", apath], cwd=LEAN, timeout=1800)
        # parse: "'name' depends on axioms: [a, b]" / "'name' does not depend on any axioms"
        found = {}
        for m in re.finditer(r"^'([^\n]+)' depends on axioms: \[([^\]]*)\]", out, flags=re.S | re.M):
            found[m.group(1)] = [a.strip() for a in m.group(2).replace("\n", " ").split(",") if a.strip()]
        for m in re.finditer(r"^'([^\n]+)' does not depend on any axioms", out, flags=re.M):
            found[m.group(1)] = []
        for n in names:
            if n not in found:
                res["obligations"].append({"name": n, "ok": False, "axioms": [], "why": "not found by #print axioms"})
                continue
            ax = found[n]
            bad = [a for a in ax if a not in ALLOWED_AXIOMS]
            res["obligations"].append({"name": n, "ok": not bad and not forb, "axioms": ax,
                                       "why": ("disallowed axioms " + ",".join(bad)) if bad else ("forbidden token in sources" if forb else "")})

    audit(props_mod, pnames, res["build_ok"])
    if has_ties:
        audit(f"KoordVerif.Ties.{pid}", tnames, ties_build_ok)
    if tier == "thorough" and res["build_ok"]:
        rc, out, dt = run(["lake", "env", "leanchecker", props_mod], cwd=LEAN, timeout=3600)
        res["leanchecker"] = {"rc": rc, "wall_s": round(dt, 1), "tail": out[-300:]}
        if rc != 0:
            for o in res["obligations"]:
                if o["ok"]:
                    o["ok"] = False
                    o["why"] = "leanchecker rejected the module"
    return res


# ------------------------------------------------------------------ go harness

def pkg_name_of(pkgdir):
    for f in sorted(glob.glob(os.path.join(REPO, pkgdir, "*.go"))):
        if f.endswith("_test.go"):
            continue
        for line in open(f, errors="replace"):
            m = re.match(r"^package\s+(\w+)", line)
            if m:
                return m.group(1)
    return os.path.basename(pkgdir)


def write_overlay(pid, pkgs):
    """overlay: harness files + generated common helper + perf_group stub."""
    ov = {}
    odir = os.path.join(BUILD, "overlay_gen", pid + "-" + RUNTAG)
    shutil.rmtree(odir, ignore_errors=True)
    os.makedirs(odir, exist_ok=True)
    tmpl = open(os.path.join(VERIF, "harness", "common", "verif_common_test.go.tmpl")).read()
    root = os.path.join(VERIF, "harness", "overlay")
    for pkg in pkgs:
        src_dir = os.path.join(root, pkg)
        for f in sorted(glob.glob(os.path.join(src_dir, "*.go"))):
            ov[os.path.join(REPO, pkg, os.path.basename(f))] = f
        name = pkg_name_of(pkg)
        common = os.path.join(odir, pkg.replace("/", "_") + "_verif_common_test.go")
        with open(common, "w") as f:
            f.write(tmpl.replace("package PKGNAME", "package " + name))
        ov[os.path.join(REPO, pkg, "verif_common_test.go")] = common
    ov[os.path.join(REPO, "pkg/koordlet/util/perf_group/perf_group_linux.go")] = \
        os.path.join(VERIF, "harness", "stubs", "perf_group_linux.go")
    path = os.path.join(odir, "overlay.json")
    json.dump({"Replace": ov}, open(path, "w"), indent=1)
    return path


def build_harness(pid, cfg, log):
    bins = []
    pkgs = [h["pkg"] for h in cfg["harness"]]
    ov = write_overlay(pid, sorted(set(pkgs)))
    os.makedirs(os.path.join(BUILD, "bin"), exist_ok=True)
    for i, h in enumerate(cfg["harness"]):
        out = os.path.join(BUILD, "bin", f"{pid}_{i}_{RUNTAG}.test")
        if os.path.exists(out):
            os.remove(out)  # never reuse a stale binary
        rc, o, dt = run(["go", "test", "-c", "-tags", "verif", "-vet=off", "-overlay", ov, "-o", out, "./" + h["pkg"]],
                        cwd=REPO, env=goenv(), timeout=3600)
        if rc != 0 or not os.path.exists(out):
            return None, f"go test -c failed for {h['pkg']}:\n{o[-4000:]}"
        bins.append(out)
    return bins, None


def run_harness(pid, cfg, bins, tier, seed, only_case=None, sub=None):
    """returns list of per-harness result dicts"""
    results = []
    for i, (h, b) in enumerate(zip(cfg["harness"], bins)):
        name = h.get("name", str(i))
        if sub is not None and name != sub:
            continue
        if tier not in h.get("tiers", ["quick", "thorough"]):
            continue
        outdir = os.path.join(BUILD, "out", pid + "-" + RUNTAG, name)
        shutil.rmtree(outdir, ignore_errors=True)
        os.makedirs(outdir, exist_ok=True)
        tmp = os.path.join(BUILD, "tmp")
        os.makedirs(tmp, exist_ok=True)
        e = goenv()
        e.update({"VERIF_OUT": outdir, "VERIF_SEED": str(seed), "VERIF_TIER": tier, "TMPDIR": tmp,
                  "GOMAXPROCS": "16"})
        if only_case is not None:
            e["VERIF_ONLY_CASE"] = str(only_case)
        for k, v in h.get("env", {}).get(tier, {}).items():
            e[k] = str(v)
        tmo = h.get("timeout", {}).get(tier, 900 if tier == "quick" else 7200)
        rc, o, dt = run([b, "-test.run", "^" + h["test"] + "$", "-test.count=1", "-test.timeout", f"{tmo}s"],
                        cwd=os.path.join(REPO, h["pkg"]), env=e, timeout=tmo + 60)
        results.append({"name": name, "rc": rc, "out": o, "outdir": outdir, "wall_s": dt, "h": h})
    return results


def run_driver(pid, cfg, outdir):
    drv = os.path.join(LEAN, ".lake", "build", "bin", cfg.get("driver", "drv_" + pid.lower()))
    ops = os.path.join(outdir, "ops.txt")
    model = os.path.join(outdir, "model.txt")
    with open(ops) as fi, open(model, "w") as fo:
        p = subprocess.run([drv], stdin=fi, stdout=fo, stderr=subprocess.PIPE, timeout=7200)
    return p.returncode, p.stderr.decode(errors="replace")[-2000:]


def split_cases(path):
    cases = {}
    order = []
    cur = None
    with open(path, errors="replace") as f:
        for line in f:
            line = line.rstrip("\n")
            if line.startswith("case "):
                cur = int(line.split()[1])
                cases[cur] = []
                order.append(cur)
            elif cur is not None:
                cases[cur].append(line)
    return cases, order


def diff_streams(outdir):
    ops, order = split_cases(os.path.join(outdir, "ops.txt"))
    impl, _ = split_cases(os.path.join(outdir, "impl.txt"))
    model, _ = split_cases(os.path.join(outdir, "model.txt"))
    dis = []
    for c in order:
        a, b = impl.get(c), model.get(c)
        if a != b:
            first = None
            if a is not None and b is not None:
                for k in range(max(len(a), len(b))):
                    x = a[k] if k < len(a) else "<missing>"
                    y = b[k] if k < len(b) else "<missing>"
                    if x != y:
                        first = {"line": k, "impl": x, "model": y}
                        break
            dis.append({"case": c, "ops": ops.get(c, []), "impl": a, "model": b, "first_diff": first})
    return dis, len(order)


# ------------------------------------------------------------------ findings / evidence

def load_known():
    p = os.path.join(VERIF, "known_findings.json")
    if not os.path.exists(p):
        return []
    return json.load(open(p)).get("findings", [])


def write_replay(pid, name, obj):
    d = os.path.join(REPLAYS, pid)
    os.makedirs(d, exist_ok=True)
    p = os.path.join(d, name + ".json")
    json.dump(obj, open(p, "w"), indent=1)
    return os.path.relpath(p, VERIF)


def cleanup(pid, keep_out=False):
    for f in glob.glob(os.path.join(BUILD, "bin", f"{pid}_*_{RUNTAG}.test")):
        try:
            os.remove(f)
        except OSError:
            pass
    shutil.rmtree(os.path.join(BUILD, "overlay_gen", pid + "-" + RUNTAG), ignore_errors=True)
    outd = os.path.join(BUILD, "out", pid + "-" + RUNTAG)
    last = os.path.join(BUILD, "out", pid + "-last")
    if os.path.isdir(outd):
        shutil.rmtree(last, ignore_errors=True)
        try:
            os.replace(outd, last)  # keep only the most recent run's streams for inspection
        except OSError:
            shutil.rmtree(outd, ignore_errors=True)


def main():
    args = sys.argv[1:]
    if not args:
        print(__doc__)
        return 2
    pid = args[0]
    tier = os.environ.get("VERIF_TIER", "quick")
    replay = None
    i = 1
    while i < len(args):
        if args[i] == "--tier":
            tier = args[i + 1]; i += 2
        elif args[i] == "--replay":
            replay = args[i + 1]; i += 2
        else:
            i += 1
    if pid not in PROPS:
        print(f"unknown property {pid}")
        return 2
    cfg = PROPS[pid]
    seed = int(os.environ.get("VERIF_SEED", "1") or "1")
    t0 = time.time()
    log = []
    os.makedirs(BUILD, exist_ok=True)
    # clean this property's replays from earlier runs (they are per-run artefacts), keep committed corpus elsewhere
    rdir = os.path.join(REPLAYS, pid)
    only_case = None
    sub = None
    if replay:
        rj = json.load(open(replay if os.path.isabs(replay) else os.path.join(VERIF, replay)))
        seed = rj.get("seed", seed)
        tier = rj.get("tier", tier)
        only_case = rj.get("case")
        sub = rj.get("harness")
        print(f"replaying {pid} seed={seed} tier={tier} case={only_case} harness={sub}")
    else:
        shutil.rmtree(rdir, ignore_errors=True)

    violations = []   # (fingerprint, what, replay_path, has_input)
    known_lines = []
    known = [k for k in load_known() if k.get("property") == pid and k.get("status") == "open"]

    # 1. facts
    facts_ok, facts_msg = True, ""
    if cfg.get("facts", False):
        facts_ok, facts_msg = regenerate_facts(pid, log)
    # 2. lean
    lean = lean_check(pid, cfg, tier, log)
    obligations = lean["obligations"]
    n_obl = len(obligations)
    n_ok = sum(1 for o in obligations if o["ok"])
    broken = [o for o in obligations if not o["ok"]]
    if not facts_ok:
        broken.append({"name": "facts:" + pid, "ok": False, "why": facts_msg})
        n_obl += 1

    # 3/4. harness + correspondence + oracle
    corr = {"cases": 0, "ops": 0, "disagreements": 0, "oracle_failures": 0, "harnesses": []}
    samples = []
    distribution = {}
    distinct_nontrivial = 0
    rule = []
    harness_err = None
    seeds = [seed]
    if tier == "thorough" and not replay:
        seeds = [seed, seed + 1000003, seed + 2000003][: cfg.get("thorough_seeds", 2)]
    bins, err = build_harness(pid, cfg, log)
    if bins is None:
        harness_err = err
    else:
        for sd in seeds:
            for r in run_harness(pid, cfg, bins, tier, sd, only_case, sub):
                hname = r["name"]
                stats_p = os.path.join(r["outdir"], "stats.json")
                if r["rc"] != 0 or not os.path.exists(stats_p):
                    harness_err = f"harness {hname} failed rc={r['rc']}:\n{r['out'][-3000:]}"
                    continue
                st = json.load(open(stats_p))
                corr["cases"] += st["cases"]
                corr["ops"] += st["ops"]
                distinct_nontrivial += st["distinct_nontrivial"]
                if st["rule"] not in rule:
                    rule.append(st["rule"])
                for k, v in st["distribution"].items():
                    distribution[hname + ":" + k] = distribution.get(hname + ":" + k, 0) + v
                if len(samples) < 4:
                    samples += (st.get("samples") or [])[:2]
                hinfo = {"name": hname, "seed": sd, "cases": st["cases"], "ops": st["ops"],
                         "wall_s": round(r["wall_s"], 1), "extra": st.get("extra", {})}
                # oracle failures
                fails = [json.loads(l) for l in open(os.path.join(r["outdir"], "oracle.jsonl")) if l.strip()]
                for f in fails:  # a failure raised before the case emitted any op / observation
                    f["ops"] = f.get("ops") or []
                    f["obs"] = f.get("obs") or []
                corr["oracle_failures"] += len(fails)
                byfp = {}
                for f in fails:
                    cur = byfp.get(f["fingerprint"])
                    if cur is None or len(f["ops"]) < len(cur["ops"]) or \
                            (len(f["ops"]) == len(cur["ops"]) and sum(map(len, f["ops"])) < sum(map(len, cur["ops"]))):
                        byfp[f["fingerprint"]] = f
                for fp, f in sorted(byfp.items()):
                    n = sum(1 for x in fails if x["fingerprint"] == fp)
                    rp = write_replay(pid, re.sub(r"[^A-Za-z0-9_.-]", "_", fp) + "@" + hname + (f"-s{sd}" if sd != seed else ""),
                                      {"property": pid, "kind": "oracle-failure", "fingerprint": fp, "what": f["what"],
                                       "harness": hname, "seed": sd, "tier": tier, "case": f["case"], "ops": f["ops"],
                                       "impl_observations": f["obs"], "occurrences_this_run": n,
                                       "replay_cmd": f"./check.py {pid} --replay <this file>"})
                    kf = next((k for k in known if k["fingerprint"] == fp), None)
                    if kf:
                        known_lines.append(f"KNOWN-FINDING: property={pid} {fp}: {kf.get('what', f['what'])}")
                    else:
                        violations.append((fp, f["what"], rp, True))
                # model
                if lean["driver_ok"] and not r["h"].get("no_model", False):
                    rc, errtxt = run_driver(pid, cfg, r["outdir"])
                    if rc != 0:
                        harness_err = f"model driver failed rc={rc}: {errtxt}"
                    else:
                        dis, ncases = diff_streams(r["outdir"])
                        hinfo["disagreements"] = len(dis)
                        corr["disagreements"] += len(dis)
                        if dis:
                            dis.sort(key=lambda d: (len(d["ops"]), sum(map(len, d["ops"]))))
                            d = dis[0]
                            # a disagreement explained by an oracle failure on the same run is already reported above
                            rp = write_replay(pid, f"correspondence-{hname}",
                                              {"property": pid, "kind": "correspondence-broken",
                                               "what": "model and implementation disagree; no property-oracle failure on this input"
                                                       if not fails else "model and implementation disagree",
                                               "harness": hname, "seed": sd, "tier": tier, "case": d["case"], "ops": d["ops"],
                                               "impl": d["impl"], "model": d["model"], "first_diff": d["first_diff"],
                                               "disagreeing_cases": len(dis), "of_cases": ncases})
                            broken.append({"name": f"correspondence:{hname}", "ok": False,
                                           "why": f"{len(dis)}/{ncases} cases differ; first: {d['first_diff']}", "replay": rp})
                corr["harnesses"].append(hinfo)
    # §1.3 triage: an obligation is broken but no failing input was found yet -> widen the search on the
    # implementation (more seeds) before reporting no-failing-input-found
    search = {"ran": False}
    if (broken or not lean["driver_ok"] or harness_err) and not violations and bins is not None and not replay:
        search = {"ran": True, "extra_seeds": [], "oracle_failures": 0}
        for k in (7, 13, 29, 61):
            sd = seed + k
            search["extra_seeds"].append(sd)
            for r in run_harness(pid, cfg, bins, tier, sd, None, None):
                op = os.path.join(r["outdir"], "oracle.jsonl")
                if r["rc"] != 0 or not os.path.exists(op):
                    continue
                fails = [json.loads(l) for l in open(op) if l.strip()]
                for f in fails:
                    f["ops"] = f.get("ops") or []
                    f["obs"] = f.get("obs") or []
                search["oracle_failures"] += len(fails)
                byfp = {}
                for f in fails:
                    cur = byfp.get(f["fingerprint"])
                    if cur is None or len(f["ops"]) < len(cur["ops"]):
                        byfp[f["fingerprint"]] = f
                for fp, f in sorted(byfp.items()):
                    if any(kf["fingerprint"] == fp for kf in known):
                        continue
                    rp = write_replay(pid, re.sub(r"[^A-Za-z0-9_.-]", "_", fp) + "@" + r["name"] + f"-s{sd}",
                                      {"property": pid, "kind": "oracle-failure", "fingerprint": fp, "what": f["what"],
                                       "harness": r["name"], "seed": sd, "tier": tier, "case": f["case"], "ops": f["ops"],
                                       "impl_observations": f["obs"], "found_by": "widened search after a broken obligation"})
                    violations.append((fp, f["what"], rp, True))
            if violations:
                break
    if harness_err:
        broken.append({"name": "harness", "ok": False, "why": harness_err[-1500:]})
    if not lean["driver_ok"]:
        broken.append({"name": "model-driver-build", "ok": False, "why": "the Lean model driver does not build, so no correspondence was checked"})

    # 5. decide
    if replay:
        cleanup(pid)
        print(json.dumps({"violations": [v[:3] for v in violations], "known": known_lines,
                          "broken": [b["name"] for b in broken]}, indent=1))
        return 1 if (violations or broken) else 0

    out_lines = list(dict.fromkeys(known_lines))
    vio_count = 0
    for fp, what, rp, _ in violations:
        out_lines.append(f"VIOLATION property={pid} replay={rp}")
        vio_count += 1
    if broken and not violations:
        # proof / tie / correspondence no longer checks and no failing input was found
        rp = write_replay(pid, "unproved", {"property": pid, "kind": "obligation-not-discharged",
                                            "broken": broken, "lean_output": lean["text"][-3000:],
                                            "note": "no failing input found by the oracle on this run"})
        out_lines.append(f"VIOLATION property={pid} replay={rp} no-failing-input-found")
        vio_count += 1
    elif broken:
        write_replay(pid, "unproved", {"property": pid, "kind": "obligation-not-discharged", "broken": broken,
                                       "lean_output": lean["text"][-3000:]})

    wall = time.time() - t0
    ev = {
        "property_id": pid, "tier": tier, "seed": seed, "level": cfg.get("level", "proof"),
        "coverage": {
            "obligations": max(n_obl, 1), "discharged": n_ok if not (broken and n_ok == n_obl) else n_ok,
            "checker_cmd": f"cd lean && lake build KoordVerif.Props.{pid}" + (f" KoordVerif.Ties.{pid}" if os.path.exists(os.path.join(LEAN, 'KoordVerif', 'Ties', pid + '.lean')) else "") +
                           " && lake env lean KoordVerif/Audit/*.lean  (#print axioms on every theorem)" + (" && lake env leanchecker" if tier == "thorough" else ""),
            "trusted_base": cfg.get("trusted_base", []) + [
                "Lean 4.33.0 kernel; axioms allowed: propext, Classical.choice, Quot.sound (audited per theorem)",
                "hand-written Lean model validated against the Go code by the correspondence run recorded below (sampling)",
                "check.py, the in-package Go harness and the go/ast fact extractor"],
            "theorems": [{"name": o["name"], "ok": o["ok"], "axioms": o.get("axioms", []), **({"why": o["why"]} if o.get("why") else {})} for o in obligations],
            "not_discharged": [{"name": b["name"], "why": b.get("why", "")[:600]} for b in broken],
            "facts_regenerated": bool(cfg.get("facts", False)),
            "evaluations": max(corr["cases"], 1) if bins else 0,
            "distinct_nontrivial": distinct_nontrivial,
            "rule": " || ".join(rule),
            "samples": samples[:4] if samples else [{"note": "harness did not run"}],
            "correspondence": corr,
            "distribution": distribution,
            "known_findings_reported": list(dict.fromkeys(known_lines)),
            "widened_search": search,
            "exhaustive": False,
        },
        "assumptions": cfg.get("assumptions", []),
        "wall_s": round(wall, 1),
        "violations": vio_count,
    }
    if "leanchecker" in lean:
        ev["coverage"]["leanchecker"] = lean["leanchecker"]
    evdir = os.path.join(VERIF, "build", "mut", "evidence") if MUT else os.path.join(VERIF, "evidence")
    os.makedirs(evdir, exist_ok=True)
    json.dump(ev, open(os.path.join(evdir, pid + ".json"), "w"), indent=1)
    cleanup(pid, keep_out=bool(vio_count))
    for l in out_lines:
        print(l)
    print(f"{pid} tier={tier} seed={seed}: obligations {n_ok}/{n_obl}, cases {corr['cases']}, "
          f"disagreements {corr['disagreements']}, oracle failures {corr['oracle_failures']}, "
          f"violations {vio_count}, {wall:.0f}s")
    return 1 if vio_count else 0


if __name__ == "__main__":
    sys.exit(main())
