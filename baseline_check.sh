#!/bin/bash
# Re-runs koordinator's own pinned test suite (guard off, no overlay, no verif tag) on /repo's current
# tree and compares with the stable-pass list of /root/.vp/BASELINE.json. Usage: ./baseline_check.sh [outdir]
OUT=${1:-/var/tmp/bl}; mkdir -p "$OUT"
cd /repo && GOFLAGS=-mod=mod GOPROXY=off go test -json -vet=off -count=1 -timeout 25m ${BL_P:+-p $BL_P} ./... > "$OUT/gotest.json" 2> "$OUT/gotest.err"
python3 - "$OUT/gotest.json" <<'PY'
import json,sys
base=json.load(open('/root/.vp/BASELINE.json'))
want=set(base['stable_pass'])
res={}
for l in open(sys.argv[1],errors='replace'):
    try: e=json.loads(l)
    except Exception: continue
    if e.get('Action') in ('pass','fail','skip') and e.get('Test'):
        res[e['Package']+'::'+e['Test']]=e['Action']
passed={k for k,v in res.items() if v=='pass'}
missing=sorted(want-passed)
print(f"baseline stable_pass={len(want)} passed_now={len(want&passed)} not_passing={len(missing)}")
for m in missing[:40]: print("  NOT PASSING:",m,res.get(m,'absent'))
sys.exit(1 if missing else 0)
PY
