#!/usr/bin/env python3
"""Rewrites the table of DESIGN.md §11.2 from known_findings.json."""
import json, os, re
V = os.path.dirname(os.path.abspath(__file__))
kf = json.load(open(os.path.join(V, "known_findings.json")))["findings"]
rows = []
for k in sorted(kf, key=lambda k: (k["status"] != "fixed", k["property"], k.get("commit", ""))):
    what = re.sub(r"^fixed: property=\S+ \S+ ", "", k["what"])
    what = re.sub(r"\s+", " ", what).replace("|", "/")
    st = f"fixed {k['commit']}" if k["status"] == "fixed" else "**open**"
    rows.append(f"| {k['property']} | {st} | `{k['fingerprint']}` | {what} |")
p = os.path.join(V, "DESIGN.md")
s = open(p).read()
a = s.index("| property | status | fingerprint | what |") if "| property | status | fingerprint | what |" in s else s.index("| property | status | what |")
b = s.index("Suspected, not decided")
s = s[:a] + "| property | status | fingerprint | what |\n|---|---|---|---|\n" + "\n".join(rows) + "\n\n" + s[b:]
open(p, "w").write(s)
print(len(rows), "rows")
