#!/usr/bin/env python3
"""Rewrites the seeded-changes table at the end of DESIGN.md §11.3 from seeded/*/meta.json."""
import json, glob, os, re
V = os.path.dirname(os.path.abspath(__file__))
rows = []
notes = json.load(open(os.path.join(V, "seeded", "notes.json"))) if os.path.exists(os.path.join(V, "seeded", "notes.json")) else {}
for d in sorted(glob.glob(os.path.join(V, "seeded", "C*"))):
    mp = os.path.join(d, "meta.json")
    if not os.path.exists(mp):
        continue
    m = json.load(open(mp))
    c = m.get("confirmed_by_main_agent", {})
    fps = []
    for l in c.get("check_lines", []):
        if l.startswith("VIOLATION"):
            fp = l.split("replay=")[1].split()[0].split("/")[-1].replace(".json", "")
            if "no-failing-input-found" in l:
                fp += " (no-failing-input-found)"
            fps.append(fp)
    sid = os.path.basename(d)
    what = re.sub(r"\s+", " ", m.get("breaks", ""))[:220].replace("|", "/")
    caught = ", ".join(fps) if c.get("detected") else "**missed**"
    rows.append(f"| {sid} | {what} | {caught} | {notes.get(sid, '')} |")
p = os.path.join(V, "DESIGN.md")
s = open(p).read()
head = "| id | change | caught by | note |\n|---|---|---|---|\n"
i = s.index(head) + len(head)
# the table ends at the first following line that is not a table row; keep whatever comes after it
rest = s[i:].split("\n")
j = 0
while j < len(rest) and rest[j].startswith("|"):
    j += 1
tail = "\n".join(rest[j:]).lstrip("\n")
open(p, "w").write(s[:i] + "\n".join(rows) + "\n" + ("\n" + tail if tail else ""))
print(len(rows), "rows")
