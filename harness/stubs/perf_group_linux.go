//go:build linux
// +build linux

// Pure-Go stand-in for pkg/koordlet/util/perf_group/perf_group_linux.go, which is cgo
// against libpfm (headers absent in this sandbox). Injected with `go test -overlay` by
// /verif/check.py for harness builds only; /repo is never modified. Performance counters
// are unrelated to every property checked through it (see DESIGN.md §3.3).
package perf_group

import (
	"os"
	"sync"
)

const (
	CYCLES       = "cycles"
	INSTRUCTIONS = "instructions"
)

var (
	BufPools  map[int]*sync.Pool
	EventsMap = map[string][]string{
		"CPICollector": {"cycles", "instructions"},
	}
)

type PerfGroupCollector struct{}

func InitBufferPool(eventsNums map[int]struct{}) {}
func LibInit()                                    {}
func LibFinalize()                                {}

func NewPerfGroupCollector(cgroupFile *os.File, cpus []int, events []string, syscallFunc interface{}) (*PerfGroupCollector, error) {
	return &PerfGroupCollector{}, nil
}

func GetAndStartPerfGroupCollectorOnContainer(cgroupFile *os.File, cpus []int, events []string) (*PerfGroupCollector, error) {
	return &PerfGroupCollector{}, nil
}

func GetContainerPerfResult(collector *PerfGroupCollector) (map[string]float64, error) {
	return map[string]float64{}, nil
}

func GetContainerCyclesAndInstructionsGroup(collector *PerfGroupCollector) (float64, float64, error) {
	return 0, 0, nil
}
