package main

import (
	"bytes"
	"fmt"
	"go/ast"
	"go/printer"
	"go/token"
	"sort"
	"strings"
)

// call-name table of the elasticquota facts (the Lean side refers to the numbers; keep in sync with Ties/C19.lean)
var c19Calls = map[string]int{
	"shouldBeIgnored":                   1,
	"getQuotaInfoByNameNoLock":          2,
	"IsPodExist":                        3,
	"updatePodCacheNoLock":              4,
	"updatePodRequestNoLock":            5,
	"IsPodTerminated":                   6,
	"CheckPodIsAssigned":                7,
	"updatePodIsAssignedNoLock":         8,
	"updatePodUsedNoLock":               9,
	"getPodIsAssignedNoLock":            10,
	"getPodAssociateQuotaNameAndTreeID": 11,
	"GetGroupQuotaManagerForTree":       12,
	"OnPodAdd":                          13,
	"OnPodUpdate":                       14,
	"OnPodDelete":                       15,
	"GetQuotaName":                      16,
	"Enabled":                           17,
	"ElasticQuotas":                     18,
	"Get":                               19,
	"ByIndex":                           20,
	"MigratePod":                        21,
	"GetQuotaInfoByName":                22,
	"GetPodCache":                       23,
	"GetTreeID":                         24,
	"ReservePod":                        25,
	"UnreservePod":                      26,
	"deleteQuotaToTreeMap":              27,
	"DeleteQuota":                       28,
	"updateQuotaToTreeMap":              29,
	"UpdateQuota":                       30,
	"NewGroupQuotaManager":              31,
	"UpdateQuotaInfo":                   32,
	"ResetQuota":                        33,
	"addPodIfNotPresent":                34,
	"removePodIfPresent":                35,
	"refreshPodIfPresent":               36,
	"getCachedPod":                      37,
}

func c19CallSeq(fd *ast.FuncDecl) []int {
	var out []int
	ast.Inspect(fd.Body, func(n ast.Node) bool {
		if c, ok := n.(*ast.CallExpr); ok {
			name := ""
			switch f := c.Fun.(type) {
			case *ast.SelectorExpr:
				name = f.Sel.Name
			case *ast.Ident:
				name = f.Name
			}
			if k, ok := c19Calls[name]; ok {
				out = append(out, k)
			}
		}
		return true
	})
	return out
}

func c19Ints(xs []int) string {
	var p []string
	for _, x := range xs {
		p = append(p, fmt.Sprint(x))
	}
	return "[" + strings.Join(p, ", ") + "]"
}

func init() {
	extractors["C19"] = func(e *ext) {
		// the only numeric constant of the CPU-set codec: Parse rejects a range ending above it
		e.constInt("pkg/util/cpuset", "maxAvailableCPUCount", "maxAvailableCPUCount")

		// --- elasticquota part: call structure (in source order) of the functions Model/C19Quota.lean mirrors
		seq := func(dir, recv, fn, lean, doc string) {
			fd := e.funcDecl(dir, recv, fn)
			if fd == nil || fd.Body == nil {
				e.fail("%s.%s not found", recv, fn)
				return
			}
			fmt.Fprintf(&e.out, "/-- %s -/\ndef %s : List Nat := %s\n", doc, lean, c19Ints(c19CallSeq(fd)))
		}
		core := "pkg/scheduler/plugins/elasticquota/core"
		plug := "pkg/scheduler/plugins/elasticquota"
		seq(core, "GroupQuotaManager", "MigratePod", "qMigratePod", "core MigratePod: calls in source order (table in harness/extract/facts_c19.go)")
		seq(core, "GroupQuotaManager", "OnPodAdd", "qOnPodAdd", "core OnPodAdd incl. the fail-over branch")
		seq(core, "GroupQuotaManager", "OnPodUpdate", "qOnPodUpdate", "core OnPodUpdate, all branches")
		seq(core, "GroupQuotaManager", "OnPodDelete", "qOnPodDelete", "core OnPodDelete")
		seq(core, "GroupQuotaManager", "ReservePod", "qReservePod", "core ReservePod")
		seq(core, "GroupQuotaManager", "UnreservePod", "qUnreservePod", "core UnreservePod")
		seq(core, "GroupQuotaManager", "updatePodCacheNoLock", "qUpdatePodCache", "core updatePodCacheNoLock")
		seq(plug, "Plugin", "OnPodAdd", "qPlOnPodAdd", "plugin OnPodAdd")
		seq(plug, "Plugin", "OnPodUpdate", "qPlOnPodUpdate", "plugin OnPodUpdate")
		seq(plug, "Plugin", "handlePodDelete", "qPlHandlePodDelete", "plugin handlePodDelete")
		seq(plug, "Plugin", "getPodAssociateQuotaNameAndTreeID", "qPlResolve", "plugin getPodAssociateQuotaNameAndTreeID")
		seq(plug, "Plugin", "GetQuotaName", "qPlGetQuotaName", "plugin GetQuotaName")
		seq(plug, "Plugin", "migrateDefaultQuotaGroupsPod", "qPlMigrate", "plugin migrateDefaultQuotaGroupsPod")
		seq(plug, "Plugin", "Reserve", "qPlReserve", "plugin Reserve")
		seq(plug, "Plugin", "Unreserve", "qPlUnreserve", "plugin Unreserve")
		seq(plug, "Plugin", "OnQuotaAdd", "qPlOnQuotaAdd", "plugin OnQuotaAdd")
		seq(plug, "Plugin", "OnQuotaDelete", "qPlOnQuotaDelete", "plugin OnQuotaDelete")
		seq(plug, "Plugin", "ReplaceQuotas", "qPlReplaceQuotas", "plugin ReplaceQuotas")

		// the fall-back group of getPodAssociateQuotaNameAndTreeID / GetQuotaName is extension.DefaultQuotaName
		fallback := func(fn string) bool {
			fd := e.funcDecl(plug, "Plugin", fn)
			if fd == nil || fd.Body == nil {
				e.fail("Plugin.%s not found", fn)
				return false
			}
			all, n := true, 0
			ast.Inspect(fd.Body, func(x ast.Node) bool {
				r, ok := x.(*ast.ReturnStmt)
				if !ok {
					return true
				}
				for _, res := range r.Results {
					if sel, ok := res.(*ast.SelectorExpr); ok {
						if id, ok := sel.X.(*ast.Ident); ok && id.Name == "extension" {
							n++
							if sel.Sel.Name != "DefaultQuotaName" {
								all = false
							}
						}
					}
				}
				return true
			})
			return all && n > 0
		}
		fmt.Fprintf(&e.out, "/-- every `extension.X` constant returned by the two resolution functions is DefaultQuotaName -/\n")
		fmt.Fprintf(&e.out, "def qFallbackIsDefault : Bool := %v\n", fallback("getPodAssociateQuotaNameAndTreeID") && fallback("GetQuotaName"))

		// feature-gate defaults the model assumes (all off)
		gates := []string{"MultiQuotaTree", "DisableDefaultQuota", "ElasticQuotaIgnoreTerminatingPod", "ElasticQuotaImmediateIgnoreTerminatingPod"}
		off := map[string]bool{}
		for _, f := range e.dir("pkg/features") {
			ast.Inspect(f, func(x ast.Node) bool {
				kv, ok := x.(*ast.KeyValueExpr)
				if !ok {
					return true
				}
				id, ok := kv.Key.(*ast.Ident)
				if !ok {
					return true
				}
				cl, ok := kv.Value.(*ast.CompositeLit)
				if !ok {
					return true
				}
				for _, el := range cl.Elts {
					if kv2, ok := el.(*ast.KeyValueExpr); ok {
						if k, ok := kv2.Key.(*ast.Ident); ok && k.Name == "Default" {
							if v, ok := kv2.Value.(*ast.Ident); ok {
								if v.Name == "false" {
									if _, seen := off[id.Name]; !seen {
										off[id.Name] = true
									}
								} else {
									off[id.Name] = false
								}
							}
						}
					}
				}
				return true
			})
		}
		allOff := true
		for _, g := range gates {
			if !off[g] {
				allOff = false
			}
		}
		fmt.Fprintf(&e.out, "/-- MultiQuotaTree, DisableDefaultQuota, ElasticQuota(Immediate)IgnoreTerminatingPod default to false everywhere they are declared -/\n")
		fmt.Fprintf(&e.out, "def qGatesOff : Bool := %v\n", allOff)

		c19BootFacts(e)
		c19PreBindFacts(e)
		c19PhaseFacts(e)
	}
}

// ---- ext7: the quota charge path reads a pod's phase only through util.IsPodTerminated ----

// c19PhaseReads: number of `.Phase` selector reads in the body of fd, not counting arguments of klog calls (log text is not behaviour).
func c19PhaseReads(fd *ast.FuncDecl) int {
	n := 0
	ast.Inspect(fd.Body, func(x ast.Node) bool {
		switch v := x.(type) {
		case *ast.CallExpr:
			if strings.HasPrefix(c19Render(v.Fun), "klog.") {
				return false
			}
		case *ast.SelectorExpr:
			if v.Sel.Name == "Phase" {
				n++
			}
		}
		return true
	})
	return n
}

func c19PhaseFacts(e *ext) {
	core := "pkg/scheduler/plugins/elasticquota/core"
	plug := "pkg/scheduler/plugins/elasticquota"
	total := 0
	for _, f := range [][3]string{
		{core, "GroupQuotaManager", "OnPodAdd"}, {core, "GroupQuotaManager", "OnPodUpdate"}, {core, "GroupQuotaManager", "OnPodDelete"},
		{core, "GroupQuotaManager", "ReservePod"}, {core, "GroupQuotaManager", "UnreservePod"}, {core, "GroupQuotaManager", "MigratePod"},
		{core, "GroupQuotaManager", "updatePodCacheNoLock"}, {core, "GroupQuotaManager", "updatePodIsAssignedNoLock"},
		{core, "GroupQuotaManager", "updatePodUsedNoLock"}, {core, "GroupQuotaManager", "updatePodRequestNoLock"},
		{core, "", "shouldBeIgnored"},
		{plug, "Plugin", "OnPodAdd"}, {plug, "Plugin", "OnPodUpdate"}, {plug, "Plugin", "handlePodDelete"},
		{plug, "Plugin", "Reserve"}, {plug, "Plugin", "Unreserve"}, {plug, "Plugin", "migrateDefaultQuotaGroupsPod"},
		{plug, "Plugin", "getPodAssociateQuotaNameAndTreeID"}, {plug, "Plugin", "GetQuotaName"},
	} {
		fd := e.funcDecl(f[0], f[1], f[2])
		if fd == nil || fd.Body == nil {
			e.fail("%s.%s not found", f[1], f[2])
			continue
		}
		total += c19PhaseReads(fd)
	}
	fmt.Fprintf(&e.out, "/-- direct reads of a pod's `.Phase` (outside klog arguments) in the 19 elasticquota functions of the charge path: the model's\n"+
		"    only phase input is the `term` token = util.IsPodTerminated -/\ndef qPhaseReads : Nat := %d\n", total)
	// util.IsPodTerminated names exactly the phases Succeeded and Failed
	var phases []string
	if fd := e.funcDecl("pkg/util", "", "IsPodTerminated"); fd == nil || fd.Body == nil {
		e.fail("util.IsPodTerminated not found")
	} else {
		seen := map[string]bool{}
		ast.Inspect(fd.Body, func(x ast.Node) bool {
			if sel, ok := x.(*ast.SelectorExpr); ok {
				switch sel.Sel.Name {
				case "PodPending", "PodRunning", "PodSucceeded", "PodFailed", "PodUnknown":
					if !seen[sel.Sel.Name] {
						seen[sel.Sel.Name] = true
						phases = append(phases, sel.Sel.Name)
					}
				}
			}
			return true
		})
		sort.Strings(phases)
	}
	fmt.Fprintf(&e.out, "/-- the corev1 phase constants util.IsPodTerminated mentions (sorted) -/\ndef qTerminatedPhases : List String := %s\n", c19StrList(phases))
}

// ---- ext2: reserve-pod merge order + start-up registrations ----

func c19Render(x ast.Node) string {
	var b bytes.Buffer
	_ = printer.Fprint(&b, token.NewFileSet(), x)
	return strings.Join(strings.Fields(b.String()), " ")
}

func c19StrList(xs []string) string {
	var q []string
	for _, x := range xs {
		q = append(q, leanStr(x))
	}
	return "[" + strings.Join(q, ", ") + "]"
}

// c19CalleeName: selector / identifier name of a call, "" otherwise
func c19CalleeName(c *ast.CallExpr) string {
	switch f := c.Fun.(type) {
	case *ast.SelectorExpr:
		return f.Sel.Name
	case *ast.Ident:
		return f.Name
	}
	return ""
}

var c19ResourceMarks = []string{"Pods", "Reservations", "Devices", "NodeResourceTopologies", "ElasticQuotas", "Nodes", "ConfigMaps"}

// c19ResourceOf: which informer an expression denotes, following := definitions inside the function
func c19ResourceOf(x ast.Expr, defs map[string]ast.Expr, depth int) string {
	txt := c19Render(x)
	for _, m := range c19ResourceMarks {
		if strings.Contains(txt, "."+m+"()") {
			return m
		}
	}
	if depth > 4 {
		return "?"
	}
	res := "?"
	ast.Inspect(x, func(n ast.Node) bool {
		if id, ok := n.(*ast.Ident); ok && res == "?" {
			if d, ok := defs[id.Name]; ok {
				if r := c19ResourceOf(d, defs, depth+1); r != "?" {
					res = r
				}
			}
		}
		return true
	})
	return res
}

// c19Registrations: every informer handler registration made inside fd, in source order: "<call>:<resource>"
func c19Registrations(fd *ast.FuncDecl) []string {
	defs := map[string]ast.Expr{}
	ast.Inspect(fd.Body, func(n ast.Node) bool {
		if as, ok := n.(*ast.AssignStmt); ok && as.Tok == token.DEFINE && len(as.Lhs) == len(as.Rhs) {
			for i, l := range as.Lhs {
				if id, ok := l.(*ast.Ident); ok {
					defs[id.Name] = as.Rhs[i]
				}
			}
		}
		return true
	})
	var out []string
	ast.Inspect(fd.Body, func(n ast.Node) bool {
		c, ok := n.(*ast.CallExpr)
		if !ok {
			return true
		}
		switch name := c19CalleeName(c); name {
		case "ForceSyncFromInformer", "ForceSyncFromInformerWithReplace":
			if len(c.Args) >= 3 {
				out = append(out, name+":"+c19ResourceOf(c.Args[2], defs, 0))
			} else {
				out = append(out, name+":?")
			}
		case "AddEventHandler", "AddEventHandlerWithResyncPeriod", "AddEventHandlerWithOptions":
			if sel, ok := c.Fun.(*ast.SelectorExpr); ok {
				out = append(out, name+":"+c19ResourceOf(sel.X, defs, 0))
			}
		}
		return true
	})
	return out
}

// c19CallsAmong: names of the calls inside body that belong to `among`, in source order (selector calls on
// `qual` are rendered "qual.Name" when qual is listed in quals)
func c19CallsAmong(body ast.Node, among map[string]bool, quals map[string]bool) []string {
	var out []string
	ast.Inspect(body, func(n ast.Node) bool {
		c, ok := n.(*ast.CallExpr)
		if !ok {
			return true
		}
		name := c19CalleeName(c)
		if sel, ok := c.Fun.(*ast.SelectorExpr); ok {
			if id, ok := sel.X.(*ast.Ident); ok && quals[id.Name] {
				name = id.Name + "." + name
			}
		}
		if among[name] {
			out = append(out, name)
		}
		return true
	})
	return out
}

func c19BootFacts(e *ext) {
	// (1) NewReservePod: the merge order, canonical w.r.t. renames of the two variables and reorderings of independent
	// statements: the template copy precedes both merge loops; each loop's body shape ("set" = exactly the plain
	// `pod.X[k] = v`); the keys the adapter writes itself (sorted) and whether all of them follow the annotation loop.
	if fd := e.funcDecl("pkg/util/reservation", "", "NewReservePod"); fd == nil || fd.Body == nil || len(fd.Type.Params.List) != 1 || len(fd.Type.Params.List[0].Names) != 1 {
		e.fail("NewReservePod not found / unexpected signature")
	} else {
		rv := fd.Type.Params.List[0].Names[0].Name // the Reservation
		pv := ""                                   // the pod being built = what the last return statement returns
		for _, st := range fd.Body.List {
			if ret, ok := st.(*ast.ReturnStmt); ok && len(ret.Results) == 1 {
				if id, ok := ret.Results[0].(*ast.Ident); ok {
					pv = id.Name
				}
			}
		}
		if pv == "" {
			e.fail("NewReservePod: returned identifier not found")
		}
		type item struct {
			kind string
			pos  token.Pos
		}
		var seq []item
		var walk func(list []ast.Stmt)
		walk = func(list []ast.Stmt) {
			for _, st := range list {
				switch v := st.(type) {
				case *ast.AssignStmt:
					if len(v.Lhs) == 1 {
						l := c19Render(v.Lhs[0])
						if l == pv+".ObjectMeta" {
							seq = append(seq, item{"template-copy", v.Pos()})
						} else if ix, ok := v.Lhs[0].(*ast.IndexExpr); ok && (c19Render(ix.X) == pv+".Annotations" || c19Render(ix.X) == pv+".Labels") {
							seq = append(seq, item{"set:" + c19Render(ix.X)[len(pv)+1:] + "[" + c19Render(ix.Index) + "]", v.Pos()})
						}
					}
				case *ast.RangeStmt:
					src := c19Render(v.X)
					if src == rv+".Annotations" || src == rv+".Labels" {
						field := src[len(rv)+1:]
						var body []string
						for _, b := range v.Body.List {
							kind := "other"
							if as, ok := b.(*ast.AssignStmt); ok && len(as.Lhs) == 1 && len(as.Rhs) == 1 && as.Tok == token.ASSIGN {
								want := pv + "." + field + "[" + c19Render(v.Key) + "]"
								if c19Render(as.Lhs[0]) == want && c19Render(as.Rhs[0]) == c19Render(v.Value) {
									kind = "set"
								}
							} else if _, ok := b.(*ast.IfStmt); ok {
								kind = "if"
							}
							body = append(body, kind)
						}
						seq = append(seq, item{"range:" + field + "[" + strings.Join(body, ",") + "]", v.Pos()})
					} else {
						walk(v.Body.List)
					}
				case *ast.IfStmt:
					walk(v.Body.List)
					if blk, ok := v.Else.(*ast.BlockStmt); ok {
						walk(blk.List)
					}
				case *ast.BlockStmt:
					walk(v.List)
				}
			}
		}
		walk(fd.Body.List)
		var loops, writes []string
		copyPos, annLoopPos := token.NoPos, token.NoPos
		copyFirst, writesAfter := true, true
		for _, it := range seq {
			switch {
			case it.kind == "template-copy":
				copyPos = it.pos
			case strings.HasPrefix(it.kind, "range:"):
				loops = append(loops, it.kind)
				if strings.HasPrefix(it.kind, "range:Annotations") {
					annLoopPos = it.pos
				}
			}
		}
		for _, it := range seq {
			if strings.HasPrefix(it.kind, "range:") && (copyPos == token.NoPos || it.pos < copyPos) {
				copyFirst = false
			}
			if strings.HasPrefix(it.kind, "set:") {
				writes = append(writes, it.kind)
				if annLoopPos == token.NoPos || it.pos < annLoopPos {
					writesAfter = false
				}
			}
		}
		sort.Strings(loops)
		sort.Strings(writes)
		fmt.Fprintf(&e.out, "/-- NewReservePod: the merge loops over the Reservation's own labels / annotations with the shape of their bodies (sorted) -/\n")
		fmt.Fprintf(&e.out, "def rpodLoops : List String := %s\n", c19StrList(loops))
		fmt.Fprintf(&e.out, "/-- NewReservePod: the keys the adapter writes itself (sorted) -/\n")
		fmt.Fprintf(&e.out, "def rpodOwnWrites : List String := %s\n", c19StrList(writes))
		fmt.Fprintf(&e.out, "/-- the template's ObjectMeta is copied before both merge loops; the adapter's own writes follow the annotation loop -/\n")
		fmt.Fprintf(&e.out, "def rpodTemplateCopiedFirst : Bool := %v\ndef rpodOwnWritesAfterMerge : Bool := %v\n", copyFirst && copyPos != token.NoPos, writesAfter && len(writes) > 0)
	}
	// every entry point of the adapter builds the pod with NewReservePod
	{
		var parts []string
		for _, m := range []string{"OnAdd", "OnUpdate", "OnDelete"} {
			fd := e.funcDecl("pkg/util/reservation", "ReservationToPodEventHandler", m)
			if fd == nil || fd.Body == nil {
				e.fail("ReservationToPodEventHandler.%s not found", m)
				continue
			}
			n := len(c19CallsAmong(fd.Body, map[string]bool{"NewReservePod": true}, nil))
			parts = append(parts, fmt.Sprintf("(%s, %d)", leanStr(m), n))
		}
		fmt.Fprintf(&e.out, "/-- number of NewReservePod calls in the adapter's handlers -/\n")
		fmt.Fprintf(&e.out, "def rpodAdapterCalls : List (String × Nat) := [%s]\n", strings.Join(parts, ", "))
	}
	// the adapter's filter: IsReservationActive = node name set and phase among the listed constants;
	// IsObjValidActiveReservation = (tombstone unwrapped) ValidateReservation and IsReservationActive
	{
		var phases []string
		nodeName := false
		if fd := e.funcDecl("pkg/util/reservation", "", "IsReservationActive"); fd != nil && fd.Body != nil {
			ast.Inspect(fd.Body, func(n ast.Node) bool {
				switch v := n.(type) {
				case *ast.SelectorExpr:
					if strings.HasPrefix(v.Sel.Name, "Reservation") && v.Sel.Name != "Reservation" {
						if be, ok := v.X.(*ast.Ident); ok && be.Name == "schedulingv1alpha1" {
							phases = append(phases, v.Sel.Name)
						}
					}
				case *ast.CallExpr:
					if c19CalleeName(v) == "GetReservationNodeName" {
						nodeName = true
					}
				}
				return true
			})
		} else {
			e.fail("IsReservationActive not found")
		}
		sort.Strings(phases)
		fmt.Fprintf(&e.out, "/-- IsReservationActive: the phases it accepts (sorted) and whether it asks for the node name -/\n")
		fmt.Fprintf(&e.out, "def activePhases : List String := %s\ndef activeNeedsNode : Bool := %v\n", c19StrList(phases), nodeName)
		var calls []string
		tomb := false
		if fd := e.funcDecl("pkg/util/reservation", "", "IsObjValidActiveReservation"); fd != nil && fd.Body != nil {
			calls = c19CallsAmong(fd.Body, map[string]bool{"ValidateReservation": true, "IsReservationActive": true}, nil)
			ast.Inspect(fd.Body, func(n ast.Node) bool {
				if ta, ok := n.(*ast.TypeAssertExpr); ok && ta.Type != nil && strings.HasSuffix(c19Render(ta.Type), "DeletedFinalStateUnknown") {
					tomb = true
				}
				return true
			})
		} else {
			e.fail("IsObjValidActiveReservation not found")
		}
		fmt.Fprintf(&e.out, "/-- IsObjValidActiveReservation: calls, and whether it unwraps a tombstone -/\n")
		fmt.Fprintf(&e.out, "def filterCalls : List String := %s\ndef filterUnwrapsTombstone : Bool := %v\n", c19StrList(calls), tomb)
	}
	// PreBindReservation persists on the Reservation OBJECT it is given (3rd argument of preBindObject)
	{
		var parts []string
		for _, dir := range []string{"pkg/scheduler/plugins/nodenumaresource", "pkg/scheduler/plugins/deviceshare"} {
			fd := e.funcDecl(dir, "Plugin", "PreBindReservation")
			target := "?"
			if fd != nil && fd.Body != nil {
				ast.Inspect(fd.Body, func(n ast.Node) bool {
					if c, ok := n.(*ast.CallExpr); ok && c19CalleeName(c) == "preBindObject" && len(c.Args) >= 3 {
						target = c19Render(c.Args[2])
					}
					return true
				})
				// the parameter of type *Reservation
				for _, f := range fd.Type.Params.List {
					if strings.HasSuffix(c19Render(f.Type), "Reservation") && len(f.Names) == 1 && f.Names[0].Name == target {
						target = "the-reservation-parameter"
					}
				}
			} else {
				e.fail("%s Plugin.PreBindReservation not found", dir)
			}
			parts = append(parts, fmt.Sprintf("(%s, %s)", leanStr(dir[len("pkg/scheduler/plugins/"):]), leanStr(target)))
		}
		fmt.Fprintf(&e.out, "/-- object PreBindReservation hands to preBindObject -/\n")
		fmt.Fprintf(&e.out, "def preBindReservationTarget : List (String × String) := [%s]\n", strings.Join(parts, ", "))
	}

	// (2) start-up: every informer handler registration of the functions that rebuild allocation state
	sites := [][3]string{
		{"pkg/scheduler/plugins/deviceshare", "", "registerPodEventHandler"},
		{"pkg/scheduler/plugins/deviceshare", "", "registerDeviceEventHandler"},
		{"pkg/scheduler/plugins/nodenumaresource", "", "registerPodEventHandler"},
		{"pkg/scheduler/plugins/nodenumaresource", "", "registerNodeResourceTopologyEventHandler"},
		{"pkg/scheduler/plugins/reservation", "", "registerReservationEventHandler"},
		{"pkg/scheduler/plugins/reservation", "", "registerPodEventHandler"},
		{"pkg/scheduler/plugins/elasticquota", "", "New"},
	}
	var regs []string
	for _, s := range sites {
		fd := e.funcDecl(s[0], s[1], s[2])
		if fd == nil || fd.Body == nil {
			e.fail("%s.%s not found", s[0], s[2])
			continue
		}
		rs := c19Registrations(fd)
		sort.Strings(rs) // the registrations inside one function are independent statements
		regs = append(regs, fmt.Sprintf("(%s, %s)", leanStr(s[0][len("pkg/scheduler/plugins/"):]+"."+s[2]), c19StrList(rs)))
	}
	fmt.Fprintf(&e.out, "/-- informer handler registrations (call:resource, sorted) of the functions that rebuild allocation state -/\n")
	fmt.Fprintf(&e.out, "def bootRegistrations : List (String × List String) := [%s]\n", strings.Join(regs, ", "))

	// the collector and the barrier
	helper := "pkg/scheduler/frameworkext/helper"
	emitCalls := func(lean, doc string, fd *ast.FuncDecl, among ...string) {
		if fd == nil || fd.Body == nil {
			e.fail("%s: function not found", lean)
			return
		}
		m := map[string]bool{}
		for _, a := range among {
			m[a] = true
		}
		fmt.Fprintf(&e.out, "/-- %s -/\ndef %s : List String := %s\n", doc, lean, c19StrList(c19CallsAmong(fd.Body, m, map[string]bool{"sched": true, "frameworkexthelper": true})))
	}
	emitCalls("bootForceSync", "ForceSyncFromInformer: registers, then collects the registration", e.funcDecl(helper, "", "ForceSyncFromInformer"),
		"AddEventHandler", "AddEventHandlerWithResyncPeriod", "addRegistration")
	emitCalls("bootWrapperAdd", "forceSyncsharedIndexInformer.AddEventHandlerWithResyncPeriod (kube factory wrapper): registers, then collects",
		e.funcDecl(helper, "forceSyncsharedIndexInformer", "AddEventHandlerWithResyncPeriod"), "AddEventHandler", "AddEventHandlerWithResyncPeriod", "addRegistration")
	emitCalls("bootWrapperAddPlain", "forceSyncsharedIndexInformer.AddEventHandler goes through the collecting method",
		e.funcDecl(helper, "forceSyncsharedIndexInformer", "AddEventHandler"), "AddEventHandler", "AddEventHandlerWithResyncPeriod", "addRegistration")
	emitCalls("bootBarrier", "WaitForHandlersSync: polls HasSynced of every collected registration", e.funcDecl(helper, "", "WaitForHandlersSync"),
		"GetRegistrations", "HasSynced", "PollUntilContextCancel")
	emitCalls("bootServerOrder", "cmd/koord-scheduler/app Run: informer start / store sync / handler barriers / scheduling loop, in source order",
		e.funcDecl("cmd/koord-scheduler/app", "", "Run"),
		"Start", "WaitForCacheSync", "sched.WaitForHandlersSync", "frameworkexthelper.WaitForHandlersSync", "sched.Run",
		"frameworkexthelper.RunAfterPluginInformersSynced", "frameworkexthelper.RunAfterAllInformersSynced")
	// the kube informer factory handed to the plugins is the collecting wrapper
	wrapped := false
	if fd := e.funcDecl("cmd/koord-scheduler/app/options", "Options", "Config"); fd != nil && fd.Body != nil {
		ast.Inspect(fd.Body, func(n ast.Node) bool {
			if as, ok := n.(*ast.AssignStmt); ok && len(as.Lhs) == 1 && len(as.Rhs) == 1 && c19Render(as.Lhs[0]) == "config.InformerFactory" {
				if c, ok := as.Rhs[0].(*ast.CallExpr); ok && c19CalleeName(c) == "NewForceSyncSharedInformerFactory" {
					wrapped = true
				}
			}
			return true
		})
	} else {
		e.fail("Options.Config not found")
	}
	fmt.Fprintf(&e.out, "/-- options.Config wraps config.InformerFactory with NewForceSyncSharedInformerFactory -/\ndef bootKubeFactoryWrapped : Bool := %v\n", wrapped)
}

// ---- ext5: the WRITE side of PreBind ----

// c19ParamUses: for every occurrence of the identifier `param` inside body, in source order, the name of the innermost
// call that has it as a direct argument or as its receiver ("?" when it is used in any other way).
func c19ParamUses(body ast.Node, param string) []string {
	type use struct {
		pos  token.Pos
		name string
	}
	owner := map[*ast.Ident]string{}
	ast.Inspect(body, func(n ast.Node) bool {
		c, ok := n.(*ast.CallExpr)
		if !ok {
			return true
		}
		for _, a := range c.Args {
			if id, ok := a.(*ast.Ident); ok && id.Name == param {
				owner[id] = c19CalleeName(c)
			}
		}
		if sel, ok := c.Fun.(*ast.SelectorExpr); ok {
			if id, ok := sel.X.(*ast.Ident); ok && id.Name == param {
				owner[id] = sel.Sel.Name
			}
		}
		return true
	})
	var uses []use
	ast.Inspect(body, func(n ast.Node) bool {
		if id, ok := n.(*ast.Ident); ok && id.Name == param {
			name, ok := owner[id]
			if !ok {
				name = "?"
			}
			uses = append(uses, use{id.Pos(), name})
		}
		return true
	})
	sort.Slice(uses, func(i, j int) bool { return uses[i].pos < uses[j].pos })
	var out []string
	for _, u := range uses {
		out = append(out, u.name)
	}
	return out
}

func c19NthParam(fd *ast.FuncDecl, n int) string {
	i := 0
	for _, f := range fd.Type.Params.List {
		for _, nm := range f.Names {
			if i == n {
				return nm.Name
			}
			i++
		}
		if len(f.Names) == 0 {
			i++
		}
	}
	return ""
}

func c19PreBindFacts(e *ext) {
	// how preBindObject(ctx, cycleState, object, nodeName) uses the object it persists on: it is handed to the
	// writers only, never read (a read = the written value could depend on what the object already carries)
	for _, x := range []struct{ dir, lean, doc string }{
		{"pkg/scheduler/plugins/nodenumaresource", "numaPreBindObjectUses", "nodenumaresource preBindObject: every use of the persisted-on object, in source order (innermost call taking it)"},
		{"pkg/scheduler/plugins/deviceshare", "devPreBindObjectUses", "deviceshare preBindObject: every use of the persisted-on object, in source order: the annotation is written BEFORE the device-plugin adaption"},
	} {
		fd := e.funcDecl(x.dir, "Plugin", "preBindObject")
		if fd == nil || fd.Body == nil || c19NthParam(fd, 2) == "" {
			e.fail("%s preBindObject not found / unexpected signature", x.dir)
			continue
		}
		fmt.Fprintf(&e.out, "/-- %s -/\ndef %s : List String := %s\n", x.doc, x.lean, c19StrList(c19ParamUses(fd.Body, c19NthParam(fd, 2))))
	}
	// the device-plugin adapters READ the allocation: no assignment through the allocation parameter of any Adapt
	// method (or through a range variable over it)
	var writes []string
	nAdapt := 0
	for _, f := range e.dir("pkg/scheduler/plugins/deviceshare") {
		for _, d := range f.Decls {
			fd, ok := d.(*ast.FuncDecl)
			if !ok || fd.Name.Name != "Adapt" || fd.Recv == nil || fd.Body == nil {
				continue
			}
			nAdapt++
			recv := c19Render(fd.Recv.List[0].Type)
			tainted := map[string]bool{}
			if p := c19NthParam(fd, 2); p != "" && p != "_" {
				tainted[p] = true
			}
			ast.Inspect(fd.Body, func(n ast.Node) bool {
				if rs, ok := n.(*ast.RangeStmt); ok {
					root := c19Render(rs.X)
					for t := range tainted {
						if root == t || strings.HasPrefix(root, t+"[") || strings.HasPrefix(root, t+".") {
							if id, ok := rs.Value.(*ast.Ident); ok && id.Name != "_" {
								tainted[id.Name] = true
							}
						}
					}
				}
				return true
			})
			isTainted := func(x ast.Expr) bool {
				l := c19Render(x)
				for t := range tainted {
					if strings.HasPrefix(l, t+"[") || strings.HasPrefix(l, t+".") || strings.HasPrefix(l, "*"+t) {
						return true
					}
				}
				return false
			}
			ast.Inspect(fd.Body, func(n ast.Node) bool {
				switch v := n.(type) {
				case *ast.AssignStmt:
					if v.Tok != token.DEFINE {
						for _, l := range v.Lhs {
							if isTainted(l) {
								writes = append(writes, recv+":"+c19Render(l))
							}
						}
					}
				case *ast.IncDecStmt:
					if isTainted(v.X) {
						writes = append(writes, recv+":"+c19Render(v.X))
					}
				}
				return true
			})
		}
	}
	sort.Strings(writes)
	fmt.Fprintf(&e.out, "/-- assignments through the allocation parameter inside the device-plugin adapters' Adapt methods (sorted) -/\ndef devAdaptersWriteAllocation : List String := %s\n", c19StrList(writes))
	fmt.Fprintf(&e.out, "/-- number of Adapt methods inspected -/\ndef devAdaptersCount : Nat := %d\n", nAdapt)
}
