package main

import (
	"fmt"
	"go/ast"
	"strings"
)

// call-name table of the elasticquota facts (the Lean side refers to the numbers; keep in sync with Ties/C19.lean)
var c19Calls = map[string]int{
	"shouldBeIgnored":                   1,
	"getQuotaInfoByNameNoLock":          2,
	"IsPodExist":                        3,
	"updatePodCacheNoLock":              4,
	"updatePodRequestNoLock":            5,
	"IsPodTerminated":                   6,
	"CheckPodIsAssigned":                7,
	"updatePodIsAssignedNoLock":         8,
	"updatePodUsedNoLock":               9,
	"getPodIsAssignedNoLock":            10,
	"getPodAssociateQuotaNameAndTreeID": 11,
	"GetGroupQuotaManagerForTree":       12,
	"OnPodAdd":                          13,
	"OnPodUpdate":                       14,
	"OnPodDelete":                       15,
	"GetQuotaName":                      16,
	"Enabled":                           17,
	"ElasticQuotas":                     18,
	"Get":                               19,
	"ByIndex":                           20,
	"MigratePod":                        21,
	"GetQuotaInfoByName":                22,
	"GetPodCache":                       23,
	"GetTreeID":                         24,
	"ReservePod":                        25,
	"UnreservePod":                      26,
	"deleteQuotaToTreeMap":              27,
	"DeleteQuota":                       28,
	"updateQuotaToTreeMap":              29,
	"UpdateQuota":                       30,
	"NewGroupQuotaManager":              31,
	"UpdateQuotaInfo":                   32,
	"ResetQuota":                        33,
	"addPodIfNotPresent":                34,
	"removePodIfPresent":                35,
	"refreshPodIfPresent":               36,
	"getCachedPod":                      37,
}

func c19CallSeq(fd *ast.FuncDecl) []int {
	var out []int
	ast.Inspect(fd.Body, func(n ast.Node) bool {
		if c, ok := n.(*ast.CallExpr); ok {
			name := ""
			switch f := c.Fun.(type) {
			case *ast.SelectorExpr:
				name = f.Sel.Name
			case *ast.Ident:
				name = f.Name
			}
			if k, ok := c19Calls[name]; ok {
				out = append(out, k)
			}
		}
		return true
	})
	return out
}

func c19Ints(xs []int) string {
	var p []string
	for _, x := range xs {
		p = append(p, fmt.Sprint(x))
	}
	return "[" + strings.Join(p, ", ") + "]"
}

func init() {
	extractors["C19"] = func(e *ext) {
		// the only numeric constant of the CPU-set codec: Parse rejects a range ending above it
		e.constInt("pkg/util/cpuset", "maxAvailableCPUCount", "maxAvailableCPUCount")

		// --- elasticquota part: call structure (in source order) of the functions Model/C19Quota.lean mirrors
		seq := func(dir, recv, fn, lean, doc string) {
			fd := e.funcDecl(dir, recv, fn)
			if fd == nil || fd.Body == nil {
				e.fail("%s.%s not found", recv, fn)
				return
			}
			fmt.Fprintf(&e.out, "/-- %s -/\ndef %s : List Nat := %s\n", doc, lean, c19Ints(c19CallSeq(fd)))
		}
		core := "pkg/scheduler/plugins/elasticquota/core"
		plug := "pkg/scheduler/plugins/elasticquota"
		seq(core, "GroupQuotaManager", "MigratePod", "qMigratePod", "core MigratePod: calls in source order (table in harness/extract/facts_c19.go)")
		seq(core, "GroupQuotaManager", "OnPodAdd", "qOnPodAdd", "core OnPodAdd incl. the fail-over branch")
		seq(core, "GroupQuotaManager", "OnPodUpdate", "qOnPodUpdate", "core OnPodUpdate, all branches")
		seq(core, "GroupQuotaManager", "OnPodDelete", "qOnPodDelete", "core OnPodDelete")
		seq(core, "GroupQuotaManager", "ReservePod", "qReservePod", "core ReservePod")
		seq(core, "GroupQuotaManager", "UnreservePod", "qUnreservePod", "core UnreservePod")
		seq(core, "GroupQuotaManager", "updatePodCacheNoLock", "qUpdatePodCache", "core updatePodCacheNoLock")
		seq(plug, "Plugin", "OnPodAdd", "qPlOnPodAdd", "plugin OnPodAdd")
		seq(plug, "Plugin", "OnPodUpdate", "qPlOnPodUpdate", "plugin OnPodUpdate")
		seq(plug, "Plugin", "handlePodDelete", "qPlHandlePodDelete", "plugin handlePodDelete")
		seq(plug, "Plugin", "getPodAssociateQuotaNameAndTreeID", "qPlResolve", "plugin getPodAssociateQuotaNameAndTreeID")
		seq(plug, "Plugin", "GetQuotaName", "qPlGetQuotaName", "plugin GetQuotaName")
		seq(plug, "Plugin", "migrateDefaultQuotaGroupsPod", "qPlMigrate", "plugin migrateDefaultQuotaGroupsPod")
		seq(plug, "Plugin", "Reserve", "qPlReserve", "plugin Reserve")
		seq(plug, "Plugin", "Unreserve", "qPlUnreserve", "plugin Unreserve")
		seq(plug, "Plugin", "OnQuotaAdd", "qPlOnQuotaAdd", "plugin OnQuotaAdd")
		seq(plug, "Plugin", "OnQuotaDelete", "qPlOnQuotaDelete", "plugin OnQuotaDelete")
		seq(plug, "Plugin", "ReplaceQuotas", "qPlReplaceQuotas", "plugin ReplaceQuotas")

		// the fall-back group of getPodAssociateQuotaNameAndTreeID / GetQuotaName is extension.DefaultQuotaName
		fallback := func(fn string) bool {
			fd := e.funcDecl(plug, "Plugin", fn)
			if fd == nil || fd.Body == nil {
				e.fail("Plugin.%s not found", fn)
				return false
			}
			all, n := true, 0
			ast.Inspect(fd.Body, func(x ast.Node) bool {
				r, ok := x.(*ast.ReturnStmt)
				if !ok {
					return true
				}
				for _, res := range r.Results {
					if sel, ok := res.(*ast.SelectorExpr); ok {
						if id, ok := sel.X.(*ast.Ident); ok && id.Name == "extension" {
							n++
							if sel.Sel.Name != "DefaultQuotaName" {
								all = false
							}
						}
					}
				}
				return true
			})
			return all && n > 0
		}
		fmt.Fprintf(&e.out, "/-- every `extension.X` constant returned by the two resolution functions is DefaultQuotaName -/\n")
		fmt.Fprintf(&e.out, "def qFallbackIsDefault : Bool := %v\n", fallback("getPodAssociateQuotaNameAndTreeID") && fallback("GetQuotaName"))

		// feature-gate defaults the model assumes (all off)
		gates := []string{"MultiQuotaTree", "DisableDefaultQuota", "ElasticQuotaIgnoreTerminatingPod", "ElasticQuotaImmediateIgnoreTerminatingPod"}
		off := map[string]bool{}
		for _, f := range e.dir("pkg/features") {
			ast.Inspect(f, func(x ast.Node) bool {
				kv, ok := x.(*ast.KeyValueExpr)
				if !ok {
					return true
				}
				id, ok := kv.Key.(*ast.Ident)
				if !ok {
					return true
				}
				cl, ok := kv.Value.(*ast.CompositeLit)
				if !ok {
					return true
				}
				for _, el := range cl.Elts {
					if kv2, ok := el.(*ast.KeyValueExpr); ok {
						if k, ok := kv2.Key.(*ast.Ident); ok && k.Name == "Default" {
							if v, ok := kv2.Value.(*ast.Ident); ok {
								if v.Name == "false" {
									if _, seen := off[id.Name]; !seen {
										off[id.Name] = true
									}
								} else {
									off[id.Name] = false
								}
							}
						}
					}
				}
				return true
			})
		}
		allOff := true
		for _, g := range gates {
			if !off[g] {
				allOff = false
			}
		}
		fmt.Fprintf(&e.out, "/-- MultiQuotaTree, DisableDefaultQuota, ElasticQuota(Immediate)IgnoreTerminatingPod default to false everywhere they are declared -/\n")
		fmt.Fprintf(&e.out, "def qGatesOff : Bool := %v\n", allOff)
	}
}
