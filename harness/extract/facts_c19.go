package main

func init() {
	extractors["C19"] = func(e *ext) {
		// the only numeric constant of the CPU-set codec: Parse rejects a range ending above it
		e.constInt("pkg/util/cpuset", "maxAvailableCPUCount", "maxAvailableCPUCount")
	}
}
