package main

import (
	"bytes"
	"fmt"
	"go/ast"
	"go/printer"
	"go/token"
	"regexp"
	"sort"
	"strings"
)

var c03Ident = regexp.MustCompile(`[A-Za-z_][A-Za-z0-9_]*`)

// c03Fn: the local names of one function and the locals that are assigned exactly once by `x := expr` / `x = expr`
// (those are inlined, so that the emitted facts do not depend on local names or on the order of declarations).
type c03Fn struct {
	locals map[string]bool
	count  map[string]int
	defs   map[string]ast.Expr
}

func c03Info(fd *ast.FuncDecl) *c03Fn {
	fi := &c03Fn{locals: map[string]bool{}, count: map[string]int{}, defs: map[string]ast.Expr{}}
	if fd == nil {
		return fi
	}
	fixed := func(id *ast.Ident) {
		if id != nil && id.Name != "_" {
			fi.locals[id.Name] = true
			fi.count[id.Name] += 2
		}
	}
	if fd.Recv != nil {
		for _, f := range fd.Recv.List {
			for _, n := range f.Names {
				fixed(n)
			}
		}
	}
	for _, f := range fd.Type.Params.List {
		for _, n := range f.Names {
			fixed(n)
		}
	}
	if fd.Type.Results != nil {
		for _, f := range fd.Type.Results.List {
			for _, n := range f.Names {
				fixed(n)
			}
		}
	}
	ast.Inspect(fd.Body, func(n ast.Node) bool {
		switch v := n.(type) {
		case *ast.AssignStmt:
			for _, l := range v.Lhs {
				id, ok := l.(*ast.Ident)
				if !ok || id.Name == "_" {
					continue
				}
				if v.Tok == token.DEFINE {
					fi.locals[id.Name] = true
				}
				if len(v.Lhs) == 1 && len(v.Rhs) == 1 && (v.Tok == token.DEFINE || v.Tok == token.ASSIGN) {
					fi.count[id.Name]++
					fi.defs[id.Name] = v.Rhs[0]
				} else {
					fi.count[id.Name] += 2
				}
			}
		case *ast.RangeStmt:
			if id, ok := v.Key.(*ast.Ident); ok {
				fixed(id)
			}
			if id, ok := v.Value.(*ast.Ident); ok {
				fixed(id)
			}
		case *ast.ValueSpec:
			for _, id := range v.Names {
				fixed(id)
			}
		case *ast.IncDecStmt:
			if id, ok := v.X.(*ast.Ident); ok {
				fi.count[id.Name] += 2
			}
		}
		return true
	})
	return fi
}

// c03Alpha renames the remaining locals (marked §name) to a, b, c ... by first appearance within one fact.
func c03Alpha(xs []string) []string {
	names := map[string]string{}
	re := regexp.MustCompile(`§[A-Za-z_][A-Za-z0-9_]*`)
	out := make([]string, len(xs))
	for i, x := range xs {
		out[i] = re.ReplaceAllStringFunc(x, func(m string) string {
			if _, ok := names[m]; !ok {
				names[m] = "$" + string(rune('a'+len(names)%26))
				if len(names) > 26 {
					names[m] += fmt.Sprint(len(names) / 26)
				}
			}
			return names[m]
		})
	}
	return out
}

// C03: syntactic facts of the elasticquota plugin that the model relies on (expectations: Ties/C03.lean).
//   - PreFilter: order of refresh / snapshot / mask / leaf check / non-preemptible check / hook check / ancestor walk,
//     the operands of the two comparisons, the switches guarding refresh and walk, the status codes returned;
//   - getQuotaInfoUsedLimit: runtime switch -> GetRuntime, else GetMax;
//   - checkQuotaRecursive: root test, lookup, masked sum, comparison, recursion on ParentName;
//   - Reserve / Unreserve -> ReservePod / UnreservePod, their guards, call order and the write lock;
//   - UpdateQuota dispatch (meta unchanged / parent changed / reset), IsQuotaMetaChange's fields;
//   - the "is the update applied" gate: IsQuotaChange's comparisons with their operands as written (sorted), and where
//     OnQuotaUpdate / UpdateQuota return on "no change";
//   - the used side of deleteQuotaNoLock, updateQuotaNoLockWhenParentChange and rebuildAllGroupQuotaNoLock:
//     guards and operands of every updateGroupDeltaUsedNoLock call, what the rebuild saves, what the reset clears.
func init() {
	extractors["C03"] = func(e *ext) {
		plug := "pkg/scheduler/plugins/elasticquota"
		core := "pkg/scheduler/plugins/elasticquota/core"

		raw := func(n ast.Node) string {
			var b bytes.Buffer
			if err := printer.Fprint(&b, e.fset, n); err != nil {
				return "?"
			}
			return strings.Join(strings.Fields(b.String()), " ")
		}
		var cur *c03Fn // the function whose facts are being emitted
		var render func(n ast.Node, depth int) string
		render = func(n ast.Node, depth int) string {
			text := raw(n)
			if cur == nil {
				return text
			}
			var b strings.Builder
			last := 0
			for _, loc := range c03Ident.FindAllStringIndex(text, -1) {
				tok := text[loc[0]:loc[1]]
				b.WriteString(text[last:loc[0]])
				last = loc[1]
				if (loc[0] > 0 && text[loc[0]-1] == '.') || !cur.locals[tok] {
					b.WriteString(tok)
					continue
				}
				if d := cur.defs[tok]; d != nil && cur.count[tok] == 1 && depth < 8 {
					r := render(d, depth+1)
					if _, bin := d.(*ast.BinaryExpr); bin {
						r = "(" + r + ")"
					}
					b.WriteString(r)
				} else {
					b.WriteString("§" + tok)
				}
			}
			b.WriteString(text[last:])
			return b.String()
		}
		src := func(n ast.Node) string { return render(n, 0) }
		callName := func(c *ast.CallExpr) string {
			switch f := c.Fun.(type) {
			case *ast.SelectorExpr:
				return f.Sel.Name
			case *ast.Ident:
				return f.Name
			}
			return ""
		}
		get := func(dir, recv, fn string) *ast.FuncDecl {
			fd := e.funcDecl(dir, recv, fn)
			if fd == nil || fd.Body == nil {
				e.fail("%s.%s not found", recv, fn)
				cur = c03Info(nil)
				return nil
			}
			cur = c03Info(fd)
			return fd
		}
		// walk with the stack of enclosing nodes
		walk := func(root ast.Node, f func(n ast.Node, stack []ast.Node)) {
			var stack []ast.Node
			ast.Inspect(root, func(n ast.Node) bool {
				if n == nil {
					stack = stack[:len(stack)-1]
					return true
				}
				f(n, stack)
				stack = append(stack, n)
				return true
			})
		}
		// conditions of the if statements a node sits in (outermost first); "else:" prefix for an else branch
		guards := func(n ast.Node, stack []ast.Node) []string {
			var out []string
			for _, s := range stack {
				ifs, ok := s.(*ast.IfStmt)
				if !ok {
					continue
				}
				if n.Pos() >= ifs.Body.Pos() && n.End() <= ifs.Body.End() {
					out = append(out, src(ifs.Cond))
				} else if ifs.Else != nil && n.Pos() >= ifs.Else.Pos() && n.End() <= ifs.Else.End() {
					out = append(out, "else:"+src(ifs.Cond))
				}
			}
			return out
		}
		strList := func(xs []string) string {
			q := make([]string, len(xs))
			for i, x := range xs {
				q[i] = leanStr(x)
			}
			return "[" + strings.Join(q, ", ") + "]"
		}
		emitList := func(name, doc string, xs []string) {
			fmt.Fprintf(&e.out, "/-- %s -/\ndef %s : List String := %s\n\n", doc, name, strList(c03Alpha(xs)))
		}
		// calls of the given names, in source order
		callSeq := func(fd *ast.FuncDecl, names ...string) []string {
			var out []string
			if fd == nil {
				return out
			}
			want := map[string]bool{}
			for _, n := range names {
				want[n] = true
			}
			ast.Inspect(fd.Body, func(n ast.Node) bool {
				if c, ok := n.(*ast.CallExpr); ok && want[callName(c)] {
					out = append(out, callName(c))
				}
				return true
			})
			return out
		}
		// every call of `name`: "guard1 && guard2 => arg1 | arg2 | ..."
		callsWithGuards := func(fd *ast.FuncDecl, name string) []string {
			var out []string
			cur = c03Info(fd)
			if fd == nil {
				return out
			}
			walk(fd.Body, func(n ast.Node, stack []ast.Node) {
				c, ok := n.(*ast.CallExpr)
				if !ok || callName(c) != name {
					return
				}
				var args []string
				for _, a := range c.Args {
					args = append(args, src(a))
				}
				out = append(out, strings.Join(guards(n, stack), " ; ")+" => "+strings.Join(args, " | "))
			})
			return out
		}
		// status codes (fwktype.X inside NewStatus) in source order
		statusCodes := func(fd *ast.FuncDecl) []string {
			var out []string
			if fd == nil {
				return out
			}
			ast.Inspect(fd.Body, func(n ast.Node) bool {
				if c, ok := n.(*ast.CallExpr); ok && callName(c) == "NewStatus" && len(c.Args) >= 1 {
					if se, ok := c.Args[0].(*ast.SelectorExpr); ok {
						out = append(out, se.Sel.Name)
					} else {
						out = append(out, src(c.Args[0]))
					}
				}
				return true
			})
			return out
		}
		firstLock := func(fd *ast.FuncDecl) string {
			kind := "none"
			if fd == nil {
				return kind
			}
			ast.Inspect(fd.Body, func(n ast.Node) bool {
				if kind != "none" {
					return false
				}
				if c, ok := n.(*ast.CallExpr); ok {
					if se, ok := c.Fun.(*ast.SelectorExpr); ok && (se.Sel.Name == "Lock" || se.Sel.Name == "RLock") {
						if in, ok := se.X.(*ast.SelectorExpr); ok && in.Sel.Name == "hierarchyUpdateLock" {
							kind = se.Sel.Name
						}
					}
				}
				return true
			})
			return kind
		}

		// ---- PreFilter
		pf := get(plug, "Plugin", "PreFilter")
		emitList("preFilterOrder", "PreFilter: the calls that make the decision, in source order",
			callSeq(pf, "RefreshRuntime", "snapshotPostFilterState", "Mask", "LessThanOrEqual", "IsPodNonPreemptible", "CheckPod", "checkQuotaRecursive"))
		emitList("preFilterMask", "PreFilter: guards => operands of quotav1.Mask", callsWithGuards(pf, "Mask"))
		emitList("preFilterLeq", "PreFilter: guards => operands of every quotav1.LessThanOrEqual", callsWithGuards(pf, "LessThanOrEqual"))
		emitList("preFilterRefresh", "PreFilter: guards => operands of RefreshRuntime", callsWithGuards(pf, "RefreshRuntime"))
		emitList("preFilterWalk", "PreFilter: guards => operands of checkQuotaRecursive", callsWithGuards(pf, "checkQuotaRecursive"))
		emitList("preFilterStatus", "PreFilter: status codes of the NewStatus calls in source order", statusCodes(pf))
		// ---- snapshotPostFilterState: fields of the snapshot
		var snap []string
		if fd := get(plug, "Plugin", "snapshotPostFilterState"); fd != nil {
			ast.Inspect(fd.Body, func(n ast.Node) bool {
				if kv, ok := n.(*ast.KeyValueExpr); ok {
					snap = append(snap, raw(kv.Key)+": "+src(kv.Value))
				}
				return true
			})
		}
		emitList("snapshotFields", "snapshotPostFilterState: the PostFilterState literal", snap)

		// ---- getQuotaInfoUsedLimit
		var lim []string
		if fd := get(plug, "Plugin", "getQuotaInfoUsedLimit"); fd != nil {
			walk(fd.Body, func(n ast.Node, stack []ast.Node) {
				if r, ok := n.(*ast.ReturnStmt); ok && len(r.Results) == 1 {
					lim = append(lim, strings.Join(guards(n, stack), " ; ")+" => "+src(r.Results[0]))
				}
			})
		}
		emitList("usedLimitTable", "getQuotaInfoUsedLimit: guard => returned list", lim)

		// ---- checkQuotaRecursive
		cr := get(plug, "Plugin", "checkQuotaRecursive")
		emitList("walkOrder", "checkQuotaRecursive: calls in source order",
			callSeq(cr, "GetQuotaInfoByName", "GetUsed", "getQuotaInfoUsedLimit", "Mask", "LessThanOrEqual", "checkQuotaRecursive"))
		emitList("walkStatus", "checkQuotaRecursive: status codes in source order", statusCodes(cr))
		emitList("walkMask", "checkQuotaRecursive: operands of Mask", callsWithGuards(cr, "Mask"))
		emitList("walkLeq", "checkQuotaRecursive: operands of LessThanOrEqual", callsWithGuards(cr, "LessThanOrEqual"))
		emitList("walkRec", "checkQuotaRecursive: operands of the recursive call", callsWithGuards(cr, "checkQuotaRecursive"))
		var firstIf []string
		cur = c03Info(cr)
		if cr != nil {
			for _, st := range cr.Body.List {
				if ifs, ok := st.(*ast.IfStmt); ok {
					firstIf = append(firstIf, src(ifs.Cond))
				}
			}
		}
		emitList("walkIfs", "checkQuotaRecursive: conditions of its top-level if statements", firstIf)

		// ---- Reserve / Unreserve
		emitList("reserveCalls", "Plugin.Reserve: manager calls", callSeq(get(plug, "Plugin", "Reserve"), "ReservePod", "UnreservePod"))
		emitList("unreserveCalls", "Plugin.Unreserve: manager calls", callSeq(get(plug, "Plugin", "Unreserve"), "ReservePod", "UnreservePod"))
		rp, up := get(core, "GroupQuotaManager", "ReservePod"), get(core, "GroupQuotaManager", "UnreservePod")
		ifConds := func(fd *ast.FuncDecl) []string {
			var out []string
			cur = c03Info(fd)
			if fd == nil {
				return out
			}
			for _, st := range fd.Body.List {
				if ifs, ok := st.(*ast.IfStmt); ok {
					out = append(out, src(ifs.Cond))
				}
			}
			return out
		}
		emitList("reservePodGuard", "ReservePod: early-return condition", ifConds(rp))
		emitList("unreservePodGuard", "UnreservePod: early-return condition", ifConds(up))
		both := func(fd *ast.FuncDecl) []string {
			var out []string
			cur = c03Info(fd)
			if fd == nil {
				return out
			}
			ast.Inspect(fd.Body, func(n ast.Node) bool {
				if c, ok := n.(*ast.CallExpr); ok && (callName(c) == "updatePodIsAssignedNoLock" || callName(c) == "updatePodUsedNoLock") {
					var args []string
					for _, a := range c.Args {
						args = append(args, src(a))
					}
					out = append(out, callName(c)+"("+strings.Join(args, ", ")+")")
				}
				return true
			})
			return out
		}
		emitList("reservePodBody", "ReservePod: the two updates in source order", both(rp))
		emitList("unreservePodBody", "UnreservePod: the two updates in source order", both(up))
		var locks []string
		for _, fn := range []string{"ReservePod", "UnreservePod", "UpdateQuota", "OnPodAdd", "OnPodDelete", "GetQuotaInfoByName", "RefreshRuntime"} {
			locks = append(locks, fn+":"+firstLock(get(core, "GroupQuotaManager", fn)))
		}
		emitList("hierarchyLocks", "first hierarchyUpdateLock operation of each entry point", locks)

		// ---- updatePodUsedNoLock: mask and delta
		pu := get(core, "GroupQuotaManager", "updatePodUsedNoLock")
		emitList("podUsedMask", "updatePodUsedNoLock: operands of Mask", callsWithGuards(pu, "Mask"))
		emitList("podUsedDelta", "updatePodUsedNoLock: operands of updateGroupDeltaUsedNoLock", callsWithGuards(pu, "updateGroupDeltaUsedNoLock"))

		// ---- UpdateQuota dispatch
		uq := get(core, "GroupQuotaManager", "UpdateQuota")
		emitList("updateQuotaOrder", "UpdateQuota: dispatch calls in source order",
			callSeq(uq, "IsQuotaMetaChange", "IsQuotaParentChange", "updateQuotaInternalNoLock", "updateQuotaNoLockWhenParentChange", "updateQuotaInfoFromRemote", "resetQuotaNoLock"))
		var disp []string
		for _, nm := range []string{"updateQuotaInternalNoLock", "updateQuotaNoLockWhenParentChange", "updateQuotaInfoFromRemote"} {
			for _, s := range callsWithGuards(uq, nm) {
				disp = append(disp, nm+": "+s)
			}
		}
		emitList("updateQuotaGuards", "UpdateQuota: guards => operands of the dispatch targets", disp)
		var meta []string
		if fd := get(core, "QuotaInfo", "IsQuotaMetaChange"); fd != nil {
			ast.Inspect(fd.Body, func(n ast.Node) bool {
				if b, ok := n.(*ast.BinaryExpr); ok && b.Op == token.NEQ {
					meta = append(meta, src(b.X)+" != "+src(b.Y))
				}
				return true
			})
		}
		emitList("metaFields", "IsQuotaMetaChange: the compared fields", meta)
		var par []string
		if fd := get(core, "QuotaInfo", "IsQuotaParentChange"); fd != nil {
			ast.Inspect(fd.Body, func(n ast.Node) bool {
				if b, ok := n.(*ast.BinaryExpr); ok && b.Op == token.NEQ {
					par = append(par, src(b.X)+" != "+src(b.Y))
				}
				return true
			})
		}
		emitList("parentFields", "IsQuotaParentChange: the compared fields", par)

		// ---- the "is the update applied at all" gate: IsQuotaChange, and its two callers
		var chg []string
		if fd := get(core, "QuotaInfo", "IsQuotaChange"); fd != nil {
			ast.Inspect(fd.Body, func(n ast.Node) bool {
				switch x := n.(type) {
				case *ast.BinaryExpr:
					if x.Op == token.NEQ {
						chg = append(chg, src(x.X)+" != "+src(x.Y))
					}
				case *ast.IfStmt:
					// `if !quotav1.Equals(a, b) { return true }`: the operands as written (a wrapper such as RemoveZeros shows)
					if u, ok := x.Cond.(*ast.UnaryExpr); ok && u.Op == token.NOT {
						if c, ok := u.X.(*ast.CallExpr); ok && len(c.Args) == 2 {
							ret := "?"
							if len(x.Body.List) == 1 {
								ret = src(x.Body.List[0])
							}
							chg = append(chg, "!"+callName(c)+"("+src(c.Args[0])+", "+src(c.Args[1])+") => "+ret)
						}
					}
				case *ast.ReturnStmt:
					if len(x.Results) == 1 {
						if id, ok := x.Results[0].(*ast.Ident); ok && id.Name == "false" {
							chg = append(chg, "otherwise => return false")
						}
					}
				}
				return true
			})
		}
		// each entry returns true on a difference, so their order carries no meaning: canonical order
		sort.Slice(chg, func(i, j int) bool { return c03Alpha(chg[i : i+1])[0] < c03Alpha(chg[j : j+1])[0] })
		emitList("changeGate", "IsQuotaChange: the comparisons (operands as written), sorted", chg)
		var gate []string
		for _, g := range callsWithGuards(get(plug, "Plugin", "OnQuotaUpdate"), "IsQuotaChange") {
			gate = append(gate, "OnQuotaUpdate: "+g)
		}
		oqu := get(plug, "Plugin", "OnQuotaUpdate")
		if oqu != nil {
			walk(oqu.Body, func(n ast.Node, stack []ast.Node) {
				if ifs, ok := n.(*ast.IfStmt); ok && strings.Contains(raw(ifs.Cond), "IsQuotaChange") {
					body := []string{}
					for _, st := range ifs.Body.List {
						if _, ok := st.(*ast.ReturnStmt); ok {
							body = append(body, "return")
						}
					}
					gate = append(gate, "OnQuotaUpdate: if "+src(ifs.Cond)+" => "+strings.Join(body, ";"))
				}
			})
		}
		for _, g := range callSeq(oqu, "IsQuotaChange", "UpdateQuota") {
			gate = append(gate, "OnQuotaUpdate calls "+g)
		}
		uq2 := get(core, "GroupQuotaManager", "UpdateQuota")
		if uq2 != nil {
			walk(uq2.Body, func(n ast.Node, stack []ast.Node) {
				if ifs, ok := n.(*ast.IfStmt); ok && strings.Contains(raw(ifs.Cond), "IsQuotaChange") {
					body := []string{}
					for _, st := range ifs.Body.List {
						body = append(body, src(st))
					}
					gate = append(gate, "UpdateQuota: "+strings.Join(guards(n, stack), " ; ")+" ; if "+src(ifs.Cond)+" => "+strings.Join(body, ";"))
				}
			})
		}
		emitList("updateGate", "OnQuotaUpdate / UpdateQuota: where IsQuotaChange decides that an update is dropped", gate)
		var inner []string
		uqi := get(core, "GroupQuotaManager", "updateQuotaInternalNoLock")
		for _, g := range callsWithGuards(uqi, "Equals") {
			inner = append(inner, "Equals"+g)
		}
		for _, nm := range []string{"doUpdateOneGroupMaxQuotaNoLock", "doUpdateOneGroupMinQuotaNoLock"} {
			for _, g := range callsWithGuards(uqi, nm) {
				inner = append(inner, nm+": "+g)
			}
		}
		emitList("internalGates", "updateQuotaInternalNoLock: operands of its Equals tests, and guards => operands of the max / min updates", inner)

		// ---- used side of delete / re-parent / rebuild
		emitList("deleteUsedDelta", "deleteQuotaNoLock: guards => operands of updateGroupDeltaUsedNoLock",
			callsWithGuards(get(core, "GroupQuotaManager", "deleteQuotaNoLock"), "updateGroupDeltaUsedNoLock"))
		wp := get(core, "GroupQuotaManager", "updateQuotaNoLockWhenParentChange")
		emitList("reparentUsedDelta", "updateQuotaNoLockWhenParentChange: guards => operands of updateGroupDeltaUsedNoLock",
			callsWithGuards(wp, "updateGroupDeltaUsedNoLock"))
		emitList("reparentOrder", "updateQuotaNoLockWhenParentChange: delete / re-create / deltas in source order",
			callSeq(wp, "deleteQuotaNoLock", "NewQuotaInfoFromQuota", "doUpdateOneGroupMaxQuotaNoLock", "doUpdateOneGroupMinQuotaNoLock", "updateGroupDeltaUsedNoLock"))
		rb := get(core, "GroupQuotaManager", "rebuildAllGroupQuotaNoLock")
		var saved []string
		cur = c03Info(rb)
		if rb != nil {
			walk(rb.Body, func(n ast.Node, stack []ast.Node) {
				as, ok := n.(*ast.AssignStmt)
				if !ok || len(as.Lhs) != 1 || len(as.Rhs) != 1 {
					return
				}
				ix, ok := as.Lhs[0].(*ast.IndexExpr)
				if !ok {
					return
				}
				if id, ok := ix.X.(*ast.Ident); !ok || !cur.locals[id.Name] {
					return
				}
				g := guards(n, stack)
				last := ""
				if len(g) > 0 {
					last = g[len(g)-1]
				}
				saved = append(saved, last+" => "+src(ix.X)+" = "+src(as.Rhs[0]))
			})
		}
		emitList("rebuildUsed", "rebuildAllGroupQuotaNoLock: what is saved per group before clearing, then the operands of updateGroupDeltaUsedNoLock",
			append(saved, callsWithGuards(rb, "updateGroupDeltaUsedNoLock")...))
		var cleared []string
		if fd := get(core, "QuotaInfo", "clearForResetNoLock"); fd != nil {
			ast.Inspect(fd.Body, func(n ast.Node) bool {
				if as, ok := n.(*ast.AssignStmt); ok && len(as.Lhs) == 1 {
					if se, ok := as.Lhs[0].(*ast.SelectorExpr); ok {
						cleared = append(cleared, se.Sel.Name)
					}
				}
				return true
			})
		}
		emitList("resetCleared", "clearForResetNoLock: the fields it clears", cleared)
		emitList("addUsedSelf", "addUsedNonNegativeNoLock: fields written, with the guard of the self part",
			func() []string {
				var out []string
				fd := get(core, "QuotaInfo", "addUsedNonNegativeNoLock")
				if fd == nil {
					return out
				}
				walk(fd.Body, func(n ast.Node, stack []ast.Node) {
					as, ok := n.(*ast.AssignStmt)
					if !ok || len(as.Lhs) != 1 || len(as.Rhs) != 1 {
						return
					}
					if _, ok := as.Lhs[0].(*ast.SelectorExpr); !ok {
						return
					}
					out = append(out, strings.Join(guards(n, stack), " ; ")+" => "+src(as.Lhs[0])+" = "+src(as.Rhs[0]))
				})
				return out
			}())
		emitList("usedDeltaLoop", "updateGroupDeltaUsedNoLock: operands of addUsedNonNegativeNoLock",
			callsWithGuards(get(core, "GroupQuotaManager", "updateGroupDeltaUsedNoLock"), "addUsedNonNegativeNoLock"))

		// ---- feature gate ElasticQuotaGuaranteeUsage ----
		// every function of the plugin and of its core package that consults the gate ("dir: Recv.func", sorted)
		var sites []string
		for _, d := range []string{plug, core} {
			files := e.dir(d)
			for _, f := range files {
				for _, decl := range f.Decls {
					fd, ok := decl.(*ast.FuncDecl)
					if !ok || fd.Body == nil {
						continue
					}
					hit := false
					ast.Inspect(fd.Body, func(n ast.Node) bool {
						if se, ok := n.(*ast.SelectorExpr); ok && se.Sel.Name == "ElasticQuotaGuaranteeUsage" {
							hit = true
						}
						return true
					})
					if !hit {
						continue
					}
					name := fd.Name.Name
					if fd.Recv != nil && len(fd.Recv.List) == 1 {
						t := fd.Recv.List[0].Type
						if st, ok := t.(*ast.StarExpr); ok {
							t = st.X
						}
						name = raw(t) + "." + name
					}
					sites = append(sites, d[strings.LastIndex(d, "/")+1:]+": "+name)
				}
			}
		}
		sort.Strings(sites)
		cur = nil
		emitList("guaranteeGateSites", "the functions of the plugin package and of core that consult the feature gate ElasticQuotaGuaranteeUsage, sorted", sites)
		// NewQuotaInfoFromQuota: every assignment of the allow-lent flag (guards => value) and the operands of NewQuotaInfo
		var lent []string
		if nq := get(core, "", "NewQuotaInfoFromQuota"); nq != nil {
			cur = nil // operands as written
			walk(nq.Body, func(n ast.Node, stack []ast.Node) {
				switch x := n.(type) {
				case *ast.AssignStmt:
					for i, l := range x.Lhs {
						if id, ok := l.(*ast.Ident); ok && id.Name == "allowLentResource" && i < len(x.Rhs) {
							lent = append(lent, strings.Join(guards(n, stack), " ; ")+" => "+raw(x.Rhs[i]))
						}
					}
				case *ast.CallExpr:
					if callName(x) == "NewQuotaInfo" {
						var args []string
						for _, a := range x.Args {
							args = append(args, raw(a))
						}
						lent = append(lent, "NewQuotaInfo: "+strings.Join(args, " | "))
					}
				}
			})
		}
		emitList("lentFromObject", "NewQuotaInfoFromQuota: guards => value of every assignment of allowLentResource, then the operands of NewQuotaInfo", lent)
	}
}
