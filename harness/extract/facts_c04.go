package main

import (
	"bytes"
	"fmt"
	"go/ast"
	"go/printer"
	"go/token"
	"sort"
	"strings"
)

// C04 facts (the glue the in-package harness mirrors by hand, and the shape the theorems rely on):
//   - coscheduling.go Coscheduling.Permit: per `case core.X` the pgMgr methods called in its body
//     (Success must release the group through AllowGangGroup);
//   - Coscheduling.{Unreserve,PostBind,AfterPostFilter}: the pgMgr method each delegates to;
//   - core.go PodGroupManager.Permit: the gang / cache methods it calls in source order, whether
//     addAssumedPod precedes the loop over the gang group, and how many Lock()/RLock() calls it
//     makes itself (0 = no cache-wide lock: the small-step theorem is the honest one);
//   - core.go NewPodGroupManager: the handlers wired to the pod and PodGroup informers;
//   - gang.go setChild: which of NodeName / WaitingForBindChildren / BoundChildren the guard of the
//     PendingChildren insertion mentions;
//   - gang.go lock structure of the methods that touch the four child sets (the small-step model's
//     critical sections): per method the number of gang.lock.Lock/RLock calls, of deferred and of
//     explicit Unlock/RUnlock calls, and whether a child-set map is mentioned before the first Lock.
//     One Lock + one deferred Unlock + no explicit Unlock + nothing before = the method is one section;
//   - gang.go isGangValidForPermit: every field / method it mentions (the model's validForPermit reads exactly
//     HasGangInit, GangMatchPolicy, MinRequiredNumber, the sizes of WaitingForBindChildren / BoundChildren and the
//     group's OnceResourceSatisfied — not WaitingGangIDs, BindingMemberPods or the representative pod, which the
//     model leaves out);  core.go Unreserve / AfterPostFilter: the gang / manager methods they call, in order;
//   - gang.go tryInitByPodConfig / tryInitByPodGroup: the test that guards the "gang is a group of its own"
//     fallback (`groupSlice = append(groupSlice, gang.Name)`): "len==0" or "nil" (the model's groupOrSelf is len==0).
//   - which match policy / mode is in force (the model's getMatchPolicy / resolvePolicy / normStrict):
//     apis/extension GetGangMatchPolicy statement by statement (it returns the annotation, else the alias annotation,
//     and no constant of its own); in tryInitByPodConfig / tryInitByPodGroup every assignment and every `if` condition
//     that mentions `matchPolicy` resp. `mode`, in source order (exact comparisons, fallback to
//     args.DefaultMatchPolicy resp. GangModeStrict, the value stored in the Gang); every comparison of
//     getGangMode() / getGangMatchPolicy() in core.go; the five string constants; the v1 defaulting of
//     DefaultMatchPolicy (only a nil pointer is replaced).
func init() {
	extractors["C04"] = func(e *ext) {
		plug := "pkg/scheduler/plugins/coscheduling"
		core := "pkg/scheduler/plugins/coscheduling/core"
		lst := func(xs []string) string {
			q := make([]string, len(xs))
			for i, x := range xs {
				q[i] = leanStr(x)
			}
			return "[" + strings.Join(q, ", ") + "]"
		}
		// names of methods called on a receiver expression ending in `.recvField` (e.g. cs.pgMgr.X(...))
		callsOn := func(n ast.Node, recvField string) []string {
			var out []string
			ast.Inspect(n, func(x ast.Node) bool {
				c, ok := x.(*ast.CallExpr)
				if !ok {
					return true
				}
				s, ok := c.Fun.(*ast.SelectorExpr)
				if !ok {
					return true
				}
				switch r := s.X.(type) {
				case *ast.SelectorExpr:
					if r.Sel.Name == recvField {
						out = append(out, s.Sel.Name)
					}
				case *ast.Ident:
					if r.Name == recvField {
						out = append(out, s.Sel.Name)
					}
				}
				return true
			})
			return out
		}

		// ---- plugin Permit ----
		var cases []string
		first := ""
		if fd := e.funcDecl(plug, "Coscheduling", "Permit"); fd != nil && fd.Body != nil {
			if cs := callsOn(fd.Body, "pgMgr"); len(cs) > 0 {
				first = cs[0]
			}
			ast.Inspect(fd.Body, func(x ast.Node) bool {
				cc, ok := x.(*ast.CaseClause)
				if !ok {
					return true
				}
				name := "default"
				if len(cc.List) == 1 {
					if s, ok := cc.List[0].(*ast.SelectorExpr); ok {
						name = s.Sel.Name
					}
				}
				var calls []string
				for _, st := range cc.Body {
					calls = append(calls, callsOn(st, "pgMgr")...)
				}
				cases = append(cases, fmt.Sprintf("(%s, %s)", leanStr(name), lst(calls)))
				return true
			})
		} else {
			e.fail("Coscheduling.Permit not found")
		}
		fmt.Fprintf(&e.out, "def pluginPermitFirstCall : String := %s\n", leanStr(first))
		fmt.Fprintf(&e.out, "def pluginPermitCases : List (String × List String) := [%s]\n", strings.Join(cases, ", "))

		// ---- delegating plugin methods ----
		var dels []string
		for _, m := range []string{"Unreserve", "PostBind", "AfterPostFilter"} {
			if fd := e.funcDecl(plug, "Coscheduling", m); fd != nil && fd.Body != nil {
				dels = append(dels, fmt.Sprintf("(%s, %s)", leanStr(m), lst(callsOn(fd.Body, "pgMgr"))))
			} else {
				e.fail("Coscheduling.%s not found", m)
			}
		}
		fmt.Fprintf(&e.out, "def pluginDelegates : List (String × List String) := [%s]\n", strings.Join(dels, ", "))

		// ---- core Permit ----
		interesting := map[string]bool{"GetGangByPod": true, "addAssumedPod": true, "delAssumedPod": true, "getGangGroup": true,
			"getGangFromCacheByGangId": true, "isGangValidForPermit": true, "addWaitingGang": true, "addBoundPod": true}
		var seq []string
		locks := 0
		assumeBeforeLoop := false
		if fd := e.funcDecl(core, "PodGroupManager", "Permit"); fd != nil && fd.Body != nil {
			assumePos, loopPos := token.NoPos, token.NoPos
			ast.Inspect(fd.Body, func(x ast.Node) bool {
				switch v := x.(type) {
				case *ast.RangeStmt:
					if loopPos == token.NoPos {
						loopPos = v.Pos()
					}
				case *ast.ForStmt:
					if loopPos == token.NoPos {
						loopPos = v.Pos()
					}
				case *ast.CallExpr:
					if s, ok := v.Fun.(*ast.SelectorExpr); ok {
						switch s.Sel.Name {
						case "Lock", "RLock":
							locks++
						}
						if interesting[s.Sel.Name] {
							seq = append(seq, s.Sel.Name)
							if s.Sel.Name == "addAssumedPod" && assumePos == token.NoPos {
								assumePos = v.Pos()
							}
						}
					}
				}
				return true
			})
			assumeBeforeLoop = assumePos != token.NoPos && loopPos != token.NoPos && assumePos < loopPos
		} else {
			e.fail("PodGroupManager.Permit not found")
		}
		fmt.Fprintf(&e.out, "def corePermitCalls : List String := %s\n", lst(seq))
		fmt.Fprintf(&e.out, "def corePermitAssumesBeforeLoop : Bool := %v\n", assumeBeforeLoop)
		fmt.Fprintf(&e.out, "def corePermitOwnLocks : Nat := %d\n", locks)

		// ---- informer wiring ----
		var wired []string
		if fd := e.funcDecl(core, "", "NewPodGroupManager"); fd != nil && fd.Body != nil {
			ast.Inspect(fd.Body, func(x ast.Node) bool {
				cl, ok := x.(*ast.CompositeLit)
				if !ok {
					return true
				}
				if s, ok := cl.Type.(*ast.SelectorExpr); !ok || s.Sel.Name != "ResourceEventHandlerFuncs" {
					return true
				}
				for _, el := range cl.Elts {
					if kv, ok := el.(*ast.KeyValueExpr); ok {
						k, _ := kv.Key.(*ast.Ident)
						v, _ := kv.Value.(*ast.SelectorExpr)
						if k != nil && v != nil {
							wired = append(wired, k.Name+"="+v.Sel.Name)
						}
					}
				}
				return true
			})
		} else {
			e.fail("NewPodGroupManager not found")
		}
		sort.Strings(wired) // the order in which the two literals are written does not matter
		fmt.Fprintf(&e.out, "def informerWiring : List String := %s\n", lst(wired))

		// ---- what is REGISTERED on each informer: the handler argument of every ForceSyncFromInformer / AddEventHandler*
		// call of NewPodGroupManager, resolved through a local `name := expr` definition: "direct" = a
		// cache.ResourceEventHandlerFuncs literal handed over as is, "filtered" = a cache.FilteringResourceEventHandler,
		// "call:F" = the result of F(...), "other" ----
		var regs []string
		if fd := e.funcDecl(core, "", "NewPodGroupManager"); fd != nil && fd.Body != nil {
			defs := map[string]ast.Expr{}
			ast.Inspect(fd.Body, func(x ast.Node) bool {
				switch v := x.(type) {
				case *ast.AssignStmt:
					if len(v.Lhs) == len(v.Rhs) {
						for i, l := range v.Lhs {
							if id, ok := l.(*ast.Ident); ok {
								defs[id.Name] = v.Rhs[i]
							}
						}
					}
				case *ast.ValueSpec:
					if len(v.Names) == len(v.Values) {
						for i, id := range v.Names {
							defs[id.Name] = v.Values[i]
						}
					}
				}
				return true
			})
			var classify func(x ast.Expr, depth int) string
			classify = func(x ast.Expr, depth int) string {
				switch v := x.(type) {
				case *ast.ParenExpr:
					return classify(v.X, depth)
				case *ast.UnaryExpr:
					if v.Op == token.AND {
						return classify(v.X, depth)
					}
				case *ast.Ident:
					if d, ok := defs[v.Name]; ok && depth < 4 {
						return classify(d, depth+1)
					}
				case *ast.CompositeLit:
					if s, ok := v.Type.(*ast.SelectorExpr); ok {
						switch s.Sel.Name {
						case "ResourceEventHandlerFuncs":
							return "direct"
						case "FilteringResourceEventHandler":
							return "filtered"
						}
						return "lit:" + s.Sel.Name
					}
				case *ast.CallExpr:
					switch f := v.Fun.(type) {
					case *ast.SelectorExpr:
						return "call:" + f.Sel.Name
					case *ast.Ident:
						return "call:" + f.Name
					}
				}
				return "other"
			}
			informerName := func(x ast.Expr) string {
				// podInformer.Informer()  ->  podInformer
				if c, ok := x.(*ast.CallExpr); ok {
					if s, ok := c.Fun.(*ast.SelectorExpr); ok {
						if id, ok := s.X.(*ast.Ident); ok {
							return id.Name
						}
					}
				}
				if id, ok := x.(*ast.Ident); ok {
					return id.Name
				}
				return "?"
			}
			ast.Inspect(fd.Body, func(x ast.Node) bool {
				c, ok := x.(*ast.CallExpr)
				if !ok {
					return true
				}
				s, ok := c.Fun.(*ast.SelectorExpr)
				if !ok {
					return true
				}
				switch s.Sel.Name {
				case "ForceSyncFromInformer", "ForceSyncFromInformerWithReplace":
					if len(c.Args) >= 4 {
						regs = append(regs, fmt.Sprintf("(%s, %s)", leanStr(informerName(c.Args[2])), leanStr(classify(c.Args[3], 0))))
					}
				case "AddEventHandler", "AddEventHandlerWithResyncPeriod", "AddEventHandlerWithOptions":
					if len(c.Args) >= 1 {
						regs = append(regs, fmt.Sprintf("(%s, %s)", leanStr(informerName(s.X)), leanStr(classify(c.Args[0], 0))))
					}
				}
				return true
			})
		}
		sort.Strings(regs) // by informer name: the order of the registrations does not matter
		fmt.Fprintf(&e.out, "def handlerRegistrations : List (String × String) := [%s]\n", strings.Join(regs, ", "))

		// ---- gang_cache.go onPodDelete / onPodGroupDelete: the type assertions at their head, in source order (which shapes
		// of the informer's delete notification they understand: the object, or a DeletedFinalStateUnknown BY VALUE around it) ----
		typeStr := func(x ast.Expr) string {
			star := ""
			if st, ok := x.(*ast.StarExpr); ok {
				star, x = "*", st.X
			}
			switch v := x.(type) {
			case *ast.SelectorExpr:
				return star + v.Sel.Name
			case *ast.Ident:
				return star + v.Name
			}
			return star + "?"
		}
		var delShapes []string
		for _, m := range []string{"onPodDelete", "onPodGroupDelete"} {
			fd := e.funcDecl(core, "GangCache", m)
			if fd == nil || fd.Body == nil {
				e.fail("GangCache.%s not found", m)
				continue
			}
			var asserts []string
			ast.Inspect(fd.Body, func(x ast.Node) bool {
				if ta, ok := x.(*ast.TypeAssertExpr); ok && ta.Type != nil {
					asserts = append(asserts, leanStr(typeStr(ta.Type)))
				}
				return true
			})
			delShapes = append(delShapes, fmt.Sprintf("(%s, [%s])", leanStr(m), strings.Join(asserts, ", ")))
		}
		fmt.Fprintf(&e.out, "def deleteTypeAsserts : List (String × List String) := [%s]\n", strings.Join(delShapes, ", "))

		// ---- gang_cache.go getGangFromCacheByGangId: get-or-create must be ONE critical section of the cache lock that
		// contains the lookup AND the store: (write Locks, read RLocks, deferred unlocks, explicit unlocks, whether
		// gangItems is mentioned before the first Lock or NewGang is called before it) ----
		if fd := e.funcDecl(core, "GangCache", "getGangFromCacheByGangId"); fd != nil && fd.Body != nil {
			wl, rl, deferred, explicit := 0, 0, 0, 0
			firstLock, firstTouch := token.NoPos, token.NoPos
			stores, lookups := 0, 0
			deferredCalls := map[*ast.CallExpr]bool{}
			isCacheLock := func(c *ast.CallExpr, names ...string) bool {
				s, ok := c.Fun.(*ast.SelectorExpr)
				if !ok {
					return false
				}
				l, ok := s.X.(*ast.SelectorExpr)
				if !ok || l.Sel.Name != "lock" {
					return false
				}
				for _, n := range names {
					if s.Sel.Name == n {
						return true
					}
				}
				return false
			}
			storeIdx := map[*ast.IndexExpr]bool{}
			ast.Inspect(fd.Body, func(x ast.Node) bool {
				switch v := x.(type) {
				case *ast.DeferStmt:
					if isCacheLock(v.Call, "Unlock", "RUnlock") {
						deferred++
						deferredCalls[v.Call] = true
					}
				case *ast.AssignStmt:
					for _, l := range v.Lhs {
						if ix, ok := l.(*ast.IndexExpr); ok {
							if s, ok := ix.X.(*ast.SelectorExpr); ok && s.Sel.Name == "gangItems" {
								stores++
								storeIdx[ix] = true
							}
						}
					}
				case *ast.IndexExpr:
					if s, ok := v.X.(*ast.SelectorExpr); ok && s.Sel.Name == "gangItems" && !storeIdx[v] {
						lookups++
					}
				case *ast.CallExpr:
					if isCacheLock(v, "Lock") {
						wl++
						if firstLock == token.NoPos {
							firstLock = v.Pos()
						}
					}
					if isCacheLock(v, "RLock") {
						rl++
					}
					if isCacheLock(v, "Unlock", "RUnlock") && !deferredCalls[v] {
						explicit++
					}
					if id, ok := v.Fun.(*ast.Ident); ok && id.Name == "NewGang" && firstTouch == token.NoPos {
						firstTouch = v.Pos()
					}
				case *ast.SelectorExpr:
					if v.Sel.Name == "gangItems" && firstTouch == token.NoPos {
						firstTouch = v.Pos()
					}
				}
				return true
			})
			before := firstTouch != token.NoPos && (firstLock == token.NoPos || firstTouch < firstLock)
			fmt.Fprintf(&e.out, "def getGangLockShape : Nat × Nat × Nat × Nat × Bool := (%d, %d, %d, %d, %v)\n", wl, rl, deferred, explicit, before)
			fmt.Fprintf(&e.out, "def getGangMapAccess : Nat × Nat := (%d, %d)\n", lookups, stores)
			fmt.Fprintf(&e.out, "def getGangSections : Nat := %d\n", wl+rl)
		} else {
			e.fail("GangCache.getGangFromCacheByGangId not found")
		}

		// ---- setChild guard ----
		var guard []string
		if fd := e.funcDecl(core, "Gang", "setChild"); fd != nil && fd.Body != nil {
			found := false
			for _, st := range fd.Body.List {
				is, ok := st.(*ast.IfStmt)
				if !ok {
					continue
				}
				assigns := false
				ast.Inspect(is.Body, func(x ast.Node) bool {
					if a, ok := x.(*ast.AssignStmt); ok {
						for _, l := range a.Lhs {
							if ix, ok := l.(*ast.IndexExpr); ok {
								if s, ok := ix.X.(*ast.SelectorExpr); ok && s.Sel.Name == "PendingChildren" {
									assigns = true
								}
							}
						}
					}
					return true
				})
				if !assigns {
					continue
				}
				found = true
				seen := map[string]bool{}
				ast.Inspect(is.Cond, func(x ast.Node) bool {
					if s, ok := x.(*ast.SelectorExpr); ok {
						switch s.Sel.Name {
						case "NodeName", "WaitingForBindChildren", "BoundChildren":
							seen[s.Sel.Name] = true
						}
					}
					return true
				})
				for _, k := range []string{"NodeName", "WaitingForBindChildren", "BoundChildren"} {
					if seen[k] {
						guard = append(guard, k)
					}
				}
			}
			if !found {
				e.fail("setChild: no if-statement assigns PendingChildren[...]")
			}
		} else {
			e.fail("Gang.setChild not found")
		}
		fmt.Fprintf(&e.out, "def setChildPendingGuard : List String := %s\n", lst(guard))

		// ---- lock structure of the Gang methods that touch the child sets ----
		var shapes []string
		setChildSections := 0
		for _, m := range []string{"setChild", "addAssumedPod", "delAssumedPod", "addBoundPod", "deletePod", "isGangValidForPermit", "GetGangSummary"} {
			fd := e.funcDecl(core, "Gang", m)
			if fd == nil || fd.Body == nil {
				e.fail("Gang.%s not found", m)
				continue
			}
			locks, deferred, explicit := 0, 0, 0
			firstLock := token.NoPos
			firstMap := token.NoPos
			isLockSel := func(c *ast.CallExpr, names ...string) bool {
				s, ok := c.Fun.(*ast.SelectorExpr)
				if !ok {
					return false
				}
				l, ok := s.X.(*ast.SelectorExpr)
				if !ok || l.Sel.Name != "lock" {
					return false
				}
				for _, n := range names {
					if s.Sel.Name == n {
						return true
					}
				}
				return false
			}
			deferredCalls := map[*ast.CallExpr]bool{}
			ast.Inspect(fd.Body, func(x ast.Node) bool {
				switch v := x.(type) {
				case *ast.DeferStmt:
					if isLockSel(v.Call, "Unlock", "RUnlock") {
						deferred++
						deferredCalls[v.Call] = true
					}
				case *ast.CallExpr:
					if isLockSel(v, "Lock", "RLock") {
						locks++
						if firstLock == token.NoPos {
							firstLock = v.Pos()
						}
					}
					if isLockSel(v, "Unlock", "RUnlock") && !deferredCalls[v] {
						explicit++
					}
				case *ast.SelectorExpr:
					switch v.Sel.Name {
					case "Children", "PendingChildren", "WaitingForBindChildren", "BoundChildren":
						if firstMap == token.NoPos {
							firstMap = v.Pos()
						}
					}
				}
				return true
			})
			before := firstMap != token.NoPos && (firstLock == token.NoPos || firstMap < firstLock)
			shapes = append(shapes, fmt.Sprintf("(%s, %d, %d, %d, %v)", leanStr(m), locks, deferred, explicit, before))
			if m == "setChild" {
				setChildSections = locks
			}
		}
		fmt.Fprintf(&e.out, "def gangLockShape : List (String × Nat × Nat × Nat × Bool) := [%s]\n", strings.Join(shapes, ", "))
		fmt.Fprintf(&e.out, "def setChildSections : Nat := %d\n", setChildSections)

		// ---- what the permit / rejection decisions read ----
		selNames := func(fd *ast.FuncDecl, skip map[string]bool) []string {
			seen := map[string]bool{}
			ast.Inspect(fd.Body, func(x ast.Node) bool {
				if s, ok := x.(*ast.SelectorExpr); ok && !skip[s.Sel.Name] {
					seen[s.Sel.Name] = true
				}
				return true
			})
			var out []string
			for k := range seen {
				out = append(out, k)
			}
			sort.Strings(out)
			return out
		}
		if fd := e.funcDecl(core, "Gang", "isGangValidForPermit"); fd != nil && fd.Body != nil {
			fmt.Fprintf(&e.out, "def validForPermitReads : List String := %s\n",
				lst(selNames(fd, map[string]bool{"lock": true, "RLock": true, "RUnlock": true, "Infof": true, "Name": true})))
		} else {
			e.fail("Gang.isGangValidForPermit not found")
		}
		decisionCalls := map[string]bool{"GetGangByPod": true, "delAssumedPod": true, "addAssumedPod": true, "getGangMatchPolicy": true,
			"isGangOnceResourceSatisfied": true, "getGangMode": true, "rejectGangGroupById": true, "rejectGangGroup": true,
			"clearWaitingGang": true, "IsPodNeedGang": true, "addBoundPod": true}
		for _, m := range []string{"Unreserve", "AfterPostFilter", "PostBind"} {
			var seq []string
			if fd := e.funcDecl(core, "PodGroupManager", m); fd != nil && fd.Body != nil {
				ast.Inspect(fd.Body, func(x ast.Node) bool {
					if c, ok := x.(*ast.CallExpr); ok {
						if s, ok := c.Fun.(*ast.SelectorExpr); ok && decisionCalls[s.Sel.Name] {
							seq = append(seq, s.Sel.Name)
						}
					}
					return true
				})
			} else {
				e.fail("PodGroupManager.%s not found", m)
			}
			fmt.Fprintf(&e.out, "def core%sCalls : List String := %s\n", m, lst(seq))
		}
		// ---- the fallback "the gang is a group of its own" ----
		var fb []string
		for _, m := range []string{"tryInitByPodConfig", "tryInitByPodGroup"} {
			fd := e.funcDecl(core, "Gang", m)
			if fd == nil || fd.Body == nil {
				e.fail("Gang.%s not found", m)
				continue
			}
			kind := "none"
			ast.Inspect(fd.Body, func(x ast.Node) bool {
				is, ok := x.(*ast.IfStmt)
				if !ok {
					return true
				}
				appends := false
				ast.Inspect(is.Body, func(y ast.Node) bool {
					if c, ok := y.(*ast.CallExpr); ok {
						if id, ok := c.Fun.(*ast.Ident); ok && id.Name == "append" && len(c.Args) == 2 {
							if a0, ok := c.Args[0].(*ast.Ident); ok && a0.Name == "groupSlice" {
								if s1, ok := c.Args[1].(*ast.SelectorExpr); ok && s1.Sel.Name == "Name" {
									appends = true
								}
							}
						}
					}
					return true
				})
				if !appends {
					return true
				}
				kind = "other"
				if be, ok := is.Cond.(*ast.BinaryExpr); ok && be.Op == token.EQL {
					if c, ok := be.X.(*ast.CallExpr); ok {
						if id, ok := c.Fun.(*ast.Ident); ok && id.Name == "len" && len(c.Args) == 1 {
							if a, ok := c.Args[0].(*ast.Ident); ok && a.Name == "groupSlice" {
								if lit, ok := be.Y.(*ast.BasicLit); ok && lit.Value == "0" {
									kind = "len==0"
								}
							}
						}
					}
					if a, ok := be.X.(*ast.Ident); ok && a.Name == "groupSlice" {
						if n, ok := be.Y.(*ast.Ident); ok && n.Name == "nil" {
							kind = "nil"
						}
					}
				}
				return true
			})
			fb = append(fb, fmt.Sprintf("(%s, %s)", leanStr(m), leanStr(kind)))
		}
		fmt.Fprintf(&e.out, "def groupFallbackTest : List (String × String) := [%s]\n", strings.Join(fb, ", "))

		// ---- match policy / mode in force ----
		src := func(n ast.Node) string {
			var b bytes.Buffer
			if err := printer.Fprint(&b, e.fset, n); err != nil {
				return "?"
			}
			return strings.Join(strings.Fields(b.String()), "")
		}
		mentions := func(n ast.Node, name string) bool {
			found := false
			ast.Inspect(n, func(x ast.Node) bool {
				if id, ok := x.(*ast.Ident); ok && id.Name == name {
					found = true
				}
				return !found
			})
			return found
		}
		// assignments, `if` conditions and returns of a body that mention `name` ("" = all of them), in source order
		flow := func(body *ast.BlockStmt, name string) []string { return flowBlock(body, name, src, mentions) }
		extDir := "apis/extension"
		if fd := e.funcDecl(extDir, "", "GetGangMatchPolicy"); fd != nil && fd.Body != nil {
			fmt.Fprintf(&e.out, "def matchPolicyGetter : List String := %s\n", lst(flow(fd.Body, "")))
		} else {
			e.fail("extension.GetGangMatchPolicy not found")
		}
		var polRes, modeRes []string
		for _, m := range []string{"tryInitByPodConfig", "tryInitByPodGroup"} {
			fd := e.funcDecl(core, "Gang", m)
			if fd == nil || fd.Body == nil {
				e.fail("Gang.%s not found", m)
				continue
			}
			polRes = append(polRes, fmt.Sprintf("(%s, %s)", leanStr(m), lst(flow(fd.Body, "matchPolicy"))))
			modeRes = append(modeRes, fmt.Sprintf("(%s, %s)", leanStr(m), lst(flow(fd.Body, "mode"))))
		}
		fmt.Fprintf(&e.out, "def policyResolution : List (String × List String) := [%s]\n", strings.Join(polRes, ", "))
		fmt.Fprintf(&e.out, "def modeResolution : List (String × List String) := [%s]\n", strings.Join(modeRes, ", "))
		// every comparison of the gang's mode / match policy outside gang.go (core.go: Unreserve, AfterPostFilter, PreFilter paths)
		var cmps []string
		{
			files := e.dir(core)
			names := make([]string, 0, len(files))
			for n := range files {
				names = append(names, n)
			}
			sort.Strings(names)
			for _, fn := range names {
				for _, d := range files[fn].Decls {
					fd, ok := d.(*ast.FuncDecl)
					if !ok || fd.Body == nil {
						continue
					}
					ast.Inspect(fd.Body, func(x ast.Node) bool {
						be, ok := x.(*ast.BinaryExpr)
						if !ok || (be.Op != token.EQL && be.Op != token.NEQ) {
							return true
						}
						if t := src(be); strings.Contains(t, "getGangMode()") || strings.Contains(t, "getGangMatchPolicy()") ||
							strings.Contains(t, ".Mode==") || strings.Contains(t, ".Mode!=") {
							cmps = append(cmps, fd.Name.Name+":"+t)
						}
						return true
					})
				}
			}
		}
		sort.Strings(cmps)
		fmt.Fprintf(&e.out, "def modeAndPolicyTests : List String := %s\n", lst(cmps))
		var consts []string
		for _, c := range []string{"GangModeStrict", "GangModeNonStrict", "GangMatchPolicyOnlyWaiting", "GangMatchPolicyWaitingAndRunning", "GangMatchPolicyOnceSatisfied"} {
			v, ok := e.valueSpec(extDir, c)
			if !ok {
				e.fail("extension.%s not found", c)
				continue
			}
			consts = append(consts, fmt.Sprintf("(%s, %s)", leanStr(c), leanStr(src(v))))
		}
		fmt.Fprintf(&e.out, "def gangStringConsts : List (String × String) := [%s]\n", strings.Join(consts, ", "))
		v1dir := "pkg/scheduler/apis/config/v1"
		if fd := e.funcDecl(v1dir, "", "SetDefaults_CoschedulingArgs"); fd != nil && fd.Body != nil {
			dv := "?"
			if v, ok := e.valueSpec(v1dir, "defaultGangMatchPolicy"); ok {
				dv = src(v)
			}
			fmt.Fprintf(&e.out, "def defaultMatchPolicyDefaulting : List String × String := (%s, %s)\n", lst(flow(fd.Body, "DefaultMatchPolicy")), leanStr(dv))
		} else {
			e.fail("v1.SetDefaults_CoschedulingArgs not found")
		}

		// ---- reserve pods: what decides "already bound" ----
		// (a) GangCache.onPodAddInternal: the condition of every `if` whose own block calls addBoundPod
		if fd := e.funcDecl(core, "GangCache", "onPodAddInternal"); fd != nil && fd.Body != nil {
			var conds []string
			ast.Inspect(fd.Body, func(x ast.Node) bool {
				st, ok := x.(*ast.IfStmt)
				if !ok {
					return true
				}
				for _, b := range st.Body.List {
					if es, ok := b.(*ast.ExprStmt); ok {
						if ce, ok := es.X.(*ast.CallExpr); ok {
							if sel, ok := ce.Fun.(*ast.SelectorExpr); ok && sel.Sel.Name == "addBoundPod" {
								c := src(st.Cond)
								if st.Init != nil {
									c = src(st.Init) + ";" + c
								}
								conds = append(conds, c)
							}
						}
					}
				}
				return true
			})
			fmt.Fprintf(&e.out, "def podAddBoundTest : List String := %s\n", lst(conds))
		} else {
			e.fail("GangCache.onPodAddInternal not found")
		}
		// (b) reservationutil.NewReservePod: where the reserve pod's spec.nodeName comes from
		rsvDir := "pkg/util/reservation"
		if fd := e.funcDecl(rsvDir, "", "NewReservePod"); fd != nil && fd.Body != nil {
			fmt.Fprintf(&e.out, "def reservePodNodeName : List String × List String := (%s, %s)\n", lst(flow(fd.Body, "NodeName")), lst(flow(fd.Body, "nodeName")))
		} else {
			e.fail("reservationutil.NewReservePod not found")
		}
		if fd := e.funcDecl(rsvDir, "", "GetReservationNodeName"); fd != nil && fd.Body != nil {
			fmt.Fprintf(&e.out, "def reservationNodeNameGetter : List String := %s\n", lst(flow(fd.Body, "")))
		} else {
			e.fail("reservationutil.GetReservationNodeName not found")
		}
	}
}

// flowBlock: see `flow` in the C04 extractor (statements of a nested block)
func flowBlock(body *ast.BlockStmt, name string, src func(ast.Node) string, mentions func(ast.Node, string) bool) []string {
	var out []string
	for _, st0 := range body.List {
		ast.Inspect(st0, func(x ast.Node) bool {
			switch st := x.(type) {
			case *ast.AssignStmt:
				if name == "" || mentions(st, name) {
					out = append(out, src(st))
				}
			case *ast.IfStmt:
				if st.Init != nil && (name == "" || mentions(st.Init, name)) {
					out = append(out, src(st.Init))
				}
				if name == "" || mentions(st.Cond, name) {
					// a conjunction is emitted operand by operand (short strings: `decide` compares them in the kernel)
					for i, part := range strings.Split(src(st.Cond), "&&") {
						if i == 0 {
							out = append(out, "if "+part)
						} else {
							out = append(out, "&&"+part)
						}
					}
				}
				out = append(out, flowBlock(st.Body, name, src, mentions)...)
				if st.Else != nil {
					if blk, ok := st.Else.(*ast.BlockStmt); ok {
						out = append(out, flowBlock(blk, name, src, mentions)...)
					} else {
						out = append(out, flowBlock(&ast.BlockStmt{List: []ast.Stmt{st.Else}}, name, src, mentions)...)
					}
				}
				return false
			case *ast.ReturnStmt:
				if name == "" {
					var rs []string
					for _, x := range st.Results {
						rs = append(rs, src(x))
					}
					out = append(out, "return "+strings.Join(rs, ","))
				}
			case *ast.FuncLit:
				return false
			}
			return true
		})
	}
	return out
}
