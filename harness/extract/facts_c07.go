package main

import (
	"fmt"
	"go/ast"
	"go/token"
	"go/types"
	"sort"
	"strings"
)

// C07 facts (what the ledger model, the event model and the harness rely on):
//   * utils.go DeviceResourceNames: which resource names belong to which device type (symbol names);
//   * device_cache.go updateCacheUsed: the nodeDevice methods called per device type, in source order, and that the
//     first statement of the loop body is `if !n.isValid(…) { continue }` (the duplicate gate precedes the ledger);
//   * who writes deviceUsed / deviceTotal / deviceFree / allocateSet (functions containing an assignment or delete
//     whose target mentions the field), and who calls updateDeviceUsed / resetDeviceTotal / resetDeviceFree
//     (free is rebuilt after every used / total change);
//   * the quotav1 / util helpers each ledger function calls, in source order;
//   * the three `continue` guards of the defaultAllocateDevices loop, in source order;
//   * eventhandler_pod.go updatePod / deletePod and plugin.go Reserve / Unreserve: the arguments of every
//     updateCacheUsed call (WHICH object's allocation is released / added) and of every deletePod call;
//   * lock discipline: in every function that mutates the cache the first Lock() precedes the mutation.
func init() {
	extractors["C07"] = func(e *ext) {
		d := "pkg/scheduler/plugins/deviceshare"
		lst := func(xs []string) string {
			q := make([]string, len(xs))
			for i, x := range xs {
				q[i] = leanStr(x)
			}
			return "[" + strings.Join(q, ", ") + "]"
		}
		selName := func(x ast.Expr) string {
			switch v := x.(type) {
			case *ast.SelectorExpr:
				return v.Sel.Name
			case *ast.Ident:
				return v.Name
			}
			return "?"
		}

		// ---- DeviceResourceNames ----
		var table []string
		if x, ok := e.valueSpec(d, "DeviceResourceNames"); ok {
			if cl, ok := x.(*ast.CompositeLit); ok {
				for _, el := range cl.Elts {
					kv, ok := el.(*ast.KeyValueExpr)
					if !ok {
						e.fail("DeviceResourceNames: element is not key:value")
						continue
					}
					var names []string
					if vl, ok := kv.Value.(*ast.CompositeLit); ok {
						for _, n := range vl.Elts {
							names = append(names, selName(n))
						}
					} else {
						e.fail("DeviceResourceNames: value is not a composite literal")
					}
					table = append(table, fmt.Sprintf("(%s, %s)", leanStr(selName(kv.Key)), lst(names)))
				}
			} else {
				e.fail("DeviceResourceNames is not a composite literal")
			}
		} else {
			e.fail("DeviceResourceNames not found")
		}
		fmt.Fprintf(&e.out, "def deviceResourceNames : List (String × List String) := [%s]\n", strings.Join(table, ", "))

		// all functions of the package, by "Recv.Name" / "Name"
		type fn struct {
			name string
			decl *ast.FuncDecl
		}
		var fns []fn
		files := e.dir(d)
		var fnames []string
		for n := range files {
			fnames = append(fnames, n)
		}
		sort.Strings(fnames)
		for _, fname := range fnames {
			for _, dd := range files[fname].Decls {
				if fd, ok := dd.(*ast.FuncDecl); ok && fd.Body != nil {
					fns = append(fns, fn{fd.Name.Name, fd})
				}
			}
		}
		mentions := func(x ast.Expr, field string) bool {
			found := false
			ast.Inspect(x, func(n ast.Node) bool {
				if s, ok := n.(*ast.SelectorExpr); ok && s.Sel.Name == field {
					found = true
				}
				return true
			})
			return found
		}
		writers := func(field string) []string {
			set := map[string]bool{}
			for _, f := range fns {
				ast.Inspect(f.decl.Body, func(n ast.Node) bool {
					switch v := n.(type) {
					case *ast.AssignStmt:
						for _, l := range v.Lhs {
							if mentions(l, field) {
								set[f.name] = true
							}
						}
					case *ast.CallExpr:
						if id, ok := v.Fun.(*ast.Ident); ok && id.Name == "delete" && len(v.Args) > 0 && mentions(v.Args[0], field) {
							set[f.name] = true
						}
					}
					return true
				})
			}
			var out []string
			for k := range set {
				out = append(out, k)
			}
			sort.Strings(out)
			return out
		}
		callers := func(method string) []string {
			set := map[string]bool{}
			for _, f := range fns {
				ast.Inspect(f.decl.Body, func(n ast.Node) bool {
					if c, ok := n.(*ast.CallExpr); ok {
						if s, ok := c.Fun.(*ast.SelectorExpr); ok && s.Sel.Name == method {
							set[f.name] = true
						}
					}
					return true
				})
			}
			var out []string
			for k := range set {
				out = append(out, k)
			}
			sort.Strings(out)
			return out
		}
		for _, f := range []string{"deviceUsed", "deviceTotal", "deviceFree", "allocateSet"} {
			fmt.Fprintf(&e.out, "def writers_%s : List String := %s\n", f, lst(writers(f)))
		}
		for _, m := range []string{"updateDeviceUsed", "resetDeviceTotal", "resetDeviceFree", "updateAllocateSet", "updateCacheUsed"} {
			fmt.Fprintf(&e.out, "def callers_%s : List String := %s\n", m, lst(callers(m)))
		}

		// method calls on a receiver identifier, in source order
		callsOnRecv := func(body ast.Node, recv string) []string {
			var out []string
			ast.Inspect(body, func(n ast.Node) bool {
				if c, ok := n.(*ast.CallExpr); ok {
					if s, ok := c.Fun.(*ast.SelectorExpr); ok {
						if id, ok := s.X.(*ast.Ident); ok && id.Name == recv {
							out = append(out, s.Sel.Name)
						}
					}
				}
				return true
			})
			return out
		}
		pkgCalls := func(body ast.Node, pkgs ...string) []string {
			var out []string
			ast.Inspect(body, func(n ast.Node) bool {
				if c, ok := n.(*ast.CallExpr); ok {
					if s, ok := c.Fun.(*ast.SelectorExpr); ok {
						if id, ok := s.X.(*ast.Ident); ok {
							for _, p := range pkgs {
								if id.Name == p {
									out = append(out, s.Sel.Name)
								}
							}
						}
					}
				}
				return true
			})
			return out
		}

		// ---- updateCacheUsed ----
		gateFirst := false
		var ucu []string
		if fd := e.funcDecl(d, "nodeDevice", "updateCacheUsed"); fd != nil {
			ucu = callsOnRecv(fd.Body, "n")
			ast.Inspect(fd.Body, func(n ast.Node) bool {
				rs, ok := n.(*ast.RangeStmt)
				if !ok || len(rs.Body.List) == 0 {
					return true
				}
				if is, ok := rs.Body.List[0].(*ast.IfStmt); ok {
					if u, ok := is.Cond.(*ast.UnaryExpr); ok && u.Op == token.NOT {
						if c, ok := u.X.(*ast.CallExpr); ok && selName(c.Fun) == "isValid" && len(is.Body.List) == 1 {
							if b, ok := is.Body.List[0].(*ast.BranchStmt); ok && b.Tok == token.CONTINUE {
								gateFirst = true
							}
						}
					}
				}
				return false
			})
		} else {
			e.fail("nodeDevice.updateCacheUsed not found")
		}
		fmt.Fprintf(&e.out, "def updateCacheUsedCalls : List String := %s\n", lst(ucu))
		fmt.Fprintf(&e.out, "def updateCacheUsedGateFirst : Bool := %v\n", gateFirst)

		// ---- helper calls per ledger function ----
		for _, m := range []string{"updateDeviceUsed", "resetDeviceFree", "resetDeviceTotal", "calcFreeWithPreemptible", "filter", "isValid", "updateAllocateSet"} {
			if fd := e.funcDecl(d, "nodeDevice", m); fd != nil {
				fmt.Fprintf(&e.out, "def helpers_%s : List String := %s\n", m, lst(pkgCalls(fd.Body, "quotav1", "util")))
				fmt.Fprintf(&e.out, "def selfCalls_%s : List String := %s\n", m, lst(callsOnRecv(fd.Body, "n")))
			} else {
				e.fail("nodeDevice.%s not found", m)
			}
		}

		// ---- defaultAllocateDevices: the `continue` guards of the candidate loop, in source order ----
		var guards []string
		if fd := e.funcDecl(d, "", "defaultAllocateDevices"); fd != nil {
			ast.Inspect(fd.Body, func(n ast.Node) bool {
				rs, ok := n.(*ast.RangeStmt)
				if !ok || selName(rs.X) != "resourceMinorPairs" {
					return true
				}
				// `satisfied, _ := quotav1.LessThanOrEqual(…)` followed by `if !satisfied { continue }` counts as one guard
				for i, st := range rs.Body.List {
					is, ok := st.(*ast.IfStmt)
					if !ok || len(is.Body.List) != 1 {
						continue
					}
					if b, ok := is.Body.List[0].(*ast.BranchStmt); !ok || b.Tok != token.CONTINUE {
						continue
					}
					cond := types.ExprString(is.Cond)
					if cond == "!satisfied" && i > 0 {
						if as, ok := rs.Body.List[i-1].(*ast.AssignStmt); ok && len(as.Rhs) == 1 {
							cond = "!" + types.ExprString(as.Rhs[0])
						}
					}
					guards = append(guards, cond)
				}
				return false
			})
			fmt.Fprintf(&e.out, "def helpers_defaultAllocateDevices : List String := %s\n", lst(pkgCalls(fd.Body, "quotav1")))
		} else {
			e.fail("defaultAllocateDevices not found")
		}
		fmt.Fprintf(&e.out, "def allocLoopGuards : List String := %s\n", lst(guards))

		// ---- who releases / adds what: arguments of updateCacheUsed and deletePod calls ----
		argsOf := func(recv, name, callee string) []string {
			var out []string
			fd := e.funcDecl(d, recv, name)
			if fd == nil {
				e.fail("%s.%s not found", recv, name)
				return out
			}
			ast.Inspect(fd.Body, func(n ast.Node) bool {
				if c, ok := n.(*ast.CallExpr); ok && selName(c.Fun) == callee {
					var as []string
					for _, a := range c.Args {
						as = append(as, types.ExprString(a))
					}
					out = append(out, strings.Join(as, ", "))
				}
				return true
			})
			return out
		}
		fmt.Fprintf(&e.out, "def updatePod_updateCacheUsed : List String := %s\n", lst(argsOf("nodeDeviceCache", "updatePod", "updateCacheUsed")))
		fmt.Fprintf(&e.out, "def updatePod_deletePod : List String := %s\n", lst(argsOf("nodeDeviceCache", "updatePod", "deletePod")))
		fmt.Fprintf(&e.out, "def updatePod_getAllocations : List String := %s\n", lst(argsOf("nodeDeviceCache", "updatePod", "GetDeviceAllocations")))
		fmt.Fprintf(&e.out, "def deletePod_updateCacheUsed : List String := %s\n", lst(argsOf("nodeDeviceCache", "deletePod", "updateCacheUsed")))
		fmt.Fprintf(&e.out, "def deletePod_getAllocations : List String := %s\n", lst(argsOf("nodeDeviceCache", "deletePod", "GetDeviceAllocations")))
		fmt.Fprintf(&e.out, "def onPodAdd_updatePod : List String := %s\n", lst(argsOf("nodeDeviceCache", "onPodAdd", "updatePod")))
		fmt.Fprintf(&e.out, "def onPodUpdate_updatePod : List String := %s\n", lst(argsOf("nodeDeviceCache", "onPodUpdate", "updatePod")))
		fmt.Fprintf(&e.out, "def onPodDelete_deletePod : List String := %s\n", lst(argsOf("nodeDeviceCache", "onPodDelete", "deletePod")))
		fmt.Fprintf(&e.out, "def reserve_updateCacheUsed : List String := %s\n", lst(argsOf("Plugin", "Reserve", "updateCacheUsed")))
		fmt.Fprintf(&e.out, "def unreserve_updateCacheUsed : List String := %s\n", lst(argsOf("Plugin", "Unreserve", "updateCacheUsed")))

		// which annotation each allocation variable is parsed from: "<var> <- <arg>"
		sources := func(recv, name string) []string {
			var out []string
			fd := e.funcDecl(d, recv, name)
			if fd == nil {
				return out
			}
			ast.Inspect(fd.Body, func(n ast.Node) bool {
				as, ok := n.(*ast.AssignStmt)
				if !ok || len(as.Rhs) != 1 || len(as.Lhs) == 0 {
					return true
				}
				if c, ok := as.Rhs[0].(*ast.CallExpr); ok && selName(c.Fun) == "GetDeviceAllocations" && len(c.Args) == 1 {
					out = append(out, types.ExprString(as.Lhs[0])+" <- "+types.ExprString(c.Args[0]))
				}
				return true
			})
			return out
		}
		fmt.Fprintf(&e.out, "def updatePod_allocSources : List String := %s\n", lst(sources("nodeDeviceCache", "updatePod")))
		fmt.Fprintf(&e.out, "def deletePod_allocSources : List String := %s\n", lst(sources("nodeDeviceCache", "deletePod")))

		// updateCacheUsed calls as (object the allocation variable was parsed from, pod argument, add?)
		shapes := func(recv, name string) string {
			src := map[string]string{}
			for _, s := range sources(recv, name) {
				parts := strings.SplitN(s, " <- ", 2)
				src[parts[0]] = strings.SplitN(parts[1], ".", 2)[0]
			}
			var out []string
			fd := e.funcDecl(d, recv, name)
			if fd == nil {
				return "[]"
			}
			ast.Inspect(fd.Body, func(n ast.Node) bool {
				if c, ok := n.(*ast.CallExpr); ok && selName(c.Fun) == "updateCacheUsed" && len(c.Args) == 3 {
					v := types.ExprString(c.Args[0])
					o, ok := src[v]
					if !ok {
						o = "?" + v
					}
					out = append(out, fmt.Sprintf("(%s, %s, %v)", leanStr(o), leanStr(types.ExprString(c.Args[1])), types.ExprString(c.Args[2]) == "true"))
				}
				return true
			})
			return "[" + strings.Join(out, ", ") + "]"
		}
		fmt.Fprintf(&e.out, "def updatePod_shapes : List (String × String × Bool) := %s\n", shapes("nodeDeviceCache", "updatePod"))
		fmt.Fprintf(&e.out, "def deletePod_shapes : List (String × String × Bool) := %s\n", shapes("nodeDeviceCache", "deletePod"))

		// the guard of the release half of updatePod
		relGuard := ""
		if fd := e.funcDecl(d, "nodeDeviceCache", "updatePod"); fd != nil {
			ast.Inspect(fd.Body, func(n ast.Node) bool {
				is, ok := n.(*ast.IfStmt)
				if !ok {
					return true
				}
				for _, st := range is.Body.List {
					if es, ok := st.(*ast.ExprStmt); ok {
						if c, ok := es.X.(*ast.CallExpr); ok && selName(c.Fun) == "updateCacheUsed" && len(c.Args) == 3 && types.ExprString(c.Args[2]) == "false" {
							relGuard = types.ExprString(is.Cond)
						}
					}
				}
				return true
			})
		}
		fmt.Fprintf(&e.out, "def updatePod_releaseGuard : String := %s\n", leanStr(relGuard))

		// ---- lock discipline: first Lock()/RLock() position < first mutation / read position ----
		lockBefore := func(recv, name string, lockName string, targets ...string) bool {
			fd := e.funcDecl(d, recv, name)
			if fd == nil {
				e.fail("%s.%s not found", recv, name)
				return false
			}
			lockPos, tgtPos := token.NoPos, token.NoPos
			ast.Inspect(fd.Body, func(n ast.Node) bool {
				if c, ok := n.(*ast.CallExpr); ok {
					nm := selName(c.Fun)
					if nm == lockName {
						// only locks of a nodeDevice: `<x>.lock.Lock()`
						if s, ok := c.Fun.(*ast.SelectorExpr); ok && selName(s.X) == "lock" && lockPos == token.NoPos {
							if s2, ok := s.X.(*ast.SelectorExpr); ok && selName(s2.X) != "n" {
								lockPos = c.Pos()
							}
						}
					}
					for _, t := range targets {
						if nm == t && tgtPos == token.NoPos {
							tgtPos = c.Pos()
						}
					}
				}
				return true
			})
			return lockPos != token.NoPos && tgtPos != token.NoPos && lockPos < tgtPos
		}
		var locked []string
		for _, x := range [][]string{
			{"Plugin", "Reserve", "Lock", "updateCacheUsed"},
			{"Plugin", "Unreserve", "Lock", "updateCacheUsed"},
			{"nodeDeviceCache", "updatePod", "Lock", "updateCacheUsed"},
			{"nodeDeviceCache", "deletePod", "Lock", "updateCacheUsed"},
			{"nodeDeviceCache", "updateNodeDevice", "Lock", "resetDeviceTotal"},
			{"nodeDeviceCache", "invalidateNodeDevice", "Lock", "resetDeviceTotal"},
			{"Plugin", "Filter", "RLock", "tryAllocateFromReusable", "Allocate"},
			{"Plugin", "allocate", "RLock", "allocateWithNominated", "Allocate"},
		} {
			if lockBefore(x[0], x[1], x[2], x[3:]...) {
				locked = append(locked, x[0]+"."+x[1])
			}
		}
		fmt.Fprintf(&e.out, "def lockedBeforeAccess : List String := %s\n", lst(locked))

		// ==== request-shape tables (utils.go): which name combinations have a row, which validator / whether a mapper ====
		tableOf := func(name string) []string {
			var out []string
			x, ok := e.valueSpec(d, name)
			if !ok {
				e.fail("%s not found", name)
				return out
			}
			cl, ok := x.(*ast.CompositeLit)
			if !ok {
				e.fail("%s is not a composite literal", name)
				return out
			}
			for _, el := range cl.Elts {
				kv, ok := el.(*ast.KeyValueExpr)
				if !ok {
					continue
				}
				val := "func"
				switch v := kv.Value.(type) {
				case *ast.Ident:
					val = v.Name
				case *ast.SelectorExpr:
					val = v.Sel.Name
				}
				out = append(out, strings.ReplaceAll(types.ExprString(kv.Key), " ", "")+"=>"+val)
			}
			return out
		}
		fmt.Fprintf(&e.out, "def validCombinations : List String := %s\n", lst(tableOf("ValidDeviceResourceCombinations")))
		keysOf := func(rows []string) []string {
			var out []string
			for _, r := range rows {
				out = append(out, strings.SplitN(r, "=>", 2)[0])
			}
			return out
		}
		fmt.Fprintf(&e.out, "def validCombinationKeys : List String := %s\n", lst(keysOf(tableOf("ValidDeviceResourceCombinations"))))
		fmt.Fprintf(&e.out, "def combinationMapperKeys : List String := %s\n", lst(keysOf(tableOf("ResourceCombinationsMapper"))))
		fmt.Fprintf(&e.out, "def resourceValidators : List String := %s\n", lst(tableOf("DeviceResourceValidators")))
		fmt.Fprintf(&e.out, "def resourceFlags : List String := %s\n", lst(tableOf("DeviceResourceFlags")))

		// ==== extension 2: event shapes, handler wiring, read-only steps ====
		d2 := "pkg/util/reservation"
		// clause types of the first type switch of a function ("default" for the default clause), in source order
		switchCases := func(dir, recv, name string) []string {
			fd := e.funcDecl(dir, recv, name)
			if fd == nil {
				e.fail("%s.%s not found", recv, name)
				return nil
			}
			var out []string
			done := false
			ast.Inspect(fd.Body, func(n ast.Node) bool {
				ts, ok := n.(*ast.TypeSwitchStmt)
				if !ok || done {
					return !done
				}
				done = true
				for _, st := range ts.Body.List {
					cc := st.(*ast.CaseClause)
					if cc.List == nil {
						out = append(out, "default")
					}
					for _, x := range cc.List {
						out = append(out, types.ExprString(x))
					}
				}
				return false
			})
			return out
		}
		// asserted types `x.(T)` of a function outside type switches, in source order
		asserts := func(dir, recv, name string) []string {
			fd := e.funcDecl(dir, recv, name)
			if fd == nil {
				e.fail("%s.%s not found", recv, name)
				return nil
			}
			var out []string
			ast.Inspect(fd.Body, func(n ast.Node) bool {
				if ta, ok := n.(*ast.TypeAssertExpr); ok && ta.Type != nil {
					out = append(out, types.ExprString(ta.Type)) // the asserted type only: variable names may change
				}
				return true
			})
			return out
		}
		fmt.Fprintf(&e.out, "def onPodDelete_cases : List String := %s\n", lst(switchCases(d, "nodeDeviceCache", "onPodDelete")))
		fmt.Fprintf(&e.out, "def onPodDelete_asserts : List String := %s\n", lst(asserts(d, "nodeDeviceCache", "onPodDelete")))
		fmt.Fprintf(&e.out, "def onPodAdd_asserts : List String := %s\n", lst(asserts(d, "nodeDeviceCache", "onPodAdd")))
		fmt.Fprintf(&e.out, "def onPodUpdate_asserts : List String := %s\n", lst(asserts(d, "nodeDeviceCache", "onPodUpdate")))
		recvCalls := func(recv, name string) []string {
			fd := e.funcDecl(d, recv, name)
			if fd == nil {
				e.fail("%s.%s not found", recv, name)
				return nil
			}
			return callsOnRecv(fd.Body, "n")
		}
		fmt.Fprintf(&e.out, "def onDeviceDelete_cases : List String := %s\n", lst(switchCases(d, "nodeDeviceCache", "onDeviceDelete")))
		fmt.Fprintf(&e.out, "def onDeviceDelete_asserts : List String := %s\n", lst(asserts(d, "nodeDeviceCache", "onDeviceDelete")))
		fmt.Fprintf(&e.out, "def onDeviceAdd_asserts : List String := %s\n", lst(asserts(d, "nodeDeviceCache", "onDeviceAdd")))
		fmt.Fprintf(&e.out, "def onDeviceUpdate_asserts : List String := %s\n", lst(asserts(d, "nodeDeviceCache", "onDeviceUpdate")))
		fmt.Fprintf(&e.out, "def onDeviceAdd_calls : List String := %s\n", lst(recvCalls("nodeDeviceCache", "onDeviceAdd")))
		fmt.Fprintf(&e.out, "def onDeviceUpdate_calls : List String := %s\n", lst(recvCalls("nodeDeviceCache", "onDeviceUpdate")))
		fmt.Fprintf(&e.out, "def onDeviceDelete_calls : List String := %s\n", lst(recvCalls("nodeDeviceCache", "onDeviceDelete")))
		var dwiring []string
		if fd := e.funcDecl(d, "", "registerDeviceEventHandler"); fd != nil {
			ast.Inspect(fd.Body, func(n ast.Node) bool {
				if cl, ok := n.(*ast.CompositeLit); ok && cl.Type != nil && strings.HasSuffix(types.ExprString(cl.Type), "ResourceEventHandlerFuncs") {
					for _, el := range cl.Elts {
						if kv, ok := el.(*ast.KeyValueExpr); ok {
							dwiring = append(dwiring, types.ExprString(kv.Key)+"="+selName(kv.Value))
						}
					}
				}
				return true
			})
		} else {
			e.fail("registerDeviceEventHandler not found")
		}
		fmt.Fprintf(&e.out, "def deviceHandler_wiring : List String := %s\n", lst(dwiring))
		fmt.Fprintf(&e.out, "def rsvOnDelete_cases : List String := %s\n", lst(switchCases(d2, "ReservationToPodEventHandler", "OnDelete")))
		fmt.Fprintf(&e.out, "def rsvOnDelete_asserts : List String := %s\n", lst(asserts(d2, "ReservationToPodEventHandler", "OnDelete")))
		fmt.Fprintf(&e.out, "def rsvOnAdd_asserts : List String := %s\n", lst(asserts(d2, "ReservationToPodEventHandler", "OnAdd")))
		fmt.Fprintf(&e.out, "def rsvOnUpdate_asserts : List String := %s\n", lst(asserts(d2, "ReservationToPodEventHandler", "OnUpdate")))
		fmt.Fprintf(&e.out, "def rsvFilter_asserts : List String := %s\n", lst(asserts(d2, "", "IsObjValidActiveReservation")))
		// the filter is a FilteringResourceEventHandler whose Handler is the ReservationToPodEventHandler
		var wrap []string
		if fd := e.funcDecl(d2, "", "NewReservationToPodEventHandler"); fd != nil {
			ast.Inspect(fd.Body, func(n ast.Node) bool {
				if cl, ok := n.(*ast.CompositeLit); ok && cl.Type != nil {
					var keys []string
					for _, el := range cl.Elts {
						if kv, ok := el.(*ast.KeyValueExpr); ok {
							keys = append(keys, types.ExprString(kv.Key))
						}
					}
					wrap = append(wrap, types.ExprString(cl.Type)+"{"+strings.Join(keys, ",")+"}")
				}
				return true
			})
		} else {
			e.fail("NewReservationToPodEventHandler not found")
		}
		fmt.Fprintf(&e.out, "def rsvHandler_wrapping : List String := %s\n", lst(wrap))
		// registerPodEventHandler: which cache method serves which informer callback; what the reservation informer gets
		var wiring []string
		if fd := e.funcDecl(d, "", "registerPodEventHandler"); fd != nil {
			ast.Inspect(fd.Body, func(n ast.Node) bool {
				if cl, ok := n.(*ast.CompositeLit); ok && cl.Type != nil && strings.HasSuffix(types.ExprString(cl.Type), "ResourceEventHandlerFuncs") {
					for _, el := range cl.Elts {
						if kv, ok := el.(*ast.KeyValueExpr); ok {
							wiring = append(wiring, types.ExprString(kv.Key)+"="+selName(kv.Value)) // the method, not the receiver variable
						}
					}
				}
				return true
			})
		} else {
			e.fail("registerPodEventHandler not found")
		}
		fmt.Fprintf(&e.out, "def podHandler_wiring : List String := %s\n", lst(wiring))
		var rsvArgs []string
		for _, a := range argsOf("", "registerPodEventHandler", "NewReservationToPodEventHandler") {
			parts := strings.Split(a, ", ")
			for i, x := range parts {
				if i > 0 { // the filters; the first argument is the (renamable) handler variable
					rsvArgs = append(rsvArgs, x)
				}
			}
		}
		fmt.Fprintf(&e.out, "def rsvHandler_args : List String := %s\n", lst(rsvArgs))

		// what is STORED into a map slot: right-hand sides of `<lhsPrefix>[…] = rhs`, in source order
		stores := func(recv, name, lhsPrefix string) []string {
			fd := e.funcDecl(d, recv, name)
			if fd == nil {
				e.fail("%s.%s not found", recv, name)
				return nil
			}
			var out []string
			ast.Inspect(fd.Body, func(n ast.Node) bool {
				as, ok := n.(*ast.AssignStmt)
				if !ok || len(as.Lhs) != 1 || len(as.Rhs) != 1 {
					return true
				}
				if ix, ok := as.Lhs[0].(*ast.IndexExpr); ok && types.ExprString(ix.X) == lhsPrefix {
					// normalised: a `.DeepCopy()` call, or a bare variable (names may change)
					switch v := as.Rhs[0].(type) {
					case *ast.CallExpr:
						out = append(out, "call:"+selName(v.Fun))
					case *ast.Ident:
						out = append(out, "var")
					default:
						out = append(out, types.ExprString(as.Rhs[0]))
					}
				}
				return true
			})
			return out
		}
		fmt.Fprintf(&e.out, "def append_stores : List String := %s\n", lst(stores("deviceResources", "append", "r")))
		fmt.Fprintf(&e.out, "def append_helpers : List String := %s\n", lst(func() []string {
			if fd := e.funcDecl(d, "deviceResources", "append"); fd != nil {
				return pkgCalls(fd.Body, "quotav1", "util")
			}
			return nil
		}()))
		fmt.Fprintf(&e.out, "def appendAllocated_stores : List String := %s\n", lst(stores("", "appendAllocated", "m")))
		fmt.Fprintf(&e.out, "def getUsed_stores : List String := %s\n", lst(stores("nodeDevice", "getUsed", "resourcesCopy")))
		fmt.Fprintf(&e.out, "def subtract_helpers : List String := %s\n", lst(func() []string {
			if fd := e.funcDecl(d, "deviceResources", "subtract"); fd != nil {
				return pkgCalls(fd.Body, "quotav1", "util")
			}
			return nil
		}()))
		// the read-only steps: which lock methods they call on a nodeDevice lock, and what they hand to the append / subtract helpers
		lockCalls := func(recv, name string) string {
			fd := e.funcDecl(d, recv, name)
			if fd == nil {
				e.fail("%s.%s not found", recv, name)
				return name + ":?"
			}
			set := map[string]bool{}
			ast.Inspect(fd.Body, func(n ast.Node) bool {
				if c, ok := n.(*ast.CallExpr); ok {
					if s, ok := c.Fun.(*ast.SelectorExpr); ok && selName(s.X) == "lock" {
						set[s.Sel.Name] = true
					}
				}
				return true
			})
			var ks []string
			for k := range set {
				ks = append(ks, k)
			}
			sort.Strings(ks)
			return name + ":" + strings.Join(ks, ",")
		}
		var roLocks []string
		for _, f := range []string{"AddPod", "RemovePod", "RestoreReservation", "RestoreReservationPreAllocation", "Filter", "FilterNominateReservation"} {
			roLocks = append(roLocks, lockCalls("Plugin", f))
		}
		fmt.Fprintf(&e.out, "def readonly_locks : List String := %s\n", lst(roLocks))
		// calls of the append / subtract helpers per read-only function: how many, and the literal withNonNegativeResult flag
		// (variable names are not recorded: a rename must stay silent)
		callShape := func(recv, name, callee string) []string {
			var out []string
			fd := e.funcDecl(d, recv, name)
			if fd == nil {
				e.fail("%s.%s not found", recv, name)
				return out
			}
			ast.Inspect(fd.Body, func(n ast.Node) bool {
				if c, ok := n.(*ast.CallExpr); ok && selName(c.Fun) == callee {
					flag := "-"
					if len(c.Args) > 0 {
						if id, ok := c.Args[len(c.Args)-1].(*ast.Ident); ok && (id.Name == "true" || id.Name == "false") {
							flag = id.Name
						}
					}
					out = append(out, fmt.Sprintf("%d:%s", len(c.Args), flag))
				}
				return true
			})
			return out
		}
		fmt.Fprintf(&e.out, "def removePod_append : List String := %s\n", lst(callShape("Plugin", "RemovePod", "appendAllocated")))
		fmt.Fprintf(&e.out, "def addPod_subtract : List String := %s\n", lst(callShape("Plugin", "AddPod", "subtractAllocated")))
		fmt.Fprintf(&e.out, "def removePod_getUsed : List String := %s\n", lst(callShape("Plugin", "RemovePod", "getUsed")))
		fmt.Fprintf(&e.out, "def restore_getUsed : List String := %s\n", lst(callShape("Plugin", "RestoreReservation", "getUsed")))
		fmt.Fprintf(&e.out, "def restore_appendByHints : List String := %s\n", lst(callShape("Plugin", "RestoreReservation", "appendAllocatedByHints")))
		fmt.Fprintf(&e.out, "def restore_subtract : List String := %s\n", lst(callShape("Plugin", "RestoreReservation", "subtractAllocated")))
		fmt.Fprintf(&e.out, "def merge_subtract : List String := %s\n", lst(callShape("nodeReservationRestoreStateData", "mergeReservationAllocations", "subtractAllocated")))
		fmt.Fprintf(&e.out, "def merge_append : List String := %s\n", lst(callShape("nodeReservationRestoreStateData", "mergeReservationAllocations", "appendAllocated")))
		fmt.Fprintf(&e.out, "def filter_append : List String := %s\n", lst(callShape("Plugin", "Filter", "appendAllocated")))

		// ---- extension 4: WHICH fields the restore-state helpers are handed (struct FIELD names only; local variable names
		// are recorded as "_" so that a rename stays silent) ----
		var operand func(x ast.Expr) string
		operand = func(x ast.Expr) string {
			switch v := x.(type) {
			case *ast.SelectorExpr:
				return v.Sel.Name
			case *ast.Ident:
				if v.Name == "true" || v.Name == "false" || v.Name == "nil" {
					return v.Name
				}
				return "_"
			case *ast.IndexExpr:
				return operand(v.X) + "[]"
			case *ast.CallExpr:
				var as []string
				for _, a := range v.Args {
					as = append(as, operand(a))
				}
				return selName(v.Fun) + "(" + strings.Join(as, ",") + ")"
			}
			return "?"
		}
		operands := func(recv, name, callee string) []string {
			var out []string
			fd := e.funcDecl(d, recv, name)
			if fd == nil {
				e.fail("%s.%s not found", recv, name)
				return out
			}
			ast.Inspect(fd.Body, func(n ast.Node) bool {
				if c, ok := n.(*ast.CallExpr); ok && selName(c.Fun) == callee {
					var as []string
					for _, a := range c.Args {
						as = append(as, operand(a))
					}
					out = append(out, strings.Join(as, ","))
				}
				return true
			})
			return out
		}
		fmt.Fprintf(&e.out, "def merge_subtract_operands : List String := %s\n", lst(operands("nodeReservationRestoreStateData", "mergeReservationAllocations", "subtractAllocated")))
		fmt.Fprintf(&e.out, "def merge_append_operands : List String := %s\n", lst(operands("nodeReservationRestoreStateData", "mergeReservationAllocations", "appendAllocated")))
		fmt.Fprintf(&e.out, "def filter_append_operands : List String := %s\n", lst(operands("Plugin", "Filter", "appendAllocated")))
		fmt.Fprintf(&e.out, "def allocate_append_operands : List String := %s\n", lst(operands("Plugin", "allocate", "appendAllocated")))

		// ---- extension 3: the informer transformer and the allocation result in the cycle state ----
		// apis/extension DeprecatedDeviceResourcesMapper: deprecated name -> current name (symbol names)
		var mapper []string
		if x, ok := e.valueSpec("apis/extension", "DeprecatedDeviceResourcesMapper"); ok {
			if cl, ok := x.(*ast.CompositeLit); ok {
				for _, el := range cl.Elts {
					if kv, ok := el.(*ast.KeyValueExpr); ok {
						mapper = append(mapper, selName(kv.Key)+"=>"+selName(kv.Value))
					} else {
						e.fail("DeprecatedDeviceResourcesMapper: element is not key:value")
					}
				}
			} else {
				e.fail("DeprecatedDeviceResourcesMapper is not a composite literal")
			}
		} else {
			e.fail("DeprecatedDeviceResourcesMapper not found")
		}
		sort.Strings(mapper)
		fmt.Fprintf(&e.out, "def deprecatedDeviceMapper : List String := %s\n", lst(mapper))
		// pkg/util/transformer: which transform SetupTransformers installs per resource, and the pod transformer list
		td := "pkg/util/transformer"
		tfTable := func(name string) []string {
			var out []string
			x, ok := e.valueSpec(td, name)
			if !ok {
				e.fail("%s not found", name)
				return out
			}
			cl, ok := x.(*ast.CompositeLit)
			if !ok {
				e.fail("%s is not a composite literal", name)
				return out
			}
			for _, el := range cl.Elts {
				switch v := el.(type) {
				case *ast.KeyValueExpr:
					res := "?"
					if c, ok := v.Key.(*ast.CallExpr); ok && len(c.Args) == 1 {
						if bl, ok := c.Args[0].(*ast.BasicLit); ok {
							res = strings.Trim(bl.Value, "\"")
						}
					}
					out = append(out, res+"=>"+selName(v.Value))
				default:
					out = append(out, selName(el))
				}
			}
			return out
		}
		tf := tfTable("transformers")
		sort.Strings(tf)
		fmt.Fprintf(&e.out, "def transformers_table : List String := %s\n", lst(tf))
		fmt.Fprintf(&e.out, "def transformerFactories_table : List String := %s\n", lst(tfTable("transformerFactories")))
		fmt.Fprintf(&e.out, "def podTransformers_list : List String := %s\n", lst(tfTable("podTransformers")))
		// where a call sits: the loops around it, and whether it is executed UNCONDITIONALLY inside them (not in the body /
		// else of an if, not the right operand of && / ||, not in a switch / select clause)
		callSite := func(dir, recv, name, callee string) (found int, loops int, uncond bool) {
			fd := e.funcDecl(dir, recv, name)
			if fd == nil {
				e.fail("%s.%s not found", recv, name)
				return 0, 0, false
			}
			uncond = true
			var walk func(n ast.Node, depth int, cond bool)
			walk = func(n ast.Node, depth int, cond bool) {
				if n == nil {
					return
				}
				switch v := n.(type) {
				case *ast.CallExpr:
					if selName(v.Fun) == callee {
						found++
						loops = depth
						if cond {
							uncond = false
						}
					}
					for _, a := range v.Args {
						walk(a, depth, cond)
					}
					walk(v.Fun, depth, cond)
					return
				case *ast.RangeStmt:
					walk(v.X, depth, cond)
					walk(v.Body, depth+1, cond)
					return
				case *ast.ForStmt:
					walk(v.Init, depth, cond)
					walk(v.Cond, depth+1, cond)
					walk(v.Post, depth+1, cond)
					walk(v.Body, depth+1, cond)
					return
				case *ast.IfStmt:
					walk(v.Init, depth, cond)
					walk(v.Cond, depth, cond)
					walk(v.Body, depth, true)
					if v.Else != nil {
						walk(v.Else, depth, true)
					}
					return
				case *ast.BinaryExpr:
					walk(v.X, depth, cond)
					walk(v.Y, depth, cond || v.Op == token.LAND || v.Op == token.LOR)
					return
				case *ast.CaseClause:
					for _, s := range v.Body {
						walk(s, depth, true)
					}
					return
				case *ast.CommClause:
					for _, s := range v.Body {
						walk(s, depth, true)
					}
					return
				case *ast.FuncLit:
					walk(v.Body, depth, true)
					return
				}
				// generic children
				ast.Inspect(n, func(c ast.Node) bool {
					if c == n || c == nil {
						return true
					}
					walk(c, depth, cond)
					return false
				})
			}
			walk(fd.Body, 0, false)
			return
		}
		{
			found, loops, uncond := callSite(td, "", "transformDeviceAllocations", "replaceAndEraseWithResourcesMapper")
			fmt.Fprintf(&e.out, "def transformAlloc_helperCalls : Nat := %d\n", found)
			fmt.Fprintf(&e.out, "def transformAlloc_loopDepth : Nat := %d\n", loops)
			fmt.Fprintf(&e.out, "def transformAlloc_unconditional : Bool := %v\n", uncond)
			f2, l2, u2 := callSite(td, "", "replaceAndEraseWithResourcesMapper", "replaceAndEraseResource")
			fmt.Fprintf(&e.out, "def mapperHelper_calls : Nat := %d\n", f2)
			fmt.Fprintf(&e.out, "def mapperHelper_loopDepth : Nat := %d\n", l2)
			fmt.Fprintf(&e.out, "def mapperHelper_unconditional : Bool := %v\n", u2)
		}
		// replaceAndEraseResource: the guard order (`to` empty, `to` present, then `from` present => move + delete)
		{
			var guards []string
			if fd := e.funcDecl(td, "", "replaceAndEraseResource"); fd != nil {
				for _, st := range fd.Body.List {
					switch v := st.(type) {
					case *ast.IfStmt:
						c := types.ExprString(v.Cond)
						if v.Init != nil {
							if as, ok := v.Init.(*ast.AssignStmt); ok && len(as.Rhs) == 1 {
								c = types.ExprString(as.Rhs[0]) + ";" + c
							}
						}
						guards = append(guards, "if "+c)
					case *ast.AssignStmt:
						if len(v.Rhs) == 1 {
							guards = append(guards, "assign "+types.ExprString(v.Rhs[0]))
						}
					case *ast.ReturnStmt:
						guards = append(guards, "return")
					}
				}
			} else {
				e.fail("replaceAndEraseResource not found")
			}
			fmt.Fprintf(&e.out, "def replaceAndErase_guards : List String := %s\n", lst(guards))
		}
		// Plugin.Filter, designated branch: the statements of the block that runs the trial allocate, normalised
		// (`allocate` = a statement calling p.allocate, `return-on-failure` = an if that returns, `clear-result` =
		// `state.allocationResult = nil`), and the conditions of the ifs around it
		blockOf := func(name string) (stmts []string, conds []string) {
			fd := e.funcDecl(d, "Plugin", name)
			if fd == nil {
				e.fail("Plugin.%s not found", name)
				return
			}
			hasCall := func(n ast.Node, callee string) bool {
				f := false
				ast.Inspect(n, func(c ast.Node) bool {
					if ce, ok := c.(*ast.CallExpr); ok && selName(ce.Fun) == callee {
						f = true
					}
					return !f
				})
				return f
			}
			var visit func(b *ast.BlockStmt, cs []string) bool
			visit = func(b *ast.BlockStmt, cs []string) bool {
				direct := false
				for _, st := range b.List {
					switch v := st.(type) {
					case *ast.AssignStmt, *ast.ExprStmt:
						if hasCall(v, "allocate") {
							direct = true
						}
					}
				}
				if direct {
					conds = cs
					for _, st := range b.List {
						switch v := st.(type) {
						case *ast.AssignStmt:
							switch {
							case hasCall(v, "allocate"):
								stmts = append(stmts, "allocate")
							case len(v.Lhs) == 1 && len(v.Rhs) == 1 && selName(v.Lhs[0]) == "allocationResult" && types.ExprString(v.Rhs[0]) == "nil":
								stmts = append(stmts, "clear-result")
							default:
								stmts = append(stmts, "assign")
							}
						case *ast.IfStmt:
							ret := false
							for _, s2 := range v.Body.List {
								if _, ok := s2.(*ast.ReturnStmt); ok {
									ret = true
								}
							}
							if ret {
								stmts = append(stmts, "return-on-failure")
							} else {
								stmts = append(stmts, "if")
							}
						case *ast.ReturnStmt:
							stmts = append(stmts, "return")
						default:
							stmts = append(stmts, "other")
						}
					}
					return true
				}
				for _, st := range b.List {
					if v, ok := st.(*ast.IfStmt); ok {
						if visit(v.Body, append(append([]string{}, cs...), types.ExprString(v.Cond))) {
							return true
						}
					}
				}
				return false
			}
			visit(fd.Body, nil)
			return
		}
		fs, fc := blockOf("Filter")
		fmt.Fprintf(&e.out, "def filter_trial_block : List String := %s\n", lst(fs))
		fmt.Fprintf(&e.out, "def filter_trial_conds : List String := %s\n", lst(fc))
		rs, rc := blockOf("Reserve")
		fmt.Fprintf(&e.out, "def reserve_allocate_block : List String := %s\n", lst(rs))
		fmt.Fprintf(&e.out, "def reserve_allocate_conds : List String := %s\n", lst(rc))
		// allocate stores its result in the cycle state, once, as the last assignment to that field
		var allocStores []string
		if fd := e.funcDecl(d, "Plugin", "allocate"); fd != nil {
			ast.Inspect(fd.Body, func(n ast.Node) bool {
				if as, ok := n.(*ast.AssignStmt); ok && len(as.Lhs) == 1 && selName(as.Lhs[0]) == "allocationResult" {
					allocStores = append(allocStores, types.ExprString(as.Rhs[0]))
				}
				return true
			})
		} else {
			e.fail("Plugin.allocate not found")
		}
		fmt.Fprintf(&e.out, "def allocate_result_stores : Nat := %d\n", len(allocStores))
		// PreFilter: the designation is dropped unless the scheduling hint names the plugin
		var preClears []string
		if fd := e.funcDecl(d, "Plugin", "PreFilter"); fd != nil {
			for _, st := range fd.Body.List {
				if v, ok := st.(*ast.IfStmt); ok {
					for _, s2 := range v.Body.List {
						if as, ok := s2.(*ast.AssignStmt); ok && len(as.Lhs) == 1 && selName(as.Lhs[0]) == "designatedAllocation" {
							preClears = append(preClears, types.ExprString(v.Cond))
						}
					}
				}
			}
		} else {
			e.fail("Plugin.PreFilter not found")
		}
		fmt.Fprintf(&e.out, "def prefilter_designation_cleared_when : List String := %s\n", lst(preClears))
		c07FillFacts(e, d, lst)
	}
}

// extension 6: devicehandler_gpu.go fillGPUTotalMem - WHICH device's gpu-memory total the two conversions use.
//   fill_device_lookup      "in-loop:entry-minor" when the range body (directly, not under an if / nested loop) looks a
//                           device up in a map with an index that mentions <range value>.Minor (or <slice>[<range key>].Minor)
//   fill_conversion_totals  per call of memoryBytesToRatio / memoryRatioToBytes, in source order: "<callee>:entry-device"
//                           when the 2nd argument is <that device>[...ResourceGPUMemory], or a local whose ONLY assignment
//                           is such an expression and sits directly in the range body; otherwise "<callee>:other:<expr>"
// Local names are free (rename-tolerant); hoisting the device's memory into a per-iteration local is tolerated.
func c07FillFacts(e *ext, d string, lst func([]string) string) {
	lookup := "missing"
	var totals []string
	fd := e.funcDecl(d, "", "fillGPUTotalMem")
	if fd == nil {
		e.fail("fillGPUTotalMem not found")
	} else {
		var loop *ast.RangeStmt
		ast.Inspect(fd.Body, func(n ast.Node) bool {
			if r, ok := n.(*ast.RangeStmt); ok && loop == nil {
				loop = r
			}
			return loop == nil
		})
		if loop == nil {
			e.fail("fillGPUTotalMem: no range loop")
		} else {
			keyName, valName := "", ""
			if id, ok := loop.Key.(*ast.Ident); ok {
				keyName = id.Name
			}
			if id, ok := loop.Value.(*ast.Ident); ok {
				valName = id.Name
			}
			entryMinor := func(x ast.Expr) bool { // mentions <value>.Minor or <anything>[<key>].Minor
				found := false
				ast.Inspect(x, func(n ast.Node) bool {
					if se, ok := n.(*ast.SelectorExpr); ok && se.Sel.Name == "Minor" {
						switch b := se.X.(type) {
						case *ast.Ident:
							if b.Name == valName && valName != "" && valName != "_" {
								found = true
							}
						case *ast.IndexExpr:
							if id, ok := b.Index.(*ast.Ident); ok && id.Name == keyName && keyName != "" && keyName != "_" {
								found = true
							}
						}
					}
					return true
				})
				return found
			}
			// the device of the entry: first direct statement `D, ok := M[<entry minor>]` / `D := M[<entry minor>]`
			dev := ""
			for _, st := range loop.Body.List {
				if as, ok := st.(*ast.AssignStmt); ok && len(as.Rhs) == 1 && dev == "" {
					if ix, ok := as.Rhs[0].(*ast.IndexExpr); ok && entryMinor(ix.Index) {
						if id, ok := as.Lhs[0].(*ast.Ident); ok {
							dev = id.Name
							lookup = "in-loop:entry-minor"
						}
					}
				}
			}
			isDevMem := func(x ast.Expr) bool { // D[...ResourceGPUMemory]
				ix, ok := x.(*ast.IndexExpr)
				if !ok {
					return false
				}
				id, ok := ix.X.(*ast.Ident)
				if !ok || id.Name != dev || dev == "" {
					return false
				}
				switch k := ix.Index.(type) {
				case *ast.SelectorExpr:
					return k.Sel.Name == "ResourceGPUMemory"
				case *ast.Ident:
					return k.Name == "ResourceGPUMemory"
				}
				return false
			}
			// every assignment to a local in the whole function: name -> (count, the one directly in the range body)
			assigns := map[string]int{}
			direct := map[string]ast.Expr{}
			ast.Inspect(fd.Body, func(n ast.Node) bool {
				switch v := n.(type) {
				case *ast.AssignStmt:
					for _, l := range v.Lhs {
						if id, ok := l.(*ast.Ident); ok {
							assigns[id.Name]++
						}
					}
				case *ast.ValueSpec:
					for _, id := range v.Names {
						if len(v.Values) > 0 {
							assigns[id.Name]++
						}
					}
				}
				return true
			})
			for _, st := range loop.Body.List {
				if as, ok := st.(*ast.AssignStmt); ok && len(as.Lhs) == 1 && len(as.Rhs) == 1 {
					if id, ok := as.Lhs[0].(*ast.Ident); ok {
						direct[id.Name] = as.Rhs[0]
					}
				}
			}
			ast.Inspect(fd.Body, func(n ast.Node) bool {
				c, ok := n.(*ast.CallExpr)
				if !ok {
					return true
				}
				id, ok := c.Fun.(*ast.Ident)
				if !ok || (id.Name != "memoryBytesToRatio" && id.Name != "memoryRatioToBytes") || len(c.Args) != 2 {
					return true
				}
				inLoop := c.Pos() >= loop.Body.Pos() && c.End() <= loop.Body.End()
				arg := c.Args[1]
				okDev := inLoop && isDevMem(arg)
				if v, isID := arg.(*ast.Ident); isID && inLoop && !okDev {
					if rhs, has := direct[v.Name]; has && assigns[v.Name] == 1 && isDevMem(rhs) {
						okDev = true
					}
				}
				if okDev {
					totals = append(totals, id.Name+":entry-device")
				} else {
					totals = append(totals, id.Name+":other:"+types.ExprString(arg))
				}
				return true
			})
		}
	}
	fmt.Fprintf(&e.out, "def fill_device_lookup : String := %s\n", leanStr(lookup))
	fmt.Fprintf(&e.out, "def fill_conversion_totals : List String := %s\n", lst(totals))
}
