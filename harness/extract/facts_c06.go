package main

import (
	"fmt"
	"go/ast"
	"strings"
)

// C06: critical-section structure of the node ledger (pkg/scheduler/plugins/nodenumaresource).
// For resourceManager.{Update,Release,GetAvailableCPUs,getAvailableNUMANodeResources}: the sequence of sections
// (lock held?, [ledger calls]) in source order; a new section starts at every <x>.lock.Lock()/RLock()/Unlock()/RUnlock();
// `defer <x>.lock.Unlock()` holds to the end of the function.  Ledger call codes:
//   0 NodeAllocation.release   1 NodeAllocation.addPodAllocation   2 NodeAllocation.update
//   3 NodeAllocation.getAvailableCPUs   4 NodeAllocation.getAvailableNUMANodeResources
// A call of the self-locking c.Release(...) made while no lock is held is its own section (true, [0]);
// made while the lock is held it is reported as code 9 (the RWMutex is not reentrant).
// For NodeAllocation.update: the plain sequence of ledger calls (it must not touch the lock).
// For Allocate and its helpers: how many lock operations and ledger writes they contain themselves (0 expected: they
// only read, through the self-locking getters, whose codes are listed in source order).

var c06Codes = map[string]int{"release": 0, "addPodAllocation": 1, "update": 2, "getAvailableCPUs": 3, "getAvailableNUMANodeResources": 4}

func c06Sel(x ast.Expr) (recv string, name string, ok bool) {
	c, isCall := x.(*ast.CallExpr)
	if !isCall {
		return "", "", false
	}
	s, isSel := c.Fun.(*ast.SelectorExpr)
	if !isSel {
		return "", "", false
	}
	return c06Expr(s.X), s.Sel.Name, true
}

func c06Expr(x ast.Expr) string {
	switch v := x.(type) {
	case *ast.Ident:
		return v.Name
	case *ast.SelectorExpr:
		return c06Expr(v.X) + "." + v.Sel.Name
	case *ast.ParenExpr:
		return c06Expr(v.X)
	}
	return "?"
}

type c06Sec struct {
	locked bool
	acts   []int
}

type c06Walk struct {
	recvName string // receiver variable of the method being walked
	secs     []c06Sec
	held     bool
	nlocks   int
	self     []string // self-locking resourceManager methods called, in order
}

func (w *c06Walk) emit(code int) {
	if len(w.secs) == 0 || w.secs[len(w.secs)-1].locked != w.held {
		w.secs = append(w.secs, c06Sec{locked: w.held})
	}
	w.secs[len(w.secs)-1].acts = append(w.secs[len(w.secs)-1].acts, code)
}

func (w *c06Walk) calls(n ast.Node) {
	ast.Inspect(n, func(m ast.Node) bool {
		if _, isLit := m.(*ast.FuncLit); isLit {
			return false
		}
		c, ok := m.(*ast.CallExpr)
		if !ok {
			return true
		}
		recv, name, ok := c06Sel(c)
		if !ok {
			return true
		}
		if recv == w.recvName && (name == "Release" || name == "Update" || name == "GetAvailableCPUs" || name == "getAvailableNUMANodeResources" || name == "trimNUMANodeResources" || name == "allocateResourcesByHint" || name == "allocateCPUSet") {
			w.self = append(w.self, name)
			if name == "Release" {
				if w.held {
					w.emit(9)
				} else { // its own critical section
					w.secs = append(w.secs, c06Sec{locked: true, acts: []int{0}})
					w.secs = append(w.secs, c06Sec{locked: false})
				}
			}
			if name == "Update" {
				w.emit(9)
			}
			return true
		}
		if code, ok := c06Codes[name]; ok && recv != w.recvName {
			w.emit(code)
		}
		return true
	})
}

func (w *c06Walk) stmts(list []ast.Stmt) {
	for _, s := range list {
		switch v := s.(type) {
		case *ast.ExprStmt:
			if recv, name, ok := c06Sel(v.X); ok && strings.HasSuffix(recv, ".lock") {
				switch name {
				case "Lock", "RLock":
					w.held = true
					w.nlocks++
					w.secs = append(w.secs, c06Sec{locked: true})
					continue
				case "Unlock", "RUnlock":
					w.held = false
					w.secs = append(w.secs, c06Sec{locked: false})
					continue
				}
			}
			w.calls(v)
		case *ast.DeferStmt:
			if recv, name, ok := c06Sel(v.Call); ok && strings.HasSuffix(recv, ".lock") && (name == "Unlock" || name == "RUnlock") {
				continue // held to the end of the function
			}
			w.calls(v.Call)
		case *ast.BlockStmt:
			w.stmts(v.List)
		case *ast.IfStmt:
			if v.Init != nil {
				w.stmts([]ast.Stmt{v.Init})
			}
			w.calls(v.Cond)
			w.stmts(v.Body.List)
			if v.Else != nil {
				w.stmts([]ast.Stmt{v.Else})
			}
		case *ast.ForStmt:
			w.stmts(v.Body.List)
		case *ast.RangeStmt:
			w.calls(v.X)
			w.stmts(v.Body.List)
		default:
			w.calls(s)
		}
	}
}

func (e *ext) c06Walk(dir, recv, fn string) *c06Walk {
	w := &c06Walk{}
	fd := e.funcDecl(dir, recv, fn)
	if fd == nil || fd.Body == nil {
		e.fail("%s: func (%s) %s not found", dir, recv, fn)
		return w
	}
	if fd.Recv != nil && len(fd.Recv.List) > 0 && len(fd.Recv.List[0].Names) > 0 {
		w.recvName = fd.Recv.List[0].Names[0].Name
	}
	w.stmts(fd.Body.List)
	return w
}

func c06Ints(xs []int) string {
	var p []string
	for _, x := range xs {
		p = append(p, fmt.Sprint(x))
	}
	return "[" + strings.Join(p, ", ") + "]"
}

func (e *ext) c06Sections(dir, recv, fn, lean string) {
	w := e.c06Walk(dir, recv, fn)
	var parts []string
	for _, s := range w.secs {
		if len(s.acts) == 0 {
			continue
		}
		parts = append(parts, fmt.Sprintf("(%v, %s)", s.locked, c06Ints(s.acts)))
	}
	fmt.Fprintf(&e.out, "/-- %s.(%s).%s: sections (lock held?, ledger calls) -/\ndef %s : List (Bool × List Nat) := [%s]\n", dir, recv, fn, lean, strings.Join(parts, ", "))
}

func init() {
	extractors["C06"] = func(e *ext) {
		d := "pkg/scheduler/plugins/nodenumaresource"
		e.c06Sections(d, "resourceManager", "Update", "rmUpdate")
		e.c06Sections(d, "resourceManager", "Release", "rmRelease")
		e.c06Sections(d, "resourceManager", "GetAvailableCPUs", "rmGetAvailableCPUs")
		e.c06Sections(d, "resourceManager", "getAvailableNUMANodeResources", "rmGetAvailableNUMA")
		// NodeAllocation.update: plain call sequence, no locking of its own
		{
			w := e.c06Walk(d, "NodeAllocation", "update")
			var acts []int
			for _, s := range w.secs {
				acts = append(acts, s.acts...)
			}
			// inside NodeAllocation methods the ledger calls are on the receiver itself
			acts = nil
			if fd := e.funcDecl(d, "NodeAllocation", "update"); fd != nil && fd.Body != nil {
				ast.Inspect(fd.Body, func(m ast.Node) bool {
					if c, ok := m.(*ast.CallExpr); ok {
						if _, name, ok := c06Sel(c); ok {
							if code, ok := c06Codes[name]; ok {
								acts = append(acts, code)
							}
						}
					}
					return true
				})
			}
			fmt.Fprintf(&e.out, "/-- NodeAllocation.update: ledger calls in order -/\ndef naUpdate : List Nat := %s\n", c06Ints(acts))
			fmt.Fprintf(&e.out, "/-- lock operations inside NodeAllocation.update -/\ndef naUpdateLocks : Nat := %d\n", w.nlocks)
		}
		// Allocate and its helpers: no lock operation and no ledger write of their own; the self-locking reads they make
		locks, writes := 0, 0
		var reads []int
		for _, fn := range []string{"Allocate", "allocateResourcesByHint", "trimNUMANodeResources", "allocateCPUSet"} {
			w := e.c06Walk(d, "resourceManager", fn)
			locks += w.nlocks
			for _, s := range w.secs {
				for _, a := range s.acts {
					if a == 0 || a == 1 || a == 2 || a == 9 {
						writes++
					}
				}
			}
			for _, name := range w.self {
				switch name {
				case "GetAvailableCPUs":
					reads = append(reads, 3)
				case "getAvailableNUMANodeResources":
					reads = append(reads, 4)
				case "Release", "Update":
					writes++
				}
			}
		}
		fmt.Fprintf(&e.out, "/-- lock operations written in Allocate / allocateResourcesByHint / trimNUMANodeResources / allocateCPUSet themselves -/\ndef rmAllocateLocks : Nat := %d\n", locks)
		fmt.Fprintf(&e.out, "/-- ledger writes (release / add / update / Release / Update) made by them -/\ndef rmAllocateWrites : Nat := %d\n", writes)
		fmt.Fprintf(&e.out, "/-- the self-locking reads they make, in source order (3 GetAvailableCPUs, 4 getAvailableNUMANodeResources): each is its own read section -/\ndef rmAllocateReads : List Nat := %s\n", c06Ints(reads))
	}
}
