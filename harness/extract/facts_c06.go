package main

import (
	"fmt"
	"go/ast"
	"go/printer"
	"go/token"
	"io/fs"
	"path/filepath"
	"sort"
	"strings"
)

// C06: critical-section structure of the node ledger (pkg/scheduler/plugins/nodenumaresource).
// For resourceManager.{Update,Release,GetAvailableCPUs,getAvailableNUMANodeResources}: the sequence of sections
// (lock held?, [ledger calls]) in source order; a new section starts at every <x>.lock.Lock()/RLock()/Unlock()/RUnlock();
// `defer <x>.lock.Unlock()` holds to the end of the function.  Ledger call codes:
//   0 NodeAllocation.release   1 NodeAllocation.addPodAllocation   2 NodeAllocation.update
//   3 NodeAllocation.getAvailableCPUs   4 NodeAllocation.getAvailableNUMANodeResources
// A call of the self-locking c.Release(...) made while no lock is held is its own section (true, [0]);
// made while the lock is held it is reported as code 9 (the RWMutex is not reentrant).
// For NodeAllocation.update: the plain sequence of ledger calls (it must not touch the lock).
// For Allocate and its helpers: how many lock operations and ledger writes they contain themselves (0 expected: they
// only read, through the self-locking getters, whose codes are listed in source order).

var c06Codes = map[string]int{"release": 0, "addPodAllocation": 1, "update": 2, "getAvailableCPUs": 3, "getAvailableNUMANodeResources": 4}

func c06Sel(x ast.Expr) (recv string, name string, ok bool) {
	c, isCall := x.(*ast.CallExpr)
	if !isCall {
		return "", "", false
	}
	s, isSel := c.Fun.(*ast.SelectorExpr)
	if !isSel {
		return "", "", false
	}
	return c06Expr(s.X), s.Sel.Name, true
}

func c06Expr(x ast.Expr) string {
	switch v := x.(type) {
	case *ast.Ident:
		return v.Name
	case *ast.SelectorExpr:
		return c06Expr(v.X) + "." + v.Sel.Name
	case *ast.ParenExpr:
		return c06Expr(v.X)
	}
	return "?"
}

type c06Sec struct {
	locked bool
	acts   []int
}

type c06Walk struct {
	recvName string // receiver variable of the method being walked
	secs     []c06Sec
	held     bool
	nlocks   int
	self     []string // self-locking resourceManager methods called, in order
}

func (w *c06Walk) emit(code int) {
	if len(w.secs) == 0 || w.secs[len(w.secs)-1].locked != w.held {
		w.secs = append(w.secs, c06Sec{locked: w.held})
	}
	w.secs[len(w.secs)-1].acts = append(w.secs[len(w.secs)-1].acts, code)
}

func (w *c06Walk) calls(n ast.Node) {
	ast.Inspect(n, func(m ast.Node) bool {
		if _, isLit := m.(*ast.FuncLit); isLit {
			return false
		}
		c, ok := m.(*ast.CallExpr)
		if !ok {
			return true
		}
		recv, name, ok := c06Sel(c)
		if !ok {
			return true
		}
		if recv == w.recvName && (name == "Release" || name == "Update" || name == "GetAvailableCPUs" || name == "getAvailableNUMANodeResources" || name == "trimNUMANodeResources" || name == "allocateResourcesByHint" || name == "allocateCPUSet") {
			w.self = append(w.self, name)
			if name == "Release" {
				if w.held {
					w.emit(9)
				} else { // its own critical section
					w.secs = append(w.secs, c06Sec{locked: true, acts: []int{0}})
					w.secs = append(w.secs, c06Sec{locked: false})
				}
			}
			if name == "Update" {
				w.emit(9)
			}
			return true
		}
		if code, ok := c06Codes[name]; ok && recv != w.recvName {
			w.emit(code)
		}
		return true
	})
}

func (w *c06Walk) stmts(list []ast.Stmt) {
	for _, s := range list {
		switch v := s.(type) {
		case *ast.ExprStmt:
			if recv, name, ok := c06Sel(v.X); ok && strings.HasSuffix(recv, ".lock") {
				switch name {
				case "Lock", "RLock":
					w.held = true
					w.nlocks++
					w.secs = append(w.secs, c06Sec{locked: true})
					continue
				case "Unlock", "RUnlock":
					w.held = false
					w.secs = append(w.secs, c06Sec{locked: false})
					continue
				}
			}
			w.calls(v)
		case *ast.DeferStmt:
			if recv, name, ok := c06Sel(v.Call); ok && strings.HasSuffix(recv, ".lock") && (name == "Unlock" || name == "RUnlock") {
				continue // held to the end of the function
			}
			w.calls(v.Call)
		case *ast.BlockStmt:
			w.stmts(v.List)
		case *ast.IfStmt:
			if v.Init != nil {
				w.stmts([]ast.Stmt{v.Init})
			}
			w.calls(v.Cond)
			w.stmts(v.Body.List)
			if v.Else != nil {
				w.stmts([]ast.Stmt{v.Else})
			}
		case *ast.ForStmt:
			w.stmts(v.Body.List)
		case *ast.RangeStmt:
			w.calls(v.X)
			w.stmts(v.Body.List)
		default:
			w.calls(s)
		}
	}
}

func (e *ext) c06Walk(dir, recv, fn string) *c06Walk {
	w := &c06Walk{}
	fd := e.funcDecl(dir, recv, fn)
	if fd == nil || fd.Body == nil {
		e.fail("%s: func (%s) %s not found", dir, recv, fn)
		return w
	}
	if fd.Recv != nil && len(fd.Recv.List) > 0 && len(fd.Recv.List[0].Names) > 0 {
		w.recvName = fd.Recv.List[0].Names[0].Name
	}
	w.stmts(fd.Body.List)
	return w
}

func c06Ints(xs []int) string {
	var p []string
	for _, x := range xs {
		p = append(p, fmt.Sprint(x))
	}
	return "[" + strings.Join(p, ", ") + "]"
}

func (e *ext) c06Sections(dir, recv, fn, lean string) {
	w := e.c06Walk(dir, recv, fn)
	var parts []string
	for _, s := range w.secs {
		if len(s.acts) == 0 {
			continue
		}
		parts = append(parts, fmt.Sprintf("(%v, %s)", s.locked, c06Ints(s.acts)))
	}
	fmt.Fprintf(&e.out, "/-- %s.(%s).%s: sections (lock held?, ledger calls) -/\ndef %s : List (Bool × List Nat) := [%s]\n", dir, recv, fn, lean, strings.Join(parts, ", "))
}

// ---- who commits to the ledger (round 2): the premise "one scheduling goroutine per node ledger" of update_atomic_safe
// is tied to the call sites.  For every non-test file of a directory: the enclosing functions ("Recv.Func" or "Func") of
// the AST nodes selected by `pick`.
func (e *ext) c06Enclosing(dir string, pick func(n ast.Node) bool) []string {
	seen := map[string]bool{}
	for _, f := range e.dir(dir) {
		for _, d := range f.Decls {
			fd, ok := d.(*ast.FuncDecl)
			if !ok || fd.Body == nil {
				continue
			}
			name := fd.Name.Name
			if fd.Recv != nil && len(fd.Recv.List) > 0 {
				t := fd.Recv.List[0].Type
				if st, ok := t.(*ast.StarExpr); ok {
					t = st.X
				}
				name = c06Expr(t) + "." + name
			}
			ast.Inspect(fd.Body, func(n ast.Node) bool {
				if n != nil && pick(n) {
					seen[name] = true
				}
				return true
			})
		}
	}
	var out []string
	for k := range seen {
		out = append(out, k)
	}
	sort.Strings(out)
	return out
}

func c06Strs(xs []string) string {
	var p []string
	for _, x := range xs {
		p = append(p, leanStr(x))
	}
	return "[" + strings.Join(p, ", ") + "]"
}

// c06CallOn: a call <recv>.<name>(...) whose receiver expression ends with recvSuffix ("" = any receiver).
func c06CallOn(n ast.Node, recvSuffix string, names ...string) bool {
	c, ok := n.(*ast.CallExpr)
	if !ok {
		return false
	}
	recv, name, ok := c06Sel(c)
	if !ok || !strings.HasSuffix(recv, recvSuffix) {
		return false
	}
	for _, x := range names {
		if x == name {
			return true
		}
	}
	return false
}

func (e *ext) c06CommitSites() {
	d := "pkg/scheduler/plugins/nodenumaresource"
	upd := e.c06Enclosing(d, func(n ast.Node) bool {
		return c06CallOn(n, "esourceManager", "Update") || c06CallOn(n, "manager", "Update")
	})
	rel := e.c06Enclosing(d, func(n ast.Node) bool {
		return c06CallOn(n, "esourceManager", "Release") || c06CallOn(n, "manager", "Release")
	})
	asg := e.c06Enclosing(d, func(n ast.Node) bool {
		a, ok := n.(*ast.AssignStmt)
		if !ok {
			return false
		}
		for _, l := range a.Lhs {
			if s, ok := l.(*ast.SelectorExpr); ok && s.Sel.Name == "allocation" {
				return true
			}
		}
		return false
	})
	alc := e.c06Enclosing(d, func(n ast.Node) bool { return c06CallOn(n, "p", "allocate") })
	fmt.Fprintf(&e.out, "/-- functions of the package that call <resourceManager>.Update (the commit of a read…commit round, or the informer's re-assertion) -/\ndef ledgerUpdateCallers : List String := %s\n", c06Strs(upd))
	fmt.Fprintf(&e.out, "/-- functions of the package that call <resourceManager>.Release -/\ndef ledgerReleaseCallers : List String := %s\n", c06Strs(rel))
	fmt.Fprintf(&e.out, "/-- functions that assign <state>.allocation (what Reserve commits) -/\ndef allocationAssigners : List String := %s\n", c06Strs(asg))
	fmt.Fprintf(&e.out, "/-- functions that call Plugin.allocate -/\ndef allocateCallers : List String := %s\n", c06Strs(alc))
	// who runs the Reserve plugins, and who reaches the resource manager from outside the package: all of pkg/scheduler
	var runners, external []string
	inUntil := 0
	root := filepath.Join(e.repo, "pkg/scheduler")
	_ = filepath.WalkDir(root, func(path string, de fs.DirEntry, err error) error {
		if err != nil || !de.IsDir() {
			return nil
		}
		rel, _ := filepath.Rel(e.repo, path)
		for _, fn := range e.c06Enclosing(rel, func(n ast.Node) bool { return c06CallOn(n, "", "RunReservePluginsReserve") }) {
			runners = append(runners, rel+":"+fn)
		}
		if rel != d {
			for _, fn := range e.c06Enclosing(rel, func(n ast.Node) bool { return c06CallOn(n, "", "GetResourceManager") }) {
				external = append(external, rel+":"+fn)
			}
		}
		// Reserve calls lexically inside a closure handed to <parallelizer>.Until(ctx, len(podRequestsByNode), func(i int) {...})
		for _, f := range e.dir(rel) {
			ast.Inspect(f, func(n ast.Node) bool {
				c, ok := n.(*ast.CallExpr)
				if !ok || !c06CallOn(c, "", "Until") || len(c.Args) < 3 {
					return true
				}
				lit, ok := c.Args[2].(*ast.FuncLit)
				if !ok {
					return true
				}
				has := false
				ast.Inspect(lit.Body, func(m ast.Node) bool {
					if m != nil && c06CallOn(m, "", "RunReservePluginsReserve") {
						has = true
					}
					return true
				})
				if !has {
					return true
				}
				// pieces = len(podRequestsByNode) and the closure starts by selecting podRequestsByNode[i]
				byNode := false
				if l, ok := c.Args[1].(*ast.CallExpr); ok && len(l.Args) == 1 && c06Expr(l.Fun) == "len" && c06Expr(l.Args[0]) == "podRequestsByNode" {
					if len(lit.Body.List) > 0 {
						if a, ok := lit.Body.List[0].(*ast.AssignStmt); ok && len(a.Rhs) == 1 {
							if ix, ok := a.Rhs[0].(*ast.IndexExpr); ok && c06Expr(ix.X) == "podRequestsByNode" {
								byNode = true
							}
						}
					}
				}
				if byNode {
					inUntil++
				} else {
					inUntil += 100 // a parallel Reserve that is not "one worker per node group"
				}
				return true
			})
		}
		return nil
	})
	sort.Strings(runners)
	sort.Strings(external)
	fmt.Fprintf(&e.out, "/-- functions under pkg/scheduler that call RunReservePluginsReserve (dir:func) -/\ndef reserveRunners : List String := %s\n", c06Strs(runners))
	fmt.Fprintf(&e.out, "/-- Reserve calls inside a parallelizer.Until closure: 1 per call that iterates `podRequestsByNode[i]` (one worker per node), 100 per any other -/\ndef reserveParallelSites : Nat := %d\n", inUntil)
	fmt.Fprintf(&e.out, "/-- callers of Plugin.GetResourceManager outside the package (dir:func) -/\ndef resourceManagerExternalUsers : List String := %s\n", c06Strs(external))
}

// ---- get-or-create of the per-node ledger object (round 3): critical-section structure of
// resourceManager.getOrCreateNodeAllocation with respect to the MANAGER lock (<recv>.lock) and the map
// <recv>.nodeAllocations.  Sections in source order: (lock kind 0 none / 1 RLock / 2 Lock, [accesses]) with access
// 0 = look-up nodeAllocations[..], 1 = store nodeAllocations[..] = v (delete(...) is reported as 2).
// `defer <recv>.lock.Unlock()` holds to the end of the function.  Sections without map access are dropped.
type c06GocWalk struct {
	recv  string
	kind  int
	secs  []c06Sec // locked is unused; kinds kept in parallel
	kinds []int
}

func (w *c06GocWalk) emit(code int) {
	if len(w.kinds) == 0 || w.kinds[len(w.kinds)-1] != w.kind || w.secs[len(w.secs)-1].locked {
		w.kinds = append(w.kinds, w.kind)
		w.secs = append(w.secs, c06Sec{})
	}
	w.secs[len(w.secs)-1].acts = append(w.secs[len(w.secs)-1].acts, code)
}

func (w *c06GocWalk) isMap(x ast.Expr) bool {
	ix, ok := x.(*ast.IndexExpr)
	return ok && c06Expr(ix.X) == w.recv+".nodeAllocations"
}

func (w *c06GocWalk) reads(n ast.Node) {
	if n == nil {
		return
	}
	ast.Inspect(n, func(m ast.Node) bool {
		if _, isLit := m.(*ast.FuncLit); isLit {
			return false
		}
		if c, ok := m.(*ast.CallExpr); ok {
			if id, ok := c.Fun.(*ast.Ident); ok && id.Name == "delete" && len(c.Args) > 0 && c06Expr(c.Args[0]) == w.recv+".nodeAllocations" {
				w.emit(2)
			}
		}
		if x, ok := m.(ast.Expr); ok && w.isMap(x) {
			w.emit(0)
		}
		return true
	})
}

func (w *c06GocWalk) closeSection() {
	if len(w.secs) > 0 {
		w.secs[len(w.secs)-1].locked = true // closed: the next access starts a new section
	}
}

func (w *c06GocWalk) stmts(list []ast.Stmt) {
	for _, s := range list {
		switch v := s.(type) {
		case *ast.ExprStmt:
			if recv, name, ok := c06Sel(v.X); ok && recv == w.recv+".lock" {
				switch name {
				case "Lock":
					w.kind = 2
					w.closeSection()
					continue
				case "RLock":
					w.kind = 1
					w.closeSection()
					continue
				case "Unlock", "RUnlock":
					w.kind = 0
					w.closeSection()
					continue
				}
			}
			w.reads(v)
		case *ast.DeferStmt:
			if recv, name, ok := c06Sel(v.Call); ok && recv == w.recv+".lock" && (name == "Unlock" || name == "RUnlock") {
				continue
			}
			w.reads(v.Call)
		case *ast.AssignStmt:
			for _, r := range v.Rhs {
				w.reads(r)
			}
			for _, l := range v.Lhs {
				if w.isMap(l) {
					w.emit(1)
				} else {
					w.reads(l)
				}
			}
		case *ast.BlockStmt:
			w.stmts(v.List)
		case *ast.IfStmt:
			if v.Init != nil {
				w.stmts([]ast.Stmt{v.Init})
			}
			w.reads(v.Cond)
			w.stmts(v.Body.List)
			if v.Else != nil {
				w.stmts([]ast.Stmt{v.Else})
			}
		case *ast.ForStmt:
			w.stmts(v.Body.List)
		case *ast.RangeStmt:
			w.reads(v.X)
			w.stmts(v.Body.List)
		default:
			w.reads(s)
		}
	}
}

func (e *ext) c06GetOrCreate(dir string) {
	fd := e.funcDecl(dir, "resourceManager", "getOrCreateNodeAllocation")
	w := &c06GocWalk{}
	if fd == nil || fd.Body == nil || fd.Recv == nil || len(fd.Recv.List) == 0 || len(fd.Recv.List[0].Names) == 0 {
		e.fail("%s: func (resourceManager) getOrCreateNodeAllocation not found", dir)
	} else {
		w.recv = fd.Recv.List[0].Names[0].Name
		w.stmts(fd.Body.List)
	}
	var parts []string
	for i, s := range w.secs {
		parts = append(parts, fmt.Sprintf("(%d, %s)", w.kinds[i], c06Ints(s.acts)))
	}
	fmt.Fprintf(&e.out, "/-- resourceManager.getOrCreateNodeAllocation: sections of the manager lock (0 none / 1 RLock / 2 Lock, accesses to nodeAllocations: 0 look-up, 1 store, 2 delete) -/\ndef rmGetOrCreate : List (Nat × List Nat) := [%s]\n", strings.Join(parts, ", "))
	// who else writes the map
	writers := e.c06Enclosing(dir, func(n ast.Node) bool {
		switch v := n.(type) {
		case *ast.AssignStmt:
			for _, l := range v.Lhs {
				if ix, ok := l.(*ast.IndexExpr); ok && strings.HasSuffix(c06Expr(ix.X), ".nodeAllocations") {
					return true
				}
			}
		case *ast.CallExpr:
			if id, ok := v.Fun.(*ast.Ident); ok && id.Name == "delete" && len(v.Args) > 0 && strings.HasSuffix(c06Expr(v.Args[0]), ".nodeAllocations") {
				return true
			}
		}
		return false
	})
	fmt.Fprintf(&e.out, "/-- functions of the package that store into / delete from <manager>.nodeAllocations -/\ndef nodeAllocationsWriters : List String := %s\n", c06Strs(writers))
}

// ---- informer glue (round 3): statement / guard order of the pod event handler, as the event model decodes it.
// Codes, top-level statements in source order:
//
//	OnAdd / OnUpdate:  0 `x, ok := obj.(*T)`   1 `if !ok { return }`   2 call <recv>.updatePod(...)   9 anything else
//	updatePod:         1 `if pod.Spec.NodeName == "" { [Release of the old pod] return }`   2 `if IsPodTerminated(pod) { deletePod; return }`
//	                   3 `if err != nil { return }`   4 `if len(..NUMANodeResources) == 0 && cpus.IsEmpty() { return }`
//	                   5 call <..>.resourceManager.Update(...)   8 a guard of a known kind with an unexpected body
//	                   9 any other statement that can return;  statements that cannot return are not listed
//	deletePod:         1 as above (body: return only)   6 call <..>.resourceManager.Release(...)
//	resourceManager.Update: 7 `if !<..>.IsValid() { return }`   10 call getOrCreateNodeAllocation   11 call <..>.update(...)
func c06Src(fset *token.FileSet, n ast.Node) string {
	var sb strings.Builder
	_ = printer.Fprint(&sb, fset, n)
	return strings.Join(strings.Fields(sb.String()), " ")
}

func c06HasReturn(n ast.Node) bool {
	found := false
	ast.Inspect(n, func(m ast.Node) bool {
		if _, isLit := m.(*ast.FuncLit); isLit {
			return false
		}
		if _, ok := m.(*ast.ReturnStmt); ok {
			found = true
		}
		return true
	})
	return found
}

func c06HasCall(n ast.Node, suffix string) bool {
	found := false
	ast.Inspect(n, func(m ast.Node) bool {
		if c, ok := m.(*ast.CallExpr); ok {
			if strings.HasSuffix(c06Expr(c.Fun), suffix) {
				found = true
			}
		}
		return true
	})
	return found
}

func (e *ext) c06StmtCodes(dir, recv, fn string) []int {
	fd := e.funcDecl(dir, recv, fn)
	if fd == nil || fd.Body == nil {
		e.fail("%s: func (%s) %s not found", dir, recv, fn)
		return nil
	}
	var codes []int
	for _, st := range fd.Body.List {
		switch v := st.(type) {
		case *ast.IfStmt:
			cond := c06Src(e.fset, v.Cond)
			body := v.Body
			onlyReturn := len(body.List) == 1 && c06HasReturn(body.List[0]) && v.Else == nil && v.Init == nil
			switch {
			case cond == "!ok" && onlyReturn:
				codes = append(codes, 1)
			case strings.HasSuffix(cond, `Spec.NodeName == ""`) && v.Else == nil && v.Init == nil && c06HasReturn(body):
				if fn == "deletePod" && !onlyReturn {
					codes = append(codes, 8)
				} else if fn == "updatePod" && !(len(body.List) == 2 && c06HasCall(body.List[0], ".Release") && c06HasReturn(body.List[1])) {
					codes = append(codes, 8)
				} else {
					codes = append(codes, 1)
				}
			case strings.Contains(cond, "IsPodTerminated(") && !strings.Contains(cond, "&&") && !strings.Contains(cond, "||") && !strings.HasPrefix(cond, "!"):
				if len(body.List) == 2 && c06HasCall(body.List[0], ".deletePod") && c06HasReturn(body.List[1]) && v.Else == nil {
					codes = append(codes, 2)
				} else {
					codes = append(codes, 8)
				}
			case strings.HasSuffix(cond, ".UID") && strings.Contains(cond, ".UID != ") && v.Else == nil && v.Init == nil &&
				len(body.List) == 3 && c06HasCall(body.List[0], ".deletePod") && c06HasCall(body.List[1], ".updatePod") && c06HasReturn(body.List[2]) &&
				strings.Contains(c06Src(e.fset, body.List[1]), "updatePod(nil, "):
				codes = append(codes, 12)
			case cond == "err != nil" && onlyReturn:
				codes = append(codes, 3)
			case strings.Contains(cond, "len(") && strings.Contains(cond, "NUMANodeResources) == 0 &&") && strings.HasSuffix(cond, "IsEmpty()") && onlyReturn:
				codes = append(codes, 4)
			case strings.HasPrefix(cond, "!") && strings.HasSuffix(cond, "CPUTopology.IsValid()") && onlyReturn:
				codes = append(codes, 7)
			default:
				if c06HasReturn(v) {
					codes = append(codes, 9)
				}
			}
		case *ast.AssignStmt:
			src := c06Src(e.fset, v)
			switch {
			case len(v.Lhs) == 2 && strings.Contains(src, ", ok := ") && strings.Contains(src, ".(*"):
				codes = append(codes, 0)
			case c06HasCall(v, ".getOrCreateNodeAllocation"):
				codes = append(codes, 10)
			}
		case *ast.ExprStmt:
			switch {
			case c06HasCall(v, ".updatePod"):
				codes = append(codes, 2)
			case c06HasCall(v, "resourceManager.Update"):
				codes = append(codes, 5)
			case c06HasCall(v, "resourceManager.Release"):
				codes = append(codes, 6)
			case c06HasCall(v, ".update"):
				codes = append(codes, 11)
			}
		case *ast.DeferStmt, *ast.DeclStmt:
		default:
			if c06HasReturn(st) {
				codes = append(codes, 9)
			}
		}
	}
	return codes
}

func (e *ext) c06EventGlue(dir string) {
	for _, f := range [][3]string{{"podEventHandler", "OnAdd", "podOnAdd"}, {"podEventHandler", "OnUpdate", "podOnUpdate"},
		{"podEventHandler", "updatePod", "podUpdatePod"}, {"podEventHandler", "deletePod", "podDeletePod"},
		{"resourceManager", "Update", "rmUpdateStmts"}} {
		fmt.Fprintf(&e.out, "/-- %s.%s: statement / guard codes in source order (see facts_c06.go) -/\ndef %s : List Nat := %s\n", f[0], f[1], f[2], c06Ints(e.c06StmtCodes(dir, f[0], f[1])))
	}
}

// c06RestoreFacts (round 4): which functions of the package call the helper subtractAllocated with the literal
// `false` / `true` as withNonNegativeResult.  RestoreReservation must keep a reservation's remainder SIGNED
// (restore_never_reports_held_amount_free / restore_clamped_counterexample).  If the helper no longer exists under
// that name the fact says so and the tie holds vacuously (the `rsv` harness is then the only guard).
func (e *ext) c06RestoreFacts(dir string) {
	callWith := func(lit string) func(n ast.Node) bool {
		return func(n ast.Node) bool {
			c, ok := n.(*ast.CallExpr)
			if !ok || len(c.Args) != 3 {
				return false
			}
			id, ok := c.Fun.(*ast.Ident)
			if !ok || id.Name != "subtractAllocated" {
				return false
			}
			a, ok := c.Args[2].(*ast.Ident)
			return lit == "" || (ok && a.Name == lit)
		}
	}
	anyCall := e.c06Enclosing(dir, callWith(""))
	fmt.Fprintf(&e.out, "/-- the helper subtractAllocated(m, allocated, withNonNegativeResult) is still called under that name -/\ndef subtractAllocatedKnown : Bool := %v\n", len(anyCall) > 0)
	fmt.Fprintf(&e.out, "/-- functions calling subtractAllocated(…, false): signed result -/\ndef subtractSignedCallers : List String := %s\n", c06Strs(e.c06Enclosing(dir, callWith("false"))))
	fmt.Fprintf(&e.out, "/-- functions calling subtractAllocated(…, true): clamped at zero -/\ndef subtractClampedCallers : List String := %s\n", c06Strs(e.c06Enclosing(dir, callWith("true"))))
}

// c06PreemptFacts (round 6): the preemption dry run.  (1) which functions call <..Alloc>.Accumulate / <..Alloc>.Subtract
// (the model's removePodDry = Accumulate, addPodDry = Subtract).  (2) for preemptibleAlloc.Accumulate / Subtract: the
// number of assignments to the CPU argument or to the field it is cancelled against (Subtract: cpusToAdd, Accumulate:
// cpusToRemove) whose right-hand side reads the OTHER of the two after that other was already overwritten in the
// function.  0 = both updates are computed from the values the function was entered with (the overlap is taken once,
// before either write) - the shape the model and reprieve_inverse are about; the statement order of the two updates
// is irrelevant then.
func (e *ext) c06PreemptFacts(dir string) {
	acc := e.c06Enclosing(dir, func(n ast.Node) bool { return c06CallOn(n, "Alloc", "Accumulate") })
	sub := e.c06Enclosing(dir, func(n ast.Node) bool { return c06CallOn(n, "Alloc", "Subtract") })
	fmt.Fprintf(&e.out, "/-- functions calling <preemptibleAlloc>.Accumulate -/\ndef preemptAccumulateCallers : List String := %s\n", c06Strs(acc))
	fmt.Fprintf(&e.out, "/-- functions calling <preemptibleAlloc>.Subtract -/\ndef preemptSubtractCallers : List String := %s\n", c06Strs(sub))
	for _, f := range [][3]string{{"Subtract", "cpusToAdd", "preemptSubtractStaleReads"}, {"Accumulate", "cpusToRemove", "preemptAccumulateStaleReads"}} {
		fd := e.funcDecl(dir, "preemptibleAlloc", f[0])
		if fd == nil || fd.Body == nil || fd.Recv == nil || len(fd.Recv.List) == 0 || len(fd.Recv.List[0].Names) == 0 ||
			fd.Type.Params == nil || len(fd.Type.Params.List) == 0 || len(fd.Type.Params.List[0].Names) == 0 {
			e.fail("%s: func (preemptibleAlloc) %s(cpus, ...) not found", dir, f[0])
			continue
		}
		arg := fd.Type.Params.List[0].Names[0].Name
		field := fd.Recv.List[0].Names[0].Name + "." + f[1]
		tracked := map[string]bool{arg: true, field: true}
		written := map[string]bool{}
		stale, writes := 0, 0
		ast.Inspect(fd.Body, func(n ast.Node) bool {
			a, ok := n.(*ast.AssignStmt)
			if !ok {
				return true
			}
			lhs := map[string]bool{}
			for _, l := range a.Lhs {
				lhs[c06Expr(l)] = true
			}
			target := false
			for v := range tracked {
				if lhs[v] {
					target = true
				}
			}
			if target {
				writes++
				reads := map[string]bool{}
				for _, r := range a.Rhs {
					ast.Inspect(r, func(m ast.Node) bool {
						if x, ok := m.(ast.Expr); ok {
							if name := c06Expr(x); tracked[name] {
								reads[name] = true
							}
						}
						return true
					})
				}
				for v := range reads {
					if !lhs[v] && written[v] {
						stale++
					}
				}
			}
			for v := range lhs {
				if tracked[v] {
					written[v] = true
				}
			}
			return true
		})
		fmt.Fprintf(&e.out, "/-- preemptibleAlloc.%s: (writes to the CPU argument / %s, of which read the other one after it was overwritten) -/\ndef %s : Nat × Nat := (%d, %d)\n", f[0], f[1], f[2], writes, stale)
	}
}

func init() {
	extractors["C06"] = func(e *ext) {
		d := "pkg/scheduler/plugins/nodenumaresource"
		e.c06CommitSites()
		e.c06RestoreFacts(d)
		e.c06PreemptFacts(d)
		e.c06GetOrCreate(d)
		e.c06EventGlue(d)
		e.c06Sections(d, "resourceManager", "Update", "rmUpdate")
		e.c06Sections(d, "resourceManager", "Release", "rmRelease")
		e.c06Sections(d, "resourceManager", "GetAvailableCPUs", "rmGetAvailableCPUs")
		e.c06Sections(d, "resourceManager", "getAvailableNUMANodeResources", "rmGetAvailableNUMA")
		// NodeAllocation.update: plain call sequence, no locking of its own
		{
			w := e.c06Walk(d, "NodeAllocation", "update")
			var acts []int
			for _, s := range w.secs {
				acts = append(acts, s.acts...)
			}
			// inside NodeAllocation methods the ledger calls are on the receiver itself
			acts = nil
			if fd := e.funcDecl(d, "NodeAllocation", "update"); fd != nil && fd.Body != nil {
				ast.Inspect(fd.Body, func(m ast.Node) bool {
					if c, ok := m.(*ast.CallExpr); ok {
						if _, name, ok := c06Sel(c); ok {
							if code, ok := c06Codes[name]; ok {
								acts = append(acts, code)
							}
						}
					}
					return true
				})
			}
			fmt.Fprintf(&e.out, "/-- NodeAllocation.update: ledger calls in order -/\ndef naUpdate : List Nat := %s\n", c06Ints(acts))
			fmt.Fprintf(&e.out, "/-- lock operations inside NodeAllocation.update -/\ndef naUpdateLocks : Nat := %d\n", w.nlocks)
		}
		// Allocate and its helpers: no lock operation and no ledger write of their own; the self-locking reads they make
		locks, writes := 0, 0
		var reads []int
		for _, fn := range []string{"Allocate", "allocateResourcesByHint", "trimNUMANodeResources", "allocateCPUSet"} {
			w := e.c06Walk(d, "resourceManager", fn)
			locks += w.nlocks
			for _, s := range w.secs {
				for _, a := range s.acts {
					if a == 0 || a == 1 || a == 2 || a == 9 {
						writes++
					}
				}
			}
			for _, name := range w.self {
				switch name {
				case "GetAvailableCPUs":
					reads = append(reads, 3)
				case "getAvailableNUMANodeResources":
					reads = append(reads, 4)
				case "Release", "Update":
					writes++
				}
			}
		}
		fmt.Fprintf(&e.out, "/-- lock operations written in Allocate / allocateResourcesByHint / trimNUMANodeResources / allocateCPUSet themselves -/\ndef rmAllocateLocks : Nat := %d\n", locks)
		fmt.Fprintf(&e.out, "/-- ledger writes (release / add / update / Release / Update) made by them -/\ndef rmAllocateWrites : Nat := %d\n", writes)
		fmt.Fprintf(&e.out, "/-- the self-locking reads they make, in source order (3 GetAvailableCPUs, 4 getAvailableNUMANodeResources): each is its own read section -/\ndef rmAllocateReads : List Nat := %s\n", c06Ints(reads))
	}
}
