package main

// One extractor per property. Keep each a few lines; expectations live in Ties/<Cxx>.lean.
var extractors = map[string]func(e *ext){
	"C14": func(e *ext) {
		d := "pkg/koordlet/util/system"
		e.constInt(d, "CPUShareUnitValue", "CPUShareUnitValue")
		e.constInt(d, "CPUSharesMinValue", "CPUSharesMinValue")
		e.constInt(d, "CPUSharesMaxValue", "CPUSharesMaxValue")
		e.constInt(d, "CFSBasePeriodValue", "CFSBasePeriodValue")
		e.constInt(d, "CFSQuotaMinValue", "CFSQuotaMinValue")
	},
}
