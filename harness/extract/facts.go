package main

// One extractor per property, each in its own facts_<cxx>.go registering itself in init().
// Keep each a few lines; expectations live in lean/KoordVerif/Ties/<Cxx>.lean.
var extractors = map[string]func(e *ext){}
