package main

import (
	"bytes"
	"fmt"
	"go/ast"
	"go/printer"
	"go/token"
	"regexp"
	"sort"
	"strings"
)

// C08 facts:
//   * the estimator defaults and the default report interval,
//   * nodeInfo.deletePod is textually nodeInfo.addPod with Add->Sub, AddDelta->SubDelta, Insert->Delete,
//   * every nodeInfo field addPod touches is (re)assigned on every path of nodeInfo.AddOrUpdateNodeMetric
//     before it replays addPod over n.podInfos (the "same context" premise of cache = rebuild).
func init() {
	extractors["C08"] = func(e *ext) {
		la := "pkg/scheduler/plugins/loadaware"
		e.constInt(la+"/estimator", "DefaultMilliCPURequest", "DefaultMilliCPURequest")
		e.constInt(la+"/estimator", "DefaultMemoryRequest", "DefaultMemoryRequest")
		// DefaultNodeMetricReportInterval = <int> * time.Second
		secs := int64(-1)
		if x, ok := e.valueSpec(la, "DefaultNodeMetricReportInterval"); ok {
			if b, ok := x.(*ast.BinaryExpr); ok && b.Op == token.MUL {
				if sel, ok := b.Y.(*ast.SelectorExpr); ok && sel.Sel.Name == "Second" {
					if n, ok := e.evalInt(la, b.X, 0); ok {
						secs = n
					}
				}
			}
		}
		if secs < 0 {
			e.fail("DefaultNodeMetricReportInterval is not <int> * time.Second")
		}
		fmt.Fprintf(&e.out, "def DefaultNodeMetricReportIntervalSeconds : Int := %d\n", secs)

		add := e.funcDecl(la, "nodeInfo", "addPod")
		del := e.funcDecl(la, "nodeInfo", "deletePod")
		met := e.funcDecl(la, "nodeInfo", "AddOrUpdateNodeMetric")
		if add == nil || del == nil || met == nil || add.Body == nil || del.Body == nil || met.Body == nil {
			e.fail("nodeInfo.addPod / deletePod / AddOrUpdateNodeMetric not found")
			fmt.Fprintf(&e.out, "def deleteMirrorsAdd : Bool := false\ndef addPodFields : List String := []\n"+
				"def metricResetFields : List String := []\ndef metricRebuildsFromPods : Bool := false\n")
			return
		}
		text := func(n ast.Node) string {
			var b bytes.Buffer
			_ = printer.Fprint(&b, e.fset, n) // a bare node is printed without comments
			return strings.Join(strings.Fields(b.String()), " ") // layout depends on the original positions

		}
		mirrored := strings.ReplaceAll(text(add.Body), "updateTime.Add(", "updateTime.ADD(") // time.Time.Add, not a vector
		for _, r := range [][2]string{{`\.AddDelta\(`, ".SubDelta("}, {`\.Add\(`, ".Sub("}, {`\.Insert\(`, ".Delete("}} {
			mirrored = regexp.MustCompile(r[0]).ReplaceAllString(mirrored, r[1])
		}
		mirrored = strings.ReplaceAll(mirrored, "updateTime.ADD(", "updateTime.Add(")
		fmt.Fprintf(&e.out, "def deleteMirrorsAdd : Bool := %v\n", mirrored == text(del.Body))

		recvName := func(fd *ast.FuncDecl) string {
			if fd.Recv != nil && len(fd.Recv.List) > 0 && len(fd.Recv.List[0].Names) > 0 {
				return fd.Recv.List[0].Names[0].Name
			}
			return ""
		}
		// fields of the receiver mentioned in addPod
		fields := map[string]bool{}
		rn := recvName(add)
		ast.Inspect(add.Body, func(n ast.Node) bool {
			if sel, ok := n.(*ast.SelectorExpr); ok {
				if id, ok := sel.X.(*ast.Ident); ok && id.Name == rn {
					fields[sel.Sel.Name] = true
				}
			}
			return true
		})
		// fields assigned on every path through a statement list (top level, or in both arms of an if/else)
		mr := recvName(met)
		var assigned func(stmts []ast.Stmt) map[string]bool
		assigned = func(stmts []ast.Stmt) map[string]bool {
			out := map[string]bool{}
			for _, s := range stmts {
				switch v := s.(type) {
				case *ast.AssignStmt:
					for _, l := range v.Lhs {
						if sel, ok := l.(*ast.SelectorExpr); ok {
							if id, ok := sel.X.(*ast.Ident); ok && id.Name == mr {
								out[sel.Sel.Name] = true
							}
						}
					}
				case *ast.IfStmt:
					if v.Else == nil {
						continue
					}
					a := assigned(v.Body.List)
					var b map[string]bool
					switch el := v.Else.(type) {
					case *ast.BlockStmt:
						b = assigned(el.List)
					case *ast.IfStmt:
						b = assigned([]ast.Stmt{el})
					}
					for k := range a {
						if b[k] {
							out[k] = true
						}
					}
				}
			}
			return out
		}
		// only what precedes the replay loop counts
		rebuilds := false
		var before []ast.Stmt
		for _, s := range met.Body.List {
			if rs, ok := s.(*ast.RangeStmt); ok && strings.Contains(text(rs.X), mr+".podInfos") && strings.Contains(text(rs.Body), mr+".addPod(") {
				rebuilds = true
				break
			}
			before = append(before, s)
		}
		resets := assigned(before)
		list := func(m map[string]bool) string {
			ks := make([]string, 0, len(m))
			for k := range m {
				ks = append(ks, k)
			}
			sort.Strings(ks)
			for i := range ks {
				ks[i] = leanStr(ks[i])
			}
			return "[" + strings.Join(ks, ", ") + "]"
		}
		fmt.Fprintf(&e.out, "def addPodFields : List String := %s\n", list(fields))
		fmt.Fprintf(&e.out, "def metricResetFields : List String := %s\n", list(resets))
		fmt.Fprintf(&e.out, "def metricRebuildsFromPods : Bool := %v\n", rebuilds)

		c08ConcFacts(e, la, text)
		c08FwFacts(e, la, text)
		c08EventGlueFacts(e, la)
		// the priority bands getPriorityClassByPriority compares with (Model/C08Glue.lean classByPriority)
		for _, n := range []string{"PriorityProdValueMax", "PriorityProdValueMin", "PriorityMidValueMax", "PriorityMidValueMin",
			"PriorityBatchValueMax", "PriorityBatchValueMin", "PriorityFreeValueMax", "PriorityFreeValueMin"} {
			e.constInt("apis/extension", n, n)
		}
	}
}

// C08 concurrency shape (lock / critical-section structure the small-step model Proofs/C08ExtConc.lean relies on):
//   * attempts of the retry loops in podAssignCache.assign / AddOrUpdateNodeMetric,
//   * nodeInfo.AddOrUpdatePod / AddOrUpdateNodeMetric: `if n.deleted { … return false }` before the lock (touching
//     nothing else of n before it) and again as the first statement under the lock,
//   * nodeInfo.DeletePod / DeleteNodeMetric: flag check, Lock, defer Unlock, flag check, …, tryCleanup last,
//   * tryCleanup: one `if nodeMetric == nil && len(podInfos) == 0` whose body runs CompareAndDelete BEFORE `deleted = true`,
//   * getOrCreateNodeInfo stores a nodeInfo that is already locked.
func c08ConcFacts(e *ext, la string, text func(ast.Node) string) {
	recvName := func(fd *ast.FuncDecl) string {
		if fd != nil && fd.Recv != nil && len(fd.Recv.List) > 0 && len(fd.Recv.List[0].Names) > 0 {
			return fd.Recv.List[0].Names[0].Name
		}
		return ""
	}
	// the bound of `for i := 0; i < N; i++ { n, created := p.getOrCreateNodeInfo(…); if n.<method>(…) { return } }`
	attempts := func(fn, method string) int64 {
		fd := e.funcDecl(la, "podAssignCache", fn)
		if fd == nil || fd.Body == nil {
			e.fail("podAssignCache.%s not found", fn)
			return -1
		}
		res := int64(-1)
		loops := 0
		for _, s := range fd.Body.List {
			fs, ok := s.(*ast.ForStmt)
			if !ok {
				continue
			}
			body := text(fs.Body)
			if !strings.Contains(body, ".getOrCreateNodeInfo(") || !strings.Contains(body, "."+method+"(") {
				continue
			}
			loops++
			init, ok1 := fs.Init.(*ast.AssignStmt)
			cond, ok2 := fs.Cond.(*ast.BinaryExpr)
			post, ok3 := fs.Post.(*ast.IncDecStmt)
			if !ok1 || !ok2 || !ok3 || text(init) != "i := 0" || cond.Op != token.LSS || text(cond.X) != "i" || post.Tok != token.INC {
				e.fail("retry loop of podAssignCache.%s is not `for i := 0; i < N; i++`", fn)
				continue
			}
			if n, ok := e.evalInt(la, cond.Y, 0); ok {
				res = n
			}
			// the loop body must be: getOrCreate; if n.method(...) { return }
			if len(fs.Body.List) != 2 {
				e.fail("retry loop body of podAssignCache.%s has %d statements", fn, len(fs.Body.List))
			}
		}
		if loops != 1 {
			e.fail("podAssignCache.%s: %d retry loops", fn, loops)
			return -1
		}
		return res
	}
	fmt.Fprintf(&e.out, "def assignAttempts : Nat := %d\n", max64(attempts("assign", "AddOrUpdatePod"), 0))
	fmt.Fprintf(&e.out, "def metricAttempts : Nat := %d\n", max64(attempts("AddOrUpdateNodeMetric", "AddOrUpdateNodeMetric"), 0))

	// markers of the top-level statements of a nodeInfo method
	isFlagCheck := func(rn string, s ast.Stmt) (isCheck bool, unlocksIfLocked bool) {
		is, ok := s.(*ast.IfStmt)
		if !ok || is.Init != nil || is.Else != nil || text(is.Cond) != rn+".deleted" || len(is.Body.List) == 0 {
			return false, false
		}
		if _, ok := is.Body.List[len(is.Body.List)-1].(*ast.ReturnStmt); !ok {
			return false, false
		}
		return true, strings.Contains(text(is.Body), "if locked { "+rn+".Unlock() }")
	}
	markers := func(fd *ast.FuncDecl) (ms []string, preLock []string) {
		rn := recvName(fd)
		locked := false
		touched := map[string]bool{}
		for _, s := range fd.Body.List {
			t := text(s)
			switch {
			case t == "if !locked { "+rn+".Lock() }" || t == rn+".Lock()":
				ms = append(ms, "lock")
				locked = true
				continue
			case t == "defer "+rn+".Unlock()":
				ms = append(ms, "defer-unlock")
				continue
			}
			if ok, _ := isFlagCheck(rn, s); ok {
				ms = append(ms, "check")
				continue
			}
			if strings.HasPrefix(t, "p.tryCleanup(") {
				ms = append(ms, "cleanup")
				continue
			}
			if !locked {
				ast.Inspect(s, func(x ast.Node) bool {
					if sel, ok := x.(*ast.SelectorExpr); ok {
						if id, ok := sel.X.(*ast.Ident); ok && id.Name == rn {
							touched[sel.Sel.Name] = true
						}
					}
					return true
				})
			}
			if len(ms) == 0 || ms[len(ms)-1] != "work" {
				ms = append(ms, "work")
			}
		}
		for k := range touched {
			preLock = append(preLock, k)
		}
		sort.Strings(preLock)
		return
	}
	strs := func(xs []string) string {
		q := make([]string, len(xs))
		for i := range xs {
			q[i] = leanStr(xs[i])
		}
		return "[" + strings.Join(q, ", ") + "]"
	}
	for _, m := range []struct{ fn, lean string }{{"AddOrUpdatePod", "addPodSteps"}, {"AddOrUpdateNodeMetric", "addMetricSteps"},
		{"DeletePod", "delPodSteps"}, {"DeleteNodeMetric", "delMetricSteps"}} {
		fd := e.funcDecl(la, "nodeInfo", m.fn)
		if fd == nil || fd.Body == nil {
			e.fail("nodeInfo.%s not found", m.fn)
			fmt.Fprintf(&e.out, "def %s : List String := []\ndef %sPreLock : List String := [\"?\"]\n", m.lean, m.lean)
			continue
		}
		ms, pre := markers(fd)
		fmt.Fprintf(&e.out, "def %s : List String := %s\n", m.lean, strs(ms))
		fmt.Fprintf(&e.out, "def %sPreLock : List String := %s\n", m.lean, strs(pre))
	}
	// the first flag check of the add-type methods releases the lock of a created nodeInfo
	rel := true
	for _, fn := range []string{"AddOrUpdatePod", "AddOrUpdateNodeMetric"} {
		fd := e.funcDecl(la, "nodeInfo", fn)
		if fd == nil || fd.Body == nil || len(fd.Body.List) == 0 {
			rel = false
			continue
		}
		ok, unl := isFlagCheck(recvName(fd), fd.Body.List[0])
		rel = rel && ok && unl
	}
	fmt.Fprintf(&e.out, "def fastCheckReleasesCreated : Bool := %v\n", rel)

	// tryCleanup
	order := []string{}
	cond := ""
	if fd := e.funcDecl(la, "podAssignCache", "tryCleanup"); fd != nil && fd.Body != nil && len(fd.Body.List) == 1 {
		if is, ok := fd.Body.List[0].(*ast.IfStmt); ok && is.Else == nil && is.Init == nil {
			cond = text(is.Cond)
			for _, s := range is.Body.List {
				t := text(s)
				switch {
				case t == "n.deleted = true":
					order = append(order, "flag")
				case strings.HasPrefix(t, "p.items.CompareAndDelete(name, n)"):
					order = append(order, "cad")
				default:
					order = append(order, "other")
				}
			}
		}
	} else {
		e.fail("podAssignCache.tryCleanup is not a single if statement")
	}
	fmt.Fprintf(&e.out, "def cleanupOrder : List String := %s\n", strs(order))
	fmt.Fprintf(&e.out, "def cleanupCond : String := %s\n", leanStr(cond))

	// getOrCreateNodeInfo: n := &nodeInfo{}; n.Lock(); v, loaded := p.items.LoadOrStore(nodeName, n); return …, !loaded
	created := false
	if fd := e.funcDecl(la, "podAssignCache", "getOrCreateNodeInfo"); fd != nil && fd.Body != nil && len(fd.Body.List) == 4 {
		l := fd.Body.List
		created = text(l[0]) == "n := &nodeInfo{}" && text(l[1]) == "n.Lock()" &&
			text(l[2]) == "v, loaded := p.items.LoadOrStore(nodeName, n)" && text(l[3]) == "return v.(*nodeInfo), !loaded"
	}
	fmt.Fprintf(&e.out, "def createdLocked : Bool := %v\n", created)
}

func max64(a, b int64) int64 {
	if a > b {
		return a
	}
	return b
}

// C08 framework shape (Model/C08Fw.lean):
//   * (status expression, guard) of every `return` of Plugin.PreFilter: the model's preFilter answers Success on every
//     path, so every status must be `nil` - except a Skip returned under the plain guard isDaemonSetPod(pod.OwnerReferences),
//     the one Skip that cannot change any node's verdict (Props/C08.lean daemonset_skip_is_safe / skip_safe_only_for_daemonset),
//   * the functions of the package that call generateUsageThresholdsFilterProfile (the node's usage-thresholds
//     annotation is merged in by Filter alone - the reason why a Skip from PreFilter is unsafe).
func c08FwFacts(e *ext, la string, text func(ast.Node) string) {
	pre := e.funcDecl(la, "Plugin", "PreFilter")
	rets := []string{} // (status expression, guard) per return; guard "" = unconditional, "?" = not a plain top-level `if cond { … return }`
	if pre == nil || pre.Body == nil {
		e.fail("Plugin.PreFilter not found")
	} else {
		collect := func(n ast.Node, guard string) {
			ast.Inspect(n, func(n ast.Node) bool {
				if _, ok := n.(*ast.FuncLit); ok {
					return false
				}
				if r, ok := n.(*ast.ReturnStmt); ok {
					st := "?" + fmt.Sprint(len(r.Results))
					if len(r.Results) == 2 {
						st = text(r.Results[1])
					}
					rets = append(rets, fmt.Sprintf("(%s, %s)", leanStr(st), leanStr(guard)))
				}
				return true
			})
		}
		for _, st := range pre.Body.List {
			switch x := st.(type) {
			case *ast.ReturnStmt:
				collect(x, "")
			case *ast.IfStmt:
				plain := x.Init == nil && x.Else == nil
				for _, b := range x.Body.List {
					if _, ok := b.(*ast.ReturnStmt); !ok {
						plain = false
					}
				}
				if plain {
					collect(x.Body, text(x.Cond))
				} else {
					collect(x, "?")
				}
			default:
				collect(x, "?")
			}
		}
	}
	fmt.Fprintf(&e.out, "def preFilterReturns : List (String × String) := [%s]\n", strings.Join(rets, ", "))
	callers := map[string]bool{}
	for _, f := range e.dir(la) {
		for _, d := range f.Decls {
			fd, ok := d.(*ast.FuncDecl)
			if !ok || fd.Body == nil {
				continue
			}
			ast.Inspect(fd.Body, func(n ast.Node) bool {
				if c, ok := n.(*ast.CallExpr); ok {
					if sel, ok := c.Fun.(*ast.SelectorExpr); ok && sel.Sel.Name == "generateUsageThresholdsFilterProfile" {
						callers[fd.Name.Name] = true
					}
				}
				return true
			})
		}
	}
	cs := []string{}
	for c := range callers {
		cs = append(cs, leanStr(c))
	}
	sort.Strings(cs)
	fmt.Fprintf(&e.out, "def customThresholdsCallers : List String := [%s]\n", strings.Join(cs, ", "))
}

// C08 event glue the model takes for granted (ext6):
//   * estimator.estimatedPodUsed calls resourceapi.PodRequests / PodLimits with an EMPTY PodResourcesOptions literal: the
//     estimate of a cached pod is a function of the pod SPEC (podAssignCache.OnUpdate renews a cached pod when spec or
//     conditions change, not on a status-only update) - the fields set in the literals are listed,
//   * podAssignCache.NodeMetricHandler: AddFunc and UpdateFunc forward the (new) object to AddOrUpdateNodeMetric whatever
//     the old object is: UpdateFunc does not use its first parameter, calls no comparison (…Equal…) and no other method of
//     the cache (the report interval is read from the SPEC of the NodeMetric, so no update may be dropped by looking at the
//     status).
func c08EventGlueFacts(e *ext, la string) {
	strs := func(xs []string) string {
		q := make([]string, len(xs))
		for i, x := range xs {
			q[i] = leanStr(x)
		}
		return "[" + strings.Join(q, ", ") + "]"
	}
	fields, calls := map[string]bool{}, map[string]bool{}
	if fd := e.funcDecl(la+"/estimator", "", "estimatedPodUsed"); fd == nil || fd.Body == nil {
		e.fail("estimator.estimatedPodUsed not found")
	} else {
		ast.Inspect(fd.Body, func(n ast.Node) bool {
			c, ok := n.(*ast.CallExpr)
			if !ok {
				return true
			}
			sel, ok := c.Fun.(*ast.SelectorExpr)
			if !ok || (sel.Sel.Name != "PodRequests" && sel.Sel.Name != "PodLimits") {
				return true
			}
			calls[sel.Sel.Name] = true
			if len(c.Args) != 2 {
				fields["<arity>"] = true
				return true
			}
			lit, ok := c.Args[1].(*ast.CompositeLit)
			if !ok {
				fields["<not a literal>"] = true
				return true
			}
			for i, el := range lit.Elts {
				if kv, ok := el.(*ast.KeyValueExpr); ok {
					if id, ok := kv.Key.(*ast.Ident); ok {
						fields[id.Name] = true
						continue
					}
				}
				fields[fmt.Sprintf("#%d", i)] = true
			}
			return true
		})
	}
	keys := func(m map[string]bool) []string {
		xs := []string{}
		for k := range m {
			xs = append(xs, k)
		}
		sort.Strings(xs)
		return xs
	}
	fmt.Fprintf(&e.out, "def podResourcesCalls : List String := %s\n", strs(keys(calls)))
	fmt.Fprintf(&e.out, "def podResourcesOptionFields : List String := %s\n", strs(keys(fields)))

	oldUsed, equalCalls := true, -1
	var addCalls, updCalls []string
	if fd := e.funcDecl(la, "podAssignCache", "NodeMetricHandler"); fd == nil || fd.Body == nil {
		e.fail("podAssignCache.NodeMetricHandler not found")
	} else {
		recv := ""
		if fd.Recv != nil && len(fd.Recv.List) > 0 && len(fd.Recv.List[0].Names) > 0 {
			recv = fd.Recv.List[0].Names[0].Name
		}
		cacheCalls := func(fl *ast.FuncLit) []string {
			xs := []string{}
			ast.Inspect(fl.Body, func(n ast.Node) bool {
				if c, ok := n.(*ast.CallExpr); ok {
					if sel, ok := c.Fun.(*ast.SelectorExpr); ok {
						if id, ok := sel.X.(*ast.Ident); ok && id.Name == recv {
							xs = append(xs, sel.Sel.Name)
						}
					}
				}
				return true
			})
			return xs
		}
		found := 0
		ast.Inspect(fd.Body, func(n ast.Node) bool {
			kv, ok := n.(*ast.KeyValueExpr)
			if !ok {
				return true
			}
			key, ok := kv.Key.(*ast.Ident)
			fl, ok2 := kv.Value.(*ast.FuncLit)
			if !ok || !ok2 {
				return true
			}
			switch key.Name {
			case "AddFunc":
				found++
				addCalls = cacheCalls(fl)
			case "UpdateFunc":
				found++
				updCalls = cacheCalls(fl)
				oldName := ""
				if ps := fl.Type.Params; ps != nil && len(ps.List) > 0 && len(ps.List[0].Names) > 0 {
					oldName = ps.List[0].Names[0].Name
				}
				oldUsed, equalCalls = false, 0
				ast.Inspect(fl.Body, func(n ast.Node) bool {
					switch x := n.(type) {
					case *ast.Ident:
						if oldName != "" && oldName != "_" && x.Name == oldName {
							oldUsed = true
						}
					case *ast.CallExpr:
						name := ""
						switch f := x.Fun.(type) {
						case *ast.SelectorExpr:
							name = f.Sel.Name
						case *ast.Ident:
							name = f.Name
						}
						if strings.Contains(name, "Equal") {
							equalCalls++
						}
					}
					return true
				})
			}
			return false
		})
		if found != 2 {
			e.fail("NodeMetricHandler: AddFunc / UpdateFunc function literals not found")
		}
	}
	fmt.Fprintf(&e.out, "def metricAddCacheCalls : List String := %s\n", strs(addCalls))
	fmt.Fprintf(&e.out, "def metricUpdateCacheCalls : List String := %s\n", strs(updCalls))
	fmt.Fprintf(&e.out, "def metricUpdateOldUsed : Bool := %v\n", oldUsed)
	fmt.Fprintf(&e.out, "def metricUpdateEqualCalls : Int := %d\n", equalCalls)
}
