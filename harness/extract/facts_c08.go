package main

import (
	"bytes"
	"fmt"
	"go/ast"
	"go/printer"
	"go/token"
	"regexp"
	"sort"
	"strings"
)

// C08 facts:
//   * the estimator defaults and the default report interval,
//   * nodeInfo.deletePod is textually nodeInfo.addPod with Add->Sub, AddDelta->SubDelta, Insert->Delete,
//   * every nodeInfo field addPod touches is (re)assigned on every path of nodeInfo.AddOrUpdateNodeMetric
//     before it replays addPod over n.podInfos (the "same context" premise of cache = rebuild).
func init() {
	extractors["C08"] = func(e *ext) {
		la := "pkg/scheduler/plugins/loadaware"
		e.constInt(la+"/estimator", "DefaultMilliCPURequest", "DefaultMilliCPURequest")
		e.constInt(la+"/estimator", "DefaultMemoryRequest", "DefaultMemoryRequest")
		// DefaultNodeMetricReportInterval = <int> * time.Second
		secs := int64(-1)
		if x, ok := e.valueSpec(la, "DefaultNodeMetricReportInterval"); ok {
			if b, ok := x.(*ast.BinaryExpr); ok && b.Op == token.MUL {
				if sel, ok := b.Y.(*ast.SelectorExpr); ok && sel.Sel.Name == "Second" {
					if n, ok := e.evalInt(la, b.X, 0); ok {
						secs = n
					}
				}
			}
		}
		if secs < 0 {
			e.fail("DefaultNodeMetricReportInterval is not <int> * time.Second")
		}
		fmt.Fprintf(&e.out, "def DefaultNodeMetricReportIntervalSeconds : Int := %d\n", secs)

		add := e.funcDecl(la, "nodeInfo", "addPod")
		del := e.funcDecl(la, "nodeInfo", "deletePod")
		met := e.funcDecl(la, "nodeInfo", "AddOrUpdateNodeMetric")
		if add == nil || del == nil || met == nil || add.Body == nil || del.Body == nil || met.Body == nil {
			e.fail("nodeInfo.addPod / deletePod / AddOrUpdateNodeMetric not found")
			fmt.Fprintf(&e.out, "def deleteMirrorsAdd : Bool := false\ndef addPodFields : List String := []\n"+
				"def metricResetFields : List String := []\ndef metricRebuildsFromPods : Bool := false\n")
			return
		}
		text := func(n ast.Node) string {
			var b bytes.Buffer
			_ = printer.Fprint(&b, e.fset, n) // a bare node is printed without comments
			return strings.Join(strings.Fields(b.String()), " ") // layout depends on the original positions

		}
		mirrored := strings.ReplaceAll(text(add.Body), "updateTime.Add(", "updateTime.ADD(") // time.Time.Add, not a vector
		for _, r := range [][2]string{{`\.AddDelta\(`, ".SubDelta("}, {`\.Add\(`, ".Sub("}, {`\.Insert\(`, ".Delete("}} {
			mirrored = regexp.MustCompile(r[0]).ReplaceAllString(mirrored, r[1])
		}
		mirrored = strings.ReplaceAll(mirrored, "updateTime.ADD(", "updateTime.Add(")
		fmt.Fprintf(&e.out, "def deleteMirrorsAdd : Bool := %v\n", mirrored == text(del.Body))

		recvName := func(fd *ast.FuncDecl) string {
			if fd.Recv != nil && len(fd.Recv.List) > 0 && len(fd.Recv.List[0].Names) > 0 {
				return fd.Recv.List[0].Names[0].Name
			}
			return ""
		}
		// fields of the receiver mentioned in addPod
		fields := map[string]bool{}
		rn := recvName(add)
		ast.Inspect(add.Body, func(n ast.Node) bool {
			if sel, ok := n.(*ast.SelectorExpr); ok {
				if id, ok := sel.X.(*ast.Ident); ok && id.Name == rn {
					fields[sel.Sel.Name] = true
				}
			}
			return true
		})
		// fields assigned on every path through a statement list (top level, or in both arms of an if/else)
		mr := recvName(met)
		var assigned func(stmts []ast.Stmt) map[string]bool
		assigned = func(stmts []ast.Stmt) map[string]bool {
			out := map[string]bool{}
			for _, s := range stmts {
				switch v := s.(type) {
				case *ast.AssignStmt:
					for _, l := range v.Lhs {
						if sel, ok := l.(*ast.SelectorExpr); ok {
							if id, ok := sel.X.(*ast.Ident); ok && id.Name == mr {
								out[sel.Sel.Name] = true
							}
						}
					}
				case *ast.IfStmt:
					if v.Else == nil {
						continue
					}
					a := assigned(v.Body.List)
					var b map[string]bool
					switch el := v.Else.(type) {
					case *ast.BlockStmt:
						b = assigned(el.List)
					case *ast.IfStmt:
						b = assigned([]ast.Stmt{el})
					}
					for k := range a {
						if b[k] {
							out[k] = true
						}
					}
				}
			}
			return out
		}
		// only what precedes the replay loop counts
		rebuilds := false
		var before []ast.Stmt
		for _, s := range met.Body.List {
			if rs, ok := s.(*ast.RangeStmt); ok && strings.Contains(text(rs.X), mr+".podInfos") && strings.Contains(text(rs.Body), mr+".addPod(") {
				rebuilds = true
				break
			}
			before = append(before, s)
		}
		resets := assigned(before)
		list := func(m map[string]bool) string {
			ks := make([]string, 0, len(m))
			for k := range m {
				ks = append(ks, k)
			}
			sort.Strings(ks)
			for i := range ks {
				ks[i] = leanStr(ks[i])
			}
			return "[" + strings.Join(ks, ", ") + "]"
		}
		fmt.Fprintf(&e.out, "def addPodFields : List String := %s\n", list(fields))
		fmt.Fprintf(&e.out, "def metricResetFields : List String := %s\n", list(resets))
		fmt.Fprintf(&e.out, "def metricRebuildsFromPods : Bool := %v\n", rebuilds)
	}
}
