package main

import (
	"fmt"
	"go/ast"
	"go/token"
	"strings"
)

// C16: critical-section structure (DESIGN §3.2) of PodEvictor.Evict, evictorProxy.Evict and
// EvictionLimiter.{AllowEvict,Done}: the sequence of blocks (lock held?, [check|call|count ...]) in
// source order.  A new block starts at every Lock()/Unlock(); `defer x.Unlock()` holds to the end of the
// enclosing function (or immediately-invoked closure).  act codes: 0 check, 1 call, 2 count.

type c16Ev struct {
	sec int // 0 = no lock held, k = k-th lock acquisition
	act int
}

type c16Walker struct {
	evs      []c16Ev
	sec      int
	nsec     int
	lockExpr []string
	classify func(n ast.Node) (int, bool)
}

func c16ExprString(x ast.Expr) string {
	switch v := x.(type) {
	case *ast.Ident:
		return v.Name
	case *ast.SelectorExpr:
		return c16ExprString(v.X) + "." + v.Sel.Name
	case *ast.IndexExpr:
		return c16ExprString(v.X) + "[]"
	case *ast.StarExpr:
		return "*" + c16ExprString(v.X)
	case *ast.ParenExpr:
		return c16ExprString(v.X)
	}
	return "?"
}

// lockCall recognises `<x>.Lock()` / `<x>.Unlock()` (and the R variants).
func c16LockCall(x ast.Expr) (recv string, name string, ok bool) {
	c, isCall := x.(*ast.CallExpr)
	if !isCall || len(c.Args) != 0 {
		return "", "", false
	}
	s, isSel := c.Fun.(*ast.SelectorExpr)
	if !isSel {
		return "", "", false
	}
	switch s.Sel.Name {
	case "Lock", "RLock", "Unlock", "RUnlock":
		return c16ExprString(s.X), s.Sel.Name, true
	}
	return "", "", false
}

func (w *c16Walker) events(n ast.Node) {
	if n == nil {
		return
	}
	ast.Inspect(n, func(m ast.Node) bool {
		if m == nil {
			return false
		}
		if _, isLit := m.(*ast.FuncLit); isLit {
			return false
		}
		if a, ok := w.classify(m); ok {
			if k := len(w.evs); k == 0 || w.evs[k-1] != (c16Ev{w.sec, a}) {
				w.evs = append(w.evs, c16Ev{w.sec, a})
			}
		}
		return true
	})
}

func (w *c16Walker) stmts(list []ast.Stmt) {
	for _, s := range list {
		w.stmt(s)
	}
}

func (w *c16Walker) stmt(s ast.Stmt) {
	switch v := s.(type) {
	case *ast.ExprStmt:
		if recv, name, ok := c16LockCall(v.X); ok {
			if name == "Lock" || name == "RLock" {
				w.nsec++
				w.sec = w.nsec
				w.lockExpr = append(w.lockExpr, recv)
			} else {
				w.sec = 0
			}
			return
		}
		if c, ok := v.X.(*ast.CallExpr); ok {
			if lit, ok := c.Fun.(*ast.FuncLit); ok { // func() { ... }()
				saved := w.sec
				w.stmts(lit.Body.List)
				w.sec = saved
				return
			}
		}
		w.events(v)
	case *ast.DeferStmt:
		if _, _, ok := c16LockCall(v.Call); ok {
			return // unlock at function end
		}
		w.events(v.Call)
	case *ast.BlockStmt:
		w.stmts(v.List)
	case *ast.IfStmt:
		if v.Init != nil {
			w.stmt(v.Init)
		}
		w.events(v.Cond)
		w.stmts(v.Body.List)
		if v.Else != nil {
			w.stmt(v.Else)
		}
	case *ast.ForStmt:
		w.events(v.Cond)
		w.stmts(v.Body.List)
	case *ast.RangeStmt:
		w.events(v.X)
		w.stmts(v.Body.List)
	default:
		w.events(s)
	}
}

func c16Mentions(n ast.Node, names ...string) bool {
	found := false
	ast.Inspect(n, func(m ast.Node) bool {
		if s, ok := m.(*ast.SelectorExpr); ok {
			for _, nm := range names {
				if s.Sel.Name == nm {
					found = true
				}
			}
		}
		return !found
	})
	return found
}

func c16SelCall(n ast.Node, names ...string) bool {
	c, ok := n.(*ast.CallExpr)
	if !ok {
		return false
	}
	switch f := c.Fun.(type) {
	case *ast.SelectorExpr:
		for _, nm := range names {
			if f.Sel.Name == nm {
				return true
			}
		}
	case *ast.Ident:
		for _, nm := range names {
			if f.Name == nm {
				return true
			}
		}
	}
	return false
}

func (e *ext) c16Blocks(dir, recv, fn, lean string, classify func(n ast.Node) (int, bool)) *c16Walker {
	w := &c16Walker{classify: classify}
	fd := e.funcDecl(dir, recv, fn)
	if fd == nil || fd.Body == nil {
		e.fail("%s: func (%s) %s not found", dir, recv, fn)
		fmt.Fprintf(&e.out, "def %s : List (Bool × List Nat) := [] -- NOT FOUND\n", lean)
		return w
	}
	w.stmts(fd.Body.List)
	var parts []string
	for i := 0; i < len(w.evs); {
		j := i
		var acts []string
		for j < len(w.evs) && w.evs[j].sec == w.evs[i].sec {
			acts = append(acts, fmt.Sprint(w.evs[j].act))
			j++
		}
		parts = append(parts, fmt.Sprintf("(%v, [%s])", w.evs[i].sec != 0, strings.Join(acts, ", ")))
		i = j
	}
	fmt.Fprintf(&e.out, "/-- %s.(%s).%s; locks taken: %v -/\ndef %s : List (Bool × List Nat) := [%s]\n",
		dir, recv, fn, w.lockExpr, lean, strings.Join(parts, ", "))
	return w
}

func init() {
	extractors["C16"] = func(e *ext) {
		counters := []string{"nodepodCount", "nodePodCount", "namespacePodCount", "totalCount"}
		ev := "pkg/descheduler/evictions"
		e.c16Blocks(ev, "PodEvictor", "Evict", "podEvictorEvict", func(n ast.Node) (int, bool) {
			if c16SelCall(n, "NodeLimitExceeded", "NamespaceLimitExceeded") {
				return 0, true
			}
			if c16SelCall(n, "EvictPod") {
				return 1, true
			}
			if s, ok := n.(*ast.IncDecStmt); ok && s.Tok == token.INC && c16Mentions(s.X, counters...) {
				return 2, true
			}
			if s, ok := n.(*ast.AssignStmt); ok && len(s.Lhs) == 1 && c16Mentions(s.Lhs[0], counters...) {
				return 2, true
			}
			return 0, false
		})
		e.c16Blocks(ev, "EvictionLimiter", "AllowEvict", "limiterAllow", func(n ast.Node) (int, bool) {
			if b, ok := n.(*ast.BinaryExpr); ok && (b.Op == token.GTR || b.Op == token.GEQ || b.Op == token.EQL || b.Op == token.LSS || b.Op == token.LEQ) &&
				c16Mentions(b, counters...) {
				return 0, true
			}
			if s, ok := n.(*ast.IncDecStmt); ok && c16Mentions(s.X, counters...) {
				return 2, true
			}
			return 0, false
		})
		e.c16Blocks(ev, "EvictionLimiter", "Done", "limiterDone", func(n ast.Node) (int, bool) {
			if s, ok := n.(*ast.IncDecStmt); ok && s.Tok == token.INC && c16Mentions(s.X, counters...) {
				return 2, true
			}
			return 0, false
		})
		// Reset: the three counters are (re)assigned inside one acquisition of the limiter's lock
		e.c16Blocks(ev, "EvictionLimiter", "Reset", "limiterReset", func(n ast.Node) (int, bool) {
			if s, ok := n.(*ast.AssignStmt); ok && len(s.Lhs) == 1 && c16Mentions(s.Lhs[0], counters...) {
				return 2, true
			}
			return 0, false
		})
		rt := "pkg/descheduler/framework/runtime"
		w := e.c16Blocks(rt, "evictorProxy", "Evict", "proxyEvict", func(n ast.Node) (int, bool) {
			if c16SelCall(n, "AllowEvict") {
				return 0, true
			}
			if c16SelCall(n, "Evict") {
				return 1, true
			}
			if c16SelCall(n, "Done") {
				return 2, true
			}
			return 0, false
		})
		// Is the lock that evictorProxy.Evict takes shared by all callers?  frameworkImpl.Evictor() builds a
		// fresh proxy (composite literal) per call, so a receiver field is NOT shared; a package-level variable,
		// or a field reached through e.handle (the one frameworkImpl), is.
		fresh := false
		if fd := e.funcDecl(rt, "frameworkImpl", "Evictor"); fd != nil && fd.Body != nil {
			ast.Inspect(fd.Body, func(n ast.Node) bool {
				if r, ok := n.(*ast.ReturnStmt); ok && len(r.Results) == 1 {
					x := r.Results[0]
					if u, ok := x.(*ast.UnaryExpr); ok && u.Op == token.AND {
						x = u.X
					}
					if _, ok := x.(*ast.CompositeLit); ok {
						fresh = true
					}
				}
				return true
			})
		} else {
			e.fail("frameworkImpl.Evictor not found")
		}
		// scope of that lock object: 0 a package-level variable, 1 a field of the frameworkImpl behind <recv>.handle (one per
		// framework = one per PROFILE), 2 a field of the proxy itself, 3 anything else
		scope := 3
		perProfile, shareLimiter := e.c16ProfileFacts()
		shared := false
		if len(w.lockExpr) == 1 {
			le := w.lockExpr[0]
			recvName := ""
			if fd := e.funcDecl(rt, "evictorProxy", "Evict"); fd != nil && fd.Recv != nil && len(fd.Recv.List[0].Names) > 0 {
				recvName = fd.Recv.List[0].Names[0].Name
			}
			switch {
			case !strings.Contains(le, "."): // bare identifier: must be a package-level var
				for _, f := range e.dir(rt) {
					for _, d := range f.Decls {
						if gd, ok := d.(*ast.GenDecl); ok && gd.Tok == token.VAR {
							for _, s := range gd.Specs {
								for _, id := range s.(*ast.ValueSpec).Names {
									if id.Name == le {
										shared = true
										scope = 0
									}
								}
							}
						}
					}
				}
			case strings.HasPrefix(le, recvName+".handle.") && strings.Count(le, ".") == 2:
				// one lock per framework: shared by the callers of ONE profile only; the descheduler builds a framework per
				// profile and hands the same limiter to all of them
				scope = 1
				shared = !(perProfile && shareLimiter)
			case strings.HasPrefix(le, recvName+".") && strings.Count(le, ".") == 1:
				scope = 2
				shared = !fresh && !(perProfile && shareLimiter)
			default:
				shared = false
			}
		}
		fmt.Fprintf(&e.out, "/-- scope of the lock object evictorProxy.Evict takes (%v): 0 package-level variable, 1 field of the frameworkImpl behind the proxy's handle, 2 field of the proxy, 3 other -/\ndef proxyLockScope : Nat := %d\n", w.lockExpr, scope)
		fmt.Fprintf(&e.out, "/-- profile.NewMap builds one framework per profile: NewFramework is reached from inside its loop over the profiles -/\ndef profileFrameworkPerProfile : Bool := %v\n", perProfile)
		fmt.Fprintf(&e.out, "/-- descheduler.New passes ONE WithEvictionLimiter option to profile.NewMap, which forwards its option list unchanged to every NewFramework call -/\ndef profilesShareLimiter : Bool := %v\n", shareLimiter)
		fmt.Fprintf(&e.out, "/-- frameworkImpl.Evictor() returns a new proxy per call -/\ndef evictorFreshPerCall : Bool := %v\n", fresh)
		fmt.Fprintf(&e.out, "/-- the lock taken by evictorProxy.Evict (%v) is one object for all callers of handle.Evictor().Evict -/\ndef proxyLockShared : Bool := %v\n", w.lockExpr, shared)
		e.c16ArbFacts()
		e.c16ExistingLookupFacts()
		e.c16CycleFacts()
		e.c16GlueFacts()
	}
}

// ---- how the frameworks and the limiter are put together (pkg/descheduler/profile/profile.go NewMap / newProfile,
// pkg/descheduler/descheduler.go New).  perProfile: NewMap has a range loop whose body reaches frameworkruntime.NewFramework
// (directly or through newProfile).  shareLimiter: the variadic option parameter of NewMap is forwarded as `opts...` down to
// NewFramework, and the NewMap call in package descheduler carries exactly one WithEvictionLimiter(...) argument.
func (e *ext) c16ProfileFacts() (perProfile, shareLimiter bool) {
	prof := "pkg/descheduler/profile"
	callsNewFramework := func(n ast.Node) (found, forwards bool) {
		ast.Inspect(n, func(m ast.Node) bool {
			if c, ok := m.(*ast.CallExpr); ok && c16SelCall(c, "NewFramework") {
				found = true
				if c.Ellipsis.IsValid() {
					forwards = true
				}
			}
			return true
		})
		return
	}
	npFound, npForwards := false, false
	if fd := e.funcDecl(prof, "", "newProfile"); fd != nil && fd.Body != nil {
		npFound, npForwards = callsNewFramework(fd.Body)
	}
	fd := e.funcDecl(prof, "", "NewMap")
	if fd == nil || fd.Body == nil {
		e.fail("profile.NewMap not found")
		return false, false
	}
	forwards := false
	ast.Inspect(fd.Body, func(n ast.Node) bool {
		rs, ok := n.(*ast.RangeStmt)
		if !ok {
			return true
		}
		if f, fw := callsNewFramework(rs.Body); f {
			perProfile = true
			forwards = forwards || fw
		}
		ast.Inspect(rs.Body, func(m ast.Node) bool {
			if c, ok := m.(*ast.CallExpr); ok && c16SelCall(c, "newProfile") && npFound {
				perProfile = true
				if c.Ellipsis.IsValid() && npForwards {
					forwards = true
				}
			}
			return true
		})
		return true
	})
	limiterOpts := 0
	for _, f := range e.dir("pkg/descheduler") {
		ast.Inspect(f, func(n ast.Node) bool {
			if c, ok := n.(*ast.CallExpr); ok && c16SelCall(c, "NewMap") {
				for _, a := range c.Args {
					if c16SelCall(a, "WithEvictionLimiter") {
						limiterOpts++
					}
				}
			}
			return true
		})
	}
	return perProfile, forwards && limiterOpts == 1
}

// ---- existingPodMigrationJob (filter.go): which index lookups it makes and under which guard.  Every mention of a job
// index constant is recorded in source order as (index, guard): index 1 = IndexJobByPodUID, 2 = IndexJobPodNamespacedName;
// guard 0 = unconditional, 1 = under an if whose condition does not look at a UID (the `if !existing` fall-back, either
// branch), 2 = under an if / else whose condition mentions a UID (the lookup depends on whether the pod has a UID).
func (e *ext) c16ExistingLookupFacts() {
	arb := "pkg/descheduler/controllers/migration/arbitrator"
	var out []string
	fd := e.funcDecl(arb, "filter", "existingPodMigrationJob")
	if fd == nil || fd.Body == nil {
		e.fail("filter.existingPodMigrationJob not found")
	} else {
		var walk func(n ast.Node, guard int)
		walk = func(n ast.Node, guard int) {
			if n == nil {
				return
			}
			ast.Inspect(n, func(m ast.Node) bool {
				switch v := m.(type) {
				case *ast.IfStmt:
					if v.Init != nil {
						walk(v.Init, guard)
					}
					g := 1
					if c16Mentions(v.Cond, "UID") {
						g = 2
					}
					if guard > g {
						g = guard
					}
					walk(v.Cond, guard)
					walk(v.Body, g)
					if v.Else != nil {
						walk(v.Else, g)
					}
					return false
				case *ast.SelectorExpr:
					switch v.Sel.Name {
					case "IndexJobByPodUID":
						out = append(out, fmt.Sprintf("(1, %d)", guard))
					case "IndexJobPodNamespacedName":
						out = append(out, fmt.Sprintf("(2, %d)", guard))
					}
				}
				return true
			})
		}
		walk(fd.Body, 0)
	}
	fmt.Fprintf(&e.out, "/-- existingPodMigrationJob: (index looked up: 1 by pod UID, 2 by namespace/name; guard: 0 none, 1 an if that does not look at a UID, 2 an if/else on a UID) in source order -/\ndef arbExistingLookups : List (Nat × Nat) := [%s]\n", strings.Join(out, ", "))
}

// ---- Descheduler.deschedulerOnce (descheduler.go): the limiter-relevant events in source order, helpers of the package
// inlined at their call sites: 1 = <…Limiter…>.Reset() outside every loop, 2 = the same inside a for/range loop,
// 3 = a call of RunDeschedulePlugins, 4 = a call of RunBalancePlugins (consecutive equal events are collapsed).
func (e *ext) c16CycleFacts() {
	dir := "pkg/descheduler"
	var evs []int
	emit := func(c int) {
		if len(evs) == 0 || evs[len(evs)-1] != c || c <= 2 {
			evs = append(evs, c)
		}
	}
	var walk func(n ast.Node, inLoop bool, depth int)
	walk = func(n ast.Node, inLoop bool, depth int) {
		if n == nil {
			return
		}
		ast.Inspect(n, func(m ast.Node) bool {
			switch v := m.(type) {
			case *ast.ForStmt:
				walk(v.Init, inLoop, depth)
				walk(v.Body, true, depth)
				return false
			case *ast.RangeStmt:
				walk(v.X, inLoop, depth)
				walk(v.Body, true, depth)
				return false
			case *ast.CallExpr:
				name, recv := "", ""
				switch f := v.Fun.(type) {
				case *ast.Ident:
					name = f.Name
				case *ast.SelectorExpr:
					name, recv = f.Sel.Name, c16ExprString(f.X)
				}
				switch {
				case name == "Reset" && strings.Contains(recv, "imiter"):
					if inLoop {
						emit(2)
					} else {
						emit(1)
					}
				case name == "RunDeschedulePlugins":
					emit(3)
				case name == "RunBalancePlugins":
					emit(4)
				case name != "" && depth < 4 && !strings.Contains(recv, "."):
					// a function of the package, or a method called on a plain identifier (the receiver): inline it
					var fd *ast.FuncDecl
					if recv == "" {
						fd = e.funcDecl(dir, "", name)
					} else {
						fd = e.funcDecl(dir, "Descheduler", name)
					}
					if fd != nil && fd.Body != nil {
						walk(fd.Body, inLoop, depth+1)
						for _, a := range v.Args { // closures passed in are run by the helper: after what the helper does first
							walk(a, inLoop, depth)
						}
						return false
					}
				}
			}
			return true
		})
	}
	fd := e.funcDecl(dir, "Descheduler", "deschedulerOnce")
	if fd == nil || fd.Body == nil {
		e.fail("Descheduler.deschedulerOnce not found")
	} else {
		walk(fd.Body, false, 0)
	}
	var parts []string
	for _, c := range evs {
		parts = append(parts, fmt.Sprint(c))
	}
	fmt.Fprintf(&e.out, "/-- deschedulerOnce: 1 limiter Reset outside loops, 2 Reset inside a loop, 3 RunDeschedulePlugins, 4 RunBalancePlugins; source order, package helpers inlined -/\ndef cycleEvents : List Nat := [%s]\n", strings.Join(parts, ", "))
}

// ---- arbitration facts (filter.go): the skip condition of getUnavailablePods, the retryable filter chain of
// initFilters with the gate(s) guarding each member, and the evict-annotation bypass of both pod filters.

// c16Leaves flattens a boolean expression over one operator into (negated?, callee name) leaves; ok=false when
// operators are mixed or a leaf is not a (negated) call.
func c16Leaves(x ast.Expr, op token.Token) (out [][2]string, ok bool) {
	switch v := x.(type) {
	case *ast.ParenExpr:
		return c16Leaves(v.X, op)
	case *ast.BinaryExpr:
		if v.Op != op {
			return nil, false
		}
		l, ok1 := c16Leaves(v.X, op)
		r, ok2 := c16Leaves(v.Y, op)
		return append(l, r...), ok1 && ok2
	case *ast.UnaryExpr:
		if v.Op == token.NOT {
			if c, isCall := v.X.(*ast.CallExpr); isCall {
				return [][2]string{{"true", c16Callee(c)}}, true
			}
		}
		return nil, false
	case *ast.CallExpr:
		return [][2]string{{"false", c16Callee(v)}}, true
	}
	return nil, false
}

func c16Callee(c *ast.CallExpr) string {
	switch f := c.Fun.(type) {
	case *ast.Ident:
		return f.Name
	case *ast.SelectorExpr:
		return f.Sel.Name
	}
	return "?"
}

func c16TopOp(x ast.Expr) token.Token {
	for {
		if p, ok := x.(*ast.ParenExpr); ok {
			x = p.X
			continue
		}
		break
	}
	if b, ok := x.(*ast.BinaryExpr); ok {
		return b.Op
	}
	return token.LAND // a single leaf counts as a conjunction of one
}

func (e *ext) c16ArbFacts() {
	arb := "pkg/descheduler/controllers/migration/arbitrator"
	// 1. getUnavailablePods: `for … { if <cond> { continue } … }`
	podPred := map[string]int{"IsPodActive": 1, "IsPodReady": 2}
	conj, leaves, found := false, "", false
	if fd := e.funcDecl(arb, "filter", "getUnavailablePods"); fd != nil && fd.Body != nil {
		ast.Inspect(fd.Body, func(n ast.Node) bool {
			rs, ok := n.(*ast.RangeStmt)
			if !ok || found || len(rs.Body.List) == 0 {
				return true
			}
			is, ok := rs.Body.List[0].(*ast.IfStmt)
			if !ok || is.Init != nil || is.Else != nil || len(is.Body.List) != 1 {
				return true
			}
			if br, ok := is.Body.List[0].(*ast.BranchStmt); !ok || br.Tok != token.CONTINUE {
				return true
			}
			op := c16TopOp(is.Cond)
			ls, ok := c16Leaves(is.Cond, op)
			if !ok || (op != token.LAND && op != token.LOR) {
				e.fail("getUnavailablePods: skip condition is not a flat &&/|| of (negated) calls")
				return true
			}
			found, conj = true, op == token.LAND
			var parts []string
			for _, l := range ls {
				parts = append(parts, fmt.Sprintf("(%s, %d)", l[0], podPred[l[1]]))
			}
			leaves = strings.Join(parts, ", ")
			return true
		})
	}
	if !found {
		e.fail("getUnavailablePods: `if cond { continue }` at the head of the range loop not found")
	}
	fmt.Fprintf(&e.out, "/-- getUnavailablePods skips a pod when this holds: (negated, predicate) leaves, 1 IsPodActive 2 IsPodReady 0 other -/\ndef arbUnavailSkip : List (Bool × Nat) := [%s]\n", leaves)
	fmt.Fprintf(&e.out, "/-- … joined by && (true) or || (false) -/\ndef arbUnavailSkipConj : Bool := %v\n", conj)

	// 2. initFilters: every `retryableFilterFuncs = append(retryableFilterFuncs, f.X)` with the gates named in the enclosing if
	gateCode := map[string]int{"EvictionGateMaxUnavailablePerWorkload": 1, "EvictionGateMaxMigratingPerWorkload": 2, "EvictionGateMaxMigratingPerNode": 3,
		"EvictionGateMaxMigratingPerNamespace": 4, "EvictionGateMaxMigratingGlobally": 5, "EvictionGateExpectedReplicas": 6, "EvictionGateBarePods": 7}
	filterCode := map[string]int{"filterMaxMigratingGlobally": 5, "filterMaxMigratingPerNode": 3, "filterMaxMigratingPerNamespace": 4,
		"filterMaxMigratingOrUnavailablePerWorkload": 12}
	var chain []string
	annRetry, annNonRetry := false, false
	if fd := e.funcDecl(arb, "filter", "initFilters"); fd != nil && fd.Body != nil {
		for _, st := range fd.Body.List {
			is, ok := st.(*ast.IfStmt)
			if !ok || len(is.Body.List) != 1 {
				continue
			}
			as, ok := is.Body.List[0].(*ast.AssignStmt)
			if !ok || len(as.Lhs) != 1 || c16ExprString(as.Lhs[0]) != "retryableFilterFuncs" || len(as.Rhs) != 1 {
				continue
			}
			call, ok := as.Rhs[0].(*ast.CallExpr)
			if !ok || c16Callee(call) != "append" || len(call.Args) != 2 {
				continue
			}
			name := ""
			if sel, ok := call.Args[1].(*ast.SelectorExpr); ok {
				name = sel.Sel.Name
			}
			// the condition must be `!skipped(g)` or `!skipped(g1) || !skipped(g2)`: the member is dropped only when all its gates are skipped
			ls, ok := c16Leaves(is.Cond, c16TopOp(is.Cond))
			var gates []string
			good := ok && (len(ls) == 1 || c16TopOp(is.Cond) == token.LOR)
			for _, l := range ls {
				if l[0] != "true" || l[1] != "isEvictionGateSkipped" {
					good = false
				}
			}
			ast.Inspect(is.Cond, func(n ast.Node) bool {
				if sel, ok := n.(*ast.SelectorExpr); ok {
					if c, ok := gateCode[sel.Sel.Name]; ok {
						gates = append(gates, fmt.Sprint(c))
					} else if strings.HasPrefix(sel.Sel.Name, "EvictionGate") {
						good = false
					}
				}
				return true
			})
			if !good {
				e.fail("initFilters: guard of retryable filter %s is not a disjunction of !isEvictionGateSkipped(known gate)", name)
			}
			chain = append(chain, fmt.Sprintf("(%d, [%s])", filterCode[name], strings.Join(gates, ", ")))
		}
		// 3. f.retryablePodFilter / f.nonRetryablePodFilter = func(pod) bool { return HaveEvictAnnotation(pod) || <chain>(pod) }
		ast.Inspect(fd.Body, func(n ast.Node) bool {
			as, ok := n.(*ast.AssignStmt)
			if !ok || len(as.Lhs) != 1 || len(as.Rhs) != 1 {
				return true
			}
			lhs := c16ExprString(as.Lhs[0])
			fl, ok := as.Rhs[0].(*ast.FuncLit)
			if !ok || (lhs != "f.retryablePodFilter" && lhs != "f.nonRetryablePodFilter") || len(fl.Body.List) == 0 {
				return true
			}
			ret, ok := fl.Body.List[len(fl.Body.List)-1].(*ast.ReturnStmt)
			if !ok || len(ret.Results) != 1 || len(fl.Body.List) != 1 {
				return true
			}
			ls, ok := c16Leaves(ret.Results[0], token.LOR)
			want := map[string]string{"f.retryablePodFilter": "retryablePodFilters", "f.nonRetryablePodFilter": "podFilter"}[lhs]
			if ok && len(ls) == 2 && ls[0] == [2]string{"false", "HaveEvictAnnotation"} && ls[1] == [2]string{"false", want} {
				if lhs == "f.retryablePodFilter" {
					annRetry = true
				} else {
					annNonRetry = true
				}
			}
			return true
		})
	} else {
		e.fail("filter.initFilters not found")
	}
	fmt.Fprintf(&e.out, "/-- initFilters: members of the retryable chain in source order (5 globally, 3 per node, 4 per namespace, 12 per workload) with the gates whose skipping drops them -/\ndef arbRetryableChain : List (Nat × List Nat) := [%s]\n", strings.Join(chain, ", "))
	fmt.Fprintf(&e.out, "/-- retryablePodFilter = HaveEvictAnnotation(pod) || retryablePodFilters(pod) -/\ndef arbAnnBypassRetryable : Bool := %v\n", annRetry)
	fmt.Fprintf(&e.out, "/-- nonRetryablePodFilter = HaveEvictAnnotation(pod) || podFilter(pod) -/\ndef arbAnnBypassNonRetryable : Bool := %v\n", annNonRetry)
}

// ---- glue facts (third extension): the event routing of arbitrationHandler (handler.go), and the way the three eviction
// caps travel from the v1alpha2 configuration to NewEvictionLimiter (defaults.go, zz_generated.conversion.go, server.go).

var c16CapFields = map[string]int{"MaxNoOfPodsToEvictPerNode": 1, "MaxNoOfPodsToEvictPerNamespace": 2, "MaxNoOfPodsToEvictTotal": 3}

// c16CallsMethod: does the node contain a call `<x>.<name>(…)`; unconditional = it is a top-level statement of body
func c16CallsMethod(n ast.Node, name string) bool {
	found := false
	ast.Inspect(n, func(m ast.Node) bool {
		if c, ok := m.(*ast.CallExpr); ok {
			if s, ok := c.Fun.(*ast.SelectorExpr); ok && s.Sel.Name == name {
				found = true
			}
		}
		return true
	})
	return found
}

func c16TopLevelCall(body *ast.BlockStmt, name string) bool {
	for _, st := range body.List {
		if es, ok := st.(*ast.ExprStmt); ok && c16CallsMethod(es, name) {
			return true
		}
	}
	return false
}

// c16EqLeaves flattens `a == K1 || a == K2 …` into the names K (selector or ident on the right-hand side); ok=false for any
// other operator / shape.  lhs collects the left-hand sides.
func c16EqLeaves(x ast.Expr) (names []string, lhs []string, ok bool) {
	switch v := x.(type) {
	case *ast.ParenExpr:
		return c16EqLeaves(v.X)
	case *ast.BinaryExpr:
		switch v.Op {
		case token.LOR:
			n1, l1, ok1 := c16EqLeaves(v.X)
			n2, l2, ok2 := c16EqLeaves(v.Y)
			return append(n1, n2...), append(l1, l2...), ok1 && ok2
		case token.EQL:
			name := ""
			switch r := v.Y.(type) {
			case *ast.SelectorExpr:
				name = r.Sel.Name
			case *ast.Ident:
				name = r.Name
			case *ast.BasicLit:
				name = r.Value
			}
			return []string{name}, []string{c16ExprString(v.X)}, name != ""
		}
	}
	return nil, nil, false
}

func (e *ext) c16GlueFacts() {
	arb := "pkg/descheduler/controllers/migration/arbitrator"
	phaseCode := map[string]int{`""`: 0, "PodMigrationJobPending": 1, "PodMigrationJobRunning": 2, "PodMigrationJobSucceeded": 3,
		"PodMigrationJobFailed": 4, "PodMigrationJobAborted": 5}
	// 1. arbitrationHandler.Update: the statement(s) calling DeletePodMigrationJob must be ONE `if <phase == K || …> { … }` without
	// else; the K are the phases that drop the passed mark
	var phases []string
	shape := false
	if fd := e.funcDecl(arb, "arbitrationHandler", "Update"); fd != nil && fd.Body != nil {
		nIf, nCalls := 0, 0
		// local names for the phase: `phase := job.Status.Phase`
		phaseVar := map[string]bool{}
		ast.Inspect(fd.Body, func(n ast.Node) bool {
			if as, ok := n.(*ast.AssignStmt); ok && as.Tok == token.DEFINE && len(as.Lhs) == 1 && len(as.Rhs) == 1 {
				if id, ok := as.Lhs[0].(*ast.Ident); ok && strings.HasSuffix(c16ExprString(as.Rhs[0]), "Status.Phase") {
					phaseVar[id.Name] = true
				}
			}
			return true
		})
		ast.Inspect(fd.Body, func(n ast.Node) bool {
			if c, ok := n.(*ast.CallExpr); ok {
				if s, ok := c.Fun.(*ast.SelectorExpr); ok && s.Sel.Name == "DeletePodMigrationJob" {
					nCalls++
				}
			}
			is, ok := n.(*ast.IfStmt)
			if !ok || !c16TopLevelCall(is.Body, "DeletePodMigrationJob") {
				return true
			}
			nIf++
			names, lhs, okc := c16EqLeaves(is.Cond)
			good := okc && is.Else == nil && is.Init == nil
			for _, l := range lhs {
				if !strings.HasSuffix(l, "Status.Phase") && !phaseVar[l] {
					good = false
				}
			}
			for _, nm := range names {
				c, known := phaseCode[nm]
				if !known {
					good = false
				}
				phases = append(phases, fmt.Sprint(c))
			}
			shape = good
			return true
		})
		if nIf != 1 || nCalls != 1 {
			shape = false
		}
	} else {
		e.fail("arbitrationHandler.Update not found")
	}
	fmt.Fprintf(&e.out, "/-- arbitrationHandler.Update calls DeletePodMigrationJob in exactly one place, inside `if job.Status.Phase == K1 || … { }` (no else, no other operator) -/\ndef handlerDropShape : Bool := %v\n", shape)
	fmt.Fprintf(&e.out, "/-- … for these phases K (0 \"\", 1 Pending, 2 Running, 3 Succeeded, 4 Failed, 5 Aborted), in source order -/\ndef handlerDropPhases : List Nat := [%s]\n", strings.Join(phases, ", "))
	create, del := false, false
	if fd := e.funcDecl(arb, "arbitrationHandler", "Create"); fd != nil && fd.Body != nil {
		create = c16TopLevelCall(fd.Body, "AddPodMigrationJob") && !c16CallsMethod(fd.Body, "DeletePodMigrationJob")
	}
	if fd := e.funcDecl(arb, "arbitrationHandler", "Delete"); fd != nil && fd.Body != nil {
		del = c16TopLevelCall(fd.Body, "DeletePodMigrationJob")
	}
	// the early return of Create: `if job.Status.Phase == K1 || … { return }` before the AddPodMigrationJob call
	var skipPhases []string
	skipShape := false
	if fd := e.funcDecl(arb, "arbitrationHandler", "Create"); fd != nil && fd.Body != nil {
		phaseVar := map[string]bool{}
		nGuard, addSeen := 0, false
		good := true
		for _, st := range fd.Body.List {
			if as, ok := st.(*ast.AssignStmt); ok && as.Tok == token.DEFINE && len(as.Lhs) == 1 && len(as.Rhs) == 1 {
				if id, ok := as.Lhs[0].(*ast.Ident); ok && strings.HasSuffix(c16ExprString(as.Rhs[0]), "Status.Phase") {
					phaseVar[id.Name] = true
				}
			}
			if es, ok := st.(*ast.ExprStmt); ok && c16CallsMethod(es, "AddPodMigrationJob") {
				addSeen = true
			}
			is, ok := st.(*ast.IfStmt)
			if !ok {
				continue
			}
			names, lhs, okc := c16EqLeaves(is.Cond)
			onPhase := okc && len(lhs) > 0
			for _, l := range lhs {
				if !strings.HasSuffix(l, "Status.Phase") && !phaseVar[l] {
					onPhase = false
				}
			}
			if !onPhase {
				// any other if that mentions the phase is a shape this extractor does not know
				ast.Inspect(is.Cond, func(n ast.Node) bool {
					if sel, ok := n.(*ast.SelectorExpr); ok && sel.Sel.Name == "Phase" {
						good = false
					}
					if id, ok := n.(*ast.Ident); ok && phaseVar[id.Name] {
						good = false
					}
					return true
				})
				continue
			}
			nGuard++
			if addSeen || is.Else != nil || is.Init != nil || len(is.Body.List) != 1 {
				good = false
			} else if ret, ok := is.Body.List[0].(*ast.ReturnStmt); !ok || len(ret.Results) != 0 {
				good = false
			}
			for _, nm := range names {
				c, known := phaseCode[nm]
				if !known {
					good = false
				}
				skipPhases = append(skipPhases, fmt.Sprint(c))
			}
		}
		skipShape = good && nGuard <= 1 && addSeen
	}
	fmt.Fprintf(&e.out, "/-- arbitrationHandler.Create: at most one `if job.Status.Phase == K1 || … { return }` before the AddPodMigrationJob call, no other test of the phase -/\ndef handlerCreateSkipShape : Bool := %v\n", skipShape)
	fmt.Fprintf(&e.out, "/-- … for these phases K (codes as above), in source order -/\ndef handlerCreateSkipPhases : List Nat := [%s]\n", strings.Join(skipPhases, ", "))
	fmt.Fprintf(&e.out, "/-- arbitrationHandler.Create calls AddPodMigrationJob as a top-level statement (after the nil-object guard and the finished-job guard) and never DeletePodMigrationJob -/\ndef handlerCreateAdds : Bool := %v\n", create)
	fmt.Fprintf(&e.out, "/-- arbitrationHandler.Delete calls DeletePodMigrationJob unconditionally (after the nil-object guard) -/\ndef handlerDeleteDrops : Bool := %v\n", del)
	// arbitratorImpl.DeletePodMigrationJob: one statement, the call of removeJobPassedArbitration (the waiting collection is not touched)
	onlyMark := false
	if fd := e.funcDecl(arb, "arbitratorImpl", "DeletePodMigrationJob"); fd != nil && fd.Body != nil {
		onlyMark = len(fd.Body.List) == 1 && c16TopLevelCall(fd.Body, "removeJobPassedArbitration")
	}
	fmt.Fprintf(&e.out, "/-- arbitratorImpl.DeletePodMigrationJob = removeJobPassedArbitration(job.UID) and nothing else -/\ndef arbDeleteOnlyDropsMark : Bool := %v\n", onlyMark)
	// spec.paused: the arbitrator package (filter, sorts, handler, arbitrator) must not read it — a paused job that is Running or has
	// passed arbitration keeps its reservation and its place in every budget; the model has no such field
	pausedMentions := 0
	for _, f := range e.dir(arb) {
		ast.Inspect(f, func(n ast.Node) bool {
			if s, ok := n.(*ast.SelectorExpr); ok && s.Sel.Name == "Paused" {
				pausedMentions++
			}
			return true
		})
	}
	fmt.Fprintf(&e.out, "/-- package arbitrator (non-test files): selector expressions `x.Paused` -/\ndef arbPausedMentions : Nat := %d\n", pausedMentions)

	// 2. the caps in package v1alpha2: every selector expression naming one of the three fields, outside the generated deep-copy
	// and conversion files (struct field declarations are not selector expressions).  Defaulting must not touch them.
	v2 := "pkg/descheduler/apis/config/v1alpha2"
	mentions := 0
	for name, f := range e.dir(v2) {
		if name == "zz_generated.deepcopy.go" || name == "zz_generated.conversion.go" {
			continue
		}
		ast.Inspect(f, func(n ast.Node) bool {
			if s, ok := n.(*ast.SelectorExpr); ok {
				if _, is := c16CapFields[s.Sel.Name]; is {
					mentions++
				}
			}
			return true
		})
	}
	fmt.Fprintf(&e.out, "/-- package v1alpha2 outside zz_generated.{deepcopy,conversion}.go: expressions `x.MaxNoOfPodsToEvict…` (defaulting, decoding hooks) -/\ndef v1alpha2CapMentions : Nat := %d\n", mentions)
	// 2b. the arbitration limits of MigrationControllerArgs in package v1alpha2: mentions per field outside the generated files, the
	// shape of the one default, and the generated conversion
	argFields := []string{"MaxMigratingGlobally", "MaxMigratingPerNode", "MaxMigratingPerNamespace", "MaxMigratingPerWorkload",
		"MaxUnavailablePerWorkload", "SkipEvictionGates", "SkipCheckExpectedReplicas"}
	argCode := map[string]int{}
	for i, n := range argFields {
		argCode[n] = i + 1
	}
	argMentions := make([]int, len(argFields))
	for name, f := range e.dir(v2) {
		if name == "zz_generated.deepcopy.go" || name == "zz_generated.conversion.go" {
			continue
		}
		ast.Inspect(f, func(n ast.Node) bool {
			if s, ok := n.(*ast.SelectorExpr); ok {
				if c, is := argCode[s.Sel.Name]; is {
					argMentions[c-1]++
				}
			}
			return true
		})
	}
	var am []string
	for _, c := range argMentions {
		am = append(am, fmt.Sprint(c))
	}
	fmt.Fprintf(&e.out, "/-- package v1alpha2 outside the generated files: expressions naming MaxMigratingGlobally, MaxMigratingPerNode, MaxMigratingPerNamespace, MaxMigratingPerWorkload, MaxUnavailablePerWorkload, SkipEvictionGates, SkipCheckExpectedReplicas -/\ndef argsLimitMentions : List Nat := [%s]\n", strings.Join(am, ", "))
	perNodeShape := false
	if fd := e.funcDecl(v2, "", "SetDefaults_MigrationControllerArgs"); fd != nil && fd.Body != nil {
		for _, st := range fd.Body.List {
			is, ok := st.(*ast.IfStmt)
			if !ok || is.Else != nil || is.Init != nil || len(is.Body.List) != 1 {
				continue
			}
			be, ok := is.Cond.(*ast.BinaryExpr)
			if !ok || be.Op != token.EQL || c16ExprString(be.Y) != "nil" || !strings.HasSuffix(c16ExprString(be.X), ".MaxMigratingPerNode") {
				continue
			}
			as, ok := is.Body.List[0].(*ast.AssignStmt)
			if !ok || len(as.Lhs) != 1 || len(as.Rhs) != 1 || c16ExprString(as.Lhs[0]) != c16ExprString(be.X) {
				continue
			}
			usesConst, others := false, 0
			ast.Inspect(as.Rhs[0], func(n ast.Node) bool {
				if id, ok := n.(*ast.Ident); ok {
					switch id.Name {
					case "defaultMaxMigratingPerNode":
						usesConst = true
					case "ptr", "To", "int32", "pointer", "Int32", "Int32Ptr":
					default:
						others++
					}
				}
				return true
			})
			perNodeShape = usesConst && others == 0
		}
	} else {
		e.fail("SetDefaults_MigrationControllerArgs not found")
	}
	fmt.Fprintf(&e.out, "/-- SetDefaults_MigrationControllerArgs: `if obj.MaxMigratingPerNode == nil { obj.MaxMigratingPerNode = <pointer to defaultMaxMigratingPerNode> }` -/\ndef argsPerNodeDefaultShape : Bool := %v\n", perNodeShape)
	e.constInt(v2, "defaultMaxMigratingPerNode", "argsDefaultMaxMigratingPerNode")
	var aconv []string
	if fd := e.funcDecl(v2, "", "autoConvert_v1alpha2_MigrationControllerArgs_To_config_MigrationControllerArgs"); fd != nil && fd.Body != nil {
		ast.Inspect(fd.Body, func(n ast.Node) bool {
			as, ok := n.(*ast.AssignStmt)
			if !ok || len(as.Lhs) != 1 || len(as.Rhs) != 1 {
				return true
			}
			l, ok := as.Lhs[0].(*ast.SelectorExpr)
			if !ok || c16ExprString(l.X) != "out" {
				return true
			}
			lc, is := argCode[l.Sel.Name]
			if !is {
				return true
			}
			rc, nsel, calls := 0, 0, 0
			ast.Inspect(as.Rhs[0], func(m ast.Node) bool {
				switch v := m.(type) {
				case *ast.SelectorExpr:
					if c16ExprString(v.X) == "in" {
						nsel++
						rc = argCode[v.Sel.Name]
					}
				case *ast.CallExpr: // only type conversions through unsafe.Pointer are plain copies
					f := c16ExprString(v.Fun)
					if f != "unsafe.Pointer" && !strings.HasPrefix(f, "*") {
						calls++
					}
				}
				return true
			})
			if nsel != 1 || calls != 0 {
				rc = 0
			}
			aconv = append(aconv, fmt.Sprintf("(%d, %d)", lc, rc))
			return true
		})
	} else {
		e.fail("autoConvert_v1alpha2_MigrationControllerArgs_To_config_MigrationControllerArgs not found")
	}
	fmt.Fprintf(&e.out, "/-- conversion of MigrationControllerArgs to the internal type: (field assigned, field it is a plain unsafe.Pointer copy of; 0 = anything else), codes in the order above -/\ndef argsConvAssigns : List (Nat × Nat) := [%s]\n", strings.Join(aconv, ", "))

	// 3. conversion v1alpha2 -> internal: out.X = (*uint)(unsafe.Pointer(in.X)) for each cap, X on both sides
	var conv []string
	if fd := e.funcDecl(v2, "", "autoConvert_v1alpha2_DeschedulerConfiguration_To_config_DeschedulerConfiguration"); fd != nil && fd.Body != nil {
		ast.Inspect(fd.Body, func(n ast.Node) bool {
			as, ok := n.(*ast.AssignStmt)
			if !ok || len(as.Lhs) != 1 || len(as.Rhs) != 1 {
				return true
			}
			l, ok := as.Lhs[0].(*ast.SelectorExpr)
			if !ok {
				return true
			}
			lc, is := c16CapFields[l.Sel.Name]
			if !is {
				return true
			}
			// (*uint)(unsafe.Pointer(in.X)) or in.X
			rc, pure := 0, false
			x := as.Rhs[0]
			if c1, ok := x.(*ast.CallExpr); ok && len(c1.Args) == 1 && c16ExprString(c1.Fun) == "*uint" {
				if c2, ok := c1.Args[0].(*ast.CallExpr); ok && len(c2.Args) == 1 && c16ExprString(c2.Fun) == "unsafe.Pointer" {
					x, pure = c2.Args[0], true
				}
			} else if _, ok := x.(*ast.SelectorExpr); ok {
				pure = true
			}
			if s, ok := x.(*ast.SelectorExpr); ok && pure && c16ExprString(s.X) == "in" && c16ExprString(l.X) == "out" {
				rc = c16CapFields[s.Sel.Name]
			}
			conv = append(conv, fmt.Sprintf("(%d, %d)", lc, rc))
			return true
		})
	} else {
		e.fail("autoConvert_v1alpha2_DeschedulerConfiguration_To_config_DeschedulerConfiguration not found")
	}
	fmt.Fprintf(&e.out, "/-- conversion to the internal type: (cap assigned, cap it is a plain pointer copy of; 0 = anything else), 1 node 2 namespace 3 total -/\ndef convCapAssigns : List (Nat × Nat) := [%s]\n", strings.Join(conv, ", "))
	// 4. cmd/koord-descheduler/app: NewEvictionLimiter(<…>.ComponentConfig.X, …) in Setup, and no other mention of the fields
	// anywhere in app / app/options / app/config
	var args []string
	appMentions := 0
	for _, d := range []string{"cmd/koord-descheduler/app", "cmd/koord-descheduler/app/options", "cmd/koord-descheduler/app/config"} {
		for _, f := range e.dir(d) {
			ast.Inspect(f, func(n ast.Node) bool {
				if s, ok := n.(*ast.SelectorExpr); ok {
					if _, is := c16CapFields[s.Sel.Name]; is {
						appMentions++
					}
				}
				return true
			})
		}
	}
	nNew := 0
	if fd := e.funcDecl("cmd/koord-descheduler/app", "", "Setup"); fd != nil && fd.Body != nil {
		ast.Inspect(fd.Body, func(n ast.Node) bool {
			c, ok := n.(*ast.CallExpr)
			if !ok || c16Callee(c) != "NewEvictionLimiter" {
				return true
			}
			nNew++
			for _, a := range c.Args {
				code := 0
				if s, ok := a.(*ast.SelectorExpr); ok && strings.HasSuffix(c16ExprString(s.X), "ComponentConfig") {
					code = c16CapFields[s.Sel.Name]
				}
				args = append(args, fmt.Sprint(code))
			}
			return true
		})
	} else {
		e.fail("app.Setup not found")
	}
	if nNew != 1 {
		e.fail("app.Setup: %d calls of NewEvictionLimiter", nNew)
	}
	fmt.Fprintf(&e.out, "/-- app.Setup: arguments of NewEvictionLimiter as fields of the completed ComponentConfig (1 node 2 namespace 3 total, 0 = anything else) -/\ndef setupLimiterArgs : List Nat := [%s]\n", strings.Join(args, ", "))
	fmt.Fprintf(&e.out, "/-- cmd/koord-descheduler/app{,/options,/config}: expressions naming one of the three cap fields (the three arguments above and nothing else) -/\ndef appCapMentions : Nat := %d\n", appMentions)
}
