package main

import (
	"fmt"
	"go/ast"
	"go/token"
	"strings"
)

// C16: critical-section structure (DESIGN §3.2) of PodEvictor.Evict, evictorProxy.Evict and
// EvictionLimiter.{AllowEvict,Done}: the sequence of blocks (lock held?, [check|call|count ...]) in
// source order.  A new block starts at every Lock()/Unlock(); `defer x.Unlock()` holds to the end of the
// enclosing function (or immediately-invoked closure).  act codes: 0 check, 1 call, 2 count.

type c16Ev struct {
	sec int // 0 = no lock held, k = k-th lock acquisition
	act int
}

type c16Walker struct {
	evs      []c16Ev
	sec      int
	nsec     int
	lockExpr []string
	classify func(n ast.Node) (int, bool)
}

func c16ExprString(x ast.Expr) string {
	switch v := x.(type) {
	case *ast.Ident:
		return v.Name
	case *ast.SelectorExpr:
		return c16ExprString(v.X) + "." + v.Sel.Name
	case *ast.IndexExpr:
		return c16ExprString(v.X) + "[]"
	case *ast.StarExpr:
		return "*" + c16ExprString(v.X)
	case *ast.ParenExpr:
		return c16ExprString(v.X)
	}
	return "?"
}

// lockCall recognises `<x>.Lock()` / `<x>.Unlock()` (and the R variants).
func c16LockCall(x ast.Expr) (recv string, name string, ok bool) {
	c, isCall := x.(*ast.CallExpr)
	if !isCall || len(c.Args) != 0 {
		return "", "", false
	}
	s, isSel := c.Fun.(*ast.SelectorExpr)
	if !isSel {
		return "", "", false
	}
	switch s.Sel.Name {
	case "Lock", "RLock", "Unlock", "RUnlock":
		return c16ExprString(s.X), s.Sel.Name, true
	}
	return "", "", false
}

func (w *c16Walker) events(n ast.Node) {
	if n == nil {
		return
	}
	ast.Inspect(n, func(m ast.Node) bool {
		if m == nil {
			return false
		}
		if _, isLit := m.(*ast.FuncLit); isLit {
			return false
		}
		if a, ok := w.classify(m); ok {
			if k := len(w.evs); k == 0 || w.evs[k-1] != (c16Ev{w.sec, a}) {
				w.evs = append(w.evs, c16Ev{w.sec, a})
			}
		}
		return true
	})
}

func (w *c16Walker) stmts(list []ast.Stmt) {
	for _, s := range list {
		w.stmt(s)
	}
}

func (w *c16Walker) stmt(s ast.Stmt) {
	switch v := s.(type) {
	case *ast.ExprStmt:
		if recv, name, ok := c16LockCall(v.X); ok {
			if name == "Lock" || name == "RLock" {
				w.nsec++
				w.sec = w.nsec
				w.lockExpr = append(w.lockExpr, recv)
			} else {
				w.sec = 0
			}
			return
		}
		if c, ok := v.X.(*ast.CallExpr); ok {
			if lit, ok := c.Fun.(*ast.FuncLit); ok { // func() { ... }()
				saved := w.sec
				w.stmts(lit.Body.List)
				w.sec = saved
				return
			}
		}
		w.events(v)
	case *ast.DeferStmt:
		if _, _, ok := c16LockCall(v.Call); ok {
			return // unlock at function end
		}
		w.events(v.Call)
	case *ast.BlockStmt:
		w.stmts(v.List)
	case *ast.IfStmt:
		if v.Init != nil {
			w.stmt(v.Init)
		}
		w.events(v.Cond)
		w.stmts(v.Body.List)
		if v.Else != nil {
			w.stmt(v.Else)
		}
	case *ast.ForStmt:
		w.events(v.Cond)
		w.stmts(v.Body.List)
	case *ast.RangeStmt:
		w.events(v.X)
		w.stmts(v.Body.List)
	default:
		w.events(s)
	}
}

func c16Mentions(n ast.Node, names ...string) bool {
	found := false
	ast.Inspect(n, func(m ast.Node) bool {
		if s, ok := m.(*ast.SelectorExpr); ok {
			for _, nm := range names {
				if s.Sel.Name == nm {
					found = true
				}
			}
		}
		return !found
	})
	return found
}

func c16SelCall(n ast.Node, names ...string) bool {
	c, ok := n.(*ast.CallExpr)
	if !ok {
		return false
	}
	switch f := c.Fun.(type) {
	case *ast.SelectorExpr:
		for _, nm := range names {
			if f.Sel.Name == nm {
				return true
			}
		}
	case *ast.Ident:
		for _, nm := range names {
			if f.Name == nm {
				return true
			}
		}
	}
	return false
}

func (e *ext) c16Blocks(dir, recv, fn, lean string, classify func(n ast.Node) (int, bool)) *c16Walker {
	w := &c16Walker{classify: classify}
	fd := e.funcDecl(dir, recv, fn)
	if fd == nil || fd.Body == nil {
		e.fail("%s: func (%s) %s not found", dir, recv, fn)
		fmt.Fprintf(&e.out, "def %s : List (Bool × List Nat) := [] -- NOT FOUND\n", lean)
		return w
	}
	w.stmts(fd.Body.List)
	var parts []string
	for i := 0; i < len(w.evs); {
		j := i
		var acts []string
		for j < len(w.evs) && w.evs[j].sec == w.evs[i].sec {
			acts = append(acts, fmt.Sprint(w.evs[j].act))
			j++
		}
		parts = append(parts, fmt.Sprintf("(%v, [%s])", w.evs[i].sec != 0, strings.Join(acts, ", ")))
		i = j
	}
	fmt.Fprintf(&e.out, "/-- %s.(%s).%s; locks taken: %v -/\ndef %s : List (Bool × List Nat) := [%s]\n",
		dir, recv, fn, w.lockExpr, lean, strings.Join(parts, ", "))
	return w
}

func init() {
	extractors["C16"] = func(e *ext) {
		counters := []string{"nodepodCount", "nodePodCount", "namespacePodCount", "totalCount"}
		ev := "pkg/descheduler/evictions"
		e.c16Blocks(ev, "PodEvictor", "Evict", "podEvictorEvict", func(n ast.Node) (int, bool) {
			if c16SelCall(n, "NodeLimitExceeded", "NamespaceLimitExceeded") {
				return 0, true
			}
			if c16SelCall(n, "EvictPod") {
				return 1, true
			}
			if s, ok := n.(*ast.IncDecStmt); ok && s.Tok == token.INC && c16Mentions(s.X, counters...) {
				return 2, true
			}
			if s, ok := n.(*ast.AssignStmt); ok && len(s.Lhs) == 1 && c16Mentions(s.Lhs[0], counters...) {
				return 2, true
			}
			return 0, false
		})
		e.c16Blocks(ev, "EvictionLimiter", "AllowEvict", "limiterAllow", func(n ast.Node) (int, bool) {
			if b, ok := n.(*ast.BinaryExpr); ok && (b.Op == token.GTR || b.Op == token.GEQ || b.Op == token.EQL || b.Op == token.LSS || b.Op == token.LEQ) &&
				c16Mentions(b, counters...) {
				return 0, true
			}
			if s, ok := n.(*ast.IncDecStmt); ok && c16Mentions(s.X, counters...) {
				return 2, true
			}
			return 0, false
		})
		e.c16Blocks(ev, "EvictionLimiter", "Done", "limiterDone", func(n ast.Node) (int, bool) {
			if s, ok := n.(*ast.IncDecStmt); ok && s.Tok == token.INC && c16Mentions(s.X, counters...) {
				return 2, true
			}
			return 0, false
		})
		rt := "pkg/descheduler/framework/runtime"
		w := e.c16Blocks(rt, "evictorProxy", "Evict", "proxyEvict", func(n ast.Node) (int, bool) {
			if c16SelCall(n, "AllowEvict") {
				return 0, true
			}
			if c16SelCall(n, "Evict") {
				return 1, true
			}
			if c16SelCall(n, "Done") {
				return 2, true
			}
			return 0, false
		})
		// Is the lock that evictorProxy.Evict takes shared by all callers?  frameworkImpl.Evictor() builds a
		// fresh proxy (composite literal) per call, so a receiver field is NOT shared; a package-level variable,
		// or a field reached through e.handle (the one frameworkImpl), is.
		fresh := false
		if fd := e.funcDecl(rt, "frameworkImpl", "Evictor"); fd != nil && fd.Body != nil {
			ast.Inspect(fd.Body, func(n ast.Node) bool {
				if r, ok := n.(*ast.ReturnStmt); ok && len(r.Results) == 1 {
					x := r.Results[0]
					if u, ok := x.(*ast.UnaryExpr); ok && u.Op == token.AND {
						x = u.X
					}
					if _, ok := x.(*ast.CompositeLit); ok {
						fresh = true
					}
				}
				return true
			})
		} else {
			e.fail("frameworkImpl.Evictor not found")
		}
		shared := false
		if len(w.lockExpr) == 1 {
			le := w.lockExpr[0]
			recvName := ""
			if fd := e.funcDecl(rt, "evictorProxy", "Evict"); fd != nil && fd.Recv != nil && len(fd.Recv.List[0].Names) > 0 {
				recvName = fd.Recv.List[0].Names[0].Name
			}
			switch {
			case !strings.Contains(le, "."): // bare identifier: must be a package-level var
				for _, f := range e.dir(rt) {
					for _, d := range f.Decls {
						if gd, ok := d.(*ast.GenDecl); ok && gd.Tok == token.VAR {
							for _, s := range gd.Specs {
								for _, id := range s.(*ast.ValueSpec).Names {
									if id.Name == le {
										shared = true
									}
								}
							}
						}
					}
				}
			case strings.HasPrefix(le, recvName+".handle."):
				shared = true
			default:
				shared = !fresh
			}
		}
		fmt.Fprintf(&e.out, "/-- frameworkImpl.Evictor() returns a new proxy per call -/\ndef evictorFreshPerCall : Bool := %v\n", fresh)
		fmt.Fprintf(&e.out, "/-- the lock taken by evictorProxy.Evict (%v) is one object for all callers of handle.Evictor().Evict -/\ndef proxyLockShared : Bool := %v\n", w.lockExpr, shared)
	}
}
