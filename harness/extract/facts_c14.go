package main

func init() {
	extractors["C14"] = func(e *ext) {
		d := "pkg/koordlet/util/system"
		e.constInt(d, "CPUShareUnitValue", "CPUShareUnitValue")
		e.constInt(d, "CPUSharesMinValue", "CPUSharesMinValue")
		e.constInt(d, "CPUSharesMaxValue", "CPUSharesMaxValue")
		e.constInt(d, "CFSBasePeriodValue", "CFSBasePeriodValue")
		e.constInt(d, "CFSQuotaMinValue", "CFSQuotaMinValue")
	}
}
