package main

import (
	"fmt"
	"go/ast"
	"go/token"
	"go/types"
	"sort"
	"strings"
)

// C14 facts: unit-conversion constants, the cgroup-v2 weight formula, the nil-vs-empty guards of the six entry paths
// of the protocol package, the guard order of the six BatchResource setters, the registered cgroup reconcilers, the
// node-SLO glue (getCPUSuppressPolicy) and the cgroup updaters used for the three files.
// Expressions are rendered with the function's LOCAL identifiers replaced by `_`, so that renaming a local variable
// keeps the facts (and the tie lemmas) unchanged.

func c14Locals(fd *ast.FuncDecl) map[string]bool {
	loc := map[string]bool{}
	add := func(fl *ast.FieldList) {
		if fl == nil {
			return
		}
		for _, f := range fl.List {
			for _, n := range f.Names {
				loc[n.Name] = true
			}
		}
	}
	add(fd.Recv)
	add(fd.Type.Params)
	add(fd.Type.Results)
	ast.Inspect(fd.Body, func(n ast.Node) bool {
		switch s := n.(type) {
		case *ast.AssignStmt:
			if s.Tok == token.DEFINE {
				for _, l := range s.Lhs {
					if id, ok := l.(*ast.Ident); ok {
						loc[id.Name] = true
					}
				}
			}
		case *ast.RangeStmt:
			for _, x := range []ast.Expr{s.Key, s.Value} {
				if id, ok := x.(*ast.Ident); ok && s.Tok == token.DEFINE {
					loc[id.Name] = true
				}
			}
		case *ast.ValueSpec:
			for _, id := range s.Names {
				loc[id.Name] = true
			}
		}
		return true
	})
	return loc
}

// c14Norm renders x with local identifiers (not selector field names) replaced by "_".
func c14Norm(loc map[string]bool, x ast.Expr) string {
	var cp func(ast.Expr) ast.Expr
	cp = func(x ast.Expr) ast.Expr {
		switch v := x.(type) {
		case *ast.Ident:
			if loc[v.Name] {
				return ast.NewIdent("_")
			}
			return v
		case *ast.SelectorExpr:
			return &ast.SelectorExpr{X: cp(v.X), Sel: v.Sel}
		case *ast.BinaryExpr:
			return &ast.BinaryExpr{X: cp(v.X), Op: v.Op, Y: cp(v.Y)}
		case *ast.UnaryExpr:
			return &ast.UnaryExpr{Op: v.Op, X: cp(v.X)}
		case *ast.StarExpr:
			return &ast.StarExpr{X: cp(v.X)}
		case *ast.ParenExpr:
			return &ast.ParenExpr{X: cp(v.X)}
		case *ast.CallExpr:
			c := &ast.CallExpr{Fun: cp(v.Fun)}
			for _, a := range v.Args {
				c.Args = append(c.Args, cp(a))
			}
			return c
		case *ast.IndexExpr:
			return &ast.IndexExpr{X: cp(v.X), Index: cp(v.Index)}
		}
		return x
	}
	return types.ExprString(cp(x))
}

func c14LeanList(xs []string) string {
	q := make([]string, len(xs))
	for i, x := range xs {
		q[i] = leanStr(x)
	}
	return "[" + strings.Join(q, ", ") + "]"
}

// c14AssignGuards: for every assignment `<x>.ExtendedResources = …` in fd, the normalised conditions of the enclosing
// if statements (outermost first; an else branch contributes "else(<cond>)"), joined by " ; ".  Unguarded = "".
func c14AssignGuards(fd *ast.FuncDecl) []string {
	loc := c14Locals(fd)
	var out []string
	var walk func(n ast.Stmt, conds []string)
	walkList := func(l []ast.Stmt, conds []string) {
		for _, s := range l {
			walk(s, conds)
		}
	}
	walk = func(n ast.Stmt, conds []string) {
		switch s := n.(type) {
		case *ast.AssignStmt:
			for _, l := range s.Lhs {
				if se, ok := l.(*ast.SelectorExpr); ok && se.Sel.Name == "ExtendedResources" {
					out = append(out, strings.Join(conds, " ; "))
				}
			}
		case *ast.BlockStmt:
			walkList(s.List, conds)
		case *ast.IfStmt:
			c := c14Norm(loc, s.Cond)
			walk(s.Body, append(append([]string{}, conds...), c))
			if s.Else != nil {
				walk(s.Else, append(append([]string{}, conds...), "else("+c+")"))
			}
		case *ast.ForStmt:
			walk(s.Body, conds)
		case *ast.RangeStmt:
			walk(s.Body, conds)
		}
	}
	walk(fd.Body, nil)
	return out
}

// c14ReturnGuards: the normalised conditions of the top-level `if … { …; return … }` statements of fd, in order.
func c14ReturnGuards(fd *ast.FuncDecl) []string {
	loc := c14Locals(fd)
	var out []string
	for _, s := range fd.Body.List {
		is, ok := s.(*ast.IfStmt)
		if !ok || len(is.Body.List) == 0 {
			continue
		}
		if _, ok := is.Body.List[len(is.Body.List)-1].(*ast.ReturnStmt); ok {
			out = append(out, c14Norm(loc, is.Cond))
		}
	}
	return out
}

// c14MergeRules lists, for a two-parameter merge function `func f(a, b *T) *T` of the runtime proxy, under which
// condition each observed field of b is copied into a: "F if <cond on b>" or "F always".  Calls of the form g(a, b)
// to a function of the same package are followed (two levels), so pulling the copies into a helper keeps the facts.
func c14MergeRules(e *ext, dir, fn string, fields map[string]bool) []string {
	var out []string
	var walk func(fd *ast.FuncDecl, depth int)
	walk = func(fd *ast.FuncDecl, depth int) {
		var ps []string
		for _, f := range fd.Type.Params.List {
			for _, n := range f.Names {
				ps = append(ps, n.Name)
			}
		}
		if len(ps) != 2 || fd.Body == nil {
			e.fail("C14: %s: not a two-parameter merge function", fd.Name.Name)
			return
		}
		a, b := ps[0], ps[1]
		copyOf := func(st ast.Stmt) string { // a.F = b.F -> F
			as, ok := st.(*ast.AssignStmt)
			if !ok || as.Tok != token.ASSIGN || len(as.Lhs) != 1 || len(as.Rhs) != 1 {
				return ""
			}
			l, ok1 := as.Lhs[0].(*ast.SelectorExpr)
			r, ok2 := as.Rhs[0].(*ast.SelectorExpr)
			if !ok1 || !ok2 || l.Sel.Name != r.Sel.Name {
				return ""
			}
			li, ok1 := l.X.(*ast.Ident)
			ri, ok2 := r.X.(*ast.Ident)
			if !ok1 || !ok2 || li.Name != a || ri.Name != b {
				return ""
			}
			return l.Sel.Name
		}
		for _, st := range fd.Body.List {
			switch x := st.(type) {
			case *ast.AssignStmt:
				if f := copyOf(x); f != "" && fields[f] {
					out = append(out, f+" always")
				}
			case *ast.IfStmt:
				if x.Else != nil || x.Init != nil || len(x.Body.List) != 1 {
					continue
				}
				if f := copyOf(x.Body.List[0]); f != "" && fields[f] {
					c := types.ExprString(x.Cond)
					c = strings.ReplaceAll(" "+c, " "+b+".", " b.")
					c = strings.ReplaceAll(c, "("+b+".", "(b.")
					out = append(out, f+" if "+strings.TrimSpace(c))
				}
			case *ast.ExprStmt:
				c, ok := x.X.(*ast.CallExpr)
				if !ok || len(c.Args) != 2 || depth >= 2 {
					continue
				}
				id, ok := c.Fun.(*ast.Ident)
				a0, ok0 := c.Args[0].(*ast.Ident)
				a1, ok1 := c.Args[1].(*ast.Ident)
				if !ok || !ok0 || !ok1 || a0.Name != a || a1.Name != b {
					continue
				}
				if g := e.funcDecl(dir, "", id.Name); g != nil {
					walk(g, depth+1)
				}
			}
		}
	}
	fd := e.funcDecl(dir, "", fn)
	if fd == nil {
		e.fail("C14: %s.%s not found", dir, fn)
		return nil
	}
	walk(fd, 0)
	sort.Strings(out)
	return out
}

func init() {
	extractors["C14"] = func(e *ext) {
		d := "pkg/koordlet/util/system"
		e.constInt(d, "CPUShareUnitValue", "CPUShareUnitValue")
		e.constInt(d, "CPUSharesMinValue", "CPUSharesMinValue")
		e.constInt(d, "CPUSharesMaxValue", "CPUSharesMaxValue")
		e.constInt(d, "CFSBasePeriodValue", "CFSBasePeriodValue")
		e.constInt(d, "CFSQuotaMinValue", "CFSQuotaMinValue")
		e.constInt(d, "CPUWeightMinValue", "CPUWeightMinValue")
		e.constInt(d, "CPUWeightMaxValue", "CPUWeightMaxValue")

		// --- ConvertCPUSharesToWeight: the formula assigned to the weight ---
		weight := ""
		if fd := e.funcDecl(d, "", "ConvertCPUSharesToWeight"); fd == nil {
			e.fail("ConvertCPUSharesToWeight not found")
		} else {
			loc := c14Locals(fd)
			ast.Inspect(fd.Body, func(n ast.Node) bool {
				if as, ok := n.(*ast.AssignStmt); ok && as.Tok == token.DEFINE && len(as.Rhs) == 1 {
					if be, ok := as.Rhs[0].(*ast.BinaryExpr); ok && be.Op == token.ADD {
						weight = c14Norm(loc, be)
					}
				}
				return true
			})
		}
		fmt.Fprintf(&e.out, "def weightFormula : String := %s\n", leanStr(weight))

		// --- entry paths: guards in front of `….ExtendedResources = …` ---
		pd := "pkg/koordlet/runtimehooks/protocol"
		for _, x := range []struct{ recv, fn, lean string }{
			{"PodRequest", "FromNri", "podFromNriGuards"},
			{"PodRequest", "FromProxy", "podFromProxyGuards"},
			{"PodRequest", "FromReconciler", "podFromReconcilerGuards"},
			{"ContainerRequest", "FromNri", "ctrFromNriGuards"},
			{"ContainerRequest", "FromProxy", "ctrFromProxyGuards"},
			{"ContainerRequest", "FromReconciler", "ctrFromReconcilerGuards"},
		} {
			fd := e.funcDecl(pd, x.recv, x.fn)
			if fd == nil {
				e.fail("%s.%s not found", x.recv, x.fn)
				fmt.Fprintf(&e.out, "def %s : List String := []\n", x.lean)
				continue
			}
			fmt.Fprintf(&e.out, "def %s : List String := %s\n", x.lean, c14LeanList(c14AssignGuards(fd)))
		}

		// --- the six setters: early-return guards in order ---
		bd := "pkg/koordlet/runtimehooks/hooks/batchresource"
		for _, fn := range []string{"SetPodCPUShares", "SetPodCFSQuota", "SetPodMemoryLimit", "SetContainerCPUShares", "SetContainerCFSQuota", "SetContainerMemoryLimit"} {
			fd := e.funcDecl(bd, "plugin", fn)
			if fd == nil {
				e.fail("plugin.%s not found", fn)
				fmt.Fprintf(&e.out, "def guards%s : List String := []\n", fn)
				continue
			}
			fmt.Fprintf(&e.out, "def guards%s : List String := %s\n", fn, c14LeanList(c14ReturnGuards(fd)))
		}

		// --- Register: the cgroup reconcilers (level, file, function, filter) and the QoS condition ---
		var regs []string
		if fd := e.funcDecl(bd, "plugin", "Register"); fd == nil {
			e.fail("plugin.Register not found")
		} else {
			ast.Inspect(fd.Body, func(n ast.Node) bool {
				c, ok := n.(*ast.CallExpr)
				if !ok {
					return true
				}
				if se, ok := c.Fun.(*ast.SelectorExpr); ok && se.Sel.Name == "RegisterCgroupReconciler" && len(c.Args) >= 6 {
					sel := func(x ast.Expr) string {
						if s, ok := x.(*ast.SelectorExpr); ok {
							return s.Sel.Name
						}
						if cc, ok := x.(*ast.CallExpr); ok {
							if s, ok := cc.Fun.(*ast.SelectorExpr); ok {
								return s.Sel.Name
							}
						}
						return types.ExprString(x)
					}
					regs = append(regs, sel(c.Args[0])+" "+sel(c.Args[1])+" "+sel(c.Args[3])+" "+sel(c.Args[4])+" "+types.ExprString(c.Args[5]))
				}
				return true
			})
		}
		fmt.Fprintf(&e.out, "def reconcilers : List String := %s\n", c14LeanList(regs))
		cond := ""
		if x, ok := e.valueSpec(bd, "podQOSConditions"); ok {
			cond = types.ExprString(x)
			if cl, ok := x.(*ast.CompositeLit); ok {
				var el []string
				for _, y := range cl.Elts {
					el = append(el, types.ExprString(y))
				}
				cond = strings.Join(el, ", ")
			}
		} else {
			e.fail("podQOSConditions not found")
		}
		fmt.Fprintf(&e.out, "def podQOSConditions : String := %s\n", leanStr(cond))

		// --- node SLO glue ---
		var rets []string
		if fd := e.funcDecl(bd, "", "getCPUSuppressPolicy"); fd == nil {
			e.fail("getCPUSuppressPolicy not found")
		} else {
			loc := c14Locals(fd)
			for _, s := range fd.Body.List {
				switch st := s.(type) {
				case *ast.IfStmt:
					rets = append(rets, "if "+c14Norm(loc, st.Cond))
					for _, b := range st.Body.List {
						if r, ok := b.(*ast.ReturnStmt); ok {
							for _, x := range r.Results {
								rets = append(rets, "  ret "+c14Norm(loc, x))
							}
						}
					}
				case *ast.ReturnStmt:
					for _, x := range st.Results {
						rets = append(rets, "ret "+c14Norm(loc, x))
					}
				}
			}
		}
		fmt.Fprintf(&e.out, "def cpuSuppressPolicy : List String := %s\n", c14LeanList(rets))
		sloCond := ""
		if fd := e.funcDecl(bd, "plugin", "parseRuleForNodeSLO"); fd == nil {
			e.fail("parseRuleForNodeSLO not found")
		} else {
			loc := c14Locals(fd)
			for _, s := range fd.Body.List {
				if is, ok := s.(*ast.IfStmt); ok && is.Init != nil {
					sloCond = c14Norm(loc, is.Cond)
					for _, b := range is.Body.List {
						if as, ok := b.(*ast.AssignStmt); ok && len(as.Rhs) == 1 {
							sloCond += " => " + types.ExprString(as.Rhs[0])
						}
					}
				}
			}
		}
		fmt.Fprintf(&e.out, "def sloDisablesCFSQuota : String := %s\n", leanStr(sloCond))
		eps := ""
		if x, ok := e.valueSpec(bd, "ratioDiffEpsilon"); ok {
			eps = types.ExprString(x)
		} else {
			e.fail("ratioDiffEpsilon not found")
		}
		fmt.Fprintf(&e.out, "def ratioDiffEpsilon : String := %s\n", leanStr(eps))

		// --- Rule: every accessor runs under the rule's lock (first statement takes it, second defers the release) ---
		var locks []string
		for _, fn := range []string{"GetCFSQuotaScaleRatio", "UpdateCFSQuotaEnabled", "UpdateCPUNormalizationRatio"} {
			fd := e.funcDecl(bd, "Rule", fn)
			if fd == nil || len(fd.Body.List) < 2 {
				e.fail("Rule.%s not found", fn)
				continue
			}
			take, rel := "?", "?"
			if es, ok := fd.Body.List[0].(*ast.ExprStmt); ok {
				if c, ok := es.X.(*ast.CallExpr); ok {
					if se, ok := c.Fun.(*ast.SelectorExpr); ok {
						take = se.Sel.Name
					}
				}
			}
			if ds, ok := fd.Body.List[1].(*ast.DeferStmt); ok {
				if se, ok := ds.Call.Fun.(*ast.SelectorExpr); ok {
					rel = se.Sel.Name
				}
			}
			locks = append(locks, fn+" "+take+" "+rel)
		}
		fmt.Fprintf(&e.out, "def ruleLocks : List String := %s\n", c14LeanList(locks))

		// --- resourceexecutor init(): which updater constructor serves the three files ---
		var upd []string
		files := e.dir("pkg/koordlet/resourceexecutor")
		var fnames []string
		for n := range files {
			fnames = append(fnames, n)
		}
		sort.Strings(fnames)
		for _, fname := range fnames {
			for _, dcl := range files[fname].Decls {
				fd, ok := dcl.(*ast.FuncDecl)
				if !ok || fd.Name.Name != "init" || fd.Recv != nil {
					continue
				}
				ast.Inspect(fd.Body, func(n ast.Node) bool {
					c, ok := n.(*ast.CallExpr)
					if !ok {
						return true
					}
					if se, ok := c.Fun.(*ast.SelectorExpr); ok && se.Sel.Name == "Register" && len(c.Args) >= 2 {
						for _, a := range c.Args[1:] {
							if s, ok := a.(*ast.SelectorExpr); ok {
								switch s.Sel.Name {
								case "CPUSharesName", "CPUCFSQuotaName", "MemoryLimitName":
									upd = append(upd, s.Sel.Name+" <- "+types.ExprString(c.Args[0]))
								}
							}
						}
					}
					return true
				})
			}
		}
		sort.Strings(upd)
		fmt.Fprintf(&e.out, "def updaters : List String := %s\n", c14LeanList(upd))

		// --- runtime proxy: when a hook answer / a kubelet update request replaces the executor's resources ---
		cri := "pkg/runtimeproxy/resexecutor/cri"
		obs := map[string]bool{"CpuPeriod": true, "CpuQuota": true, "CpuShares": true, "MemoryLimitInBytes": true, "CpusetCpus": true, "CpusetMems": true}
		fmt.Fprintf(&e.out, "def criHookRules : List String := %s\n", c14LeanList(c14MergeRules(e, cri, "updateResource", obs)))
		fmt.Fprintf(&e.out, "def criUpdateRules : List String := %s\n", c14LeanList(c14MergeRules(e, cri, "updateResourceByUpdateContainerResourceRequest", obs)))
	}
}
