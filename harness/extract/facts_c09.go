package main

import (
	"fmt"
	"go/ast"
	"go/token"
	"sort"
	"strings"
)

// C09 facts: the priority bands / default values used by the class resolution, and — the guard the
// repaired defect d5e8147 was about — the set of accumulators assigned in the `!hasMetric` branch of
// calculateOnNode / calculateOnNUMALevel.
func init() {
	extractors["C09"] = func(e *ext) {
		d := "apis/extension"
		for _, n := range []string{"PriorityProdValueMax", "PriorityProdValueMin", "PriorityMidValueMax", "PriorityMidValueMin",
			"PriorityBatchValueMax", "PriorityBatchValueMin", "PriorityFreeValueMax", "PriorityFreeValueMin",
			"PriorityProdValueDefault", "PriorityMidValueDefault", "PriorityBatchValueDefault", "PriorityFreeValueDefault",
			"PriorityNoneValueDefault"} {
			e.constInt(d, n, n)
		}
		pd := "pkg/slo-controller/noderesource/plugins/batchresource"
		for _, fn := range []string{"calculateOnNode", "calculateOnNUMALevel"} {
			fd := e.funcDecl(pd, "Plugin", fn)
			names := []string{}
			found := false
			if fd == nil {
				e.fail("%s.%s not found", pd, fn)
			} else {
				ast.Inspect(fd.Body, func(n ast.Node) bool {
					is, ok := n.(*ast.IfStmt)
					if !ok || found {
						return true
					}
					u, ok := is.Cond.(*ast.UnaryExpr)
					if !ok || u.Op != token.NOT {
						return true
					}
					id, ok := u.X.(*ast.Ident)
					if !ok || id.Name != "hasMetric" {
						return true
					}
					found = true
					for _, st := range is.Body.List {
						if as, ok := st.(*ast.AssignStmt); ok {
							for _, l := range as.Lhs {
								if li, ok := l.(*ast.Ident); ok {
									names = append(names, li.Name)
								}
							}
						}
					}
					return false
				})
				if !found {
					e.fail("%s: no `if !hasMetric` branch", fn)
				}
			}
			sort.Strings(names)
			q := make([]string, len(names))
			for i, n := range names {
				q[i] = leanStr(n)
			}
			fmt.Fprintf(&e.out, "def noMetricAssigns_%s : List String := [%s]\n", fn, strings.Join(q, ", "))
		}
	}
}
