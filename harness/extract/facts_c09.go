package main

import (
	"fmt"
	"go/ast"
	"go/token"
	"sort"
	"strings"
)

// C09 facts: the priority bands / default values used by the class resolution, and — the guard the
// repaired defect d5e8147 was about — the set of accumulators assigned in the `!hasMetric` branch of
// calculateOnNode / calculateOnNUMALevel.
func init() {
	extractors["C09"] = func(e *ext) {
		d := "apis/extension"
		for _, n := range []string{"PriorityProdValueMax", "PriorityProdValueMin", "PriorityMidValueMax", "PriorityMidValueMin",
			"PriorityBatchValueMax", "PriorityBatchValueMin", "PriorityFreeValueMax", "PriorityFreeValueMin",
			"PriorityProdValueDefault", "PriorityMidValueDefault", "PriorityBatchValueDefault", "PriorityFreeValueDefault",
			"PriorityNoneValueDefault"} {
			e.constInt(d, n, n)
		}
		pd := "pkg/slo-controller/noderesource/plugins/batchresource"
		for _, fn := range []string{"calculateOnNode", "calculateOnNUMALevel"} {
			fd := e.funcDecl(pd, "Plugin", fn)
			names := []string{}
			found := false
			if fd == nil {
				e.fail("%s.%s not found", pd, fn)
			} else {
				ast.Inspect(fd.Body, func(n ast.Node) bool {
					is, ok := n.(*ast.IfStmt)
					if !ok || found {
						return true
					}
					u, ok := is.Cond.(*ast.UnaryExpr)
					if !ok || u.Op != token.NOT {
						return true
					}
					id, ok := u.X.(*ast.Ident)
					if !ok || id.Name != "hasMetric" {
						return true
					}
					found = true
					for _, st := range is.Body.List {
						if as, ok := st.(*ast.AssignStmt); ok {
							for _, l := range as.Lhs {
								if li, ok := l.(*ast.Ident); ok {
									names = append(names, li.Name)
								}
							}
						}
					}
					return false
				})
				if !found {
					e.fail("%s: no `if !hasMetric` branch", fn)
				}
			}
			sort.Strings(names)
			q := make([]string, len(names))
			for i, n := range names {
				q[i] = leanStr(n)
			}
			fmt.Fprintf(&e.out, "def noMetricAssigns_%s : List String := [%s]\n", fn, strings.Join(q, ", "))
		}
		c09ExtFacts(e)
	}
}

// ---- extension: plugin glue facts ----

// c09SelNames collects, in source order, the `X.Name` selector names (or bare identifiers) in an expression list.
func c09ExprName(x ast.Expr) string {
	switch v := x.(type) {
	case *ast.SelectorExpr:
		return v.Sel.Name
	case *ast.Ident:
		return v.Name
	}
	return "?"
}

// c09CmpNames: the names compared against `subject` with operator op anywhere inside node.
func c09CmpNames(node ast.Node, subject string, op token.Token) []string {
	var out []string
	ast.Inspect(node, func(n ast.Node) bool {
		b, ok := n.(*ast.BinaryExpr)
		if !ok || b.Op != op {
			return true
		}
		if id, ok := b.X.(*ast.Ident); ok && id.Name == subject {
			out = append(out, c09ExprName(b.Y))
		}
		return true
	})
	sort.Strings(out)
	return out
}

func c09StrList(e *ext, lean string, xs []string) {
	q := make([]string, len(xs))
	for i, n := range xs {
		q[i] = leanStr(n)
	}
	fmt.Fprintf(&e.out, "def %s : List String := [%s]\n", lean, strings.Join(q, ", "))
}

func c09ExtFacts(e *ext) {
	// 1. defaults of the mid percentages (sloconfig.DefaultColocationStrategy composite literal)
	sd := "pkg/util/sloconfig"
	want := []string{"MidCPUThresholdPercent", "MidMemoryThresholdPercent", "MidStaticCPUReservedPercent", "MidStaticMemoryReservedPercent", "MidUnallocatedPercent"}
	got := map[string]int64{}
	if fd := e.funcDecl(sd, "", "DefaultColocationStrategy"); fd == nil {
		e.fail("DefaultColocationStrategy not found")
	} else {
		ast.Inspect(fd.Body, func(n ast.Node) bool {
			kv, ok := n.(*ast.KeyValueExpr)
			if !ok {
				return true
			}
			id, ok := kv.Key.(*ast.Ident)
			if !ok {
				return true
			}
			if call, ok := kv.Value.(*ast.CallExpr); ok && len(call.Args) == 1 {
				if v, ok := e.evalInt(sd, call.Args[0], 0); ok {
					got[id.Name] = v
				}
			}
			return true
		})
	}
	for _, n := range want {
		v, ok := got[n]
		if !ok {
			e.fail("default %s not found", n)
		}
		fmt.Fprintf(&e.out, "def default%s : Int := %d\n", n, v)
	}
	// 1b. (extension 4) the other integer defaults the strategy model uses (Model/C09Strategy.lean defaultV)
	for _, n := range []string{"CPUReclaimThresholdPercent", "MemoryReclaimThresholdPercent", "DegradeTimeMinutes", "UpdateTimeThresholdSeconds"} {
		v, ok := got[n]
		if !ok {
			e.fail("default %s not found", n)
		}
		fmt.Fprintf(&e.out, "def default%s : Int := %d\n", n, v)
	}
	c09DeepCopyFacts(e)
	c09ValidFacts(e)
	c09PodRequestFacts(e)
	// 2. the resources each plugin owns
	for _, pl := range [][2]string{{"batch", "pkg/slo-controller/noderesource/plugins/batchresource"}, {"mid", "pkg/slo-controller/noderesource/plugins/midresource"}} {
		var names []string
		if x, ok := e.valueSpec(pl[1], "ResourceNames"); !ok {
			e.fail("%s ResourceNames not found", pl[0])
		} else if cl, ok := x.(*ast.CompositeLit); ok {
			for _, el := range cl.Elts {
				names = append(names, c09ExprName(el))
			}
		}
		c09StrList(e, pl[0]+"ResourceNames", names)
	}
	// 3. which priority classes are NOT charged: batch plugin (== in calculateOnNode), mid plugin (!= in getUnallocated)
	bd, md := "pkg/slo-controller/noderesource/plugins/batchresource", "pkg/slo-controller/noderesource/plugins/midresource"
	if fd := e.funcDecl(bd, "Plugin", "calculateOnNode"); fd != nil {
		names := c09CmpNames(fd.Body, "priority", token.EQL)
		// the pod loop and the dangling loop both compare: de-duplicate
		uniq := []string{}
		for i, n := range names {
			if i == 0 || names[i-1] != n {
				uniq = append(uniq, n)
			}
		}
		c09StrList(e, "batchLowPriorities", uniq)
	}
	if fd := e.funcDecl(md, "Plugin", "getUnallocated"); fd == nil {
		e.fail("midresource getUnallocated not found")
	} else {
		c09StrList(e, "midLowPriorities", c09CmpNames(fd.Body, "priorityClass", token.NEQ))
	}
	// 4. comparison operators the model copies: IsQuantityDiff (strict >), isCommonNodeNeedSync (strict >),
	//    isDegradeNeeded (time.After = strict) in both plugins
	opOfReturn := func(dir, recv, fn string) string {
		fd := e.funcDecl(dir, recv, fn)
		if fd == nil {
			e.fail("%s.%s not found", dir, fn)
			return "?"
		}
		op := "?"
		ast.Inspect(fd.Body, func(n ast.Node) bool {
			if b, ok := n.(*ast.BinaryExpr); ok && (b.Op == token.GTR || b.Op == token.GEQ || b.Op == token.LSS || b.Op == token.LEQ) && op == "?" {
				op = b.Op.String()
			}
			return true
		})
		return op
	}
	fmt.Fprintf(&e.out, "def quantityDiffOp : String := %s\n", leanStr(opOfReturn("pkg/util", "", "IsQuantityDiff")))
	fmt.Fprintf(&e.out, "def commonNeedSyncOp : String := %s\n", leanStr(opOfReturn("pkg/slo-controller/noderesource", "NodeResourceReconciler", "isCommonNodeNeedSync")))
	for _, pl := range [][2]string{{"batch", bd}, {"mid", md}} {
		calls := []string{}
		if fd := e.funcDecl(pl[1], "Plugin", "isDegradeNeeded"); fd == nil {
			e.fail("%s isDegradeNeeded not found", pl[0])
		} else {
			ast.Inspect(fd.Body, func(n ast.Node) bool {
				if c, ok := n.(*ast.CallExpr); ok {
					if se, ok := c.Fun.(*ast.SelectorExpr); ok {
						if id, ok := se.X.(*ast.Ident); ok && id.Name == "now" {
							calls = append(calls, se.Sel.Name)
						}
					}
				}
				return true
			})
		}
		c09StrList(e, pl[0]+"DegradeTimeCmp", calls)
	}
	// 5. PrepareNodeForResource deletes on `q == nil || nr.Resets[name]`
	cond := "?"
	if fd := e.funcDecl("pkg/slo-controller/noderesource/plugins/util", "", "PrepareNodeForResource"); fd == nil {
		e.fail("PrepareNodeForResource not found")
	} else {
		for _, st := range fd.Body.List {
			if is, ok := st.(*ast.IfStmt); ok {
				if b, ok := is.Cond.(*ast.BinaryExpr); ok && b.Op == token.LOR {
					l, lok := b.X.(*ast.BinaryExpr)
					r, rok := b.Y.(*ast.IndexExpr)
					if lok && rok && l.Op == token.EQL && c09ExprName(l.Y) == "nil" {
						cond = c09ExprName(l.X) + "==nil||" + c09ExprName(r.X)
					}
				}
				break
			}
		}
	}
	fmt.Fprintf(&e.out, "def prepareDeleteCond : String := %s\n", leanStr(cond))
	c09Ext3Facts(e)
}

// ---- extension 3: the NodeResource threaded through the reconcile ----

func c09Render(x ast.Expr) string {
	switch v := x.(type) {
	case *ast.Ident:
		return v.Name
	case *ast.SelectorExpr:
		return c09Render(v.X) + "." + v.Sel.Name
	case *ast.StarExpr:
		return "*" + c09Render(v.X)
	case *ast.UnaryExpr:
		return v.Op.String() + c09Render(v.X)
	case *ast.IndexExpr:
		return c09Render(v.X) + "[" + c09Render(v.Index) + "]"
	case *ast.BasicLit:
		return v.Value
	case *ast.CallExpr:
		args := []string{}
		for _, a := range v.Args {
			args = append(args, c09Render(a))
		}
		return c09Render(v.Fun) + "(" + strings.Join(args, ",") + ")"
	case *ast.BinaryExpr:
		return c09Render(v.X) + v.Op.String() + c09Render(v.Y)
	case *ast.ParenExpr:
		return "(" + c09Render(v.X) + ")"
	}
	return "?"
}

func c09Ext3Facts(e *ext) {
	rd := "pkg/slo-controller/noderesource"
	// 1. how often one reconcile runs the prepare chain: call sites of prepareNodeResource per function
	for _, fn := range []string{"updateNodeResource", "updateNodeStatus", "updateNodeMeta"} {
		n := 0
		calls := []string{}
		if fd := e.funcDecl(rd, "NodeResourceReconciler", fn); fd == nil {
			e.fail("%s not found", fn)
		} else {
			ast.Inspect(fd.Body, func(x ast.Node) bool {
				if c, ok := x.(*ast.CallExpr); ok {
					if se, ok := c.Fun.(*ast.SelectorExpr); ok {
						if se.Sel.Name == "prepareNodeResource" {
							n++
						}
						// what is sent to the API server: r.Client.X(...) / r.Client.Status().X(...)
						r := c09Render(se)
						if strings.HasPrefix(r, "r.Client.") && se.Sel.Name != "Status" && se.Sel.Name != "Get" {
							calls = append(calls, strings.TrimPrefix(r, "r.Client."))
						}
					}
				}
				return true
			})
		}
		fmt.Fprintf(&e.out, "def prepareCallsIn_%s : Nat := %d\n", fn, n)
		sort.Strings(calls)
		c09StrList(e, "clientWritesIn_"+fn, calls)
	}
	// prepareNodeResource itself runs the chain once
	n := 0
	if fd := e.funcDecl(rd, "NodeResourceReconciler", "prepareNodeResource"); fd == nil {
		e.fail("prepareNodeResource not found")
	} else {
		ast.Inspect(fd.Body, func(x ast.Node) bool {
			if c, ok := x.(*ast.CallExpr); ok && c09ExprName(c.Fun) == "RunNodePrepareExtenders" {
				n++
			}
			return true
		})
	}
	fmt.Fprintf(&e.out, "def prepareChainRunsPerCall : Nat := %d\n", n)
	// 2. PrepareNodeForResource: what is written through the stored pointer / into the NodeResource, where the amplified
	//    quantity goes, which methods are called on q, the amplification guard
	through := []string{}
	ampTarget := "?"
	ampRebind := "?"
	methods := map[string]bool{}
	guard := "?"
	if fd := e.funcDecl("pkg/slo-controller/noderesource/plugins/util", "", "PrepareNodeForResource"); fd != nil {
		ast.Inspect(fd.Body, func(x ast.Node) bool {
			switch v := x.(type) {
			case *ast.AssignStmt:
				for i, l := range v.Lhs {
					ls := c09Render(l)
					if strings.HasPrefix(ls, "*") || strings.HasPrefix(ls, "nr.") {
						through = append(through, ls)
					}
					if i < len(v.Rhs) {
						rs := c09Render(v.Rhs[i])
						if strings.Contains(rs, "MultiplyMilliQuant") {
							ampTarget = ls + v.Tok.String()
						}
						if ls == "q" && v.Tok == token.ASSIGN {
							ampRebind = "q=" + rs
						}
					}
				}
			case *ast.IncDecStmt:
				if ls := c09Render(v.X); strings.HasPrefix(ls, "*") || strings.HasPrefix(ls, "nr.") {
					through = append(through, ls)
				}
			case *ast.CallExpr:
				if se, ok := v.Fun.(*ast.SelectorExpr); ok {
					if id, ok := se.X.(*ast.Ident); ok && id.Name == "q" {
						methods[se.Sel.Name] = true
					}
				}
			case *ast.IfStmt:
				if b, ok := v.Cond.(*ast.BinaryExpr); ok {
					if id, ok := b.X.(*ast.Ident); ok && id.Name == "ratio" {
						guard = c09Render(b)
					}
				}
			}
			return true
		})
	}
	sort.Strings(through)
	c09StrList(e, "prepareWritesThroughNR", through)
	_, _ = ampTarget, ampRebind // names of locals are not facts the model relies on
	ms := []string{}
	for m := range methods {
		ms = append(ms, m)
	}
	sort.Strings(ms)
	c09StrList(e, "prepareQuantityMethods", ms)
	_ = guard // `ratio > 1.0` vs `>= 1.0` is not observable (x 1.0); covered behaviourally by the exhaustive prepare stream
	// 3. prepare order of the plugins (package names of the composite literal elements)
	order := []string{}
	if x, ok := e.valueSpec(rd, "nodePreparePlugins"); !ok {
		e.fail("nodePreparePlugins not found")
	} else if cl, ok := x.(*ast.CompositeLit); ok {
		for _, el := range cl.Elts {
			if u, ok := el.(*ast.UnaryExpr); ok {
				if c, ok := u.X.(*ast.CompositeLit); ok {
					if se, ok := c.Type.(*ast.SelectorExpr); ok {
						order = append(order, c09Render(se.X))
					}
				}
			}
		}
	}
	c09StrList(e, "nodePrepareOrder", order)
	// 3b. zone withdrawal (repaired by 437c681): the early return of prepareForNodeResourceTopology looks at Resets, and the
	//     reset branch (`if !ok`) of UpdateNRTZoneListIfNeeded writes the zeroed entry back into zone.Resources
	checks := false
	if fd := e.funcDecl("pkg/slo-controller/noderesource/plugins/batchresource", "Plugin", "prepareForNodeResourceTopology"); fd == nil {
		e.fail("prepareForNodeResourceTopology not found")
	} else {
		for _, st := range fd.Body.List {
			if is, ok := st.(*ast.IfStmt); ok {
				c := c09Render(is.Cond)
				checks = strings.Contains(c, "ZoneResources") && strings.Contains(c, "Resets")
				break
			}
		}
	}
	fmt.Fprintf(&e.out, "def nrtEarlyReturnChecksResets : Bool := %v\n", checks)
	back := false
	if fd := e.funcDecl("pkg/slo-controller/noderesource/plugins/util", "", "UpdateNRTZoneListIfNeeded"); fd == nil {
		e.fail("UpdateNRTZoneListIfNeeded not found")
	} else {
		ast.Inspect(fd.Body, func(x ast.Node) bool {
			is, ok := x.(*ast.IfStmt)
			if !ok {
				return true
			}
			u, ok := is.Cond.(*ast.UnaryExpr)
			if !ok || u.Op != token.NOT || c09Render(u.X) != "ok" {
				return true
			}
			ast.Inspect(is.Body, func(y ast.Node) bool {
				if as, ok := y.(*ast.AssignStmt); ok {
					for _, l := range as.Lhs {
						if strings.HasPrefix(c09Render(l), "zone.Resources[") || strings.HasPrefix(c09Render(l), "zoneList[") {
							back = true
						}
					}
				}
				return true
			})
			return false
		})
	}
	fmt.Fprintf(&e.out, "def zoneResetWritesBack : Bool := %v\n", back)
	// 4. the epsilon of IsCPUNormalizationRatioDifferent and its two strict comparisons
	eps := "?"
	if x, ok := e.valueSpec("apis/extension", "NormalizationRatioDiffEpsilon"); ok {
		eps = c09Render(x)
	}
	fmt.Fprintf(&e.out, "def ratioDiffEpsilon : String := %s\n", leanStr(eps))
}

// c09DeepCopyFacts (extension 4): the pointer fields of configuration.ColocationStrategy and the fields its generated
// DeepCopyInto clones (`if in.X != nil { in, out := &in.X, &out.X; *out = new(T); … }`).  A pointer field that is not
// cloned is shared between the config cache and every "copy" handed to a reconcile.
func c09DeepCopyFacts(e *ext) {
	d := "apis/configuration"
	var ptrs, cloned []string
	foundStruct := false
	for _, f := range e.dir(d) {
		for _, decl := range f.Decls {
			gd, ok := decl.(*ast.GenDecl)
			if !ok {
				continue
			}
			for _, sp := range gd.Specs {
				ts, ok := sp.(*ast.TypeSpec)
				if !ok || ts.Name.Name != "ColocationStrategy" {
					continue
				}
				st, ok := ts.Type.(*ast.StructType)
				if !ok {
					continue
				}
				foundStruct = true
				for _, fl := range st.Fields.List {
					if _, ok := fl.Type.(*ast.StarExpr); ok {
						for _, n := range fl.Names {
							ptrs = append(ptrs, n.Name)
						}
					}
				}
			}
		}
	}
	if !foundStruct {
		e.fail("type ColocationStrategy not found")
	}
	if fd := e.funcDecl(d, "ColocationStrategy", "DeepCopyInto"); fd == nil {
		e.fail("ColocationStrategy.DeepCopyInto not found")
	} else {
		for _, stmt := range fd.Body.List {
			is, ok := stmt.(*ast.IfStmt)
			if !ok {
				continue
			}
			be, ok := is.Cond.(*ast.BinaryExpr)
			if !ok || be.Op != token.NEQ {
				continue
			}
			sel, ok := be.X.(*ast.SelectorExpr)
			if !ok {
				continue
			}
			if id, ok := sel.X.(*ast.Ident); !ok || id.Name != "in" {
				continue
			}
			// the body must allocate: `*out = new(T)`
			allocates := false
			for _, bs := range is.Body.List {
				as, ok := bs.(*ast.AssignStmt)
				if !ok || len(as.Lhs) != 1 || len(as.Rhs) != 1 {
					continue
				}
				if st, ok := as.Lhs[0].(*ast.StarExpr); ok {
					if id, ok := st.X.(*ast.Ident); ok && id.Name == "out" {
						if call, ok := as.Rhs[0].(*ast.CallExpr); ok {
							if fn, ok := call.Fun.(*ast.Ident); ok && fn.Name == "new" {
								allocates = true
							}
						}
					}
				}
			}
			if allocates {
				cloned = append(cloned, sel.Sel.Name)
			}
		}
	}
	sort.Strings(ptrs)
	sort.Strings(cloned)
	q := func(l []string) string {
		parts := make([]string, len(l))
		for i, s := range l {
			parts[i] = leanStr(s)
		}
		return "[" + strings.Join(parts, ", ") + "]"
	}
	fmt.Fprintf(&e.out, "def colocationStrategyPointerFields : List String := %s\n", q(ptrs))
	fmt.Fprintf(&e.out, "def colocationStrategyDeepCopyClones : List String := %s\n", q(cloned))
}

// c09ValidFacts (extension 4): the comparisons of sloconfig.IsColocationStrategyValid, one string per
// `*strategy.<Field> <op> <const>` in source order (a field with a range check yields two strings).
func c09ValidFacts(e *ext) {
	var conds []string
	fd := e.funcDecl("pkg/util/sloconfig", "", "IsColocationStrategyValid")
	if fd == nil {
		e.fail("IsColocationStrategyValid not found")
	} else {
		ast.Inspect(fd.Body, func(n ast.Node) bool {
			be, ok := n.(*ast.BinaryExpr)
			if !ok {
				return true
			}
			st, ok := be.X.(*ast.StarExpr)
			if !ok {
				return true
			}
			sel, ok := st.X.(*ast.SelectorExpr)
			if !ok {
				return true
			}
			if id, ok := sel.X.(*ast.Ident); !ok || id.Name != "strategy" {
				return true
			}
			if lit, ok := be.Y.(*ast.BasicLit); ok {
				conds = append(conds, sel.Sel.Name+be.Op.String()+lit.Value)
			}
			return true
		})
	}
	parts := make([]string, len(conds))
	for i, c := range conds {
		parts[i] = leanStr(c)
	}
	fmt.Fprintf(&e.out, "def strategyValidConds : List String := [%s]\n", strings.Join(parts, ", "))
}

// ---- extension 8: the shared pod-request helper ----

// c09PodRequestFacts renders every resourcehelper.PodRequests call of util.GetPodRequest with the fields set in its options
// literal ("PodRequests{}" = the defaults: pod overhead INCLUDED, init containers and pod-level resources honoured), and counts
// the util.GetPodRequest call sites of the two calculators.
func c09PodRequestFacts(e *ext) {
	calls := []string{}
	fd := e.funcDecl("pkg/util", "", "GetPodRequest")
	if fd == nil {
		e.fail("util.GetPodRequest not found")
	} else {
		ast.Inspect(fd.Body, func(n ast.Node) bool {
			ce, ok := n.(*ast.CallExpr)
			if !ok {
				return true
			}
			sel, ok := ce.Fun.(*ast.SelectorExpr)
			if !ok || sel.Sel.Name != "PodRequests" {
				return true
			}
			opts := "?"
			if len(ce.Args) == 2 {
				if cl, ok := ce.Args[1].(*ast.CompositeLit); ok {
					kv := []string{}
					for _, el := range cl.Elts {
						if k, ok := el.(*ast.KeyValueExpr); ok {
							kv = append(kv, c09Render(k.Key)+":"+c09Render(k.Value))
						} else {
							kv = append(kv, "?")
						}
					}
					opts = "{" + strings.Join(kv, ",") + "}"
				}
			}
			calls = append(calls, "PodRequests"+opts)
			return true
		})
	}
	q := make([]string, len(calls))
	for i, c := range calls {
		q[i] = leanStr(c)
	}
	fmt.Fprintf(&e.out, "def getPodRequestCalls : List String := [%s]\n", strings.Join(q, ", "))
	for _, x := range [][3]string{{"pkg/slo-controller/noderesource/plugins/batchresource", "calculateOnNode", "Node"},
		{"pkg/slo-controller/noderesource/plugins/batchresource", "calculateOnNUMALevel", "NUMA"},
		{"pkg/slo-controller/noderesource/plugins/midresource", "getUnallocated", "Mid"}} {
		cnt := 0
		f := e.funcDecl(x[0], "Plugin", x[1])
		if f == nil {
			e.fail("%s.%s not found", x[0], x[1])
		} else {
			ast.Inspect(f.Body, func(n ast.Node) bool {
				if ce, ok := n.(*ast.CallExpr); ok && c09Render(ce.Fun) == "util.GetPodRequest" {
					cnt++
				}
				return true
			})
		}
		fmt.Fprintf(&e.out, "def getPodRequestSites%s : Nat := %d\n", x[2], cnt)
	}
}
