package main

import (
	"fmt"
	"go/ast"
	"go/token"
	"sort"
	"strings"
)

// C09 facts: the priority bands / default values used by the class resolution, and — the guard the
// repaired defect d5e8147 was about — the set of accumulators assigned in the `!hasMetric` branch of
// calculateOnNode / calculateOnNUMALevel.
func init() {
	extractors["C09"] = func(e *ext) {
		d := "apis/extension"
		for _, n := range []string{"PriorityProdValueMax", "PriorityProdValueMin", "PriorityMidValueMax", "PriorityMidValueMin",
			"PriorityBatchValueMax", "PriorityBatchValueMin", "PriorityFreeValueMax", "PriorityFreeValueMin",
			"PriorityProdValueDefault", "PriorityMidValueDefault", "PriorityBatchValueDefault", "PriorityFreeValueDefault",
			"PriorityNoneValueDefault"} {
			e.constInt(d, n, n)
		}
		pd := "pkg/slo-controller/noderesource/plugins/batchresource"
		for _, fn := range []string{"calculateOnNode", "calculateOnNUMALevel"} {
			fd := e.funcDecl(pd, "Plugin", fn)
			names := []string{}
			found := false
			if fd == nil {
				e.fail("%s.%s not found", pd, fn)
			} else {
				ast.Inspect(fd.Body, func(n ast.Node) bool {
					is, ok := n.(*ast.IfStmt)
					if !ok || found {
						return true
					}
					u, ok := is.Cond.(*ast.UnaryExpr)
					if !ok || u.Op != token.NOT {
						return true
					}
					id, ok := u.X.(*ast.Ident)
					if !ok || id.Name != "hasMetric" {
						return true
					}
					found = true
					for _, st := range is.Body.List {
						if as, ok := st.(*ast.AssignStmt); ok {
							for _, l := range as.Lhs {
								if li, ok := l.(*ast.Ident); ok {
									names = append(names, li.Name)
								}
							}
						}
					}
					return false
				})
				if !found {
					e.fail("%s: no `if !hasMetric` branch", fn)
				}
			}
			sort.Strings(names)
			q := make([]string, len(names))
			for i, n := range names {
				q[i] = leanStr(n)
			}
			fmt.Fprintf(&e.out, "def noMetricAssigns_%s : List String := [%s]\n", fn, strings.Join(q, ", "))
		}
		c09ExtFacts(e)
	}
}

// ---- extension: plugin glue facts ----

// c09SelNames collects, in source order, the `X.Name` selector names (or bare identifiers) in an expression list.
func c09ExprName(x ast.Expr) string {
	switch v := x.(type) {
	case *ast.SelectorExpr:
		return v.Sel.Name
	case *ast.Ident:
		return v.Name
	}
	return "?"
}

// c09CmpNames: the names compared against `subject` with operator op anywhere inside node.
func c09CmpNames(node ast.Node, subject string, op token.Token) []string {
	var out []string
	ast.Inspect(node, func(n ast.Node) bool {
		b, ok := n.(*ast.BinaryExpr)
		if !ok || b.Op != op {
			return true
		}
		if id, ok := b.X.(*ast.Ident); ok && id.Name == subject {
			out = append(out, c09ExprName(b.Y))
		}
		return true
	})
	sort.Strings(out)
	return out
}

func c09StrList(e *ext, lean string, xs []string) {
	q := make([]string, len(xs))
	for i, n := range xs {
		q[i] = leanStr(n)
	}
	fmt.Fprintf(&e.out, "def %s : List String := [%s]\n", lean, strings.Join(q, ", "))
}

func c09ExtFacts(e *ext) {
	// 1. defaults of the mid percentages (sloconfig.DefaultColocationStrategy composite literal)
	sd := "pkg/util/sloconfig"
	want := []string{"MidCPUThresholdPercent", "MidMemoryThresholdPercent", "MidStaticCPUReservedPercent", "MidStaticMemoryReservedPercent", "MidUnallocatedPercent"}
	got := map[string]int64{}
	if fd := e.funcDecl(sd, "", "DefaultColocationStrategy"); fd == nil {
		e.fail("DefaultColocationStrategy not found")
	} else {
		ast.Inspect(fd.Body, func(n ast.Node) bool {
			kv, ok := n.(*ast.KeyValueExpr)
			if !ok {
				return true
			}
			id, ok := kv.Key.(*ast.Ident)
			if !ok {
				return true
			}
			if call, ok := kv.Value.(*ast.CallExpr); ok && len(call.Args) == 1 {
				if v, ok := e.evalInt(sd, call.Args[0], 0); ok {
					got[id.Name] = v
				}
			}
			return true
		})
	}
	for _, n := range want {
		v, ok := got[n]
		if !ok {
			e.fail("default %s not found", n)
		}
		fmt.Fprintf(&e.out, "def default%s : Int := %d\n", n, v)
	}
	// 2. the resources each plugin owns
	for _, pl := range [][2]string{{"batch", "pkg/slo-controller/noderesource/plugins/batchresource"}, {"mid", "pkg/slo-controller/noderesource/plugins/midresource"}} {
		var names []string
		if x, ok := e.valueSpec(pl[1], "ResourceNames"); !ok {
			e.fail("%s ResourceNames not found", pl[0])
		} else if cl, ok := x.(*ast.CompositeLit); ok {
			for _, el := range cl.Elts {
				names = append(names, c09ExprName(el))
			}
		}
		c09StrList(e, pl[0]+"ResourceNames", names)
	}
	// 3. which priority classes are NOT charged: batch plugin (== in calculateOnNode), mid plugin (!= in getUnallocated)
	bd, md := "pkg/slo-controller/noderesource/plugins/batchresource", "pkg/slo-controller/noderesource/plugins/midresource"
	if fd := e.funcDecl(bd, "Plugin", "calculateOnNode"); fd != nil {
		names := c09CmpNames(fd.Body, "priority", token.EQL)
		// the pod loop and the dangling loop both compare: de-duplicate
		uniq := []string{}
		for i, n := range names {
			if i == 0 || names[i-1] != n {
				uniq = append(uniq, n)
			}
		}
		c09StrList(e, "batchLowPriorities", uniq)
	}
	if fd := e.funcDecl(md, "Plugin", "getUnallocated"); fd == nil {
		e.fail("midresource getUnallocated not found")
	} else {
		c09StrList(e, "midLowPriorities", c09CmpNames(fd.Body, "priorityClass", token.NEQ))
	}
	// 4. comparison operators the model copies: IsQuantityDiff (strict >), isCommonNodeNeedSync (strict >),
	//    isDegradeNeeded (time.After = strict) in both plugins
	opOfReturn := func(dir, recv, fn string) string {
		fd := e.funcDecl(dir, recv, fn)
		if fd == nil {
			e.fail("%s.%s not found", dir, fn)
			return "?"
		}
		op := "?"
		ast.Inspect(fd.Body, func(n ast.Node) bool {
			if b, ok := n.(*ast.BinaryExpr); ok && (b.Op == token.GTR || b.Op == token.GEQ || b.Op == token.LSS || b.Op == token.LEQ) && op == "?" {
				op = b.Op.String()
			}
			return true
		})
		return op
	}
	fmt.Fprintf(&e.out, "def quantityDiffOp : String := %s\n", leanStr(opOfReturn("pkg/util", "", "IsQuantityDiff")))
	fmt.Fprintf(&e.out, "def commonNeedSyncOp : String := %s\n", leanStr(opOfReturn("pkg/slo-controller/noderesource", "NodeResourceReconciler", "isCommonNodeNeedSync")))
	for _, pl := range [][2]string{{"batch", bd}, {"mid", md}} {
		calls := []string{}
		if fd := e.funcDecl(pl[1], "Plugin", "isDegradeNeeded"); fd == nil {
			e.fail("%s isDegradeNeeded not found", pl[0])
		} else {
			ast.Inspect(fd.Body, func(n ast.Node) bool {
				if c, ok := n.(*ast.CallExpr); ok {
					if se, ok := c.Fun.(*ast.SelectorExpr); ok {
						if id, ok := se.X.(*ast.Ident); ok && id.Name == "now" {
							calls = append(calls, se.Sel.Name)
						}
					}
				}
				return true
			})
		}
		c09StrList(e, pl[0]+"DegradeTimeCmp", calls)
	}
	// 5. PrepareNodeForResource deletes on `q == nil || nr.Resets[name]`
	cond := "?"
	if fd := e.funcDecl("pkg/slo-controller/noderesource/plugins/util", "", "PrepareNodeForResource"); fd == nil {
		e.fail("PrepareNodeForResource not found")
	} else {
		for _, st := range fd.Body.List {
			if is, ok := st.(*ast.IfStmt); ok {
				if b, ok := is.Cond.(*ast.BinaryExpr); ok && b.Op == token.LOR {
					l, lok := b.X.(*ast.BinaryExpr)
					r, rok := b.Y.(*ast.IndexExpr)
					if lok && rok && l.Op == token.EQL && c09ExprName(l.Y) == "nil" {
						cond = c09ExprName(l.X) + "==nil||" + c09ExprName(r.X)
					}
				}
				break
			}
		}
	}
	fmt.Fprintf(&e.out, "def prepareDeleteCond : String := %s\n", leanStr(cond))
}
