package main

import (
	"fmt"
	"go/ast"
	"go/token"
	"strings"
)

// C20 facts (coarse, syntactic; expectations in lean/KoordVerif/Ties/C20.lean):
//   * per calculate*Merged: what is returned when the section key is absent (default / empty / old / other)
//     and what is returned next to the json.Unmarshal error (old / default / other)           — mergeSection/.absent/.bad
//   * per get*Spec: inside the loop over the node entries, the selector-error guard leaves with `continue`
//     and the `selector.Matches` branch leaves the loop (return / break)                       — selectNode = first match
//   * util.MergeCfg marshals `new` and unmarshals into `old`, returning `old`                  — overlay o n
//   * syncConfig(nil ConfigMap) installs DefaultSLOCfg()                                       — sync … none
func init() {
	extractors["C20"] = func(e *ext) {
		d := "pkg/slo-controller/nodeslo"

		hasCall := func(n ast.Node, name string) bool {
			found := false
			ast.Inspect(n, func(x ast.Node) bool {
				if c, ok := x.(*ast.CallExpr); ok {
					switch f := c.Fun.(type) {
					case *ast.Ident:
						found = found || f.Name == name
					case *ast.SelectorExpr:
						found = found || f.Sel.Name == name
					}
				}
				return true
			})
			return found
		}
		classify := func(x ast.Expr, oldName string) string {
			switch v := x.(type) {
			case *ast.Ident:
				if v.Name == oldName {
					return "old"
				}
			case *ast.CompositeLit:
				if len(v.Elts) == 0 {
					return "empty"
				}
			}
			if hasCall(x, "DefaultSLOCfg") {
				return "default"
			}
			return "other"
		}
		lastStmt := func(b *ast.BlockStmt) ast.Stmt {
			if b == nil || len(b.List) == 0 {
				return nil
			}
			return b.List[len(b.List)-1]
		}

		var merged []string
		for _, fn := range []string{"calculateResourceThresholdCfgMerged", "calculateResourceQOSCfgMerged",
			"calculateCPUBurstCfgMerged", "calculateSystemConfigMerged", "calculateHostAppConfigMerged"} {
			fd := e.funcDecl(d, "", fn)
			if fd == nil || fd.Body == nil || fd.Type.Params == nil || len(fd.Type.Params.List) == 0 || len(fd.Type.Params.List[0].Names) == 0 {
				e.fail("%s not found", fn)
				continue
			}
			oldName := fd.Type.Params.List[0].Names[0].Name
			absent, bad := "missing", "missing"
			for _, st := range fd.Body.List {
				is, ok := st.(*ast.IfStmt)
				if !ok {
					continue
				}
				ret, _ := lastStmt(is.Body).(*ast.ReturnStmt)
				if ret == nil || len(ret.Results) != 2 {
					continue
				}
				if u, ok := is.Cond.(*ast.UnaryExpr); ok && u.Op == token.NOT { // if !ok { return X, nil }
					if absent == "missing" {
						absent = classify(ret.Results[0], oldName)
					}
				} else if is.Init != nil && hasCall(is.Init, "Unmarshal") { // if err := json.Unmarshal(..); err != nil { return Y, err }
					if bad == "missing" {
						bad = classify(ret.Results[0], oldName)
					}
				}
			}
			merged = append(merged, fmt.Sprintf("%s absent:%s bad:%s", strings.TrimPrefix(fn, "calculate"), absent, bad))
		}
		fmt.Fprintf(&e.out, "def mergedReturns : List String := [%s]\n", c20QuoteAll(merged))

		var sel []string
		for _, fn := range []string{"getResourceThresholdSpec", "getResourceQOSSpec", "getCPUBurstConfigSpec",
			"getSystemConfigSpec", "getHostApplicationConfig"} {
			fd := e.funcDecl(d, "", fn)
			if fd == nil || fd.Body == nil {
				e.fail("%s not found", fn)
				continue
			}
			var loop *ast.RangeStmt
			for _, st := range fd.Body.List {
				if r, ok := st.(*ast.RangeStmt); ok && loop == nil {
					loop = r
				}
			}
			errLeave, matchLeave, loops := "missing", "missing", 0
			for _, st := range fd.Body.List {
				if _, ok := st.(*ast.RangeStmt); ok {
					loops++
				}
			}
			if loop != nil {
				for _, st := range loop.Body.List {
					is, ok := st.(*ast.IfStmt)
					if !ok {
						continue
					}
					leave := "falls-through"
					// the statement that leaves the loop may be followed by nothing only
					switch l := lastStmt(is.Body).(type) {
					case *ast.ReturnStmt:
						leave = "return"
					case *ast.BranchStmt:
						leave = strings.ToLower(l.Tok.String())
					}
					if hasCall(is.Cond, "Matches") {
						if u, ok := is.Cond.(*ast.UnaryExpr); ok && u.Op == token.NOT {
							// `if !sel.Matches(..) { continue }; …; return/break` is the same first-match loop
							leave = "negated-" + leave
							if leave == "negated-continue" {
								switch l := lastStmt(loop.Body).(type) {
								case *ast.ReturnStmt:
									leave = "first"
								case *ast.BranchStmt:
									if l.Tok == token.BREAK {
										leave = "first"
									}
								}
							}
						} else if leave == "return" || leave == "break" {
							leave = "first"
						}
						matchLeave = leave
					} else if b, ok := is.Cond.(*ast.BinaryExpr); ok && b.Op == token.NEQ {
						errLeave = leave
					}
				}
			}
			sel = append(sel, fmt.Sprintf("%s err:%s match:%s", strings.TrimPrefix(fn, "get"), errLeave, matchLeave))
		}
		fmt.Fprintf(&e.out, "def selectLeaves : List String := [%s]\n", c20QuoteAll(sel))

		// util.MergeCfg
		shape := []string{"?", "?", "?"}
		if fd := e.funcDecl("pkg/util", "", "MergeCfg"); fd != nil && fd.Body != nil {
			ast.Inspect(fd.Body, func(x ast.Node) bool {
				if c, ok := x.(*ast.CallExpr); ok {
					if s, ok := c.Fun.(*ast.SelectorExpr); ok {
						if s.Sel.Name == "Marshal" && len(c.Args) == 1 {
							if id, ok := c.Args[0].(*ast.Ident); ok {
								shape[0] = id.Name
							}
						}
						if s.Sel.Name == "Unmarshal" && len(c.Args) == 2 {
							if u, ok := c.Args[1].(*ast.UnaryExpr); ok && u.Op == token.AND {
								if id, ok := u.X.(*ast.Ident); ok {
									shape[1] = id.Name
								}
							}
						}
					}
				}
				return true
			})
			if ret, ok := lastStmt(fd.Body).(*ast.ReturnStmt); ok && len(ret.Results) == 2 {
				if id, ok := ret.Results[0].(*ast.Ident); ok {
					shape[2] = id.Name
				}
			}
		} else {
			e.fail("util.MergeCfg not found")
		}
		fmt.Fprintf(&e.out, "def mergeCfgShape : List String := [%s]\n", c20QuoteAll(shape))

		// syncConfig: if configMap == nil { return p.updateCacheIfChanged(DefaultSLOCfg()) }
		deleted := false
		if fd := e.funcDecl(d, "SLOCfgHandlerForConfigMapEvent", "syncConfig"); fd != nil && fd.Body != nil {
			for _, st := range fd.Body.List {
				if is, ok := st.(*ast.IfStmt); ok {
					if b, ok := is.Cond.(*ast.BinaryExpr); ok && b.Op == token.EQL {
						if ret, ok := lastStmt(is.Body).(*ast.ReturnStmt); ok && len(ret.Results) == 1 &&
							hasCall(ret.Results[0], "updateCacheIfChanged") && hasCall(ret.Results[0], "DefaultSLOCfg") {
							deleted = true
						}
					}
				}
			}
		} else {
			e.fail("syncConfig not found")
		}
		fmt.Fprintf(&e.out, "def deletedInstallsDefault : Bool := %v\n", deleted)
	}
}

func c20QuoteAll(ss []string) string {
	qs := make([]string, len(ss))
	for i, s := range ss {
		qs[i] = leanStr(s)
	}
	return strings.Join(qs, ", ")
}
