package main

import (
	"fmt"
	"go/ast"
	"go/token"
	"go/types"
	"sort"
	"strings"
)

// C20 facts (coarse, syntactic; expectations in lean/KoordVerif/Ties/C20.lean):
//   * per calculate*Merged: what is returned when the section key is absent (default / empty / old / other)
//     and what is returned next to the json.Unmarshal error (old / default / other)           — mergeSection/.absent/.bad
//   * per get*Spec: inside the loop over the node entries, the selector-error guard leaves with `continue`
//     and the `selector.Matches` branch leaves the loop (return / break)                       — selectNode = first match
//   * util.MergeCfg marshals `new` and unmarshals into `old`, returning `old`                  — overlay o n
//   * syncConfig(nil ConfigMap) installs DefaultSLOCfg()                                       — sync … none
func init() {
	extractors["C20"] = func(e *ext) {
		d := "pkg/slo-controller/nodeslo"

		hasCall := func(n ast.Node, name string) bool {
			found := false
			ast.Inspect(n, func(x ast.Node) bool {
				if c, ok := x.(*ast.CallExpr); ok {
					switch f := c.Fun.(type) {
					case *ast.Ident:
						found = found || f.Name == name
					case *ast.SelectorExpr:
						found = found || f.Sel.Name == name
					}
				}
				return true
			})
			return found
		}
		classify := func(x ast.Expr, oldName string) string {
			switch v := x.(type) {
			case *ast.Ident:
				if v.Name == oldName {
					return "old"
				}
			case *ast.CompositeLit:
				if len(v.Elts) == 0 {
					return "empty"
				}
			}
			if hasCall(x, "DefaultSLOCfg") {
				return "default"
			}
			return "other"
		}
		lastStmt := func(b *ast.BlockStmt) ast.Stmt {
			if b == nil || len(b.List) == 0 {
				return nil
			}
			return b.List[len(b.List)-1]
		}

		var merged []string
		for _, fn := range []string{"calculateResourceThresholdCfgMerged", "calculateResourceQOSCfgMerged",
			"calculateCPUBurstCfgMerged", "calculateSystemConfigMerged", "calculateHostAppConfigMerged"} {
			fd := e.funcDecl(d, "", fn)
			if fd == nil || fd.Body == nil || fd.Type.Params == nil || len(fd.Type.Params.List) == 0 || len(fd.Type.Params.List[0].Names) == 0 {
				e.fail("%s not found", fn)
				continue
			}
			oldName := fd.Type.Params.List[0].Names[0].Name
			absent, bad := "missing", "missing"
			for _, st := range fd.Body.List {
				is, ok := st.(*ast.IfStmt)
				if !ok {
					continue
				}
				ret, _ := lastStmt(is.Body).(*ast.ReturnStmt)
				if ret == nil || len(ret.Results) != 2 {
					continue
				}
				if u, ok := is.Cond.(*ast.UnaryExpr); ok && u.Op == token.NOT { // if !ok { return X, nil }
					if absent == "missing" {
						absent = classify(ret.Results[0], oldName)
					}
				} else if is.Init != nil && hasCall(is.Init, "Unmarshal") { // if err := json.Unmarshal(..); err != nil { return Y, err }
					if bad == "missing" {
						bad = classify(ret.Results[0], oldName)
					}
				}
			}
			merged = append(merged, fmt.Sprintf("%s absent:%s bad:%s", strings.TrimPrefix(fn, "calculate"), absent, bad))
		}
		fmt.Fprintf(&e.out, "def mergedReturns : List String := [%s]\n", c20QuoteAll(merged))

		var sel []string
		for _, fn := range []string{"getResourceThresholdSpec", "getResourceQOSSpec", "getCPUBurstConfigSpec",
			"getSystemConfigSpec", "getHostApplicationConfig"} {
			fd := e.funcDecl(d, "", fn)
			if fd == nil || fd.Body == nil {
				e.fail("%s not found", fn)
				continue
			}
			var loop *ast.RangeStmt
			for _, st := range fd.Body.List {
				if r, ok := st.(*ast.RangeStmt); ok && loop == nil {
					loop = r
				}
			}
			errLeave, matchLeave, loops := "missing", "missing", 0
			for _, st := range fd.Body.List {
				if _, ok := st.(*ast.RangeStmt); ok {
					loops++
				}
			}
			if loop != nil {
				for _, st := range loop.Body.List {
					is, ok := st.(*ast.IfStmt)
					if !ok {
						continue
					}
					leave := "falls-through"
					// the statement that leaves the loop may be followed by nothing only
					switch l := lastStmt(is.Body).(type) {
					case *ast.ReturnStmt:
						leave = "return"
					case *ast.BranchStmt:
						leave = strings.ToLower(l.Tok.String())
					}
					if hasCall(is.Cond, "Matches") {
						if u, ok := is.Cond.(*ast.UnaryExpr); ok && u.Op == token.NOT {
							// `if !sel.Matches(..) { continue }; …; return/break` is the same first-match loop
							leave = "negated-" + leave
							if leave == "negated-continue" {
								switch l := lastStmt(loop.Body).(type) {
								case *ast.ReturnStmt:
									leave = "first"
								case *ast.BranchStmt:
									if l.Tok == token.BREAK {
										leave = "first"
									}
								}
							}
						} else if leave == "return" || leave == "break" {
							leave = "first"
						}
						matchLeave = leave
					} else if b, ok := is.Cond.(*ast.BinaryExpr); ok && b.Op == token.NEQ {
						errLeave = leave
					}
				}
			}
			sel = append(sel, fmt.Sprintf("%s err:%s match:%s", strings.TrimPrefix(fn, "get"), errLeave, matchLeave))
		}
		fmt.Fprintf(&e.out, "def selectLeaves : List String := [%s]\n", c20QuoteAll(sel))

		// util.MergeCfg
		shape := []string{"?", "?", "?"}
		if fd := e.funcDecl("pkg/util", "", "MergeCfg"); fd != nil && fd.Body != nil {
			ast.Inspect(fd.Body, func(x ast.Node) bool {
				if c, ok := x.(*ast.CallExpr); ok {
					if s, ok := c.Fun.(*ast.SelectorExpr); ok {
						if s.Sel.Name == "Marshal" && len(c.Args) == 1 {
							if id, ok := c.Args[0].(*ast.Ident); ok {
								shape[0] = id.Name
							}
						}
						if s.Sel.Name == "Unmarshal" && len(c.Args) == 2 {
							if u, ok := c.Args[1].(*ast.UnaryExpr); ok && u.Op == token.AND {
								if id, ok := u.X.(*ast.Ident); ok {
									shape[1] = id.Name
								}
							}
						}
					}
				}
				return true
			})
			if ret, ok := lastStmt(fd.Body).(*ast.ReturnStmt); ok && len(ret.Results) == 2 {
				if id, ok := ret.Results[0].(*ast.Ident); ok {
					shape[2] = id.Name
				}
			}
		} else {
			e.fail("util.MergeCfg not found")
		}
		fmt.Fprintf(&e.out, "def mergeCfgShape : List String := [%s]\n", c20QuoteAll(shape))

		// syncConfig: if configMap == nil { return p.updateCacheIfChanged(DefaultSLOCfg()) }
		deleted := false
		if fd := e.funcDecl(d, "SLOCfgHandlerForConfigMapEvent", "syncConfig"); fd != nil && fd.Body != nil {
			for _, st := range fd.Body.List {
				if is, ok := st.(*ast.IfStmt); ok {
					if b, ok := is.Cond.(*ast.BinaryExpr); ok && b.Op == token.EQL {
						if ret, ok := lastStmt(is.Body).(*ast.ReturnStmt); ok && len(ret.Results) == 1 &&
							hasCall(ret.Results[0], "updateCacheIfChanged") && hasCall(ret.Results[0], "DefaultSLOCfg") {
							deleted = true
						}
					}
				}
			}
		} else {
			e.fail("syncConfig not found")
		}
		fmt.Fprintf(&e.out, "def deletedInstallsDefault : Bool := %v\n", deleted)
		c20ExtractDelivery(e)
		c20ExtractWiring(e)
	}
}

// C20 extension: the two decision points of the DELIVERY path (Model/C20Hist.lean) and the routing around them.
//   * NodeSLOReconciler.Reconcile: the guard of the only Client.Update of the NodeSLO is
//     `!reflect.DeepEqual(<spec from getNodeSLOSpec>, &<stored>.Spec)` and its body stores that spec     — reconcileCore
//   * EnqueueRequestForConfigMap.Update: name filter; skip iff reflect.DeepEqual(new.Data, old.Data); sync; enqueue — hstep .cmUpdate
//   * EnqueueRequestForConfigMap.Create: type check; name filter; sync; enqueue                            — hstep .cmCreate
//   * EnqueueRequestForConfigMap.Delete has an empty body                                                 — hstep .cmDelete
//   * updateCacheIfChanged: changed := !reflect.DeepEqual(cache, new); available = true unconditionally   — syncIfChanged
func c20ExtractDelivery(e *ext) {
	callName := func(x ast.Expr) (string, *ast.CallExpr) {
		if c, ok := x.(*ast.CallExpr); ok {
			return types.ExprString(c.Fun), c
		}
		return "", nil
	}
	endsWithReturn := func(b *ast.BlockStmt) bool {
		if b == nil || len(b.List) == 0 {
			return false
		}
		_, ok := b.List[len(b.List)-1].(*ast.ReturnStmt)
		return ok
	}
	mentions := func(n ast.Node, name string) bool {
		found := false
		ast.Inspect(n, func(x ast.Node) bool {
			switch v := x.(type) {
			case *ast.Ident:
				found = found || v.Name == name
			case *ast.SelectorExpr:
				found = found || v.Sel.Name == name
			}
			return true
		})
		return found
	}

	// ---- Reconcile write guard
	guard := []string{"missing"}
	if fd := e.funcDecl("pkg/slo-controller/nodeslo", "NodeSLOReconciler", "Reconcile"); fd != nil && fd.Body != nil {
		fromGet := map[string]bool{} // identifiers assigned from r.getNodeSLOSpec(...)
		ast.Inspect(fd.Body, func(x ast.Node) bool {
			if as, ok := x.(*ast.AssignStmt); ok && len(as.Rhs) == 1 && len(as.Lhs) >= 1 {
				if fn, _ := callName(as.Rhs[0]); strings.HasSuffix(fn, ".getNodeSLOSpec") {
					if id, ok := as.Lhs[0].(*ast.Ident); ok {
						fromGet[id.Name] = true
					}
				}
			}
			return true
		})
		var guards [][]string
		ast.Inspect(fd.Body, func(x ast.Node) bool {
			is, ok := x.(*ast.IfStmt)
			if !ok {
				return true
			}
			updated := "" // the object handed to Client.Update directly in this body
			for _, st := range is.Body.List {
				var rhs ast.Expr
				switch v := st.(type) {
				case *ast.AssignStmt:
					if len(v.Rhs) == 1 {
						rhs = v.Rhs[0]
					}
				case *ast.ExprStmt:
					rhs = v.X
				}
				if fn, c := callName(rhs); c != nil && strings.HasSuffix(fn, ".Update") && len(c.Args) >= 1 {
					updated = types.ExprString(c.Args[len(c.Args)-1])
				}
			}
			if updated == "" {
				return true
			}
			g := []string{"other:" + types.ExprString(is.Cond)}
			if u, ok := is.Cond.(*ast.UnaryExpr); ok && u.Op == token.NOT {
				if fn, c := callName(u.X); c != nil && len(c.Args) == 2 {
					a0, a1 := types.ExprString(c.Args[0]), types.ExprString(c.Args[1])
					r0, r1 := "other:"+a0, "other:"+a1
					if fromGet[a0] {
						r0 = "new"
					}
					if a1 == "&"+updated+".Spec" {
						r1 = "&stored.Spec"
					}
					stores := false
					for _, st := range is.Body.List {
						if as, ok := st.(*ast.AssignStmt); ok && len(as.Lhs) == 1 && len(as.Rhs) == 1 &&
							types.ExprString(as.Lhs[0]) == updated+".Spec" && types.ExprString(as.Rhs[0]) == "*"+a0 {
							stores = true
						}
					}
					if r0 == "&stored.Spec" || strings.HasPrefix(r1, "other:") && !strings.HasPrefix(r0, "other:") && r0 != "new" {
						r0, r1 = r1, r0
					}
					if fromGet[strings.TrimPrefix(a1, "&")] || fromGet[a1] { // DeepEqual(&stored.Spec, new): same comparison
						for _, st := range is.Body.List {
							if as, ok := st.(*ast.AssignStmt); ok && len(as.Lhs) == 1 && len(as.Rhs) == 1 &&
								types.ExprString(as.Lhs[0]) == updated+".Spec" && types.ExprString(as.Rhs[0]) == "*"+a1 {
								stores = true
							}
						}
						if a0 == "&"+updated+".Spec" {
							r0, r1 = "new", "&stored.Spec"
						}
					}
					g = []string{"!" + fn, r0, r1, fmt.Sprintf("stores-new:%v", stores)}
				}
			}
			guards = append(guards, g)
			return true
		})
		if len(guards) == 1 {
			guard = guards[0]
		} else {
			guard = []string{fmt.Sprintf("update-guards:%d", len(guards))}
		}
	} else {
		e.fail("NodeSLOReconciler.Reconcile not found")
	}
	fmt.Fprintf(&e.out, "def reconcileWriteGuard : List String := [%s]\n", c20QuoteAll(guard))

	// ---- ConfigMap event routing
	cd := "pkg/slo-controller/config"
	shapeOf := func(method string) ([]string, int) {
		fd := e.funcDecl(cd, "EnqueueRequestForConfigMap", method)
		if fd == nil || fd.Body == nil {
			e.fail("EnqueueRequestForConfigMap.%s not found", method)
			return []string{"missing"}, -1
		}
		role := map[string]string{} // local identifier -> new / old (bound from evt.ObjectNew / evt.ObjectOld)
		var shape []string
		for _, st := range fd.Body.List {
			switch v := st.(type) {
			case *ast.AssignStmt:
				if len(v.Lhs) >= 1 && len(v.Rhs) == 1 {
					if id, ok := v.Lhs[0].(*ast.Ident); ok {
						switch {
						case mentions(v.Rhs[0], "ObjectNew"):
							role[id.Name] = "new"
						case mentions(v.Rhs[0], "ObjectOld"):
							role[id.Name] = "old"
						case mentions(v.Rhs[0], "Object"):
							role[id.Name] = "obj"
						}
					}
				}
			case *ast.IfStmt:
				if !endsWithReturn(v.Body) || len(v.Body.List) != 1 || v.Else != nil {
					shape = append(shape, "if-other")
					continue
				}
				switch {
				case mentions(v.Cond, "SyncCacheIfChanged"):
					shape = append(shape, "sync")
				case mentions(v.Cond, "SLOCtrlConfigMap") && mentions(v.Cond, "ConfigNameSpace"):
					shape = append(shape, "name")
				default:
					if fn, c := callName(v.Cond); c != nil {
						var args []string
						for _, a := range c.Args {
							t := types.ExprString(a)
							if sel, ok := a.(*ast.SelectorExpr); ok {
								if id, ok := sel.X.(*ast.Ident); ok && role[id.Name] != "" {
									t = role[id.Name] + "." + sel.Sel.Name
								}
							}
							args = append(args, t)
						}
						if strings.HasSuffix(fn, "DeepEqual") {
							sort.Strings(args) // DeepEqual is symmetric
						}
						shape = append(shape, "skip-if "+fn+"("+strings.Join(args, ", ")+")")
					} else if u, ok := v.Cond.(*ast.UnaryExpr); ok && u.Op == token.NOT && types.ExprString(u.X) == "ok" {
						shape = append(shape, "type")
					} else {
						shape = append(shape, "skip-if other:"+types.ExprString(v.Cond))
					}
				}
			case *ast.ExprStmt:
				if fn, c := callName(v.X); c != nil && strings.HasSuffix(fn, ".EnqueueRequest") {
					shape = append(shape, "enqueue")
				} else {
					shape = append(shape, "stmt-other")
				}
			default:
				shape = append(shape, "stmt-other")
			}
		}
		return shape, len(fd.Body.List)
	}
	up, _ := shapeOf("Update")
	cr, _ := shapeOf("Create")
	_, nDel := shapeOf("Delete")
	fmt.Fprintf(&e.out, "def cmUpdateShape : List String := [%s]\n", c20QuoteAll(up))
	fmt.Fprintf(&e.out, "def cmCreateShape : List String := [%s]\n", c20QuoteAll(cr))
	fmt.Fprintf(&e.out, "def cmDeleteStmts : Int := %d\n", nDel)

	// ---- updateCacheIfChanged
	changed, avail := "missing", false
	if fd := e.funcDecl("pkg/slo-controller/nodeslo", "SLOCfgHandlerForConfigMapEvent", "updateCacheIfChanged"); fd != nil && fd.Body != nil &&
		fd.Type.Params != nil && len(fd.Type.Params.List) == 1 && len(fd.Type.Params.List[0].Names) == 1 {
		param := fd.Type.Params.List[0].Names[0].Name
		for _, st := range fd.Body.List {
			as, ok := st.(*ast.AssignStmt)
			if !ok || len(as.Lhs) != 1 || len(as.Rhs) != 1 {
				continue
			}
			lhs := types.ExprString(as.Lhs[0])
			if strings.HasSuffix(lhs, ".available") && types.ExprString(as.Rhs[0]) == "true" {
				avail = true
			}
			if u, ok := as.Rhs[0].(*ast.UnaryExpr); ok && u.Op == token.NOT && changed == "missing" {
				if fn, c := callName(u.X); c != nil && len(c.Args) == 2 {
					var args []string
					for _, a := range c.Args {
						t := types.ExprString(a)
						switch {
						case t == param:
							t = "new"
						case strings.HasSuffix(t, ".cfgCache.sloCfg"):
							t = "cache"
						}
						args = append(args, t)
					}
					changed = lhs + " := !" + fn + "(" + strings.Join(args, ", ") + ")"
				}
			}
		}
		if ret, ok := fd.Body.List[len(fd.Body.List)-1].(*ast.ReturnStmt); !ok || len(ret.Results) != 1 || !strings.HasPrefix(changed, types.ExprString(ret.Results[0])+" := ") {
			changed = "not-returned:" + changed
		}
	} else {
		e.fail("updateCacheIfChanged not found")
	}
	fmt.Fprintf(&e.out, "def cacheChangedExpr : String := %s\n", leanStr(changed))
	fmt.Fprintf(&e.out, "def availableSetUnconditionally : Bool := %v\n", avail)

	// ---- lock / critical-section structure of the cache: the top-level statements of the three accessors, abstracted
	//   syncNodeSLOSpecIfChanged: Lock; defer Unlock; return syncConfig(..)   (the whole read-merge-write of the cache is one critical section)
	//   GetCfgCopy:               RLock; defer RUnlock; return <cache>.DeepCopy()   (readers never alias the cache)
	lockShape := func(method string) []string {
		fd := e.funcDecl("pkg/slo-controller/nodeslo", "SLOCfgHandlerForConfigMapEvent", method)
		if fd == nil || fd.Body == nil {
			e.fail("%s not found", method)
			return []string{"missing"}
		}
		var shape []string
		for _, st := range fd.Body.List {
			switch v := st.(type) {
			case *ast.ExprStmt:
				if fn, c := callName(v.X); c != nil && strings.Contains(fn, ".lock.") {
					shape = append(shape, fn[strings.LastIndex(fn, ".")+1:])
				} else {
					shape = append(shape, "stmt")
				}
			case *ast.DeferStmt:
				fn := types.ExprString(v.Call.Fun)
				if strings.Contains(fn, ".lock.") {
					shape = append(shape, "defer "+fn[strings.LastIndex(fn, ".")+1:])
				} else {
					shape = append(shape, "defer other")
				}
			case *ast.ReturnStmt:
				r := "return other"
				if len(v.Results) == 1 {
					if fn, c := callName(v.Results[0]); c != nil {
						switch {
						case strings.HasSuffix(fn, ".syncConfig"):
							r = "return syncConfig"
						case strings.HasSuffix(fn, ".cfgCache.sloCfg.DeepCopy"):
							r = "return cache.DeepCopy"
						}
					}
				}
				shape = append(shape, r)
			default:
				shape = append(shape, "stmt")
			}
		}
		return shape
	}
	fmt.Fprintf(&e.out, "def syncLockShape : List String := [%s]\n", c20QuoteAll(lockShape("syncNodeSLOSpecIfChanged")))
	fmt.Fprintf(&e.out, "def cfgCopyLockShape : List String := [%s]\n", c20QuoteAll(lockShape("GetCfgCopy")))

	// ---- IsCfgAvailable: takes the cache lock first; when not yet available it reads the ConfigMap (GetConfigMapForCache)
	//      and runs syncConfig on it before answering                                                     — ensureAvail
	availLock, availSync := "missing", false
	if fd := e.funcDecl("pkg/slo-controller/nodeslo", "SLOCfgHandlerForConfigMapEvent", "IsCfgAvailable"); fd != nil && fd.Body != nil && len(fd.Body.List) > 0 {
		if es, ok := fd.Body.List[0].(*ast.ExprStmt); ok {
			if fn, c := callName(es.X); c != nil && strings.Contains(fn, ".lock.") {
				availLock = fn[strings.LastIndex(fn, ".")+1:]
			}
		}
		sawGet := false
		for _, st := range fd.Body.List {
			if as, ok := st.(*ast.AssignStmt); ok && len(as.Rhs) == 1 {
				if fn, c := callName(as.Rhs[0]); c != nil && strings.HasSuffix(fn, "GetConfigMapForCache") {
					sawGet = true
				}
			}
			if es, ok := st.(*ast.ExprStmt); ok {
				if fn, c := callName(es.X); c != nil && strings.HasSuffix(fn, ".syncConfig") && sawGet {
					availSync = true
				}
			}
		}
	} else {
		e.fail("IsCfgAvailable not found")
	}
	fmt.Fprintf(&e.out, "def availLockKind : String := %s\n", leanStr(availLock))
	c20ExtractLazyInit(e)
	fmt.Fprintf(&e.out, "def availSyncsOnFirstUse : Bool := %v\n", availSync)

	// ---- triggerAllNodeEnqueue: one q.Add per item of the listed NodeList, no filter in the loop
	enq := "missing"
	if fd := e.funcDecl("pkg/slo-controller/nodeslo", "SLOCfgHandlerForConfigMapEvent", "triggerAllNodeEnqueue"); fd != nil && fd.Body != nil {
		enq = "no-loop"
		for _, st := range fd.Body.List {
			if rs, ok := st.(*ast.RangeStmt); ok {
				enq = "loop-other"
				if strings.HasSuffix(types.ExprString(rs.X), ".Items") && len(rs.Body.List) == 1 {
					if es, ok := rs.Body.List[0].(*ast.ExprStmt); ok {
						if fn, c := callName(es.X); c != nil && strings.HasSuffix(fn, ".Add") {
							enq = "range Items: q.Add"
						}
					}
				}
			}
		}
	} else {
		e.fail("triggerAllNodeEnqueue not found")
	}
	fmt.Fprintf(&e.out, "def enqueueAllShape : String := %s\n", leanStr(enq))
}

// C20 extension (round 3):
//   * availSections: the critical-section structure of IsCfgAvailable, as the sequence (source order) of
//       lock / unlock   calls on the cache lock (a `defer …Unlock()` holds the lock to the end and is not listed),
//       check           a read of the `available` field in an assignment or an if-condition,
//       read            GetConfigMapForCache,
//       sync            syncConfig (syncNodeSLOSpecIfChanged = lock, sync, unlock)                — Model/C20Race.lean shapeOf
//   * sectionDecoders: per calculate*Merged, the call that decodes the section text; json.Unmarshal rejects a text that is not
//     exactly ONE JSON value, a stream decoder would accept a valid prefix                          — SecIn.bad = strict reading
func c20ExtractLazyInit(e *ext) {
	d := "pkg/slo-controller/nodeslo"
	mentionsField := func(n ast.Node, field string) bool {
		found := false
		if n == nil {
			return false
		}
		ast.Inspect(n, func(x ast.Node) bool {
			if sel, ok := x.(*ast.SelectorExpr); ok && sel.Sel.Name == field {
				found = true
			}
			return true
		})
		return found
	}
	callsOf := func(n ast.Node) []string {
		var out []string
		if n == nil {
			return out
		}
		ast.Inspect(n, func(x ast.Node) bool {
			if _, ok := x.(*ast.FuncLit); ok {
				return false
			}
			if c, ok := x.(*ast.CallExpr); ok {
				out = append(out, types.ExprString(c.Fun))
			}
			return true
		})
		return out
	}
	sections := []string{"missing"}
	if fd := e.funcDecl(d, "SLOCfgHandlerForConfigMapEvent", "IsCfgAvailable"); fd != nil && fd.Body != nil {
		sections = []string{}
		callEvents := func(n ast.Node) {
			for _, fn := range callsOf(n) {
				switch {
				case strings.Contains(fn, ".lock.") && (strings.HasSuffix(fn, ".RLock") || strings.HasSuffix(fn, ".Lock")):
					sections = append(sections, "lock")
				case strings.Contains(fn, ".lock.") && (strings.HasSuffix(fn, ".RUnlock") || strings.HasSuffix(fn, ".Unlock")):
					sections = append(sections, "unlock")
				case strings.HasSuffix(fn, "GetConfigMapForCache"):
					sections = append(sections, "read")
				case strings.HasSuffix(fn, ".syncConfig"):
					sections = append(sections, "sync")
				case strings.HasSuffix(fn, ".syncNodeSLOSpecIfChanged"):
					sections = append(sections, "lock", "sync", "unlock")
				}
			}
		}
		var walk func(list []ast.Stmt)
		walk = func(list []ast.Stmt) {
			for _, st := range list {
				switch v := st.(type) {
				case *ast.DeferStmt:
					// a deferred unlock releases at return: the section extends to the end
				case *ast.AssignStmt:
					for _, r := range v.Rhs {
						if mentionsField(r, "available") {
							sections = append(sections, "check")
						}
					}
					callEvents(v)
				case *ast.IfStmt:
					if v.Init != nil {
						walk([]ast.Stmt{v.Init})
					}
					if mentionsField(v.Cond, "available") {
						sections = append(sections, "check")
					}
					callEvents(v.Cond)
					walk(v.Body.List)
					if eb, ok := v.Else.(*ast.BlockStmt); ok {
						walk(eb.List)
					} else if ei, ok := v.Else.(*ast.IfStmt); ok {
						walk([]ast.Stmt{ei})
					}
				case *ast.BlockStmt:
					walk(v.List)
				case *ast.ReturnStmt:
					// `return p.cfgCache.available` reports the flag, it does not guard the sync; calls in it still count
					callEvents(v)
				case *ast.ExprStmt:
					if fn, _ := st.(*ast.ExprStmt).X.(*ast.CallExpr); fn != nil {
						name := types.ExprString(fn.Fun)
						if strings.HasPrefix(name, "klog.") {
							continue
						}
					}
					callEvents(v)
				default:
					callEvents(v)
				}
			}
		}
		walk(fd.Body.List)
	} else {
		e.fail("IsCfgAvailable not found")
	}
	fmt.Fprintf(&e.out, "def availSections : List String := [%s]\n", c20QuoteAll(sections))

	var decs []string
	for _, fn := range []string{"calculateResourceThresholdCfgMerged", "calculateResourceQOSCfgMerged",
		"calculateCPUBurstCfgMerged", "calculateSystemConfigMerged", "calculateHostAppConfigMerged"} {
		fd := e.funcDecl(d, "", fn)
		if fd == nil || fd.Body == nil {
			e.fail("%s not found", fn)
			continue
		}
		var found []string
		for _, c := range callsOf(fd.Body) {
			last := c[strings.LastIndex(c, ".")+1:]
			if strings.Contains(last, "Unmarshal") || strings.Contains(last, "Decode") {
				found = append(found, c)
			}
		}
		decs = append(decs, strings.Join(found, " + "))
	}
	fmt.Fprintf(&e.out, "def sectionDecoders : List String := [%s]\n", c20QuoteAll(decs))
}

func c20QuoteAll(ss []string) string {
	qs := make([]string, len(ss))
	for i, s := range ss {
		qs[i] = leanStr(s)
	}
	return strings.Join(qs, ", ")
}

// C20 round-5 extension: the WIRING (Model/C20Wire.lean) and the order of the node entries.
//   * SetupWithManager: every For / Owns / Watches* call of the builder chain with the predicates given to it
//     (builder.WithPredicates(...)) and the chain-wide WithEventFilter(...) predicates.  Among them, the controller-runtime
//     predicates that look only at metadata and therefore DROP a ConfigMap Update that changes Data (Generation / Annotation /
//     Label changed; a ConfigMap's generation never changes) resp. a Node Update that changes labels (Generation / Annotation)
//     are listed separately: Ties demand none (WatchPred.Sound).  Custom predicate functions cannot be judged syntactically:
//     that is what the executed wiring harness is for.
//   * the handler given to the ConfigMap watch is the object installed as r.sloCfgCache
//   * no function reachable (inside the package) from syncConfig / getNodeSLOSpec calls sort.* / slices.Sort* / slices.Reverse:
//     the entries stay in document order between parsing and the first-match loops.
func c20ExtractWiring(e *ext) {
	d := "pkg/slo-controller/nodeslo"
	var regs, kinds, global, cmDrop, nodeDrop []string
	handlerIsCache := false
	fd := e.funcDecl(d, "NodeSLOReconciler", "SetupWithManager")
	if fd == nil || fd.Body == nil {
		e.fail("SetupWithManager not found")
	} else {
		cacheVar := "" // r.sloCfgCache = <ident>
		ast.Inspect(fd.Body, func(x ast.Node) bool {
			if as, ok := x.(*ast.AssignStmt); ok && len(as.Lhs) == 1 && len(as.Rhs) == 1 {
				if sel, ok := as.Lhs[0].(*ast.SelectorExpr); ok && sel.Sel.Name == "sloCfgCache" {
					cacheVar = types.ExprString(as.Rhs[0])
				}
			}
			return true
		})
		kindOf := func(x ast.Expr) string {
			if u, ok := x.(*ast.UnaryExpr); ok {
				x = u.X
			}
			if cl, ok := x.(*ast.CompositeLit); ok {
				t := types.ExprString(cl.Type)
				return t[strings.LastIndex(t, ".")+1:]
			}
			return types.ExprString(x)
		}
		type reg struct {
			pos  token.Pos
			text string
		}
		var found []reg
		dropping := func(kind, pred string) {
			for _, bad := range []string{"GenerationChanged", "AnnotationChanged", "LabelChanged"} {
				if !strings.Contains(pred, bad) {
					continue
				}
				if kind == "ConfigMap" || kind == "*" {
					cmDrop = append(cmDrop, pred)
				}
				if (kind == "Node" || kind == "*") && bad != "LabelChanged" {
					nodeDrop = append(nodeDrop, pred)
				}
			}
		}
		ast.Inspect(fd.Body, func(x ast.Node) bool {
			c, ok := x.(*ast.CallExpr)
			if !ok {
				return true
			}
			sel, ok := c.Fun.(*ast.SelectorExpr)
			if !ok {
				return true
			}
			switch sel.Sel.Name {
			case "For", "Owns", "Watches", "WatchesMetadata":
				if len(c.Args) == 0 {
					return true
				}
				kind := kindOf(c.Args[0])
				var preds []string
				optsFrom := 1
				if strings.HasPrefix(sel.Sel.Name, "Watches") {
					optsFrom = 2
					if len(c.Args) > 1 && kind == "ConfigMap" && cacheVar != "" && types.ExprString(c.Args[1]) == cacheVar {
						handlerIsCache = true
					}
				}
				for _, o := range c.Args[min(optsFrom, len(c.Args)):] {
					if oc, ok := o.(*ast.CallExpr); ok && strings.HasSuffix(types.ExprString(oc.Fun), "WithPredicates") {
						for _, pa := range oc.Args {
							ps := types.ExprString(pa)
							preds = append(preds, ps)
							dropping(kind, ps)
						}
					} else {
						preds = append(preds, "opt:"+types.ExprString(o))
						dropping(kind, types.ExprString(o))
					}
				}
				kinds = append(kinds, kind)
				found = append(found, reg{c.Pos(), fmt.Sprintf("%s %s [%s]", sel.Sel.Name, kind, strings.Join(preds, "; "))})
			case "WatchesRawSource":
				found = append(found, reg{c.Pos(), "WatchesRawSource"})
			case "WithEventFilter":
				for _, pa := range c.Args {
					ps := types.ExprString(pa)
					global = append(global, ps)
					dropping("*", ps)
				}
			}
			return true
		})
		// a method chain nests the EARLIER call deeper: order by the position of the selector instead
		sort.Slice(found, func(i, j int) bool { return found[i].text < found[j].text })
		for _, r := range found {
			regs = append(regs, r.text)
		}
		sort.Strings(kinds)
	}
	fmt.Fprintf(&e.out, "def watchRegs : List String := [%s]\n", c20QuoteAll(regs))
	fmt.Fprintf(&e.out, "def watchedKinds : List String := [%s]\n", c20QuoteAll(kinds))
	fmt.Fprintf(&e.out, "def globalEventFilters : List String := [%s]\n", c20QuoteAll(global))
	fmt.Fprintf(&e.out, "def cmWatchDroppingPredicates : List String := [%s]\n", c20QuoteAll(cmDrop))
	fmt.Fprintf(&e.out, "def nodeWatchDroppingPredicates : List String := [%s]\n", c20QuoteAll(nodeDrop))
	fmt.Fprintf(&e.out, "def cmWatchHandlerIsCache : Bool := %v\n", handlerIsCache)

	// ---- calls that reorder slices, reachable inside the package from the config path
	decls := map[string][]*ast.FuncDecl{}
	for name, f := range e.dir(d) {
		if strings.HasSuffix(name, "_test.go") {
			continue
		}
		for _, dd := range f.Decls {
			if fn, ok := dd.(*ast.FuncDecl); ok && fn.Body != nil {
				decls[fn.Name.Name] = append(decls[fn.Name.Name], fn)
			}
		}
	}
	seen := map[string]bool{}
	var reorder []string
	var visit func(name string)
	visit = func(name string) {
		if seen[name] {
			return
		}
		seen[name] = true
		for _, fn := range decls[name] {
			ast.Inspect(fn.Body, func(x ast.Node) bool {
				c, ok := x.(*ast.CallExpr)
				if !ok {
					return true
				}
				full := types.ExprString(c.Fun)
				if strings.HasPrefix(full, "sort.") || strings.HasPrefix(full, "slices.Sort") || full == "slices.Reverse" {
					reorder = append(reorder, name+": "+full)
				}
				switch f := c.Fun.(type) {
				case *ast.Ident:
					visit(f.Name)
				case *ast.SelectorExpr:
					visit(f.Sel.Name)
				}
				return true
			})
		}
	}
	for _, root := range []string{"syncConfig", "syncNodeSLOSpecIfChanged", "getNodeSLOSpec", "GetCfgCopy"} {
		if len(decls[root]) == 0 {
			e.fail("%s not found", root)
		}
		visit(root)
	}
	sort.Strings(reorder)
	fmt.Fprintf(&e.out, "def entryReorderCalls : List String := [%s]\n", c20QuoteAll(reorder))
}
