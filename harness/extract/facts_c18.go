package main

import (
	"fmt"
	"go/ast"
	"go/token"
	"strings"
)

// C18 facts (coarse on purpose, so that renames do not trip them):
//   * MinResourcePercentage / MaxResourcePercentage (defaults filled in by newThresholds),
//   * processOneNodePool: how many top-level `if … { …; return … }` guards syntactically precede the
//     evictPodsFromSourceNodes call (the early exits of the model's runRound + the two input guards),
//   * evictPods: inside the pod loop, the guards that precede the podEvictor.Evict call — the function
//     called in each condition and how the guard leaves (return / continue) — and whether the Evict call
//     sits in the else-branch of `if dryRun`.
func init() {
	extractors["C18"] = func(e *ext) {
		d := "pkg/descheduler/framework/plugins/loadaware"
		e.constInt(d, "MinResourcePercentage", "MinResourcePercentage")
		e.constInt(d, "MaxResourcePercentage", "MaxResourcePercentage")

		callPos := func(body *ast.BlockStmt, name string) token.Pos {
			pos := token.NoPos
			ast.Inspect(body, func(n ast.Node) bool {
				if c, ok := n.(*ast.CallExpr); ok && pos == token.NoPos {
					switch f := c.Fun.(type) {
					case *ast.Ident:
						if f.Name == name {
							pos = c.Pos()
						}
					case *ast.SelectorExpr:
						if f.Sel.Name == name {
							pos = c.Pos()
						}
					}
				}
				return true
			})
			return pos
		}
		leaves := func(s *ast.IfStmt) string {
			if len(s.Body.List) == 0 {
				return ""
			}
			switch l := s.Body.List[len(s.Body.List)-1].(type) {
			case *ast.ReturnStmt:
				return "return"
			case *ast.BranchStmt:
				return strings.ToLower(l.Tok.String())
			}
			return ""
		}

		guards := -1
		if fd := e.funcDecl(d, "LowNodeLoad", "processOneNodePool"); fd != nil && fd.Body != nil {
			if p := callPos(fd.Body, "evictPodsFromSourceNodes"); p != token.NoPos {
				guards = 0
				for _, st := range fd.Body.List {
					if st.Pos() >= p {
						break
					}
					if is, ok := st.(*ast.IfStmt); ok && leaves(is) == "return" {
						guards++
					}
				}
			} else {
				e.fail("processOneNodePool does not call evictPodsFromSourceNodes")
			}
		} else {
			e.fail("LowNodeLoad.processOneNodePool not found")
		}
		fmt.Fprintf(&e.out, "def earlyExitGuards : Int := %d\n", guards)

		var loopGuards []string
		evictInDryRunElse := false
		if fd := e.funcDecl(d, "", "evictPods"); fd != nil && fd.Body != nil {
			var loop *ast.RangeStmt
			for _, st := range fd.Body.List {
				if r, ok := st.(*ast.RangeStmt); ok && loop == nil {
					loop = r
				}
			}
			if loop == nil {
				e.fail("evictPods has no top-level range loop")
			} else if p := callPos(loop.Body, "Evict"); p == token.NoPos {
				e.fail("evictPods loop does not call Evict")
			} else {
				for _, st := range loop.Body.List {
					is, ok := st.(*ast.IfStmt)
					if !ok {
						continue
					}
					if st.End() < p {
						if how := leaves(is); how != "" {
							callee := "?"
							ast.Inspect(is.Cond, func(n ast.Node) bool {
								if c, ok := n.(*ast.CallExpr); ok && callee == "?" {
									if id, ok := c.Fun.(*ast.Ident); ok {
										callee = id.Name
									}
								}
								return true
							})
							loopGuards = append(loopGuards, callee+":"+how)
						}
					} else if st.Pos() <= p && p < st.End() {
						if id, ok := is.Cond.(*ast.Ident); ok && id.Name == "dryRun" && is.Else != nil &&
							is.Else.Pos() <= p && p < is.Else.End() {
							evictInDryRunElse = true
						}
					}
				}
			}
		} else {
			e.fail("evictPods not found")
		}
		q := make([]string, len(loopGuards))
		for i, g := range loopGuards {
			q[i] = leanStr(g)
		}
		fmt.Fprintf(&e.out, "def evictLoopGuards : List String := [%s]\n", strings.Join(q, ", "))
		fmt.Fprintf(&e.out, "def evictInDryRunElse : Bool := %v\n", evictInDryRunElse)
	}
}
