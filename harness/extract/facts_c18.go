package main

import (
	"fmt"
	"go/ast"
	"go/token"
	"sort"
	"strconv"
	"strings"
)

// C18 facts (coarse on purpose, so that renames do not trip them):
//   - MinResourcePercentage / MaxResourcePercentage (defaults filled in by newThresholds),
//   - processOneNodePool: how many top-level `if … { …; return … }` guards syntactically precede the
//     evictPodsFromSourceNodes call (the early exits of the model's runRound + the two input guards),
//   - evictPods: inside the pod loop, the guards that precede the podEvictor.Evict call — the function
//     called in each condition and how the guard leaves (return / continue) — and whether the Evict call
//     sits in the else-branch of `if dryRun`.
//   - which functions of the package call GetNodeRawAllocatableFromNode (the capacity every percentage formula
//     divides by) and which functions read `.Status.Allocatable` at all (only the fallback may),
//   - getNodeUsage: how prodPodsMap is indexed (by a key variable / by a field) and the fmt.Sprintf shapes that
//     build the key (format string + the field names of the arguments),
//   - processOneNodePool: the detector cache (pl.<field>) handed to every filterRealAbnormalNodes /
//     resetNodesAsNormal / tryMarkNodesAsNormal call at the top level (as a sorted multiset), and the set of detector
//     caches referenced inside the continueEvictionCond closure.
func init() {
	extractors["C18"] = func(e *ext) {
		c18MoreFacts(e)
		c18PoolFacts(e)
		c18HeadroomFacts(e)
		d := "pkg/descheduler/framework/plugins/loadaware"
		e.constInt(d, "MinResourcePercentage", "MinResourcePercentage")
		e.constInt(d, "MaxResourcePercentage", "MaxResourcePercentage")

		callPos := func(body *ast.BlockStmt, name string) token.Pos {
			pos := token.NoPos
			ast.Inspect(body, func(n ast.Node) bool {
				if c, ok := n.(*ast.CallExpr); ok && pos == token.NoPos {
					switch f := c.Fun.(type) {
					case *ast.Ident:
						if f.Name == name {
							pos = c.Pos()
						}
					case *ast.SelectorExpr:
						if f.Sel.Name == name {
							pos = c.Pos()
						}
					}
				}
				return true
			})
			return pos
		}
		leaves := func(s *ast.IfStmt) string {
			if len(s.Body.List) == 0 {
				return ""
			}
			switch l := s.Body.List[len(s.Body.List)-1].(type) {
			case *ast.ReturnStmt:
				return "return"
			case *ast.BranchStmt:
				return strings.ToLower(l.Tok.String())
			}
			return ""
		}

		guards := -1
		if fd := e.funcDecl(d, "LowNodeLoad", "processOneNodePool"); fd != nil && fd.Body != nil {
			if p := callPos(fd.Body, "evictPodsFromSourceNodes"); p != token.NoPos {
				guards = 0
				for _, st := range fd.Body.List {
					if st.Pos() >= p {
						break
					}
					if is, ok := st.(*ast.IfStmt); ok && leaves(is) == "return" {
						guards++
					}
				}
			} else {
				e.fail("processOneNodePool does not call evictPodsFromSourceNodes")
			}
		} else {
			e.fail("LowNodeLoad.processOneNodePool not found")
		}
		fmt.Fprintf(&e.out, "def earlyExitGuards : Int := %d\n", guards)

		var loopGuards []string
		evictInDryRunElse := false
		if fd := e.funcDecl(d, "", "evictPods"); fd != nil && fd.Body != nil {
			var loop *ast.RangeStmt
			for _, st := range fd.Body.List {
				if r, ok := st.(*ast.RangeStmt); ok && loop == nil {
					loop = r
				}
			}
			if loop == nil {
				e.fail("evictPods has no top-level range loop")
			} else if p := callPos(loop.Body, "Evict"); p == token.NoPos {
				e.fail("evictPods loop does not call Evict")
			} else {
				for _, st := range loop.Body.List {
					is, ok := st.(*ast.IfStmt)
					if !ok {
						continue
					}
					if st.End() < p {
						if how := leaves(is); how != "" {
							callee := "?"
							ast.Inspect(is.Cond, func(n ast.Node) bool {
								if c, ok := n.(*ast.CallExpr); ok && callee == "?" {
									if id, ok := c.Fun.(*ast.Ident); ok {
										callee = id.Name
									}
								}
								return true
							})
							loopGuards = append(loopGuards, callee+":"+how)
						}
					} else if st.Pos() <= p && p < st.End() {
						if id, ok := is.Cond.(*ast.Ident); ok && id.Name == "dryRun" && is.Else != nil &&
							is.Else.Pos() <= p && p < is.Else.End() {
							evictInDryRunElse = true
						}
					}
				}
			}
		} else {
			e.fail("evictPods not found")
		}
		q := make([]string, len(loopGuards))
		for i, g := range loopGuards {
			q[i] = leanStr(g)
		}
		fmt.Fprintf(&e.out, "def evictLoopGuards : List String := [%s]\n", strings.Join(q, ", "))
		fmt.Fprintf(&e.out, "def evictInDryRunElse : Bool := %v\n", evictInDryRunElse)
	}
}

func c18LeanList(xs []string) string {
	q := make([]string, len(xs))
	for i, x := range xs {
		q[i] = leanStr(x)
	}
	return "[" + strings.Join(q, ", ") + "]"
}

func c18MoreFacts(e *ext) {
	d := "pkg/descheduler/framework/plugins/loadaware"
	calleeName := func(c *ast.CallExpr) string {
		switch f := c.Fun.(type) {
		case *ast.Ident:
			return f.Name
		case *ast.SelectorExpr:
			return f.Sel.Name
		}
		return ""
	}
	// ---- capacity table
	var callers, readers []string
	for _, f := range e.dir(d) {
		for _, dc := range f.Decls {
			fd, ok := dc.(*ast.FuncDecl)
			if !ok || fd.Body == nil {
				continue
			}
			calls, reads := false, false
			ast.Inspect(fd.Body, func(n ast.Node) bool {
				switch x := n.(type) {
				case *ast.CallExpr:
					if calleeName(x) == "GetNodeRawAllocatableFromNode" {
						calls = true
					}
				case *ast.SelectorExpr:
					if x.Sel.Name == "Allocatable" {
						if in, ok := x.X.(*ast.SelectorExpr); ok && in.Sel.Name == "Status" {
							reads = true
						}
					}
				}
				return true
			})
			if calls {
				callers = append(callers, fd.Name.Name)
			}
			if reads {
				readers = append(readers, fd.Name.Name)
			}
		}
	}
	sort.Strings(callers)
	sort.Strings(readers)
	fmt.Fprintf(&e.out, "def rawAllocatableCallers : List String := %s\n", c18LeanList(callers))
	fmt.Fprintf(&e.out, "def statusAllocatableReaders : List String := %s\n", c18LeanList(readers))

	// ---- getNodeUsage: the prod lookup table
	var idxKinds, sprintfs []string
	if fd := e.funcDecl(d, "", "getNodeUsage"); fd != nil && fd.Body != nil {
		// the lookup table is recognised by its type (the only `make(map[string]*corev1.Pod)` of the function), not its name
		podMaps := map[string]bool{}
		ast.Inspect(fd.Body, func(n ast.Node) bool {
			as, ok := n.(*ast.AssignStmt)
			if !ok || len(as.Lhs) != 1 || len(as.Rhs) != 1 {
				return true
			}
			c, ok := as.Rhs[0].(*ast.CallExpr)
			if !ok || calleeName(c) != "make" || len(c.Args) == 0 {
				return true
			}
			mt, ok := c.Args[0].(*ast.MapType)
			if !ok {
				return true
			}
			if k, ok := mt.Key.(*ast.Ident); !ok || k.Name != "string" {
				return true
			}
			if st, ok := mt.Value.(*ast.StarExpr); ok {
				if sel, ok := st.X.(*ast.SelectorExpr); ok && sel.Sel.Name == "Pod" {
					if id, ok := as.Lhs[0].(*ast.Ident); ok {
						podMaps[id.Name] = true
					}
				}
			}
			return true
		})
		if len(podMaps) != 1 {
			e.fail("getNodeUsage: expected exactly one map[string]*corev1.Pod, found %d", len(podMaps))
		}
		ast.Inspect(fd.Body, func(n ast.Node) bool {
			switch x := n.(type) {
			case *ast.IndexExpr:
				if id, ok := x.X.(*ast.Ident); ok && podMaps[id.Name] {
					switch k := x.Index.(type) {
					case *ast.Ident:
						idxKinds = append(idxKinds, "var")
					case *ast.SelectorExpr:
						idxKinds = append(idxKinds, "field:"+k.Sel.Name)
					default:
						idxKinds = append(idxKinds, "expr")
					}
				}
			case *ast.CallExpr:
				if calleeName(x) == "Sprintf" && len(x.Args) > 0 {
					if lit, ok := x.Args[0].(*ast.BasicLit); ok && lit.Kind == token.STRING {
						f, _ := strconv.Unquote(lit.Value)
						var fields []string
						for _, a := range x.Args[1:] {
							if sel, ok := a.(*ast.SelectorExpr); ok {
								fields = append(fields, sel.Sel.Name)
							} else {
								fields = append(fields, "?")
							}
						}
						sprintfs = append(sprintfs, f+":"+strings.Join(fields, ","))
					}
				}
			}
			return true
		})
	} else {
		e.fail("getNodeUsage not found")
	}
	fmt.Fprintf(&e.out, "def prodMapIndexKinds : List String := %s\n", c18LeanList(idxKinds))
	fmt.Fprintf(&e.out, "def getNodeUsageSprintfs : List String := %s\n", c18LeanList(sprintfs))

	// ---- processOneNodePool: which detector cache goes where
	cacheArg := func(c *ast.CallExpr) string {
		if len(c.Args) >= 2 {
			if sel, ok := c.Args[1].(*ast.SelectorExpr); ok {
				return sel.Sel.Name
			}
		}
		return "?"
	}
	var topUse, closureCaches []string
	if fd := e.funcDecl(d, "LowNodeLoad", "processOneNodePool"); fd != nil && fd.Body != nil {
		for _, st := range fd.Body.List {
			// the closure is inspected separately
			if as, ok := st.(*ast.AssignStmt); ok && len(as.Lhs) == 1 && len(as.Rhs) == 1 {
				if id, ok := as.Lhs[0].(*ast.Ident); ok && id.Name == "continueEvictionCond" {
					if fl, ok := as.Rhs[0].(*ast.FuncLit); ok {
						seen := map[string]bool{}
						ast.Inspect(fl.Body, func(n ast.Node) bool {
							if sel, ok := n.(*ast.SelectorExpr); ok && strings.HasSuffix(sel.Sel.Name, "AnomalyDetectors") {
								seen[sel.Sel.Name] = true
							}
							return true
						})
						for k := range seen {
							closureCaches = append(closureCaches, k)
						}
						sort.Strings(closureCaches)
						continue
					}
				}
			}
			ast.Inspect(st, func(n ast.Node) bool {
				if c, ok := n.(*ast.CallExpr); ok {
					switch calleeName(c) {
					case "filterRealAbnormalNodes", "resetNodesAsNormal", "tryMarkNodesAsNormal":
						topUse = append(topUse, calleeName(c)+":"+cacheArg(c))
					}
				}
				return true
			})
		}
	}
	// as a multiset (sorted): the node-level and prod-level calls are independent statements that may be reordered
	sort.Strings(topUse)
	fmt.Fprintf(&e.out, "def detectorCacheUse : List String := %s\n", c18LeanList(topUse))
	fmt.Fprintf(&e.out, "def continueCondCaches : List String := %s\n", c18LeanList(closureCaches))
}

// ---- several node pools (extension round 2) ----
//   - Convert_v1alpha2_LowNodeLoadArgs_To_config_LowNodeLoadArgs: where the implicit pool goes in `out.NodePools = append(…)`
//     ("default-first" / "default-last" / "other") and the pool's Name literal,
//   - defaultLoadAnomalyCondition numbers; the nil / == 0 tests of the if / else-if chain on obj.AnomalyCondition in
//     SetDefaults_LowNodeLoadArgs; the pool fields SetDefaults_LowNodeLoadNodePools inherits when nil,
//   - filterNodes: whether a `nodeSelector == nil` test returns early, and whether the range body skips
//     `processedNodes.Has(…)` with `continue` at its top level (for every pool),
//   - processOneNodePool: the slices whose elements are inserted into processedNodes, how many returning guards and how
//     many filterRealAbnormalNodes calls precede those loops, and whether the evictPodsFromSourceNodes call does; Balance: processedNodes is created before the loop over the pools.
func c18PoolFacts(e *ext) {
	dv := "pkg/descheduler/apis/config/v1alpha2"
	dl := "pkg/descheduler/framework/plugins/loadaware"
	exprStr := func(x ast.Expr) string {
		switch v := x.(type) {
		case *ast.Ident:
			return v.Name
		case *ast.SelectorExpr:
			if id, ok := v.X.(*ast.Ident); ok {
				return id.Name + "." + v.Sel.Name
			}
		}
		return "?"
	}
	hasIdent := func(n ast.Node, name string) bool {
		found := false
		ast.Inspect(n, func(m ast.Node) bool {
			if id, ok := m.(*ast.Ident); ok && id.Name == name {
				found = true
			}
			return true
		})
		return found
	}
	// ---- conversion
	shape, poolName := "missing", ""
	if fd := e.funcDecl(dv, "", "Convert_v1alpha2_LowNodeLoadArgs_To_config_LowNodeLoadArgs"); fd != nil && fd.Body != nil {
		poolVar := ""
		ast.Inspect(fd.Body, func(n ast.Node) bool {
			as, ok := n.(*ast.AssignStmt)
			if !ok || len(as.Lhs) != 1 || len(as.Rhs) != 1 {
				return true
			}
			if cl, ok := as.Rhs[0].(*ast.CompositeLit); ok {
				if se, ok := cl.Type.(*ast.SelectorExpr); ok && se.Sel.Name == "LowNodeLoadNodePool" {
					poolVar = exprStr(as.Lhs[0])
					for _, el := range cl.Elts {
						if kv, ok := el.(*ast.KeyValueExpr); ok && exprStr(kv.Key) == "Name" {
							if bl, ok := kv.Value.(*ast.BasicLit); ok {
								if s, err := strconv.Unquote(bl.Value); err == nil {
									poolName = s
								}
							}
						}
					}
				}
			}
			if exprStr(as.Lhs[0]) == "out.NodePools" {
				if c, ok := as.Rhs[0].(*ast.CallExpr); ok && exprStr(c.Fun) == "append" && len(c.Args) == 2 && poolVar != "" {
					switch {
					case c.Ellipsis != token.NoPos && exprStr(c.Args[1]) == "out.NodePools" && hasIdent(c.Args[0], poolVar) && !hasIdent(c.Args[0], "out"):
						shape = "default-first"
					case c.Ellipsis == token.NoPos && exprStr(c.Args[0]) == "out.NodePools" && exprStr(c.Args[1]) == poolVar:
						shape = "default-last"
					default:
						shape = "other"
					}
				} else {
					shape = "other"
				}
			}
			return true
		})
	}
	fmt.Fprintf(&e.out, "def convertAppendShape : String := %s\n", leanStr(shape))
	fmt.Fprintf(&e.out, "def defaultPoolName : String := %s\n", leanStr(poolName))
	// ---- defaults
	abnNorm := []int64{-1, -1}
	if v, ok := e.valueSpec(dv, "defaultLoadAnomalyCondition"); ok {
		ast.Inspect(v, func(n ast.Node) bool {
			if kv, ok := n.(*ast.KeyValueExpr); ok {
				switch exprStr(kv.Key) {
				case "ConsecutiveAbnormalities":
					if x, ok := e.evalInt(dv, kv.Value, 0); ok {
						abnNorm[0] = x
					}
				case "ConsecutiveNormalities":
					if x, ok := e.evalInt(dv, kv.Value, 0); ok {
						abnNorm[1] = x
					}
				}
			}
			return true
		})
	}
	fmt.Fprintf(&e.out, "def defaultAnomaly : List Int := [%d, %d]\n", abnNorm[0], abnNorm[1])
	condTest := func(x ast.Expr) string {
		be, ok := x.(*ast.BinaryExpr)
		if !ok || be.Op != token.EQL {
			return "?"
		}
		rhs := "?"
		switch r := be.Y.(type) {
		case *ast.Ident:
			rhs = r.Name
		case *ast.BasicLit:
			rhs = r.Value
		}
		if se, ok := be.X.(*ast.SelectorExpr); ok {
			return se.Sel.Name + "==" + rhs
		}
		return "?"
	}
	var chain []string
	if fd := e.funcDecl(dv, "", "SetDefaults_LowNodeLoadArgs"); fd != nil && fd.Body != nil {
		for _, st := range fd.Body.List {
			is, ok := st.(*ast.IfStmt)
			if !ok || condTest(is.Cond) != "AnomalyCondition==nil" {
				continue
			}
			for cur := is; cur != nil; {
				chain = append(chain, condTest(cur.Cond))
				next, _ := cur.Else.(*ast.IfStmt)
				if cur.Else != nil && next == nil {
					chain = append(chain, "else")
				}
				cur = next
			}
		}
	}
	fmt.Fprintf(&e.out, "def topAnomalyChain : List String := %s\n", c18LeanList(chain))
	var inherit []string
	if fd := e.funcDecl(dv, "", "SetDefaults_LowNodeLoadNodePools"); fd != nil && fd.Body != nil {
		ast.Inspect(fd.Body, func(n ast.Node) bool {
			is, ok := n.(*ast.IfStmt)
			if !ok {
				return true
			}
			t := condTest(is.Cond)
			if strings.HasSuffix(t, "==nil") && len(is.Body.List) == 1 {
				if as, ok := is.Body.List[0].(*ast.AssignStmt); ok && len(as.Rhs) == 1 {
					f := strings.TrimSuffix(t, "==nil")
					if se, ok := as.Rhs[0].(*ast.SelectorExpr); ok && se.Sel.Name == f && exprStr(se.X) == "args" {
						inherit = append(inherit, f)
					}
				}
			}
			return true
		})
	}
	sort.Strings(inherit)
	fmt.Fprintf(&e.out, "def poolInheritsWhenNil : List String := %s\n", c18LeanList(inherit))
	// ---- filterNodes
	nilReturns, hasSkip := false, false
	if fd := e.funcDecl(dl, "", "filterNodes"); fd != nil && fd.Body != nil {
		for _, st := range fd.Body.List {
			switch s := st.(type) {
			case *ast.IfStmt:
				if condTest(s.Cond) == "?" {
					if be, ok := s.Cond.(*ast.BinaryExpr); ok && be.Op == token.EQL && exprStr(be.X) == "nodeSelector" && exprStr(be.Y) == "nil" {
						if len(s.Body.List) > 0 {
							if _, ok := s.Body.List[len(s.Body.List)-1].(*ast.ReturnStmt); ok {
								nilReturns = true
							}
						}
					}
				}
			case *ast.RangeStmt:
				for _, b := range s.Body.List {
					if is, ok := b.(*ast.IfStmt); ok {
						if c, ok := is.Cond.(*ast.CallExpr); ok && exprStr(c.Fun) == "processedNodes.Has" && len(is.Body.List) == 1 {
							if br, ok := is.Body.List[0].(*ast.BranchStmt); ok && br.Tok == token.CONTINUE {
								hasSkip = true
							}
						}
					}
				}
			}
		}
	} else {
		e.fail("filterNodes not found")
	}
	fmt.Fprintf(&e.out, "def filterNodesNilSelectorReturns : Bool := %v\n", nilReturns)
	fmt.Fprintf(&e.out, "def filterNodesSkipsProcessed : Bool := %v\n", hasSkip)
	// ---- processedNodes.Insert loops / Balance
	var inserts []string
	guardsBefore, marksBefore, evictBefore := 0, 0, false
	if fd := e.funcDecl(dl, "LowNodeLoad", "processOneNodePool"); fd != nil && fd.Body != nil {
		guards, marks, evicted := 0, 0, false
		for _, st := range fd.Body.List {
			switch x := st.(type) {
			case *ast.IfStmt:
				if len(x.Body.List) > 0 {
					if _, ok := x.Body.List[len(x.Body.List)-1].(*ast.ReturnStmt); ok {
						guards++
					}
				}
			case *ast.AssignStmt:
				if len(x.Rhs) == 1 {
					if c, ok := x.Rhs[0].(*ast.CallExpr); ok && exprStr(c.Fun) == "filterRealAbnormalNodes" {
						marks++
					}
				}
			case *ast.ExprStmt:
				if c, ok := x.X.(*ast.CallExpr); ok && exprStr(c.Fun) == "evictPodsFromSourceNodes" {
					evicted = true
				}
			case *ast.RangeStmt:
				ins := false
				ast.Inspect(x.Body, func(n ast.Node) bool {
					if c, ok := n.(*ast.CallExpr); ok && exprStr(c.Fun) == "processedNodes.Insert" {
						ins = true
					}
					return true
				})
				if ins {
					if len(inserts) == 0 {
						guardsBefore, marksBefore, evictBefore = guards, marks, evicted
					} else if guards != guardsBefore {
						e.fail("processOneNodePool: a returning guard sits between the processedNodes.Insert loops")
					}
					inserts = append(inserts, exprStr(x.X))
				}
			}
		}
	}
	sort.Strings(inserts) // the order of the two loops does not matter
	fmt.Fprintf(&e.out, "def processedInsertLoops : List String := %s\n", c18LeanList(inserts))
	fmt.Fprintf(&e.out, "def processedInsertGuardsBefore : Int := %d\n", guardsBefore)
	fmt.Fprintf(&e.out, "def processedInsertMarkCallsBefore : Int := %d\n", marksBefore)
	fmt.Fprintf(&e.out, "def processedInsertAfterEvict : Bool := %v\n", evictBefore)
	shared := false
	if fd := e.funcDecl(dl, "LowNodeLoad", "Balance"); fd != nil && fd.Body != nil {
		declared := false
		for _, st := range fd.Body.List {
			if as, ok := st.(*ast.AssignStmt); ok && len(as.Lhs) == 1 && exprStr(as.Lhs[0]) == "processedNodes" && as.Tok == token.DEFINE {
				declared = true
			}
			if rs, ok := st.(*ast.RangeStmt); ok && declared && hasIdent(rs.Body, "processedNodes") && strings.HasSuffix(exprStr(rs.X), "?") {
				if se, ok := rs.X.(*ast.SelectorExpr); ok && se.Sel.Name == "NodePools" {
					shared = true
				}
			}
		}
	}
	fmt.Fprintf(&e.out, "def processedSharedByPools : Bool := %v\n", shared)
}

// c18HeadroomFacts (extension round 5): evictPodsFromSourceNodes as a list of steps on the headroom maps, in source order.
// Local variables are named by where they come from, so renaming them does not trip the tie:
//
//	avail(<param>,<prod>)  a map returned by targetAvailableUsage(<param>, _, <prod>)   (<param>: a parameter of the function)
//	fresh#k                the k-th map returned by newAvailableUsage
//	m[]                    an element of map m (index expression, `if q, ok := m[k]; ok`, range value)
//
// Steps: method calls on such a value ("recv.Add(arg)"), assignments to one ("lhs=rhs"), and the balancePods calls with the
// headroom map they get; each followed by " if <recv.Cmp(arg)><op><lit>>" / " if not <…>" for the enclosing quantity
// comparisons (presence tests `…; ok` are transparent).
func c18HeadroomFacts(e *ext) {
	d := "pkg/descheduler/framework/plugins/loadaware"
	var steps []string
	fd := e.funcDecl(d, "", "evictPodsFromSourceNodes")
	if fd == nil || fd.Body == nil {
		e.fail("evictPodsFromSourceNodes not found")
		fmt.Fprintf(&e.out, "def headroomSteps : List String := []\n")
		return
	}
	fresh := 0
	var canon func(x ast.Expr, sc map[string]string) string
	canon = func(x ast.Expr, sc map[string]string) string {
		switch v := x.(type) {
		case *ast.Ident:
			if o, ok := sc[v.Name]; ok {
				return o
			}
			return v.Name
		case *ast.StarExpr:
			return canon(v.X, sc)
		case *ast.ParenExpr:
			return canon(v.X, sc)
		case *ast.UnaryExpr:
			return v.Op.String() + canon(v.X, sc)
		case *ast.IndexExpr:
			return canon(v.X, sc) + "[]"
		case *ast.BasicLit:
			return v.Value
		case *ast.CallExpr:
			if se, ok := v.Fun.(*ast.SelectorExpr); ok {
				return canon(se.X, sc) + "." + se.Sel.Name + "()"
			}
		}
		return "?"
	}
	tracked := func(s string) bool { return strings.Contains(s, "avail(") || strings.Contains(s, "fresh#") }
	condStr := func(x ast.Expr, sc map[string]string) string {
		be, ok := x.(*ast.BinaryExpr)
		if !ok {
			return ""
		}
		c, ok := be.X.(*ast.CallExpr)
		if !ok || len(c.Args) != 1 {
			return ""
		}
		se, ok := c.Fun.(*ast.SelectorExpr)
		if !ok || !tracked(canon(se.X, sc)) {
			return ""
		}
		return canon(se.X, sc) + "." + se.Sel.Name + "(" + canon(c.Args[0], sc) + ")" + be.Op.String() + canon(be.Y, sc)
	}
	ext1 := func(sc map[string]string, k, v string) map[string]string {
		out := map[string]string{}
		for a, b := range sc {
			out[a] = b
		}
		out[k] = v
		return out
	}
	var walk func(list []ast.Stmt, sc map[string]string, guard string)
	walk = func(list []ast.Stmt, sc map[string]string, guard string) {
		for _, st := range list {
			switch v := st.(type) {
			case *ast.BlockStmt:
				walk(v.List, sc, guard)
			case *ast.IfStmt:
				in := sc
				if as, ok := v.Init.(*ast.AssignStmt); ok && as.Tok == token.DEFINE && len(as.Rhs) == 1 {
					if ix, ok := as.Rhs[0].(*ast.IndexExpr); ok {
						if id, ok := as.Lhs[0].(*ast.Ident); ok && id.Name != "_" {
							in = ext1(sc, id.Name, canon(ix, sc))
						}
					}
				}
				c := condStr(v.Cond, in)
				g, ng := guard, guard
				if c != "" {
					g, ng = guard+" if "+c, guard+" if not "+c
				}
				walk(v.Body.List, in, g)
				if v.Else != nil {
					walk([]ast.Stmt{v.Else}, in, ng)
				}
			case *ast.ForStmt:
				walk(v.Body.List, sc, guard)
			case *ast.RangeStmt:
				in := sc
				if id, ok := v.Value.(*ast.Ident); ok && v.Tok == token.DEFINE && id.Name != "_" && tracked(canon(v.X, sc)) {
					in = ext1(sc, id.Name, canon(v.X, sc)+"[]")
				}
				walk(v.Body.List, in, guard)
			case *ast.ExprStmt:
				c, ok := v.X.(*ast.CallExpr)
				if !ok {
					continue
				}
				switch f := c.Fun.(type) {
				case *ast.Ident:
					if f.Name == "balancePods" {
						got := "?"
						for _, a := range c.Args {
							if s := canon(a, sc); tracked(s) {
								got = s
							}
						}
						steps = append(steps, "balancePods("+got+")"+guard)
					}
				case *ast.SelectorExpr:
					if r := canon(f.X, sc); tracked(r) {
						var as []string
						for _, a := range c.Args {
							as = append(as, canon(a, sc))
						}
						steps = append(steps, r+"."+f.Sel.Name+"("+strings.Join(as, ",")+")"+guard)
					}
				}
			case *ast.AssignStmt:
				if v.Tok == token.DEFINE && len(v.Rhs) == 1 {
					if c, ok := v.Rhs[0].(*ast.CallExpr); ok {
						if f, ok := c.Fun.(*ast.Ident); ok {
							if id, ok := v.Lhs[0].(*ast.Ident); ok {
								switch {
								case f.Name == "targetAvailableUsage" && len(c.Args) == 3:
									sc[id.Name] = "avail(" + canon(c.Args[0], sc) + "," + canon(c.Args[2], sc) + ")"
									continue
								case f.Name == "newAvailableUsage":
									fresh++
									sc[id.Name] = fmt.Sprintf("fresh#%d", fresh)
									continue
								}
							}
						}
					}
				}
				for i, l := range v.Lhs {
					if s := canon(l, sc); tracked(s) && i < len(v.Rhs) {
						steps = append(steps, s+v.Tok.String()+canon(v.Rhs[i], sc)+guard)
					}
				}
			}
		}
	}
	walk(fd.Body.List, map[string]string{}, "")
	fmt.Fprintf(&e.out, "def headroomSteps : List String := %s\n", c18LeanList(steps))
}
