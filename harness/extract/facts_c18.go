package main

import (
	"fmt"
	"go/ast"
	"go/token"
	"sort"
	"strconv"
	"strings"
)

// C18 facts (coarse on purpose, so that renames do not trip them):
//   - MinResourcePercentage / MaxResourcePercentage (defaults filled in by newThresholds),
//   - processOneNodePool: how many top-level `if … { …; return … }` guards syntactically precede the
//     evictPodsFromSourceNodes call (the early exits of the model's runRound + the two input guards),
//   - evictPods: inside the pod loop, the guards that precede the podEvictor.Evict call — the function
//     called in each condition and how the guard leaves (return / continue) — and whether the Evict call
//     sits in the else-branch of `if dryRun`.
//   - which functions of the package call GetNodeRawAllocatableFromNode (the capacity every percentage formula
//     divides by) and which functions read `.Status.Allocatable` at all (only the fallback may),
//   - getNodeUsage: how prodPodsMap is indexed (by a key variable / by a field) and the fmt.Sprintf shapes that
//     build the key (format string + the field names of the arguments),
//   - processOneNodePool: the detector cache (pl.<field>) handed to every filterRealAbnormalNodes /
//     resetNodesAsNormal / tryMarkNodesAsNormal call at the top level (as a sorted multiset), and the set of detector
//     caches referenced inside the continueEvictionCond closure.
func init() {
	extractors["C18"] = func(e *ext) {
		c18MoreFacts(e)
		d := "pkg/descheduler/framework/plugins/loadaware"
		e.constInt(d, "MinResourcePercentage", "MinResourcePercentage")
		e.constInt(d, "MaxResourcePercentage", "MaxResourcePercentage")

		callPos := func(body *ast.BlockStmt, name string) token.Pos {
			pos := token.NoPos
			ast.Inspect(body, func(n ast.Node) bool {
				if c, ok := n.(*ast.CallExpr); ok && pos == token.NoPos {
					switch f := c.Fun.(type) {
					case *ast.Ident:
						if f.Name == name {
							pos = c.Pos()
						}
					case *ast.SelectorExpr:
						if f.Sel.Name == name {
							pos = c.Pos()
						}
					}
				}
				return true
			})
			return pos
		}
		leaves := func(s *ast.IfStmt) string {
			if len(s.Body.List) == 0 {
				return ""
			}
			switch l := s.Body.List[len(s.Body.List)-1].(type) {
			case *ast.ReturnStmt:
				return "return"
			case *ast.BranchStmt:
				return strings.ToLower(l.Tok.String())
			}
			return ""
		}

		guards := -1
		if fd := e.funcDecl(d, "LowNodeLoad", "processOneNodePool"); fd != nil && fd.Body != nil {
			if p := callPos(fd.Body, "evictPodsFromSourceNodes"); p != token.NoPos {
				guards = 0
				for _, st := range fd.Body.List {
					if st.Pos() >= p {
						break
					}
					if is, ok := st.(*ast.IfStmt); ok && leaves(is) == "return" {
						guards++
					}
				}
			} else {
				e.fail("processOneNodePool does not call evictPodsFromSourceNodes")
			}
		} else {
			e.fail("LowNodeLoad.processOneNodePool not found")
		}
		fmt.Fprintf(&e.out, "def earlyExitGuards : Int := %d\n", guards)

		var loopGuards []string
		evictInDryRunElse := false
		if fd := e.funcDecl(d, "", "evictPods"); fd != nil && fd.Body != nil {
			var loop *ast.RangeStmt
			for _, st := range fd.Body.List {
				if r, ok := st.(*ast.RangeStmt); ok && loop == nil {
					loop = r
				}
			}
			if loop == nil {
				e.fail("evictPods has no top-level range loop")
			} else if p := callPos(loop.Body, "Evict"); p == token.NoPos {
				e.fail("evictPods loop does not call Evict")
			} else {
				for _, st := range loop.Body.List {
					is, ok := st.(*ast.IfStmt)
					if !ok {
						continue
					}
					if st.End() < p {
						if how := leaves(is); how != "" {
							callee := "?"
							ast.Inspect(is.Cond, func(n ast.Node) bool {
								if c, ok := n.(*ast.CallExpr); ok && callee == "?" {
									if id, ok := c.Fun.(*ast.Ident); ok {
										callee = id.Name
									}
								}
								return true
							})
							loopGuards = append(loopGuards, callee+":"+how)
						}
					} else if st.Pos() <= p && p < st.End() {
						if id, ok := is.Cond.(*ast.Ident); ok && id.Name == "dryRun" && is.Else != nil &&
							is.Else.Pos() <= p && p < is.Else.End() {
							evictInDryRunElse = true
						}
					}
				}
			}
		} else {
			e.fail("evictPods not found")
		}
		q := make([]string, len(loopGuards))
		for i, g := range loopGuards {
			q[i] = leanStr(g)
		}
		fmt.Fprintf(&e.out, "def evictLoopGuards : List String := [%s]\n", strings.Join(q, ", "))
		fmt.Fprintf(&e.out, "def evictInDryRunElse : Bool := %v\n", evictInDryRunElse)
	}
}

func c18LeanList(xs []string) string {
	q := make([]string, len(xs))
	for i, x := range xs {
		q[i] = leanStr(x)
	}
	return "[" + strings.Join(q, ", ") + "]"
}

func c18MoreFacts(e *ext) {
	d := "pkg/descheduler/framework/plugins/loadaware"
	calleeName := func(c *ast.CallExpr) string {
		switch f := c.Fun.(type) {
		case *ast.Ident:
			return f.Name
		case *ast.SelectorExpr:
			return f.Sel.Name
		}
		return ""
	}
	// ---- capacity table
	var callers, readers []string
	for _, f := range e.dir(d) {
		for _, dc := range f.Decls {
			fd, ok := dc.(*ast.FuncDecl)
			if !ok || fd.Body == nil {
				continue
			}
			calls, reads := false, false
			ast.Inspect(fd.Body, func(n ast.Node) bool {
				switch x := n.(type) {
				case *ast.CallExpr:
					if calleeName(x) == "GetNodeRawAllocatableFromNode" {
						calls = true
					}
				case *ast.SelectorExpr:
					if x.Sel.Name == "Allocatable" {
						if in, ok := x.X.(*ast.SelectorExpr); ok && in.Sel.Name == "Status" {
							reads = true
						}
					}
				}
				return true
			})
			if calls {
				callers = append(callers, fd.Name.Name)
			}
			if reads {
				readers = append(readers, fd.Name.Name)
			}
		}
	}
	sort.Strings(callers)
	sort.Strings(readers)
	fmt.Fprintf(&e.out, "def rawAllocatableCallers : List String := %s\n", c18LeanList(callers))
	fmt.Fprintf(&e.out, "def statusAllocatableReaders : List String := %s\n", c18LeanList(readers))

	// ---- getNodeUsage: the prod lookup table
	var idxKinds, sprintfs []string
	if fd := e.funcDecl(d, "", "getNodeUsage"); fd != nil && fd.Body != nil {
		// the lookup table is recognised by its type (the only `make(map[string]*corev1.Pod)` of the function), not its name
		podMaps := map[string]bool{}
		ast.Inspect(fd.Body, func(n ast.Node) bool {
			as, ok := n.(*ast.AssignStmt)
			if !ok || len(as.Lhs) != 1 || len(as.Rhs) != 1 {
				return true
			}
			c, ok := as.Rhs[0].(*ast.CallExpr)
			if !ok || calleeName(c) != "make" || len(c.Args) == 0 {
				return true
			}
			mt, ok := c.Args[0].(*ast.MapType)
			if !ok {
				return true
			}
			if k, ok := mt.Key.(*ast.Ident); !ok || k.Name != "string" {
				return true
			}
			if st, ok := mt.Value.(*ast.StarExpr); ok {
				if sel, ok := st.X.(*ast.SelectorExpr); ok && sel.Sel.Name == "Pod" {
					if id, ok := as.Lhs[0].(*ast.Ident); ok {
						podMaps[id.Name] = true
					}
				}
			}
			return true
		})
		if len(podMaps) != 1 {
			e.fail("getNodeUsage: expected exactly one map[string]*corev1.Pod, found %d", len(podMaps))
		}
		ast.Inspect(fd.Body, func(n ast.Node) bool {
			switch x := n.(type) {
			case *ast.IndexExpr:
				if id, ok := x.X.(*ast.Ident); ok && podMaps[id.Name] {
					switch k := x.Index.(type) {
					case *ast.Ident:
						idxKinds = append(idxKinds, "var")
					case *ast.SelectorExpr:
						idxKinds = append(idxKinds, "field:"+k.Sel.Name)
					default:
						idxKinds = append(idxKinds, "expr")
					}
				}
			case *ast.CallExpr:
				if calleeName(x) == "Sprintf" && len(x.Args) > 0 {
					if lit, ok := x.Args[0].(*ast.BasicLit); ok && lit.Kind == token.STRING {
						f, _ := strconv.Unquote(lit.Value)
						var fields []string
						for _, a := range x.Args[1:] {
							if sel, ok := a.(*ast.SelectorExpr); ok {
								fields = append(fields, sel.Sel.Name)
							} else {
								fields = append(fields, "?")
							}
						}
						sprintfs = append(sprintfs, f+":"+strings.Join(fields, ","))
					}
				}
			}
			return true
		})
	} else {
		e.fail("getNodeUsage not found")
	}
	fmt.Fprintf(&e.out, "def prodMapIndexKinds : List String := %s\n", c18LeanList(idxKinds))
	fmt.Fprintf(&e.out, "def getNodeUsageSprintfs : List String := %s\n", c18LeanList(sprintfs))

	// ---- processOneNodePool: which detector cache goes where
	cacheArg := func(c *ast.CallExpr) string {
		if len(c.Args) >= 2 {
			if sel, ok := c.Args[1].(*ast.SelectorExpr); ok {
				return sel.Sel.Name
			}
		}
		return "?"
	}
	var topUse, closureCaches []string
	if fd := e.funcDecl(d, "LowNodeLoad", "processOneNodePool"); fd != nil && fd.Body != nil {
		for _, st := range fd.Body.List {
			// the closure is inspected separately
			if as, ok := st.(*ast.AssignStmt); ok && len(as.Lhs) == 1 && len(as.Rhs) == 1 {
				if id, ok := as.Lhs[0].(*ast.Ident); ok && id.Name == "continueEvictionCond" {
					if fl, ok := as.Rhs[0].(*ast.FuncLit); ok {
						seen := map[string]bool{}
						ast.Inspect(fl.Body, func(n ast.Node) bool {
							if sel, ok := n.(*ast.SelectorExpr); ok && strings.HasSuffix(sel.Sel.Name, "AnomalyDetectors") {
								seen[sel.Sel.Name] = true
							}
							return true
						})
						for k := range seen {
							closureCaches = append(closureCaches, k)
						}
						sort.Strings(closureCaches)
						continue
					}
				}
			}
			ast.Inspect(st, func(n ast.Node) bool {
				if c, ok := n.(*ast.CallExpr); ok {
					switch calleeName(c) {
					case "filterRealAbnormalNodes", "resetNodesAsNormal", "tryMarkNodesAsNormal":
						topUse = append(topUse, calleeName(c)+":"+cacheArg(c))
					}
				}
				return true
			})
		}
	}
	// as a multiset (sorted): the node-level and prod-level calls are independent statements that may be reordered
	sort.Strings(topUse)
	fmt.Fprintf(&e.out, "def detectorCacheUse : List String := %s\n", c18LeanList(topUse))
	fmt.Fprintf(&e.out, "def continueCondCaches : List String := %s\n", c18LeanList(closureCaches))
}
