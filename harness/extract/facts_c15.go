package main

import (
	"bytes"
	"fmt"
	"go/ast"
	"go/printer"
	"go/token"
	"sort"
	"strings"
)

// C15 facts: the order of checks and state writes inside the three admission entry points and
// validateQuotaTopology, the bypasses of checkMinQuotaValidate, the upward walk of
// checkParentQuotaInfo, the reserved names, the lock structure, the feature-gate defaults.

func c15Src(e *ext, n ast.Node) string {
	var b bytes.Buffer
	_ = printer.Fprint(&b, e.fset, n)
	return strings.Join(strings.Fields(b.String()), " ")
}

// c15Norm prints a node with the function's own identifiers abstracted, so that renaming a receiver, a
// parameter or a local variable does not change the fact: receiver -> $r, i-th parameter -> $p<i>, local -> $v.
func c15Norm(e *ext, fd *ast.FuncDecl, n ast.Node) string {
	if n == nil {
		return ""
	}
	role := map[*ast.Object]string{}
	if fd.Recv != nil {
		for _, f := range fd.Recv.List {
			for _, id := range f.Names {
				if id.Obj != nil {
					role[id.Obj] = "$r"
				}
			}
		}
	}
	i := 0
	for _, f := range fd.Type.Params.List {
		for _, id := range f.Names {
			if id.Obj != nil {
				role[id.Obj] = fmt.Sprintf("$p%d", i)
			}
			i++
		}
	}
	type saved struct {
		id   *ast.Ident
		name string
	}
	var undo []saved
	ast.Inspect(n, func(x ast.Node) bool {
		if id, ok := x.(*ast.Ident); ok && id.Obj != nil && id.Obj.Kind == ast.Var {
			undo = append(undo, saved{id, id.Name})
			if r, ok := role[id.Obj]; ok {
				id.Name = r
			} else if _, isField := id.Obj.Decl.(*ast.Field); isField {
				id.Name = "$v" // parameter of a nested literal / named result
			} else {
				id.Name = "$v"
			}
		}
		return true
	})
	out := c15Src(e, n)
	for _, u := range undo {
		u.id.Name = u.name
	}
	return out
}

func c15RecvName(fd *ast.FuncDecl) string {
	if fd.Recv != nil && len(fd.Recv.List) > 0 && len(fd.Recv.List[0].Names) > 0 {
		return fd.Recv.List[0].Names[0].Name
	}
	return "qt"
}

// c15QtField returns the quotaTopology field an expression indexes into (qt.f[..], qt.f[..][..]), or "".
var c15Recv = "qt" // receiver name of the function being inspected

func c15QtField(x ast.Expr) string {
	for {
		switch v := x.(type) {
		case *ast.IndexExpr:
			x = v.X
			continue
		case *ast.SelectorExpr:
			if id, ok := v.X.(*ast.Ident); ok && id.Name == c15Recv {
				return v.Sel.Name
			}
			return ""
		default:
			return ""
		}
	}
}

// c15Events lists, in source order, the calls of quotaTopology methods / named helpers, the writes into the
// recorded state (assignment to or delete from qt.<map>), and the return statements (err / nil).
func c15Events(body *ast.BlockStmt, helpers map[string]bool) []string {
	var ev []string
	ast.Inspect(body, func(n ast.Node) bool {
		switch v := n.(type) {
		case *ast.FuncLit:
			return false
		case *ast.CallExpr:
			switch f := v.Fun.(type) {
			case *ast.SelectorExpr:
				if id, ok := f.X.(*ast.Ident); ok && id.Name == c15Recv {
					ev = append(ev, "call:"+f.Sel.Name)
				} else if helpers[f.Sel.Name] {
					ev = append(ev, "call:"+f.Sel.Name)
				}
			case *ast.Ident:
				if f.Name == "delete" && len(v.Args) == 2 {
					if fld := c15QtField(v.Args[0]); fld != "" {
						ev = append(ev, "write:"+fld)
					}
				} else if helpers[f.Name] {
					ev = append(ev, "call:"+f.Name)
				}
			}
		case *ast.AssignStmt:
			for _, l := range v.Lhs {
				if _, ok := l.(*ast.IndexExpr); ok {
					if fld := c15QtField(l); fld != "" {
						ev = append(ev, "write:"+fld) // (pre-order: recorded before calls on the right-hand side, none here)
					}
				}
			}
		case *ast.ReturnStmt:
			if len(v.Results) == 1 {
				if id, ok := v.Results[0].(*ast.Ident); ok && id.Name == "nil" {
					ev = append(ev, "ret-nil")
				} else {
					ev = append(ev, "ret-err")
				}
			}
		}
		return true
	})
	return ev
}

func c15List(xs []string) string {
	q := make([]string, len(xs))
	for i, x := range xs {
		q[i] = leanStr(x)
	}
	return "[" + strings.Join(q, ", ") + "]"
}

// c15Pairs prints events "kind:name" as Lean pairs ("kind", "name") (ret-err / ret-nil -> ("ret", "err"/"nil")).
func c15Pairs(xs []string) string {
	q := make([]string, len(xs))
	for i, x := range xs {
		k, n := x, ""
		if j := strings.IndexAny(x, ":-"); j >= 0 {
			k, n = x[:j], x[j+1:]
		}
		q[i] = "(" + leanStr(k) + ", " + leanStr(n) + ")"
	}
	return "[" + strings.Join(q, ", ") + "]"
}

// c15LockFirst: the body takes qt.lock.Lock() and defers Unlock before the first statement that mentions a
// recorded-state field of qt.
func c15LockFirst(body *ast.BlockStmt) bool {
	locked, deferred := false, false
	for _, st := range body.List {
		if es, ok := st.(*ast.ExprStmt); ok {
			if c, ok := es.X.(*ast.CallExpr); ok {
				if s, ok := c.Fun.(*ast.SelectorExpr); ok && s.Sel.Name == "Lock" {
					if in, ok := s.X.(*ast.SelectorExpr); ok && in.Sel.Name == "lock" {
						locked = true
						continue
					}
				}
			}
		}
		if ds, ok := st.(*ast.DeferStmt); ok && locked {
			if s, ok := ds.Call.Fun.(*ast.SelectorExpr); ok && s.Sel.Name == "Unlock" {
				deferred = true
				continue
			}
		}
		touches := false
		ast.Inspect(st, func(n ast.Node) bool {
			if s, ok := n.(*ast.SelectorExpr); ok {
				if id, ok := s.X.(*ast.Ident); ok && id.Name == c15Recv &&
					(s.Sel.Name == "quotaInfoMap" || s.Sel.Name == "quotaHierarchyInfo" || s.Sel.Name == "namespaceToQuotaMap") {
					touches = true
				}
			}
			return true
		})
		if touches {
			return locked && deferred
		}
	}
	return locked && deferred
}

// c15Sections: the critical-section structure of a function body in source order — operations on <recv>.lock
// ("Lock", "RLock", "Unlock", "RUnlock", deferred ones as "defer Unlock"), calls of other quotaTopology methods ("call": a
// helper could hide a section of its own), mentions of the three recorded maps ("state") and the pod List through
// <recv>.client ("list"); consecutive repetitions merged.  lockOnly keeps the lock operations only.
func c15Sections(body *ast.BlockStmt, lockOnly bool) []string {
	var ev []string
	add := func(t string) {
		isLock := strings.HasSuffix(t, "ock")
		if lockOnly && !isLock {
			return
		}
		if len(ev) == 0 || ev[len(ev)-1] != t || isLock {
			ev = append(ev, t)
		}
	}
	lockOp := func(c *ast.CallExpr) string {
		if s, ok := c.Fun.(*ast.SelectorExpr); ok {
			if in, ok := s.X.(*ast.SelectorExpr); ok && in.Sel.Name == "lock" {
				if id, ok := in.X.(*ast.Ident); ok && id.Name == c15Recv {
					return s.Sel.Name
				}
			}
		}
		return ""
	}
	ast.Inspect(body, func(n ast.Node) bool {
		switch v := n.(type) {
		case *ast.DeferStmt:
			if op := lockOp(v.Call); op != "" {
				add("defer " + op)
				return false
			}
		case *ast.CallExpr:
			if op := lockOp(v); op != "" {
				add(op)
				return false
			}
			if s, ok := v.Fun.(*ast.SelectorExpr); ok {
				if id, ok := s.X.(*ast.Ident); ok && id.Name == c15Recv {
					add("call")
				}
				if in, ok := s.X.(*ast.SelectorExpr); ok && in.Sel.Name == "client" && s.Sel.Name == "List" {
					if id, ok := in.X.(*ast.Ident); ok && id.Name == c15Recv {
						add("list")
					}
				}
			}
		case *ast.SelectorExpr:
			if id, ok := v.X.(*ast.Ident); ok && id.Name == c15Recv &&
				(v.Sel.Name == "quotaInfoMap" || v.Sel.Name == "quotaHierarchyInfo" || v.Sel.Name == "namespaceToQuotaMap") {
				add("state")
			}
		}
		return true
	})
	return ev
}

// c15CmpNames: the extension.<X>QuotaName identifiers compared with == in the function.
func c15CmpNames(body *ast.BlockStmt) []string {
	set := map[string]bool{}
	ast.Inspect(body, func(n ast.Node) bool {
		if b, ok := n.(*ast.BinaryExpr); ok && b.Op == token.EQL {
			for _, side := range []ast.Expr{b.X, b.Y} {
				name := ""
				switch v := side.(type) {
				case *ast.SelectorExpr:
					name = v.Sel.Name
				case *ast.Ident:
					name = v.Name
				}
				if strings.HasSuffix(name, "QuotaName") && name != "quotaName" {
					set[name] = true
				}
			}
		}
		return true
	})
	out := []string{}
	for k := range set {
		out = append(out, k)
	}
	sort.Strings(out)
	return out
}

func init() {
	extractors["C15"] = func(e *ext) {
		d := "pkg/webhook/elasticquota"
		helpers := map[string]bool{"NewQuotaInfoFromQuota": true, "IsForbiddenModify": true, "hasQuotaBoundedPods": true, "DeepEqual": true}
		get := func(fn string) *ast.FuncDecl {
			fd := e.funcDecl(d, "quotaTopology", fn)
			if fd == nil || fd.Body == nil {
				e.fail("%s not found", fn)
				return nil
			}
			c15Recv = c15RecvName(fd)
			return fd
		}
		for _, f := range []struct{ fn, lean string }{
			{"ValidAddQuota", "addEvents"}, {"ValidUpdateQuota", "updEvents"}, {"ValidDeleteQuota", "delEvents"},
			{"validateQuotaTopology", "topoEvents"}, {"checkMinQuotaValidate", "minEvents"}, {"checkParentQuotaInfo", "parentEvents"},
		} {
			fd := get(f.fn)
			if fd == nil {
				fmt.Fprintf(&e.out, "def %s : List (String × String) := []\n", f.lean)
				continue
			}
			fmt.Fprintf(&e.out, "def %s : List (String × String) := %s\n", f.lean, c15Pairs(c15Events(fd.Body, helpers)))
		}
		// lock taken (and its release deferred) before the recorded state is touched
		for _, f := range []struct{ fn, lean string }{{"ValidAddQuota", "addLockFirst"}, {"ValidUpdateQuota", "updLockFirst"}, {"ValidDeleteQuota", "delLockFirst"}} {
			fd := get(f.fn)
			fmt.Fprintf(&e.out, "def %s : Bool := %v\n", f.lean, fd != nil && c15LockFirst(fd.Body))
		}
		// ValidAddQuota creates the child set of the new name only when it is absent (repair f812ecb):
		// every assignment `$r.quotaHierarchyInfo[$v.Name] = ...` sits inside `if $r.quotaHierarchyInfo[$v.Name] == nil`
		guarded, unguarded := 0, 0
		if fd := get("ValidAddQuota"); fd != nil {
			isNameSet := func(st ast.Stmt) bool {
				as, ok := st.(*ast.AssignStmt)
				if !ok || len(as.Lhs) != 1 {
					return false
				}
				ix, ok := as.Lhs[0].(*ast.IndexExpr)
				return ok && c15Norm(e, fd, ix) == "$r.quotaHierarchyInfo[$v.Name]"
			}
			for _, st := range fd.Body.List {
				if isNameSet(st) {
					unguarded++
				}
				if is, ok := st.(*ast.IfStmt); ok && c15Norm(e, fd, is.Cond) == "$r.quotaHierarchyInfo[$v.Name] == nil" {
					for _, in := range is.Body.List {
						if isNameSet(in) {
							guarded++
						}
					}
				}
			}
		}
		fmt.Fprintf(&e.out, "def addChildSetOnlyWhenAbsent : Bool := %v\n", guarded == 1 && unguarded == 0)
		// early `return nil` on a condition over the parameters only: the bypasses of checkMinQuotaValidate and the
		// shortcuts of validateQuotaTopology (conditions mentioning local variables are not listed)
		for _, f := range []struct{ fn, lean string }{{"checkMinQuotaValidate", "minEarlyNil"}, {"validateQuotaTopology", "topoEarlyNil"}} {
			conds := []string{}
			if fd := get(f.fn); fd != nil {
				for _, st := range fd.Body.List {
					is, ok := st.(*ast.IfStmt)
					if !ok || is.Init != nil || len(is.Body.List) != 1 {
						continue
					}
					if rs, ok := is.Body.List[0].(*ast.ReturnStmt); ok && len(rs.Results) == 1 && c15Src(e, rs.Results[0]) == "nil" {
						if c := c15Norm(e, fd, is.Cond); !strings.Contains(c, "$v") {
							conds = append(conds, c)
						}
					}
				}
			}
			fmt.Fprintf(&e.out, "def %s : List String := %s\n", f.lean, c15List(conds))
		}
		// the upward walk of checkParentQuotaInfo
		walk, walkRet, walkStep := "", false, false
		if fd := get("checkParentQuotaInfo"); fd != nil {
			ast.Inspect(fd.Body, func(n ast.Node) bool {
				if fs, ok := n.(*ast.ForStmt); ok && fs.Cond != nil {
					walk = c15Norm(e, fd, fs.Init) + " ; " + c15Norm(e, fd, fs.Cond) + " ; " + c15Norm(e, fd, fs.Post)
					for _, st := range fs.Body.List {
						if is, ok := st.(*ast.IfStmt); ok && c15Norm(e, fd, is.Cond) == "$v == $p0" {
							for _, in := range is.Body.List {
								if rs, ok := in.(*ast.ReturnStmt); ok && len(rs.Results) == 1 && c15Src(e, rs.Results[0]) != "nil" {
									walkRet = true
								}
							}
						}
						if c15Norm(e, fd, st) == "$v = $v.ParentName" {
							walkStep = true
						}
					}
				}
				return true
			})
		}
		fmt.Fprintf(&e.out, "def parentWalk : String := %s\n", leanStr(walk))
		fmt.Fprintf(&e.out, "def parentWalkRejectsSelf : Bool := %v\n", walkRet)
		fmt.Fprintf(&e.out, "def parentWalkStepsToParent : Bool := %v\n", walkStep)
		// reserved names
		for _, n := range []string{"RootQuotaName", "SystemQuotaName", "DefaultQuotaName"} {
			x, ok := e.valueSpec("apis/extension", n)
			lit, ok2 := x.(*ast.BasicLit)
			if !ok || !ok2 || lit.Kind != token.STRING {
				e.fail("extension.%s is not a string literal", n)
				fmt.Fprintf(&e.out, "def %s : String := \"\"\n", n)
				continue
			}
			fmt.Fprintf(&e.out, "def %s : String := %s\n", n, lit.Value)
		}
		if fd := e.funcDecl("apis/extension", "", "IsForbiddenModify"); fd != nil && fd.Body != nil {
			fmt.Fprintf(&e.out, "def forbiddenModifyNames : List String := %s\n", c15List(c15CmpNames(fd.Body)))
		} else {
			e.fail("IsForbiddenModify not found")
			fmt.Fprintf(&e.out, "def forbiddenModifyNames : List String := []\n")
		}
		if fd := get("ValidDeleteQuota"); fd != nil {
			fmt.Fprintf(&e.out, "def forbiddenDeleteNames : List String := %s\n", c15List(c15CmpNames(fd.Body)))
		} else {
			fmt.Fprintf(&e.out, "def forbiddenDeleteNames : List String := []\n")
		}
		// GetParentQuotaName: the empty label means root, except for the root-named object
		if fd := e.funcDecl("apis/extension", "", "GetParentQuotaName"); fd != nil && fd.Body != nil {
			conds := []string{}
			for _, st := range fd.Body.List {
				if is, ok := st.(*ast.IfStmt); ok && len(is.Body.List) > 0 {
					conds = append(conds, c15Norm(e, fd, is.Cond)+" => "+c15Norm(e, fd, is.Body.List[0]))
				}
			}
			fmt.Fprintf(&e.out, "def parentDefaulting : List String := %s\n", c15List(conds))
		} else {
			e.fail("GetParentQuotaName not found")
			fmt.Fprintf(&e.out, "def parentDefaulting : List String := []\n")
		}
		// feature-gate defaults the model fixes
		for _, g := range []string{"ElasticQuotaEnableUpdateResourceKey", "ElasticQuotaGuaranteeUsage"} {
			def, found := "?", false
			for _, f := range e.dir("pkg/features") {
				ast.Inspect(f, func(n ast.Node) bool {
					kv, ok := n.(*ast.KeyValueExpr)
					if !ok {
						return true
					}
					if id, ok := kv.Key.(*ast.Ident); !ok || id.Name != g {
						return true
					}
					if cl, ok := kv.Value.(*ast.CompositeLit); ok {
						for _, el := range cl.Elts {
							if ikv, ok := el.(*ast.KeyValueExpr); ok && c15Src(e, ikv.Key) == "Default" {
								v := c15Src(e, ikv.Value)
								if found && v != def {
									e.fail("feature gate %s has two different defaults", g)
								}
								def, found = v, true
							}
						}
					}
					return true
				})
			}
			if !found {
				e.fail("default of feature gate %s not found", g)
			}
			fmt.Fprintf(&e.out, "def gate%s : String := %s\n", g, leanStr(def))
		}
		c15InformerFacts(e, get)
		// round 4: critical sections.  ValidDeleteQuota: lock operations, helper calls, map accesses and the pod List in
		// source order (model: Model/C15Race.lean `shapeOf`); every entry point / handler: its lock operations
		if fd := get("ValidDeleteQuota"); fd != nil {
			fmt.Fprintf(&e.out, "def delSections : List String := %s\n", c15List(c15Sections(fd.Body, false)))
		} else {
			fmt.Fprintf(&e.out, "def delSections : List String := []\n")
		}
		// quotaFieldsCopy (the unchanged-fields shortcut of ValidUpdateQuota compares two of these with reflect.DeepEqual):
		// a single return of a literal; which label / annotation keys it copies (value = the same key of the parameter's
		// map) and what it puts into Spec (model `sameFields`: the three labels, the namespaces annotation, the WHOLE spec
		// maps — an entry with amount 0 is an entry)
		fcStmts, fcSpec := 0, ""
		fcLabels, fcAnnos := []string{}, []string{}
		if fd := e.funcDecl(d, "", "quotaFieldsCopy"); fd != nil && fd.Body != nil {
			fcStmts = len(fd.Body.List)
			ast.Inspect(fd.Body, func(n ast.Node) bool {
				kv, ok := n.(*ast.KeyValueExpr)
				if !ok {
					return true
				}
				switch c15Src(e, kv.Key) {
				case "Spec":
					fcSpec = c15Norm(e, fd, kv.Value)
				case "Labels", "Annotations":
					if cl, ok := kv.Value.(*ast.CompositeLit); ok {
						for _, el := range cl.Elts {
							if ikv, ok := el.(*ast.KeyValueExpr); ok {
								k := c15Src(e, ikv.Key)
								item := k
								if c15Norm(e, fd, ikv.Value) != "$p0."+c15Src(e, kv.Key)+"["+k+"]" {
									item = k + " := " + c15Norm(e, fd, ikv.Value)
								}
								if c15Src(e, kv.Key) == "Labels" {
									fcLabels = append(fcLabels, item)
								} else {
									fcAnnos = append(fcAnnos, item)
								}
							}
						}
					}
				}
				return true
			})
		} else {
			e.fail("quotaFieldsCopy not found")
		}
		fmt.Fprintf(&e.out, "def fieldsCopyStmts : Nat := %d\n", fcStmts)
		fmt.Fprintf(&e.out, "def fieldsCopySpec : String := %s\n", leanStr(fcSpec))
		fmt.Fprintf(&e.out, "def fieldsCopyLabels : List String := %s\n", c15List(fcLabels))
		fmt.Fprintf(&e.out, "def fieldsCopyAnnotations : List String := %s\n", c15List(fcAnnos))
		for _, f := range []struct{ fn, lean string }{{"ValidAddQuota", "addLockOps"}, {"ValidUpdateQuota", "updLockOps"}, {"ValidDeleteQuota", "delLockOps"},
			{"OnQuotaAdd", "onAddLockOps"}, {"OnQuotaUpdate", "onUpdLockOps"}, {"OnQuotaDelete", "onDelLockOps"}} {
			if fd := get(f.fn); fd != nil {
				fmt.Fprintf(&e.out, "def %s : List String := %s\n", f.lean, c15List(c15Sections(fd.Body, true)))
			} else {
				fmt.Fprintf(&e.out, "def %s : List String := []\n", f.lean)
			}
		}
	}
}

// ---- informer glue (quota_handler.go, NewQuotaInformer) ----

// c15ParamOrigin follows a local variable back through `x := f(y)` definitions to the parameter it was computed
// from ("$p<i>"), or "?".
func c15ParamOrigin(fd *ast.FuncDecl, id *ast.Ident, depth int) string {
	if id == nil || id.Obj == nil || depth > 6 {
		return "?"
	}
	switch decl := id.Obj.Decl.(type) {
	case *ast.Field:
		i := 0
		for _, f := range fd.Type.Params.List {
			for _, pid := range f.Names {
				if pid.Obj == id.Obj {
					return fmt.Sprintf("$p%d", i)
				}
				i++
			}
		}
	case *ast.AssignStmt:
		for i, l := range decl.Lhs {
			if lid, ok := l.(*ast.Ident); ok && lid.Obj == id.Obj && len(decl.Rhs) == len(decl.Lhs) {
				origin := "?"
				ast.Inspect(decl.Rhs[i], func(n ast.Node) bool {
					if x, ok := n.(*ast.Ident); ok && origin == "?" && x.Obj != nil && x.Obj.Kind == ast.Var {
						origin = c15ParamOrigin(fd, x, depth+1)
					}
					return origin == "?"
				})
				return origin
			}
		}
	}
	return "?"
}

func c15InformerFacts(e *ext, get func(string) *ast.FuncDecl) {
	d := "pkg/webhook/elasticquota"
	// the handlers: writes into the recorded state in source order, lock before state
	for _, f := range []struct{ fn, ev, lock string }{
		{"OnQuotaAdd", "onAddEvents", "onAddLockFirst"}, {"OnQuotaUpdate", "onUpdEvents", "onUpdLockFirst"}, {"OnQuotaDelete", "onDelEvents", "onDelLockFirst"},
	} {
		fd := get(f.fn)
		if fd == nil {
			fmt.Fprintf(&e.out, "def %s : List (String × String) := []\ndef %s : Bool := false\n", f.ev, f.lock)
			continue
		}
		fmt.Fprintf(&e.out, "def %s : List (String × String) := %s\n", f.ev, c15Pairs(c15Events(fd.Body, nil)))
		fmt.Fprintf(&e.out, "def %s : Bool := %v\n", f.lock, c15LockFirst(fd.Body))
	}
	// OnQuotaUpdate: namespace re-binding = loops over namespace lists; for each loop in source order: what it does to
	// namespaceToQuotaMap (del / set) and which parameter (old = $p0, new = $p1) the ranged list was computed from
	nsOps := []string{}
	if fd := get("OnQuotaUpdate"); fd != nil {
		ast.Inspect(fd.Body, func(n ast.Node) bool {
			rs, ok := n.(*ast.RangeStmt)
			if !ok {
				return true
			}
			op := ""
			ast.Inspect(rs.Body, func(m ast.Node) bool {
				switch v := m.(type) {
				case *ast.CallExpr:
					if id, ok := v.Fun.(*ast.Ident); ok && id.Name == "delete" && len(v.Args) == 2 && c15QtField(v.Args[0]) == "namespaceToQuotaMap" {
						op += "del"
					}
				case *ast.AssignStmt:
					for _, l := range v.Lhs {
						if _, ok := l.(*ast.IndexExpr); ok && c15QtField(l) == "namespaceToQuotaMap" {
							op += "set"
						}
					}
				}
				return true
			})
			if op != "" {
				origin := "?"
				if id, ok := rs.X.(*ast.Ident); ok {
					origin = c15ParamOrigin(fd, id, 0)
				}
				nsOps = append(nsOps, op+":"+origin)
			}
			return true
		})
	}
	fmt.Fprintf(&e.out, "def onUpdNsOps : List (String × String) := %s\n", c15Pairs(nsOps))
	// NewQuotaInformer: which handler value is registered, and what its three functions are
	typ, call := "", ""
	funcs := []string{}
	if fd := e.funcDecl(d, "", "NewQuotaInformer"); fd != nil && fd.Body != nil {
		ast.Inspect(fd.Body, func(n ast.Node) bool {
			c, ok := n.(*ast.CallExpr)
			if !ok {
				return true
			}
			sel, ok := c.Fun.(*ast.SelectorExpr)
			if !ok || !strings.HasPrefix(sel.Sel.Name, "AddEventHandler") || len(c.Args) == 0 {
				return true
			}
			if call != "" {
				call += "+"
			}
			call += sel.Sel.Name
			cl, ok := c.Args[0].(*ast.CompositeLit)
			if !ok {
				typ = "not-a-literal:" + c15Norm(e, fd, c.Args[0])
				return true
			}
			switch t := cl.Type.(type) {
			case *ast.SelectorExpr:
				typ = t.Sel.Name
			case *ast.Ident:
				typ = t.Name
			}
			for _, el := range cl.Elts {
				if kv, ok := el.(*ast.KeyValueExpr); ok {
					funcs = append(funcs, c15Src(e, kv.Key)+":"+c15Norm(e, fd, kv.Value))
				}
			}
			return true
		})
	} else {
		e.fail("NewQuotaInformer not found")
	}
	// toElasticQuota: the cases of its type switch, and what a tombstone may hold
	cases, tomb := []string{}, []string{}
	if fd := e.funcDecl(d, "", "toElasticQuota"); fd != nil && fd.Body != nil {
		ast.Inspect(fd.Body, func(n ast.Node) bool {
			cc, ok := n.(*ast.CaseClause)
			if !ok {
				return true
			}
			for _, x := range cc.List {
				t := c15Src(e, x)
				cases = append(cases, t)
				if strings.HasSuffix(t, "DeletedFinalStateUnknown") {
					ast.Inspect(cc, func(m ast.Node) bool {
						if ta, ok := m.(*ast.TypeAssertExpr); ok && ta.Type != nil {
							tomb = append(tomb, c15Src(e, ta.Type))
						}
						return true
					})
				}
			}
			return true
		})
	} else {
		e.fail("toElasticQuota not found")
	}
	fmt.Fprintf(&e.out, "def toQuotaCases : List String := %s\n", c15List(cases))
	fmt.Fprintf(&e.out, "def toQuotaTombstoneHolds : List String := %s\n", c15List(tomb))
	// koord-manager: is the ElasticQuota type (apis/thirdparty/scheduler-plugins/.../scheduling/v1alpha1) added to client-go's scheme.Scheme?
	inClientGo := false
	alias := ""
	for _, f := range e.dir("cmd/koord-manager/options") {
		for _, im := range f.Imports {
			if strings.HasSuffix(strings.Trim(im.Path.Value, "\""), "thirdparty/scheduler-plugins/pkg/apis/scheduling/v1alpha1") {
				alias = "v1alpha1"
				if im.Name != nil {
					alias = im.Name.Name
				}
			}
		}
		ast.Inspect(f, func(n ast.Node) bool {
			c, ok := n.(*ast.CallExpr)
			if !ok || len(c.Args) != 1 {
				return true
			}
			if sel, ok := c.Fun.(*ast.SelectorExpr); ok && sel.Sel.Name == "AddToScheme" {
				if id, ok := sel.X.(*ast.Ident); ok && alias != "" && id.Name == alias && c15Src(e, c.Args[0]) == "clientgoscheme.Scheme" {
					inClientGo = true
				}
			}
			return true
		})
	}
	fmt.Fprintf(&e.out, "def elasticQuotaInClientGoScheme : Bool := %v\n", inClientGo)
	fmt.Fprintf(&e.out, "def informerRegistration : String := %s\n", leanStr(call))
	fmt.Fprintf(&e.out, "def informerHandlerType : String := %s\n", leanStr(typ))
	fmt.Fprintf(&e.out, "def informerHandlers : List (String × String) := %s\n", c15Pairs(funcs))
}
