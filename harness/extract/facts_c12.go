package main

import (
	"fmt"
	"go/ast"
	"go/token"
	"os"
	"path/filepath"
	"sort"
	"strings"
)

// C12 facts (pkg/koordlet/resourceexecutor):
//   registry  : resource name -> constructor expression registered in updater.go init()
//   passes    : the top-level for-loops of LeveledUpdateBatch: (index ascending?, updater method called, inner loop walks the level forwards?)
//   mergeWriteCachesWritten / mergeSkipCachesOld : what MergeFuncUpdateCgroup returns (= what gets cached)
func c12Expr(x ast.Expr) string {
	switch v := x.(type) {
	case *ast.Ident:
		return v.Name
	case *ast.SelectorExpr:
		return v.Sel.Name
	case *ast.CallExpr:
		var as []string
		for _, a := range v.Args {
			as = append(as, c12Expr(a))
		}
		return c12Expr(v.Fun) + "(" + strings.Join(as, ",") + ")"
	case *ast.UnaryExpr:
		return v.Op.String() + c12Expr(v.X)
	case *ast.BinaryExpr:
		return c12Expr(v.X) + v.Op.String() + c12Expr(v.Y)
	case *ast.BasicLit:
		return v.Value
	case *ast.IndexExpr:
		return c12Expr(v.X) + "[" + c12Expr(v.Index) + "]"
	}
	return "?"
}

// c12ExprL renders like c12Expr but is insensitive to the NAMES of local variables and parameters: a parameter of
// the function registered with c12SetParams becomes "$<position>", any other local variable "_"; field, method,
// function, constant and package-level names are kept.
var c12Params = map[*ast.Object]int{}

func c12SetParams(fd *ast.FuncDecl) {
	c12Params = map[*ast.Object]int{}
	k := 0
	if fd.Type.Params != nil {
		for _, f := range fd.Type.Params.List {
			for _, n := range f.Names {
				k++
				if n.Obj != nil {
					c12Params[n.Obj] = k
				}
			}
		}
	}
}

func c12ExprL(x ast.Expr) string {
	switch v := x.(type) {
	case *ast.Ident:
		if v.Obj != nil && v.Obj.Kind == ast.Var {
			if k, ok := c12Params[v.Obj]; ok {
				return fmt.Sprintf("$%d", k)
			}
			return "_"
		}
		return v.Name
	case *ast.SelectorExpr:
		return v.Sel.Name
	case *ast.CallExpr:
		var as []string
		for _, a := range v.Args {
			as = append(as, c12ExprL(a))
		}
		return c12ExprL(v.Fun) + "(" + strings.Join(as, ",") + ")"
	case *ast.UnaryExpr:
		return v.Op.String() + c12ExprL(v.X)
	case *ast.BinaryExpr:
		return c12ExprL(v.X) + v.Op.String() + c12ExprL(v.Y)
	case *ast.BasicLit:
		return v.Value
	case *ast.IndexExpr:
		return c12ExprL(v.X) + "[" + c12ExprL(v.Index) + "]"
	}
	return "?"
}

// c12Calls lists, in source order, the calls made by the top-level statements of a block: expression
// statements and single-value assignments / definitions whose right-hand side is a call.
func c12Calls(list []ast.Stmt) []string {
	var out []string
	for _, st := range list {
		switch v := st.(type) {
		case *ast.ExprStmt:
			if c, ok := v.X.(*ast.CallExpr); ok {
				out = append(out, c12ExprL(c))
			}
		case *ast.AssignStmt:
			if len(v.Rhs) == 1 {
				if c, ok := v.Rhs[0].(*ast.CallExpr); ok {
					out = append(out, c12ExprL(c))
				}
			}
		}
	}
	return out
}

// c12Sweeps renders every writeBECgroupsCPUSet call of a function as "paths-source|value-source|isReversed" with
// the two first arguments resolved through the function's local `x, err := f(...)` / `x := f(...)` definitions;
// a call that is not a top-level statement of the function body is rendered with the prefix "nested:".
func c12Sweeps(fd *ast.FuncDecl) []string {
	c12SetParams(fd)
	def := map[string]string{}
	for _, st := range fd.Body.List {
		if as, ok := st.(*ast.AssignStmt); ok && len(as.Rhs) == 1 && len(as.Lhs) >= 1 {
			def[c12Expr(as.Lhs[0])] = c12ExprL(as.Rhs[0])
		}
	}
	res := func(x ast.Expr) string {
		if d, ok := def[c12Expr(x)]; ok {
			return d
		}
		return c12ExprL(x)
	}
	top := map[*ast.CallExpr]bool{}
	for _, st := range fd.Body.List {
		if es, ok := st.(*ast.ExprStmt); ok {
			if c, ok := es.X.(*ast.CallExpr); ok {
				top[c] = true
			}
		}
	}
	var out []string
	ast.Inspect(fd.Body, func(n ast.Node) bool {
		c, ok := n.(*ast.CallExpr)
		if !ok || c12Expr(c.Fun) != "writeBECgroupsCPUSet" || len(c.Args) != 3 {
			return true
		}
		s := res(c.Args[0]) + "|" + res(c.Args[1]) + "|" + c12ExprL(c.Args[2])
		if !top[c] {
			s = "nested:" + s
		}
		out = append(out, s)
		return true
	})
	return out
}

// c12Full renders selector chains with their receivers (a.b.c) and calls as f(args).
func c12Full(x ast.Expr) string {
	switch v := x.(type) {
	case *ast.Ident:
		return v.Name
	case *ast.SelectorExpr:
		return c12Full(v.X) + "." + v.Sel.Name
	case *ast.CallExpr:
		var as []string
		for _, a := range v.Args {
			as = append(as, c12Full(a))
		}
		return c12Full(v.Fun) + "(" + strings.Join(as, ",") + ")"
	case *ast.StarExpr:
		return "*" + c12Full(v.X)
	}
	return c12Expr(x)
}

func c12StrList(xs []string) string {
	q := make([]string, len(xs))
	for i, x := range xs {
		q[i] = leanStr(x)
	}
	return "[" + strings.Join(q, ", ") + "]"
}

func init() {
	extractors["C12"] = func(e *ext) {
		d := "pkg/koordlet/resourceexecutor"
		files := e.dir(d)
		// 1. registry
		reg := map[string]string{}
		for _, f := range files {
			for _, dcl := range f.Decls {
				fd, ok := dcl.(*ast.FuncDecl)
				if !ok || fd.Name.Name != "init" || fd.Recv != nil || fd.Body == nil {
					continue
				}
				for _, st := range fd.Body.List {
					es, ok := st.(*ast.ExprStmt)
					if !ok {
						continue
					}
					call, ok := es.X.(*ast.CallExpr)
					if !ok || c12Expr(call.Fun) != "Register" || len(call.Args) < 2 {
						continue
					}
					if sel, ok := call.Fun.(*ast.SelectorExpr); !ok || c12Expr(sel.X) != "DefaultCgroupUpdaterFactory" {
						continue
					}
					ctor := c12Expr(call.Args[0])
					for _, a := range call.Args[1:] {
						n := c12Expr(a)
						if _, dup := reg[n]; dup {
							e.fail("resource %s registered twice", n)
						}
						reg[n] = ctor
					}
				}
			}
		}
		if len(reg) == 0 {
			e.fail("no DefaultCgroupUpdaterFactory.Register call found")
		}
		names := make([]string, 0, len(reg))
		for n := range reg {
			names = append(names, n)
		}
		sort.Strings(names)
		fmt.Fprintf(&e.out, "def registry : List (String × String) := [\n")
		for i, n := range names {
			sep := ","
			if i == len(names)-1 {
				sep = ""
			}
			fmt.Fprintf(&e.out, "  (%s, %s)%s\n", leanStr(n), leanStr(reg[n]), sep)
		}
		fmt.Fprintf(&e.out, "]\n\n")

		// 2. the two sweeps of LeveledUpdateBatch
		var passes []string
		if fd := e.funcDecl(d, "ResourceUpdateExecutorImpl", "LeveledUpdateBatch"); fd == nil || fd.Body == nil {
			e.fail("LeveledUpdateBatch not found")
		} else {
			for _, st := range fd.Body.List {
				fs, ok := st.(*ast.ForStmt)
				if !ok {
					continue
				}
				asc := "false"
				if p, ok := fs.Post.(*ast.IncDecStmt); ok && p.Tok == token.INC {
					asc = "true"
				} else if !ok || p.Tok != token.DEC {
					e.fail("unexpected loop post statement in LeveledUpdateBatch")
				}
				fwd := "false"
				var calls []string
				needFirst := false
				for _, in := range fs.Body.List {
					var innerBody *ast.BlockStmt
					switch lp := in.(type) {
					case *ast.RangeStmt:
						fwd = "true" // `for _, updater := range updaters[i]` iterates forward
						innerBody = lp.Body
					case *ast.ForStmt:
						// `for j := len(updaters[i]) - 1; j >= 0; j--` iterates backwards, `for j := 0; …; j++` forwards
						if p, ok := lp.Post.(*ast.IncDecStmt); ok && p.Tok == token.DEC {
							fwd = "false"
						} else if ok && p.Tok == token.INC {
							fwd = "true"
						} else {
							e.fail("unexpected inner loop in LeveledUpdateBatch")
						}
						innerBody = lp.Body
					default:
						continue
					}
					ast.Inspect(innerBody, func(n ast.Node) bool {
						c, ok := n.(*ast.CallExpr)
						if !ok {
							return true
						}
						if s, ok := c.Fun.(*ast.SelectorExpr); ok {
							switch s.Sel.Name {
							case "needUpdate":
								if len(calls) == 0 {
									needFirst = true
								}
							case "MergeUpdate", "update":
								if id, ok := s.X.(*ast.Ident); ok && id.Name == "updater" {
									calls = append(calls, s.Sel.Name)
								}
							}
						}
						return true
					})
				}
				if !needFirst {
					e.fail("needUpdate is not consulted before the updater call")
				}
				passes = append(passes, fmt.Sprintf("(%s, %s, %s)", asc, leanStr(strings.Join(calls, "+")), fwd))
			}
		}
		// 2b. skeleton of each sweep body: which statements end in `continue` and where the cache is set, in order.
		//     "if:<cond>:continue" / "call:<lhs>=<call>" / "cache" (ResourceCache.SetDefault) / "if:<cond>" / "other"
		var skel []string
		if fd := e.funcDecl(d, "ResourceUpdateExecutorImpl", "LeveledUpdateBatch"); fd != nil && fd.Body != nil {
			c12SetParams(fd)
			for _, st := range fd.Body.List {
				fs, ok := st.(*ast.ForStmt)
				if !ok {
					continue
				}
				var items []string
				for _, in := range fs.Body.List {
					var innerBody *ast.BlockStmt
					switch lp := in.(type) {
					case *ast.RangeStmt:
						innerBody = lp.Body
					case *ast.ForStmt:
						innerBody = lp.Body
					default:
						continue
					}
					for _, b := range innerBody.List {
						// `updater := updaters[i][j]` of an index loop only binds the loop variable
						if as, ok := b.(*ast.AssignStmt); ok && as.Tok == token.DEFINE && len(as.Rhs) == 1 {
							if _, ok := as.Rhs[0].(*ast.IndexExpr); ok {
								continue
							}
						}
						switch v := b.(type) {
						case *ast.IfStmt:
							it := "if:" + c12ExprL(v.Cond)
							if n := len(v.Body.List); n > 0 {
								if br, ok := v.Body.List[n-1].(*ast.BranchStmt); ok && br.Tok == token.CONTINUE {
									it += ":continue"
								}
							}
							items = append(items, it)
						case *ast.AssignStmt:
							if len(v.Rhs) == 1 {
								if c, ok := v.Rhs[0].(*ast.CallExpr); ok {
									cs := c12ExprL(c)
									if strings.HasPrefix(cs, "SetDefault(") {
										items = append(items, "cache")
									} else {
										items = append(items, "call:"+cs)
									}
									continue
								}
							}
							items = append(items, "other")
						case *ast.ExprStmt:
							if c, ok := v.X.(*ast.CallExpr); ok {
								cs := c12Expr(c)
								if strings.HasPrefix(cs, "Infof(") || strings.HasPrefix(cs, "Info(") {
									continue // log line
								}
								items = append(items, "do:"+c12Expr(c.Fun))
								continue
							}
							items = append(items, "other")
						default:
							items = append(items, "other")
						}
					}
				}
				skel = append(skel, c12StrList(items))
			}
		}
		fmt.Fprintf(&e.out, "/-- statement skeleton of the body of each sweep of LeveledUpdateBatch -/\n")
		fmt.Fprintf(&e.out, "def passSkeleton : List (List String) := [%s]\n\n", strings.Join(skel, ",\n  "))
		// isUpdateErrIgnored: the predicates that make an error ignored
		var ign []string
		if fd := e.funcDecl(d, "ResourceUpdateExecutorImpl", "isUpdateErrIgnored"); fd == nil || fd.Body == nil {
			e.fail("isUpdateErrIgnored not found")
		} else {
			c12SetParams(fd)
			for _, st := range fd.Body.List {
				if is, ok := st.(*ast.IfStmt); ok {
					ign = append(ign, c12ExprL(is.Cond))
				}
			}
		}
		fmt.Fprintf(&e.out, "def ignoredErrConds : List String := %s\n\n", c12StrList(ign))
		fmt.Fprintf(&e.out, "/-- (level index ascending, updater method called, levels iterated forward) -/\n")
		fmt.Fprintf(&e.out, "def passes : List (Bool × String × Bool) := [%s]\n\n", strings.Join(passes, ", "))

		// 3. MergeFuncUpdateCgroup: the returned (= cached) updater carries what the file holds
		writeOK, skipOK := false, false
		if fd := e.funcDecl(d, "", "MergeFuncUpdateCgroup"); fd == nil || fd.Body == nil {
			e.fail("MergeFuncUpdateCgroup not found")
		} else {
			// value assignments `<id>.value = <rhs>` by block
			valueOf := func(list []ast.Stmt) map[string]string {
				m := map[string]string{}
				for _, st := range list {
					if as, ok := st.(*ast.AssignStmt); ok && len(as.Lhs) == 1 && len(as.Rhs) == 1 {
						if s, ok := as.Lhs[0].(*ast.SelectorExpr); ok && s.Sel.Name == "value" {
							m[c12Expr(s.X)] = c12Expr(as.Rhs[0])
						}
					}
				}
				return m
			}
			retOf := func(list []ast.Stmt) *ast.ReturnStmt {
				if len(list) == 0 {
					return nil
				}
				r, _ := list[len(list)-1].(*ast.ReturnStmt)
				return r
			}
			top := valueOf(fd.Body.List)
			if r := retOf(fd.Body.List); r != nil && len(r.Results) == 2 {
				// the updater returned after the write carries mergedValue (where the write call sits is irrelevant)
				writeOK = top[c12Expr(r.Results[0])] == "mergedValue"
			}
			for _, st := range fd.Body.List {
				is, ok := st.(*ast.IfStmt)
				if !ok || c12Expr(is.Cond) != "!needMerge" {
					continue
				}
				in := valueOf(is.Body.List)
				if r := retOf(is.Body.List); r != nil && len(r.Results) == 2 {
					skipOK = in[c12Expr(r.Results[0])] == "oldStr" && c12Expr(r.Results[1]) == "nil"
				}
			}
		}
		// 4. applyCPUSetWithNonePolicy: the unconditional top-level writeBECgroupsCPUSet calls, as
		//    (value is the merged set?, isReversed); a guarded call is not listed.
		var np []string
		if fd := e.funcDecl("pkg/koordlet/qosmanager/plugins/cpusuppress", "CPUSuppress", "applyCPUSetWithNonePolicy"); fd == nil || fd.Body == nil {
			e.fail("applyCPUSetWithNonePolicy not found")
		} else {
			// which local holds GenerateCPUSetStr(<merged>) where <merged> := MergeCPUSet(oldCPUSet, cpus)
			mergedVar, mergedStr := "", ""
			for _, st := range fd.Body.List {
				if as, ok := st.(*ast.AssignStmt); ok && len(as.Lhs) == 1 && len(as.Rhs) == 1 {
					rhs := c12Expr(as.Rhs[0])
					if rhs == "MergeCPUSet(oldCPUSet,cpus)" {
						mergedVar = c12Expr(as.Lhs[0])
					}
					if mergedVar != "" && rhs == "GenerateCPUSetStr("+mergedVar+")" {
						mergedStr = c12Expr(as.Lhs[0])
					}
				}
			}
			nested := 0
			ast.Inspect(fd.Body, func(n ast.Node) bool {
				if c, ok := n.(*ast.CallExpr); ok && c12Expr(c.Fun) == "writeBECgroupsCPUSet" {
					nested++
				}
				return true
			})
			for _, st := range fd.Body.List {
				es, ok := st.(*ast.ExprStmt)
				if !ok {
					continue
				}
				c, ok := es.X.(*ast.CallExpr)
				if !ok || c12Expr(c.Fun) != "writeBECgroupsCPUSet" || len(c.Args) != 3 {
					continue
				}
				np = append(np, fmt.Sprintf("(%v, %s)", mergedStr != "" && c12Expr(c.Args[1]) == mergedStr, c12Expr(c.Args[2])))
			}
			if nested != len(np) {
				np = append(np, "(false, false) /- a writeBECgroupsCPUSet call is conditional -/")
			}
		}
		fmt.Fprintf(&e.out, "/-- applyCPUSetWithNonePolicy: (writes the merged set?, isReversed) per unconditional sweep -/\n")
		fmt.Fprintf(&e.out, "def nonePolicySweeps : List (Bool × Bool) := [%s]\n\n", strings.Join(np, ", "))
		// 5. applyBESuppressCPUSet: early-return guards, the condition of the policy branch, and the calls of
		//    its two arms in source order; the sweeps of recoverCPUSetIfNeed / applyCPUSetWithStaticPolicy; depths.
		cs := "pkg/koordlet/qosmanager/plugins/cpusuppress"
		var guards, thenCalls, elseCalls []string
		cond := ""
		if fd := e.funcDecl(cs, "CPUSuppress", "applyBESuppressCPUSet"); fd == nil || fd.Body == nil {
			e.fail("applyBESuppressCPUSet not found")
		} else {
			c12SetParams(fd)
			for _, st := range fd.Body.List {
				is, ok := st.(*ast.IfStmt)
				if !ok {
					continue
				}
				if is.Else == nil {
					if cond == "" && len(is.Body.List) > 0 {
						if _, ret := is.Body.List[len(is.Body.List)-1].(*ast.ReturnStmt); ret {
							guards = append(guards, c12ExprL(is.Cond)) // guard before the policy branch
						}
					}
					continue
				}
				if cond != "" {
					e.fail("applyBESuppressCPUSet: more than one if/else")
				}
				cond = c12ExprL(is.Cond)
				thenCalls = c12Calls(is.Body.List)
				if eb, ok := is.Else.(*ast.BlockStmt); ok {
					elseCalls = c12Calls(eb.List)
				} else {
					e.fail("applyBESuppressCPUSet: else-if chain")
				}
			}
		}
		fmt.Fprintf(&e.out, "/-- applyBESuppressCPUSet: returning guards before the policy branch, its condition, calls of the two arms -/\n")
		fmt.Fprintf(&e.out, "def suppressGuards : List String := %s\n", c12StrList(guards))
		fmt.Fprintf(&e.out, "def suppressCond : String := %s\n", leanStr(cond))
		fmt.Fprintf(&e.out, "def suppressStaticCalls : List String := %s\n", c12StrList(thenCalls))
		fmt.Fprintf(&e.out, "def suppressElseCalls : List String := %s\n\n", c12StrList(elseCalls))
		for _, fn := range []struct{ name, lean string }{{"recoverCPUSetIfNeed", "recoverSweeps"}, {"applyCPUSetWithStaticPolicy", "staticSweeps"}} {
			var sw []string
			firstGuard := ""
			if fd := e.funcDecl(cs, "CPUSuppress", fn.name); fd == nil || fd.Body == nil {
				e.fail("%s not found", fn.name)
			} else {
				sw = c12Sweeps(fd)
				if len(fd.Body.List) > 0 {
					if is, ok := fd.Body.List[0].(*ast.IfStmt); ok {
						firstGuard = c12ExprL(is.Cond)
					}
				}
			}
			fmt.Fprintf(&e.out, "/-- %s: writeBECgroupsCPUSet calls as paths|value|isReversed -/\n", fn.name)
			fmt.Fprintf(&e.out, "def %s : List String := %s\n", fn.lean, c12StrList(sw))
			if fn.name == "applyCPUSetWithStaticPolicy" {
				fmt.Fprintf(&e.out, "def staticFirstGuard : String := %s\n", leanStr(firstGuard))
			}
		}
		e.constInt("pkg/koordlet/util", "PodCgroupPathRelativeDepth", "podDepthConst")
		e.constInt("pkg/koordlet/util", "ContainerCgroupPathRelativeDepth", "ctrDepthConst")
		// GetBECPUSetPathsByMaxDepth keeps `<= absDepth`, GetCgroupPathsByTargetDepth keeps `== absDepth`
		for _, fn := range []struct{ name, lean string }{{"GetBECPUSetPathsByMaxDepth", "maxDepthCmp"}, {"GetCgroupPathsByTargetDepth", "targetDepthCmp"}} {
			op := ""
			if fd := e.funcDecl("pkg/koordlet/util", "", fn.name); fd == nil || fd.Body == nil {
				e.fail("%s not found", fn.name)
			} else {
				ast.Inspect(fd.Body, func(n ast.Node) bool {
					// the comparison of the walked path's separator count: strings.Count(path, sep) <op> <depth>
					if b, ok := n.(*ast.BinaryExpr); ok && strings.HasPrefix(c12Expr(b.X), "Count(") {
						if b.Op == token.LEQ || b.Op == token.EQL || b.Op == token.LSS || b.Op == token.GEQ || b.Op == token.GTR || b.Op == token.NEQ {
							op += b.Op.String()
						}
					}
					return true
				})
			}
			fmt.Fprintf(&e.out, "def %s : String := %s\n", fn.lean, leanStr(op))
		}
		// 5b. adjustByCPUSet: where the OLD cpuset handed to applyBESuppressCPUSet comes from (2nd argument, resolved
		//     through the function's local definitions; receivers / package qualifiers that are plain identifiers are
		//     dropped), the guard between the read and the rest, and the cpuset file the two cgroup readers read.
		adjOld, adjCalls, adjAssigns := "", 0, 0
		if fd := e.funcDecl(cs, "CPUSuppress", "adjustByCPUSet"); fd == nil || fd.Body == nil {
			e.fail("adjustByCPUSet not found")
		} else {
			def := map[string]ast.Expr{}
			for _, st := range fd.Body.List {
				if as, ok := st.(*ast.AssignStmt); ok && len(as.Rhs) == 1 && len(as.Lhs) >= 1 {
					if id, ok := as.Lhs[0].(*ast.Ident); ok {
						if _, dup := def[id.Name]; !dup {
							def[id.Name] = as.Rhs[0]
						}
					}
				}
			}
			var res func(x ast.Expr, depth int) string
			res = func(x ast.Expr, depth int) string {
				switch v := x.(type) {
				case *ast.Ident:
					if d, ok := def[v.Name]; ok && depth < 8 {
						return res(d, depth+1)
					}
					return v.Name
				case *ast.SelectorExpr:
					if id, ok := v.X.(*ast.Ident); ok {
						if _, local := def[id.Name]; !local {
							return v.Sel.Name
						}
					}
					return res(v.X, depth) + "." + v.Sel.Name
				case *ast.CallExpr:
					var as []string
					for _, a := range v.Args {
						as = append(as, res(a, depth))
					}
					return res(v.Fun, depth) + "(" + strings.Join(as, ",") + ")"
				}
				return c12Expr(x)
			}
			oldName := ""
			ast.Inspect(fd.Body, func(n ast.Node) bool {
				if c, ok := n.(*ast.CallExpr); ok && c12Expr(c.Fun) == "applyBESuppressCPUSet" && len(c.Args) == 2 {
					adjCalls++
					adjOld = res(c.Args[1], 0)
					if id, ok := c.Args[1].(*ast.Ident); ok {
						oldName = id.Name
					}
				}
				return true
			})
			// every assignment to that variable anywhere in the body (nested blocks included): it is set exactly once
			ast.Inspect(fd.Body, func(n ast.Node) bool {
				if as, ok := n.(*ast.AssignStmt); ok && oldName != "" {
					for _, l := range as.Lhs {
						if id, ok := l.(*ast.Ident); ok && id.Name == oldName {
							adjAssigns++
						}
					}
				}
				return true
			})
			if adjCalls != 1 {
				e.fail("adjustByCPUSet: %d calls of applyBESuppressCPUSet", adjCalls)
			}
		}
		fmt.Fprintf(&e.out, "/-- adjustByCPUSet: the oldCPUSet argument of its applyBESuppressCPUSet call, resolved through the local definitions -/\n")
		fmt.Fprintf(&e.out, "def adjustOldSource : String := %s\n", leanStr(adjOld))
		fmt.Fprintf(&e.out, "/-- adjustByCPUSet: number of assignments (anywhere in the body) to the variable passed as oldCPUSet -/\n")
		fmt.Fprintf(&e.out, "def adjustOldAssignments : Nat := %d\n", adjAssigns)
		fmt.Fprintf(&e.out, "\n")
		fmt.Fprintf(&e.out, "def mergeWriteCachesWritten : Bool := %v\n", writeOK)
		fmt.Fprintf(&e.out, "def mergeSkipCachesOld : Bool := %v\n", skipOK)

		// 6. who hands updaters to LeveledUpdateBatch (outside resourceexecutor), what the levels are and where the
		//    level slices are filled from: "<dir>:<func>" -> "<source of level 0>,<source of level 1>,..."
		var callers []string
		_ = filepath.Walk(filepath.Join(e.repo, "pkg/koordlet"), func(p string, info os.FileInfo, err error) error {
			if err != nil || !info.IsDir() {
				return nil
			}
			rel, _ := filepath.Rel(e.repo, p)
			if rel == "pkg/koordlet/resourceexecutor" {
				return nil
			}
			fnames := make([]string, 0)
			fm := e.dir(rel)
			for n := range fm {
				fnames = append(fnames, n)
			}
			sort.Strings(fnames)
			for _, n := range fnames {
				for _, dcl := range fm[n].Decls {
					fd, ok := dcl.(*ast.FuncDecl)
					if !ok || fd.Body == nil {
						continue
					}
					var arg ast.Expr
					ncalls := 0
					ast.Inspect(fd.Body, func(x ast.Node) bool {
						if c, ok := x.(*ast.CallExpr); ok {
							if sl, ok := c.Fun.(*ast.SelectorExpr); ok && sl.Sel.Name == "LeveledUpdateBatch" && len(c.Args) == 1 {
								arg = c.Args[0]
								ncalls++
							}
						}
						return true
					})
					if ncalls == 0 {
						continue
					}
					if ncalls > 1 {
						e.fail("%s:%s calls LeveledUpdateBatch %d times", rel, fd.Name.Name, ncalls)
					}
					// resolve an identifier argument to the composite literal it was assigned
					if id, ok := arg.(*ast.Ident); ok {
						ast.Inspect(fd.Body, func(x ast.Node) bool {
							if as, ok := x.(*ast.AssignStmt); ok && len(as.Lhs) == 1 && len(as.Rhs) == 1 {
								if l, ok := as.Lhs[0].(*ast.Ident); ok && l.Name == id.Name {
									arg = as.Rhs[0]
								}
							}
							return true
						})
					}
					// every level is described by where its updaters come from, not by the name of the local slice:
					//   "<Type>.GetUpdaters" : filled by append(level, x.GetUpdaters()...) with x := &pkg.<Type>{}
					//   "<callee>#<i>"       : the i-th result of one call
					var descr []string
					typeOf := func(name string) string {
						t := "?"
						ast.Inspect(fd.Body, func(x ast.Node) bool {
							if as, ok := x.(*ast.AssignStmt); ok && len(as.Lhs) == 1 && len(as.Rhs) == 1 {
								if l, ok := as.Lhs[0].(*ast.Ident); ok && l.Name == name {
									if u, ok := as.Rhs[0].(*ast.UnaryExpr); ok && u.Op == token.AND {
										if cl, ok := u.X.(*ast.CompositeLit); ok {
											t = c12Expr(cl.Type)
										}
									}
								}
							}
							return true
						})
						return t
					}
					if cl, ok := arg.(*ast.CompositeLit); ok {
						for _, el := range cl.Elts {
							ln := c12Full(el)
							var src []string
							ast.Inspect(fd.Body, func(x ast.Node) bool {
								as, ok := x.(*ast.AssignStmt)
								if !ok || len(as.Rhs) != 1 {
									return true
								}
								c, ok := as.Rhs[0].(*ast.CallExpr)
								if !ok {
									return true
								}
								if len(as.Lhs) == 1 && c12Full(as.Lhs[0]) == ln && c12Expr(c.Fun) == "append" && len(c.Args) == 2 {
									d := c12Full(c.Args[1])
									if ic, ok := c.Args[1].(*ast.CallExpr); ok {
										if sl, ok := ic.Fun.(*ast.SelectorExpr); ok {
											if id, ok := sl.X.(*ast.Ident); ok {
												d = typeOf(id.Name) + "." + sl.Sel.Name
											}
										}
									}
									src = append(src, d)
								} else if len(as.Lhs) > 1 {
									for i, l := range as.Lhs {
										if c12Full(l) == ln {
											src = append(src, fmt.Sprintf("%s#%d", c12Expr(c.Fun), i))
										}
									}
								}
								return true
							})
							if len(src) == 0 {
								src = []string{"?"}
							}
							descr = append(descr, strings.Join(src, "+"))
						}
					} else {
						descr = []string{"?"}
					}
					levels := strings.Join(descr, ",")
					fills := []string{}
					_ = fills
					callers = append(callers, fmt.Sprintf("(%s, %s)", leanStr(rel+":"+fd.Name.Name), leanStr(levels)))
				}
			}
			return nil
		})
		sort.Strings(callers)
		fmt.Fprintf(&e.out, "\n/-- callers of LeveledUpdateBatch: (dir:func, sources of the levels) -/\n")
		fmt.Fprintf(&e.out, "def leveledCallers : List (String × String) := [%s]\n", strings.Join(callers, ",\n  "))

		// 7. runtimehooks/protocol: the constructor behind every inject* helper ("factory:<resource>" = DefaultCgroupUpdaterFactory.New)
		//    and which helper serves which Response.Resources field in the pod / container contexts
		pd := "pkg/koordlet/runtimehooks/protocol"
		var injects []string
		{
			var names []string
			byName := map[string]string{}
			for _, f := range e.dir(pd) {
				for _, dcl := range f.Decls {
					fd, ok := dcl.(*ast.FuncDecl)
					if !ok || fd.Body == nil || fd.Recv != nil || !strings.HasPrefix(fd.Name.Name, "inject") {
						continue
					}
					ctor := ""
					n := 0
					ast.Inspect(fd.Body, func(x ast.Node) bool {
						as, ok := x.(*ast.AssignStmt)
						if !ok || len(as.Rhs) != 1 {
							return true
						}
						c, ok := as.Rhs[0].(*ast.CallExpr)
						if !ok {
							return true
						}
						full := c12Full(c.Fun)
						if !strings.HasPrefix(full, "resourceexecutor.") {
							return true
						}
						n++
						if full == "resourceexecutor.DefaultCgroupUpdaterFactory.New" && len(c.Args) > 0 {
							ctor = "factory:" + c12Expr(c.Args[0])
						} else {
							ctor = c12Expr(c.Fun)
						}
						return true
					})
					if n != 1 {
						e.fail("%s: %d resourceexecutor constructor calls", fd.Name.Name, n)
					}
					names = append(names, fd.Name.Name)
					byName[fd.Name.Name] = ctor
				}
			}
			sort.Strings(names)
			for _, n := range names {
				injects = append(injects, fmt.Sprintf("(%s, %s)", leanStr(n), leanStr(byName[n])))
			}
		}
		fmt.Fprintf(&e.out, "/-- protocol.go inject helpers: (helper, constructor) -/\n")
		fmt.Fprintf(&e.out, "def injectCtors : List (String × String) := [%s]\n", strings.Join(injects, ",\n  "))
		var respInj []string
		for _, rc := range []struct{ recv, fn string }{{"PodContext", "injectForExt"}, {"PodContext", "injectForOrigin"},
			{"ContainerContext", "injectForExt"}, {"ContainerContext", "injectForOrigin"}} {
			fd := e.funcDecl(pd, rc.recv, rc.fn)
			if fd == nil || fd.Body == nil {
				e.fail("%s.%s not found", rc.recv, rc.fn)
				continue
			}
			for _, st := range fd.Body.List {
				is, ok := st.(*ast.IfStmt)
				if !ok {
					continue
				}
				b, ok := is.Cond.(*ast.BinaryExpr)
				if !ok || b.Op != token.NEQ || c12Expr(b.Y) != "nil" {
					continue
				}
				field := c12Expr(b.X)
				if field != "CFSQuota" && field != "CPUSet" && field != "MemoryLimit" {
					continue
				}
				var helpers []string
				ast.Inspect(is.Body, func(x ast.Node) bool {
					if c, ok := x.(*ast.CallExpr); ok {
						if id, ok := c.Fun.(*ast.Ident); ok && strings.HasPrefix(id.Name, "inject") {
							helpers = append(helpers, id.Name)
						}
					}
					return true
				})
				respInj = append(respInj, fmt.Sprintf("(%s, %s)", leanStr(rc.recv+"."+field), leanStr(strings.Join(helpers, "+"))))
			}
		}
		sort.Strings(respInj)
		fmt.Fprintf(&e.out, "/-- which helper builds the updater of a Response.Resources field: (Context.Field, helper) -/\n")
		fmt.Fprintf(&e.out, "def responseInjects : List (String × String) := [%s]\n", strings.Join(respInj, ", "))

		// 8. cgreconcile makeCgroupResources: the table rows (resource, isMergeable), the condition choosing the
		//    constructor, and the two constructors
		var rows []string
		kindCond, thenCtor, elseCtor := "", "", ""
		if fd := e.funcDecl("pkg/koordlet/qosmanager/plugins/cgreconcile", "", "makeCgroupResources"); fd == nil || fd.Body == nil {
			e.fail("makeCgroupResources not found")
		} else {
			c12SetParams(fd)
			for _, st := range fd.Body.List {
				rs, ok := st.(*ast.RangeStmt)
				if !ok {
					continue
				}
				if cl, ok := rs.X.(*ast.CompositeLit); ok {
					for _, el := range cl.Elts {
						row, ok := el.(*ast.CompositeLit)
						if !ok {
							e.fail("makeCgroupResources: unexpected table row")
							continue
						}
						name, mg := "?", "false"
						for _, kv := range row.Elts {
							if k, ok := kv.(*ast.KeyValueExpr); ok {
								switch c12Expr(k.Key) {
								case "resourceType":
									name = c12Expr(k.Value)
								case "isMergeable":
									mg = c12Expr(k.Value)
								}
							}
						}
						rows = append(rows, fmt.Sprintf("(%s, %s)", leanStr(name), mg))
					}
				} else {
					e.fail("makeCgroupResources: table is not a literal")
				}
				ctorOf := func(list []ast.Stmt) string {
					var cs []string
					for _, s := range list {
						if as, ok := s.(*ast.AssignStmt); ok && len(as.Rhs) == 1 {
							if c, ok := as.Rhs[0].(*ast.CallExpr); ok && strings.HasPrefix(c12Full(c.Fun), "resourceexecutor.") {
								cs = append(cs, c12Expr(c.Fun))
							}
						}
					}
					return strings.Join(cs, "+")
				}
				nIf := 0
				for _, b := range rs.Body.List {
					if is, ok := b.(*ast.IfStmt); ok && is.Else != nil {
						nIf++
						kindCond = c12ExprL(is.Cond)
						thenCtor = ctorOf(is.Body.List)
						if eb, ok := is.Else.(*ast.BlockStmt); ok {
							elseCtor = ctorOf(eb.List)
						}
					}
				}
				if nIf != 1 {
					e.fail("makeCgroupResources: %d if/else statements in the loop", nIf)
				}
			}
		}
		fmt.Fprintf(&e.out, "/-- cgreconcile makeCgroupResources: table rows (resource, isMergeable); constructor choice -/\n")
		fmt.Fprintf(&e.out, "def cgrTable : List (String × Bool) := [%s]\n", strings.Join(rows, ", "))
		fmt.Fprintf(&e.out, "def cgrKindCond : String := %s\n", leanStr(kindCond))
		fmt.Fprintf(&e.out, "def cgrThenCtor : String := %s\n", leanStr(thenCtor))
		fmt.Fprintf(&e.out, "def cgrElseCtor : String := %s\n", leanStr(elseCtor))
	}
}
