package main

import (
	"fmt"
	"go/ast"
	"go/token"
	"sort"
	"strconv"
)

// C01: syntactic facts of group_quota_manager.go that the model / the atomicity assumption rely on.
//  * both delta entry points take the whole path lock (defer scopedLockForQuotaInfo(...)()) BEFORE the first mutation;
//  * scopedLockForQuotaInfo locks in one fixed direction (descending index = root first);
//  * deleteQuotaNoLock hands back getLimitRequestNoLock() (not the raw Request) to the parent;
//  * the delta calls of updateQuotaNoLockWhenParentChange, deleteQuotaNoLock, updatePodRequestNoLock,
//    updatePodUsedNoLock and the rebuild carry the self indices the model uses;
//  * the request floor of a group that does not lend is CalculateInfo.Min (the DECLARED min), never the scaled
//    CalculateInfo.AutoScaleMin: operand of the floor in the delta path and in the min-update path, the only two
//    writers of CalculateInfo.Request in the package; the rebuild goes through the delta path (selfIdx_rebuild…)
//    and resets AutoScaleMin to Min; no method that writes Request mentions AutoScaleMin.
func init() {
	extractors["C01"] = func(e *ext) {
		dir := "pkg/scheduler/plugins/elasticquota/core"
		recv := "GroupQuotaManager"

		callName := func(c *ast.CallExpr) string {
			switch f := c.Fun.(type) {
			case *ast.SelectorExpr:
				return f.Sel.Name
			case *ast.Ident:
				return f.Name
			}
			return ""
		}
		// position of the first call (anywhere, incl. inside defer) of one of the names
		firstCall := func(fd *ast.FuncDecl, names ...string) token.Pos {
			pos := token.NoPos
			ast.Inspect(fd.Body, func(n ast.Node) bool {
				if c, ok := n.(*ast.CallExpr); ok {
					for _, nm := range names {
						if callName(c) == nm && (pos == token.NoPos || c.Pos() < pos) {
							pos = c.Pos()
						}
					}
				}
				return true
			})
			return pos
		}
		// position of `defer gqm.scopedLockForQuotaInfo(x)()`
		deferLock := func(fd *ast.FuncDecl) token.Pos {
			pos := token.NoPos
			ast.Inspect(fd.Body, func(n ast.Node) bool {
				if d, ok := n.(*ast.DeferStmt); ok {
					if inner, ok := d.Call.Fun.(*ast.CallExpr); ok && callName(inner) == "scopedLockForQuotaInfo" {
						if pos == token.NoPos || d.Pos() < pos {
							pos = d.Pos()
						}
					}
				}
				return true
			})
			return pos
		}
		lockFirst := func(fn string, muts ...string) bool {
			fd := e.funcDecl(dir, recv, fn)
			if fd == nil || fd.Body == nil {
				e.fail("%s not found", fn)
				return false
			}
			l, m := deferLock(fd), firstCall(fd, muts...)
			if m == token.NoPos {
				e.fail("%s: no mutation call found", fn)
				return false
			}
			return l != token.NoPos && l < m
		}
		fmt.Fprintf(&e.out, "/-- the path lock is taken (deferred unlock) before the first mutation -/\n")
		fmt.Fprintf(&e.out, "def lockBeforeMutationReq : Bool := %v\n", lockFirst("updateGroupDeltaRequestNoLock", "recursiveUpdateGroupTreeWithDeltaRequest"))
		fmt.Fprintf(&e.out, "def lockBeforeMutationUsed : Bool := %v\n", lockFirst("updateGroupDeltaUsedNoLock", "addUsedNonNegativeNoLock", "recursiveUpdateGroupTreeWithDeltaAllocated"))
		fmt.Fprintf(&e.out, "def lockBeforeMutationMax : Bool := %v\n", lockFirst("doUpdateOneGroupMaxQuotaNoLock", "setMaxNoLock", "recursiveUpdateGroupTreeWithDeltaRequest"))
		fmt.Fprintf(&e.out, "def lockBeforeMutationMin : Bool := %v\n", lockFirst("doUpdateOneGroupMinQuotaNoLock", "setMinNoLock", "recursiveUpdateGroupTreeWithDeltaRequest"))

		// scopedLockForQuotaInfo: first loop locks with a descending index
		desc := false
		if fd := e.funcDecl(dir, recv, "scopedLockForQuotaInfo"); fd != nil && fd.Body != nil {
			for _, st := range fd.Body.List {
				if fs, ok := st.(*ast.ForStmt); ok {
					if inc, ok := fs.Post.(*ast.IncDecStmt); ok && inc.Tok == token.DEC && firstCallIn(fs.Body, "Lock") {
						desc = true
					}
					break
				}
			}
		} else {
			e.fail("scopedLockForQuotaInfo not found")
		}
		fmt.Fprintf(&e.out, "/-- scopedLockForQuotaInfo acquires the locks with a descending index (root first) -/\n")
		fmt.Fprintf(&e.out, "def lockLoopDescending : Bool := %v\n\n", desc)

		// deleteQuotaNoLock: what is subtracted from the parent
		what := "?"
		if fd := e.funcDecl(dir, recv, "deleteQuotaNoLock"); fd != nil && fd.Body != nil {
			ast.Inspect(fd.Body, func(n ast.Node) bool {
				as, ok := n.(*ast.AssignStmt)
				if !ok || len(as.Lhs) != 1 || len(as.Rhs) != 1 || what != "?" {
					return true
				}
				if id, ok := as.Lhs[0].(*ast.Ident); !ok || id.Name != "deltaReq" {
					return true
				}
				c, ok := as.Rhs[0].(*ast.CallExpr)
				if !ok || callName(c) != "Subtract" || len(c.Args) != 2 {
					return true
				}
				switch a := c.Args[1].(type) {
				case *ast.CallExpr:
					what = callName(a)
				case *ast.SelectorExpr:
					what = a.Sel.Name
				}
				return true
			})
		} else {
			e.fail("deleteQuotaNoLock not found")
		}
		fmt.Fprintf(&e.out, "/-- second argument of quotav1.Subtract in `deltaReq := …` of deleteQuotaNoLock -/\n")
		fmt.Fprintf(&e.out, "def deleteSubtracts : String := %s\n\n", leanStr(what))

		// self indices of the delta calls, in source order
		selfIdx := func(fn string) {
			fd := e.funcDecl(dir, recv, fn)
			fmt.Fprintf(&e.out, "def selfIdx_%s : List (String × Int) := [", fn)
			if fd == nil || fd.Body == nil {
				e.fail("%s not found", fn)
				fmt.Fprintf(&e.out, "]\n")
				return
			}
			first := true
			ast.Inspect(fd.Body, func(n ast.Node) bool {
				c, ok := n.(*ast.CallExpr)
				if !ok {
					return true
				}
				nm := callName(c)
				if nm != "updateGroupDeltaRequestNoLock" && nm != "updateGroupDeltaUsedNoLock" || len(c.Args) != 4 {
					return true
				}
				v := int64(99)
				switch a := c.Args[3].(type) {
				case *ast.BasicLit:
					v, _ = strconv.ParseInt(a.Value, 10, 64)
				case *ast.UnaryExpr:
					if bl, ok := a.X.(*ast.BasicLit); ok && a.Op == token.SUB {
						v, _ = strconv.ParseInt(bl.Value, 10, 64)
						v = -v
					}
				}
				if !first {
					fmt.Fprintf(&e.out, ", ")
				}
				first = false
				kind := "request"
				if nm == "updateGroupDeltaUsedNoLock" {
					kind = "used"
				}
				fmt.Fprintf(&e.out, "(%s, (%d))", leanStr(kind), v)
				return true
			})
			fmt.Fprintf(&e.out, "]\n")
		}
		for _, fn := range []string{"updateQuotaNoLockWhenParentChange", "deleteQuotaNoLock", "updatePodRequestNoLock", "updatePodUsedNoLock", "rebuildAllGroupQuotaNoLock"} {
			selfIdx(fn)
		}


		// ---- the request floor of a non-lending group: operand of the min-raise ----
		selName := func(x ast.Expr) string {
			if se, ok := x.(*ast.SelectorExpr); ok {
				if in, ok := se.X.(*ast.SelectorExpr); ok && in.Sel.Name == "CalculateInfo" {
					return se.Sel.Name
				}
				return "?." + se.Sel.Name
			}
			return "?"
		}
		// the `if !x.AllowLentResource { … }` statements of a function
		notLendIfs := func(fd *ast.FuncDecl) []*ast.IfStmt {
			var out []*ast.IfStmt
			ast.Inspect(fd.Body, func(n ast.Node) bool {
				is, ok := n.(*ast.IfStmt)
				if !ok {
					return true
				}
				if u, ok := is.Cond.(*ast.UnaryExpr); ok && u.Op == token.NOT {
					if se, ok := u.X.(*ast.SelectorExpr); ok && se.Sel.Name == "AllowLentResource" {
						out = append(out, is)
					}
				}
				return true
			})
			return out
		}
		floorDelta, floorMinUpd := "?", "?"
		if fd := e.funcDecl(dir, recv, "recursiveUpdateGroupTreeWithDeltaRequest"); fd != nil && fd.Body != nil {
			ifs := notLendIfs(fd)
			if len(ifs) != 1 {
				e.fail("recursiveUpdateGroupTreeWithDeltaRequest: %d `if !AllowLentResource` statements", len(ifs))
			} else {
				n := 0
				ast.Inspect(ifs[0].Body, func(x ast.Node) bool {
					if rs, ok := x.(*ast.RangeStmt); ok {
						n++
						floorDelta = selName(rs.X)
					}
					return true
				})
				if n != 1 {
					floorDelta = "?"
				}
			}
		} else {
			e.fail("recursiveUpdateGroupTreeWithDeltaRequest not found")
		}
		if fd := e.funcDecl(dir, recv, "doUpdateOneGroupMinQuotaNoLock"); fd != nil && fd.Body != nil {
			ifs := notLendIfs(fd)
			if len(ifs) != 1 {
				e.fail("doUpdateOneGroupMinQuotaNoLock: %d `if !AllowLentResource` statements", len(ifs))
			} else {
				n := 0
				ast.Inspect(ifs[0].Body, func(x ast.Node) bool {
					if c, ok := x.(*ast.CallExpr); ok && callName(c) == "Max" && len(c.Args) == 2 {
						n++
						floorMinUpd = selName(c.Args[1])
					}
					return true
				})
				if n != 1 {
					floorMinUpd = "?"
				}
			}
		} else {
			e.fail("doUpdateOneGroupMinQuotaNoLock not found")
		}
		// every function / method of the package that assigns `….CalculateInfo.Request`, and every one whose body mentions the
		// field AutoScaleMin at all
		var writers, mentions []string
		for _, f := range e.dir(dir) {
			for _, d := range f.Decls {
				fd, ok := d.(*ast.FuncDecl)
				if !ok || fd.Body == nil {
					continue
				}
				w, m := false, false
				ast.Inspect(fd.Body, func(x ast.Node) bool {
					switch v := x.(type) {
					case *ast.AssignStmt:
						for _, l := range v.Lhs {
							if selName(l) == "Request" {
								w = true
							}
						}
					case *ast.SelectorExpr:
						if v.Sel.Name == "AutoScaleMin" {
							m = true
						}
					case *ast.KeyValueExpr:
						if id, ok := v.Key.(*ast.Ident); ok && id.Name == "AutoScaleMin" {
							m = true
						}
					}
					return true
				})
				if w {
					writers = append(writers, fd.Name.Name)
				}
				if m {
					mentions = append(mentions, fd.Name.Name)
				}
			}
		}
		sort.Strings(writers)
		sort.Strings(mentions)
		strList := func(xs []string) string {
			out := "["
			for i, x := range xs {
				if i > 0 {
					out += ", "
				}
				out += leanStr(x)
			}
			return out + "]"
		}
		// the rebuild: updateOneGroupOriginalMinQuotaNoLock resets the scaled min to …
		rebuildScaled := "?"
		if fd := e.funcDecl(dir, recv, "updateOneGroupOriginalMinQuotaNoLock"); fd != nil && fd.Body != nil {
			ast.Inspect(fd.Body, func(x ast.Node) bool {
				if c, ok := x.(*ast.CallExpr); ok && callName(c) == "setAutoScaleMinQuotaNoLock" && len(c.Args) == 1 {
					rebuildScaled = selName(c.Args[0])
				}
				return true
			})
		} else {
			e.fail("updateOneGroupOriginalMinQuotaNoLock not found")
		}
		fmt.Fprintf(&e.out, "\n/-- operand of the request floor of a group that does not lend (`CalculateInfo.<this>`): the range expression inside\n`if !AllowLentResource` of recursiveUpdateGroupTreeWithDeltaRequest, the second argument of quotav1.Max inside the same `if` of\ndoUpdateOneGroupMinQuotaNoLock -/\n")
		fmt.Fprintf(&e.out, "def requestFloorOperand_delta : String := %s\n", leanStr(floorDelta))
		fmt.Fprintf(&e.out, "def requestFloorOperand_minUpdate : String := %s\n", leanStr(floorMinUpd))
		fmt.Fprintf(&e.out, "/-- the rebuild (updateOneGroupOriginalMinQuotaNoLock) resets AutoScaleMin to `CalculateInfo.<this>` -/\n")
		fmt.Fprintf(&e.out, "def rebuildResetsScaledMinTo : String := %s\n", leanStr(rebuildScaled))
		fmt.Fprintf(&e.out, "/-- every function of the package that assigns `….CalculateInfo.Request` / that mentions the field AutoScaleMin (sorted) -/\n")
		fmt.Fprintf(&e.out, "def requestWriters : List String := %s\n", strList(writers))
		fmt.Fprintf(&e.out, "def autoScaleMinMentions : List String := %s\n", strList(mentions))

		// ---- critical-section structure of the pod handlers (schedules quantifier, Proofs/C01Ext*.lean) ----
		// (a) the hierarchy lock a public entry point takes: the first `gqm.hierarchyUpdateLock.{RLock,Lock}()` call.
		hierLock := func(fn string) string {
			fd := e.funcDecl(dir, recv, fn)
			if fd == nil || fd.Body == nil {
				e.fail("%s not found", fn)
				return "?"
			}
			res, pos := "none", token.NoPos
			ast.Inspect(fd.Body, func(n ast.Node) bool {
				c, ok := n.(*ast.CallExpr)
				if !ok {
					return true
				}
				se, ok := c.Fun.(*ast.SelectorExpr)
				if !ok || (se.Sel.Name != "RLock" && se.Sel.Name != "Lock") {
					return true
				}
				in, ok := se.X.(*ast.SelectorExpr)
				if !ok || in.Sel.Name != "hierarchyUpdateLock" {
					return true
				}
				if pos == token.NoPos || c.Pos() < pos {
					pos, res = c.Pos(), se.Sel.Name
				}
				return true
			})
			return res
		}
		fmt.Fprintf(&e.out, "\n/-- which side of hierarchyUpdateLock an entry point takes (RLock: sections of different handlers interleave; Lock: atomic) -/\n")
		for _, fn := range []string{"OnPodAdd", "OnPodUpdate", "OnPodDelete", "ReservePod", "UnreservePod", "MigratePod", "UpdateQuota", "DeleteQuota", "ResetQuota"} {
			fmt.Fprintf(&e.out, "def hierLock_%s : String := %s\n", fn, leanStr(hierLock(fn)))
		}
		// (b) the separately locked sections a handler calls, in source order.
		//     cache: updatePodCacheNoLock(q, pod, true|false); req/used: (q, old, new) with nil-ness of old/new; setAsg: flag literal
		nilArg := func(x ast.Expr) bool {
			id, ok := x.(*ast.Ident)
			return ok && id.Name == "nil"
		}
		sign := func(c *ast.CallExpr) string {
			if len(c.Args) != 3 {
				return "?"
			}
			switch {
			case nilArg(c.Args[1]) && !nilArg(c.Args[2]):
				return "+"
			case !nilArg(c.Args[1]) && nilArg(c.Args[2]):
				return "-"
			case !nilArg(c.Args[1]) && !nilArg(c.Args[2]):
				return "~"
			}
			return "?"
		}
		lit := func(c *ast.CallExpr) string {
			if len(c.Args) != 3 {
				return "?"
			}
			if id, ok := c.Args[2].(*ast.Ident); ok {
				return id.Name
			}
			return "?"
		}
		sections := func(fn string) {
			fd := e.funcDecl(dir, recv, fn)
			fmt.Fprintf(&e.out, "def sections_%s : List String := [", fn)
			if fd == nil || fd.Body == nil {
				e.fail("%s not found", fn)
				fmt.Fprintf(&e.out, "]\n")
				return
			}
			first := true
			ast.Inspect(fd.Body, func(n ast.Node) bool {
				c, ok := n.(*ast.CallExpr)
				if !ok {
					return true
				}
				tok := ""
				switch callName(c) {
				case "updatePodCacheNoLock":
					switch lit(c) {
					case "true":
						tok = "cacheAdd"
					case "false":
						tok = "cacheRemove"
					default:
						tok = "cache?"
					}
				case "updatePodRequestNoLock":
					tok = "req" + sign(c)
				case "updatePodUsedNoLock":
					tok = "used" + sign(c)
				case "updatePodIsAssignedNoLock", "UpdatePodIsAssigned":
					tok = "setAsg:" + lit(c)
				case "refreshPodIfPresent":
					tok = "refresh"
				case "updateGroupDeltaRequestNoLock", "updateGroupDeltaUsedNoLock", "resetQuotaNoLock":
					tok = "other:" + callName(c) // a handler must not touch the figures any other way
				}
				if tok == "" {
					return true
				}
				if !first {
					fmt.Fprintf(&e.out, ", ")
				}
				first = false
				fmt.Fprintf(&e.out, "%s", leanStr(tok))
				return true
			})
			fmt.Fprintf(&e.out, "]\n")
		}
		fmt.Fprintf(&e.out, "\n/-- the separately locked sections of a handler in source order (req/used: + = (nil,pod), - = (pod,nil), ~ = (old,new)) -/\n")
		for _, fn := range []string{"OnPodAdd", "OnPodUpdate", "OnPodDelete", "ReservePod", "UnreservePod", "MigratePod"} {
			sections(fn)
		}
		// (c) the PodCache mutators / readers of quota_info.go hold QuotaInfo.lock: first statement `qi.lock.{Lock,RLock}()`,
		//     second statement the matching deferred unlock.
		cacheLock := func(fn string) string {
			fd := e.funcDecl(dir, "QuotaInfo", fn)
			if fd == nil || fd.Body == nil || len(fd.Body.List) < 2 {
				e.fail("QuotaInfo.%s not found", fn)
				return "?"
			}
			kind := func(x ast.Expr) string {
				c, ok := x.(*ast.CallExpr)
				if !ok {
					return ""
				}
				se, ok := c.Fun.(*ast.SelectorExpr)
				if !ok {
					return ""
				}
				in, ok := se.X.(*ast.SelectorExpr)
				if !ok || in.Sel.Name != "lock" {
					return ""
				}
				return se.Sel.Name
			}
			es, ok := fd.Body.List[0].(*ast.ExprStmt)
			if !ok {
				return "none"
			}
			ds, ok := fd.Body.List[1].(*ast.DeferStmt)
			if !ok {
				return "none"
			}
			l, u := kind(es.X), kind(ds.Call)
			if (l == "Lock" && u == "Unlock") || (l == "RLock" && u == "RUnlock") {
				return l
			}
			return "none"
		}
		fmt.Fprintf(&e.out, "\n/-- QuotaInfo.lock held (first statement, deferred unlock) by the PodCache mutators / readers -/\n")
		for _, fn := range []string{"addPodIfNotPresent", "removePodIfPresent", "UpdatePodIsAssigned", "refreshPodIfPresent", "IsPodExist", "CheckPodIsAssigned", "getCachedPod"} {
			fmt.Fprintf(&e.out, "def cacheLock_%s : String := %s\n", fn, leanStr(cacheLock(fn)))
		}
	}
}

func firstCallIn(b *ast.BlockStmt, name string) bool {
	found := false
	ast.Inspect(b, func(n ast.Node) bool {
		if c, ok := n.(*ast.CallExpr); ok {
			if se, ok := c.Fun.(*ast.SelectorExpr); ok && se.Sel.Name == name {
				found = true
			}
		}
		return true
	})
	return found
}
