package main

import (
	"fmt"
	"go/ast"
	"go/token"
	"go/types"
	"strings"
)

// C11: constants of the priority protocol, the parse calls behind the eviction-priority / priority labels,
// the evicted-cache (TTL, Get/set guards), the place where the Evictor records a pod (only after a
// successful API call), the executor's two modes, the guard order of the KillAndEvictPods loop and the metric glue
// (CollectPodMetricLast: window factor, no value without asking the aggregate; last-of-empty is an error; the priority
// list builders skip a pod on a metric error).
func init() {
	extractors["C11"] = func(e *ext) {
		norm := func(x ast.Node) string { return strings.ReplaceAll(types.ExprString(x.(ast.Expr)), " ", "") }
		ext := "apis/extension"
		for _, n := range []string{"PriorityProdValueDefault", "PriorityMidValueDefault", "PriorityBatchValueDefault",
			"PriorityFreeValueDefault", "PriorityNoneValueDefault", "PriorityProdValueMax", "PriorityProdValueMin",
			"PriorityMidValueMax", "PriorityMidValueMin", "PriorityBatchValueMax", "PriorityBatchValueMin",
			"PriorityFreeValueMax", "PriorityFreeValueMin"} {
			e.constInt(ext, n, n)
		}
		// calls of a function: selector text -> list of calls
		calls := func(fd *ast.FuncDecl) map[string][]*ast.CallExpr {
			m := map[string][]*ast.CallExpr{}
			if fd == nil || fd.Body == nil {
				return m
			}
			ast.Inspect(fd.Body, func(n ast.Node) bool {
				if c, ok := n.(*ast.CallExpr); ok {
					k := norm(c.Fun)
					m[k] = append(m[k], c)
				}
				return true
			})
			return m
		}
		need := func(dir, recv, name string) *ast.FuncDecl {
			fd := e.funcDecl(dir, recv, name)
			if fd == nil || fd.Body == nil {
				e.fail("%s: func %s.%s not found", dir, recv, name)
			}
			return fd
		}

		// --- GetPodEvictionPriority: strconv.ParseInt(value, 10, 32), error => return 0
		base, bits, errZero := int64(-1), int64(-1), false
		if fd := need(ext, "", "GetPodEvictionPriority"); fd != nil {
			cs := calls(fd)["strconv.ParseInt"]
			if len(cs) == 1 && len(cs[0].Args) == 3 {
				base, _ = e.evalInt(ext, cs[0].Args[1], 0)
				bits, _ = e.evalInt(ext, cs[0].Args[2], 0)
			} else {
				e.fail("GetPodEvictionPriority: expected exactly one strconv.ParseInt(value, base, bits) call")
			}
			ast.Inspect(fd.Body, func(n ast.Node) bool {
				if is, ok := n.(*ast.IfStmt); ok && norm(is.Cond) == "err!=nil" {
					for _, s := range is.Body.List {
						if r, ok := s.(*ast.ReturnStmt); ok && len(r.Results) == 2 && norm(r.Results[0]) == "0" {
							errZero = true
						}
					}
				}
				return true
			})
		}
		fmt.Fprintf(&e.out, "def evictPrioParseBase : Int := %d\ndef evictPrioParseBits : Int := %d\ndef evictPrioErrorReturnsZero : Bool := %v\n", base, bits, errZero)

		// --- PodEvictEnabled: compares the label with the literal "true"
		lit := "?"
		if fd := need(ext, "", "PodEvictEnabled"); fd != nil {
			ast.Inspect(fd.Body, func(n ast.Node) bool {
				if b, ok := n.(*ast.BinaryExpr); ok && b.Op == token.NEQ {
					if l, ok := b.Y.(*ast.BasicLit); ok && l.Kind == token.STRING {
						lit = strings.Trim(l.Value, "\"")
					}
				}
				return true
			})
		}
		fmt.Fprintf(&e.out, "def evictEnabledLiteral : String := %s\n", leanStr(lit))

		// --- GetPodPriorityValueWithDefault: `p != nil && *p != PriorityNoneValueDefault` keeps the value
		guard := "?"
		if fd := need(ext, "", "GetPodPriorityValueWithDefault"); fd != nil {
			ast.Inspect(fd.Body, func(n ast.Node) bool {
				if is, ok := n.(*ast.IfStmt); ok && is.Init != nil && guard == "?" {
					guard = norm(is.Cond)
				}
				return true
			})
		}
		fmt.Fprintf(&e.out, "def prioDefaultGuard : String := %s\n", leanStr(guard))

		// --- GetPodPriorityLabel: strconv.Atoi
		ud := "pkg/koordlet/qosmanager/plugins/util"
		atoi := false
		if fd := need(ud, "", "GetPodPriorityLabel"); fd != nil {
			atoi = len(calls(fd)["strconv.Atoi"]) == 1
		}
		fmt.Fprintf(&e.out, "def prioLabelUsesAtoi : Bool := %v\n", atoi)

		// --- the expiring cache
		cd := "pkg/util/cache"
		ttl := int64(-1)
		if x, ok := e.valueSpec(cd, "defaultExpiration"); ok {
			if b, ok := x.(*ast.BinaryExpr); ok && b.Op == token.MUL {
				n, ok1 := e.evalInt(cd, b.X, 0)
				unit := map[string]int64{"time.Second": 1, "time.Minute": 60, "time.Hour": 3600}[norm(b.Y)]
				if ok1 && unit != 0 {
					ttl = n * unit
				}
			}
		}
		if ttl < 0 {
			e.fail("cache.defaultExpiration is not <n> * time.<unit>")
		}
		fmt.Fprintf(&e.out, "def cacheDefaultExpirationSeconds : Int := %d\n", ttl)
		getBefore, setGuard, setDefaultTTL := false, false, false
		if fd := need(cd, "Cache", "Get"); fd != nil {
			for _, c := range calls(fd)["item.expirationTime.Before"] {
				getBefore = len(c.Args) == 1 && norm(c.Args[0]) == "time.Now()"
			}
		}
		if fd := need(cd, "Cache", "set"); fd != nil && len(fd.Body.List) > 0 {
			if is, ok := fd.Body.List[0].(*ast.IfStmt); ok && norm(is.Cond) == "!c.gcStarted" && len(is.Body.List) == 1 {
				_, setGuard = is.Body.List[0].(*ast.ReturnStmt)
			}
		}
		if fd := need(cd, "Cache", "SetDefault"); fd != nil {
			for _, c := range calls(fd)["c.set"] {
				setDefaultTTL = len(c.Args) == 3 && norm(c.Args[2]) == "c.defaultExpiration"
			}
		}
		fmt.Fprintf(&e.out, "def cacheGetExpiresByBeforeNow : Bool := %v\ndef cacheSetRefusedBeforeStart : Bool := %v\ndef cacheSetDefaultUsesDefaultExpiration : Bool := %v\n",
			getBefore, setGuard, setDefaultTTL)

		// --- Evictor: the pod is recorded only under `if success` with success := r.evictPod(...); one write site
		writes, guarded, successFromEvict, newDefault := 0, 0, false, false
		for _, f := range e.dir(ud) {
			ast.Inspect(f, func(n ast.Node) bool {
				if c, ok := n.(*ast.CallExpr); ok {
					if s := norm(c.Fun); strings.HasSuffix(s, "podsEvicted.SetDefault") || strings.HasSuffix(s, "podsEvicted.Set") {
						writes++
					}
				}
				return true
			})
		}
		if fd := need(ud, "Evictor", "EvictPodIfNotEvicted"); fd != nil {
			ast.Inspect(fd.Body, func(n ast.Node) bool {
				switch v := n.(type) {
				case *ast.AssignStmt:
					if len(v.Lhs) == 1 && len(v.Rhs) == 1 && norm(v.Lhs[0]) == "success" {
						if c, ok := v.Rhs[0].(*ast.CallExpr); ok && norm(c.Fun) == "r.evictPod" {
							successFromEvict = true
						}
					}
				case *ast.IfStmt:
					if norm(v.Cond) == "success" && v.Else == nil {
						ast.Inspect(v.Body, func(m ast.Node) bool {
							if c, ok := m.(*ast.CallExpr); ok && norm(c.Fun) == "r.podsEvicted.SetDefault" {
								guarded++
							}
							return true
						})
					}
				}
				return true
			})
		}
		if fd := need(ud, "", "NewEvictor"); fd != nil {
			newDefault = len(calls(fd)["expireCache.NewCacheDefault"]) == 1
		}
		fmt.Fprintf(&e.out, "def evictedCacheWriteSites : Nat := %d\ndef evictedCacheWritesUnderSuccess : Nat := %d\ndef successIsEvictPodResult : Bool := %v\ndef evictorUsesDefaultCache : Bool := %v\n",
			writes, guarded, successFromEvict, newDefault)

		// --- DefaultEvictionExecutor.Evict: if d.OnlyEvictByAPI { EvictPodIfNotEvicted } else { KillContainers; return true }
		shape := false
		if fd := need(ud, "DefaultEvictionExecutor", "Evict"); fd != nil && len(fd.Body.List) == 2 {
			if is, ok := fd.Body.List[0].(*ast.IfStmt); ok && norm(is.Cond) == "d.OnlyEvictByAPI" {
				thenAPI, elseKill, elseTrue := false, false, false
				ast.Inspect(is.Body, func(m ast.Node) bool {
					if c, ok := m.(*ast.CallExpr); ok && norm(c.Fun) == "d.Evictor.EvictPodIfNotEvicted" {
						thenAPI = true
					}
					return true
				})
				if eb, ok := is.Else.(*ast.BlockStmt); ok {
					for _, s := range eb.List {
						if es, ok := s.(*ast.ExprStmt); ok {
							if c, ok := es.X.(*ast.CallExpr); ok && norm(c.Fun) == "helpers.KillContainers" {
								elseKill = true
							}
						}
						if r, ok := s.(*ast.ReturnStmt); ok && len(r.Results) == 1 && norm(r.Results[0]) == "true" {
							elseTrue = true
						}
					}
				}
				if r, ok := fd.Body.List[1].(*ast.ReturnStmt); ok && len(r.Results) == 1 && norm(r.Results[0]) == "false" {
					shape = thenAPI && elseKill && elseTrue
				}
			}
		}
		fmt.Fprintf(&e.out, "def executorTwoModes : Bool := %v\n", shape)

		// --- KillAndEvictPods: in the pod loop `evictedPodsMp[podKey]` is tested before IsPodEvicted, which is
		//     asked before Evict; both `break`s sit under the covered-target test
		order, breaksOK, nBreak := false, true, 0
		if fd := need(ud, "", "KillAndEvictPods"); fd != nil {
			var mp, isEv, ev token.Pos
			ast.Inspect(fd.Body, func(n ast.Node) bool {
				switch v := n.(type) {
				case *ast.IfStmt:
					c := norm(v.Cond)
					if c == "evictedPodsMp[podKey]" && mp == token.NoPos {
						if len(v.Body.List) == 1 {
							if b, ok := v.Body.List[0].(*ast.BranchStmt); ok && b.Tok == token.CONTINUE {
								mp = v.Pos()
							}
						}
					}
					for _, s := range v.Body.List {
						if b, ok := s.(*ast.BranchStmt); ok && b.Tok == token.BREAK {
							nBreak++
							if c != "len(subReleaseListNoNegative(task.ToReleaseResource,releasedAll[releaseTarget]))==0" {
								breaksOK = false
							}
						}
					}
				case *ast.CallExpr:
					switch norm(v.Fun) {
					case "evictionExecutor.IsPodEvicted":
						if isEv == token.NoPos {
							isEv = v.Pos()
						}
					case "evictionExecutor.Evict":
						if ev == token.NoPos {
							ev = v.Pos()
						}
					}
				}
				return true
			})
			order = mp != token.NoPos && isEv != token.NoPos && ev != token.NoPos && mp < isEv && isEv < ev
		}
		fmt.Fprintf(&e.out, "def loopGuardOrder : Bool := %v\ndef loopBreaks : Nat := %d\ndef loopBreaksUnderCoveredTest : Bool := %v\n", order, nBreak, breaksOK)

		// --- the metric glue (Model/C11Metric.lean); shapes are matched structurally, not by local variable names
		isNil := func(x ast.Expr) bool { id, ok := x.(*ast.Ident); return ok && id.Name == "nil" }
		neqNil := func(x ast.Expr) (string, bool) { // `<ident> != nil`
			b, ok := x.(*ast.BinaryExpr)
			if !ok || b.Op != token.NEQ || !isNil(b.Y) {
				return "", false
			}
			id, ok := b.X.(*ast.Ident)
			if !ok {
				return "", false
			}
			return id.Name, true
		}
		methodCall := func(x ast.Expr, name string, nargs int) bool { // `<expr>.<name>(<nargs args>)`
			c, ok := x.(*ast.CallExpr)
			if !ok || len(c.Args) != nargs {
				return false
			}
			sel, ok := c.Fun.(*ast.SelectorExpr)
			return ok && sel.Sel.Name == name
		}
		lastParam := func(fd *ast.FuncDecl) string {
			if fd.Type.Params == nil || len(fd.Type.Params.List) == 0 {
				return "?"
			}
			l := fd.Type.Params.List[len(fd.Type.Params.List)-1]
			if len(l.Names) == 0 {
				return "?"
			}
			return l.Names[len(l.Names)-1].Name
		}
		endsInContinue := func(b *ast.BlockStmt) bool {
			if len(b.List) == 0 {
				return false
			}
			br, ok := b.List[len(b.List)-1].(*ast.BranchStmt)
			return ok && br.Tok == token.CONTINUE
		}
		hd := "pkg/koordlet/qosmanager/helpers"
		md := "pkg/koordlet/metriccache"
		// CollectPodMetricLast: window = GenerateQueryParamsLast(metricCollectInterval * 2); every return is either
		// `return 0, err` (under `err != nil`) or `return result.Value(queryParam.Aggregate)` — no path hands back a
		// value with a nil error without asking the aggregate (an empty result stays an error)
		factor, onlyErrOrValue, nRet := int64(-1), true, 0
		if fd := need(hd, "", "CollectPodMetricLast"); fd != nil {
			cs := calls(fd)["GenerateQueryParamsLast"]
			if len(cs) == 1 && len(cs[0].Args) == 1 {
				if b, ok := cs[0].Args[0].(*ast.BinaryExpr); ok && b.Op == token.MUL && norm(b.X) == lastParam(fd) {
					factor, _ = e.evalInt(hd, b.Y, 0)
				}
			}
			ast.Inspect(fd.Body, func(n ast.Node) bool {
				if r, ok := n.(*ast.ReturnStmt); ok {
					nRet++
					switch {
					case len(r.Results) == 2 && !isNil(r.Results[1]): // hands an error variable on, never a literal nil error
					case len(r.Results) == 1 && methodCall(r.Results[0], "Value", 1): // the aggregate's own (value, error)
					default:
						onlyErrOrValue = false
					}
				}
				return true
			})
			// the only `if` is the error check of the query
			ast.Inspect(fd.Body, func(n ast.Node) bool {
				if is, ok := n.(*ast.IfStmt); ok {
					if _, ok := neqNil(is.Cond); !ok {
						onlyErrOrValue = false
					}
				}
				return true
			})
		}
		fmt.Fprintf(&e.out, "def collectLastWindowFactor : Int := %d\ndef collectLastReturnsOnlyErrOrAggregate : Bool := %v\ndef collectLastReturns : Nat := %d\n", factor, onlyErrOrValue, nRet)
		// GenerateQueryParamsLast: Aggregate = AggregationTypeLast, start = end.Add(-windowDuration)
		aggLast, startIsEndMinusWindow := false, false
		if fd := need(hd, "", "GenerateQueryParamsLast"); fd != nil {
			ast.Inspect(fd.Body, func(n ast.Node) bool {
				switch v := n.(type) {
				case *ast.KeyValueExpr:
					if norm(v.Key) == "Aggregate" && norm(v.Value) == "metriccache.AggregationTypeLast" {
						aggLast = true
					}
				case *ast.AssignStmt:
					if len(v.Lhs) == 1 && len(v.Rhs) == 1 && methodCall(v.Rhs[0], "Add", 1) {
						if u, ok := v.Rhs[0].(*ast.CallExpr).Args[0].(*ast.UnaryExpr); ok && u.Op == token.SUB && norm(u.X) == lastParam(fd) {
							startIsEndMinusWindow = true
						}
					}
				}
				return true
			})
		}
		fmt.Fprintf(&e.out, "def queryParamsLastAggregatesLast : Bool := %v\ndef queryParamsLastStartIsEndMinusWindow : Bool := %v\n", aggLast, startIsEndMinusWindow)
		// fieldLastOfMetricList: `if metrics.Len() == 0 { return 0, fmt.Errorf(...) }`, and a later point replaces the
		// current one only `if timestamp.UnixNano() > lastTime`
		emptyErr, strictlyLater := false, false
		if fd := need(md, "", "fieldLastOfMetricList"); fd != nil {
			ast.Inspect(fd.Body, func(n ast.Node) bool {
				if is, ok := n.(*ast.IfStmt); ok {
					b, ok := is.Cond.(*ast.BinaryExpr)
					if !ok {
						return true
					}
					switch {
					case b.Op == token.EQL && methodCall(b.X, "Len", 0) && norm(b.Y) == "0":
						if len(is.Body.List) == 1 {
							if r, ok := is.Body.List[0].(*ast.ReturnStmt); ok && len(r.Results) == 2 && norm(r.Results[0]) == "0" {
								if c, ok := r.Results[1].(*ast.CallExpr); ok && norm(c.Fun) == "fmt.Errorf" {
									emptyErr = true
								}
							}
						}
					case b.Op == token.GTR && methodCall(b.X, "UnixNano", 0):
						strictlyLater = true
					}
				}
				return true
			})
		}
		fmt.Fprintf(&e.out, "def lastOfEmptyInputIsError : Bool := %v\ndef lastReplacesOnStrictlyLaterTimestamp : Bool := %v\n", emptyErr, strictlyLater)
		// the two priority list builders: the statement after `result, err := helpers.CollectPodMetricLast(...)` is
		// `if err != nil { ...; continue }` ("4. filter no metrics")
		skips := 0
		for _, pr := range [][2]string{{"pkg/koordlet/qosmanager/plugins/memoryevict", "memoryEvictor"}, {"pkg/koordlet/qosmanager/plugins/cpuevict", "cpuEvictor"}} {
			if fd := need(pr[0], pr[1], "getPodEvictInfoAndSortByPriority"); fd != nil {
				ast.Inspect(fd.Body, func(n ast.Node) bool {
					blk, ok := n.(*ast.BlockStmt)
					if !ok {
						return true
					}
					for i, st := range blk.List {
						as, ok := st.(*ast.AssignStmt)
						if !ok || len(as.Rhs) != 1 || len(as.Lhs) != 2 {
							continue
						}
						c, ok := as.Rhs[0].(*ast.CallExpr)
						if !ok || norm(c.Fun) != "helpers.CollectPodMetricLast" || i+1 >= len(blk.List) {
							continue
						}
						if is, ok := blk.List[i+1].(*ast.IfStmt); ok && endsInContinue(is.Body) {
							if v, ok := neqNil(is.Cond); ok && v == norm(as.Lhs[1]) {
								skips++
							}
						}
					}
					return true
				})
			}
		}
		fmt.Fprintf(&e.out, "def prioBuildersSkippingOnMetricError : Nat := %d\n", skips)
		// CollectAllPodMetrics (BE memory path): `if podQueryResult.Count() == 0 { ...; continue }`
		allSkipsEmpty := false
		if fd := need(hd, "", "CollectAllPodMetrics"); fd != nil {
			ast.Inspect(fd.Body, func(n ast.Node) bool {
				if is, ok := n.(*ast.IfStmt); ok && endsInContinue(is.Body) {
					if b, ok := is.Cond.(*ast.BinaryExpr); ok && b.Op == token.EQL && methodCall(b.X, "Count", 0) && norm(b.Y) == "0" {
						allSkipsEmpty = true
					}
				}
				return true
			})
		}
		fmt.Fprintf(&e.out, "def collectAllPodMetricsSkipsEmptyResult : Bool := %v\n", allSkipsEmpty)

		// --- GetRequestTypeAndValueFromPod (Model/C11Containers.lean): one loop over Spec.Containers, one over
		//     Spec.InitContainers whose whole body is `if util.IsSidecarContainer(container) {…}`, both clamping `<= 0`
		loops, sidecarOnly, clamps := 0, false, 0
		if fd := need(ud, "", "GetRequestTypeAndValueFromPod"); fd != nil {
			ast.Inspect(fd.Body, func(n ast.Node) bool {
				switch v := n.(type) {
				case *ast.RangeStmt:
					x := norm(v.X)
					switch {
					case strings.HasSuffix(x, ".Spec.Containers"):
						loops += 1
					case strings.HasSuffix(x, ".Spec.InitContainers"):
						loops += 10
						if len(v.Body.List) == 1 {
							if is, ok := v.Body.List[0].(*ast.IfStmt); ok && is.Else == nil && is.Init == nil {
								if c, ok := is.Cond.(*ast.CallExpr); ok && strings.HasSuffix(norm(c.Fun), "IsSidecarContainer") {
									sidecarOnly = true
								}
							}
						}
					}
				case *ast.IfStmt:
					if b, ok := v.Cond.(*ast.BinaryExpr); ok && b.Op == token.LEQ && norm(b.Y) == "0" {
						clamps++
					}
				}
				return true
			})
		}
		fmt.Fprintf(&e.out, "def requestLoopsContainersOnceInitOnce : Bool := %v\ndef requestInitLoopSidecarOnly : Bool := %v\ndef requestClampsNonPositive : Nat := %d\n",
			loops == 11, sidecarOnly, clamps)

		// --- the four candidate-list builders (Model/C11Passes.lean): the `continue` guards of the pod loop (BE builders:
		//     QoS, policy; priority builders: inactive, policy, priority, eviction-enabled, query meta, metric error) and
		//     no mention of the deletionTimestamp - a terminating pod is filtered by none of them
		guards := func(dir, recv, name string) (int, bool) {
			cont, del := -1, false
			if fd := need(dir, recv, name); fd != nil {
				ast.Inspect(fd.Body, func(n ast.Node) bool {
					switch v := n.(type) {
					case *ast.RangeStmt:
						if cont < 0 && norm(v.X) == "pods" {
							cont = 0
							ast.Inspect(v.Body, func(m ast.Node) bool {
								if b, ok := m.(*ast.BranchStmt); ok && b.Tok == token.CONTINUE {
									cont++
								}
								return true
							})
						}
					case *ast.Ident:
						if strings.Contains(v.Name, "DeletionTimestamp") || strings.Contains(v.Name, "Terminating") {
							del = true
						}
					}
					return true
				})
			}
			return cont, del
		}
		memDir, cpuDir := "pkg/koordlet/qosmanager/plugins/memoryevict", "pkg/koordlet/qosmanager/plugins/cpuevict"
		g1, d1 := guards(memDir, "memoryEvictor", "getSortedBEPodInfos")
		g2, d2 := guards(memDir, "memoryEvictor", "getPodEvictInfoAndSortByPriority")
		g3, d3 := guards(cpuDir, "cpuEvictor", "getBEPodEvictInfoAndSort")
		g4, d4 := guards(cpuDir, "cpuEvictor", "getPodEvictInfoAndSortByPriority")
		fmt.Fprintf(&e.out, "def memBEBuilderGuards : Int := %d\ndef memPrioBuilderGuards : Int := %d\ndef cpuBEBuilderGuards : Int := %d\ndef cpuPrioBuilderGuards : Int := %d\ndef listBuildersMentionDeletionTimestamp : Bool := %v\n",
			g1, g2, g3, g4, d1 || d2 || d3 || d4)
	}
}
