package main

import (
	"bytes"
	"fmt"
	"go/ast"
	"go/printer"
	"go/token"
	"strings"
)

// C17 facts: the GUARD ORDER of the migration controller (DESIGN §3.2).
// For doMigrate, evictPod and prepareJobWithReservationScheduleSuccess: the sequence, in source order, of
//   * calls to the named gate functions, and
//   * `job.X.Y` / `cond.X` selectors that occur in an if-condition,
// up to and including the `stop` call, each with the flag "a return statement follows before the next gate"
// (= the gate is an early exit).  Logging, event recording and the abort helpers are not listed, so renaming
// those does not trip the tie; moving / removing / un-guarding a gate does.

type c17Gate struct {
	name string
	exit bool
}

type c17Tracer struct {
	calls map[string]bool
	roots map[string]bool
	stop  string
	out   []c17Gate
	done  bool
}

func c17Callee(f ast.Expr) string {
	switch v := f.(type) {
	case *ast.Ident:
		return v.Name
	case *ast.SelectorExpr:
		return v.Sel.Name
	}
	return ""
}

func c17Chain(x ast.Expr) []string {
	switch v := x.(type) {
	case *ast.Ident:
		return []string{v.Name}
	case *ast.SelectorExpr:
		if c := c17Chain(v.X); c != nil {
			return append(c, v.Sel.Name)
		}
	}
	return nil
}

func (t *c17Tracer) emit(name string) {
	if n := len(t.out); n > 0 && t.out[n-1].name == name && !t.out[n-1].exit {
		return
	}
	t.out = append(t.out, c17Gate{name: name})
}

func (t *c17Tracer) walk(n ast.Node, inCond bool) {
	if n == nil {
		return
	}
	ast.Inspect(n, func(x ast.Node) bool {
		if t.done || x == nil {
			return false
		}
		switch v := x.(type) {
		case *ast.IfStmt:
			if v.Init != nil {
				t.walk(v.Init, false)
			}
			t.walk(v.Cond, true)
			t.walk(v.Body, false)
			if v.Else != nil {
				t.walk(v.Else, false)
			}
			return false
		case *ast.ReturnStmt:
			if n := len(t.out); n > 0 {
				t.out[n-1].exit = true
			}
			return true
		case *ast.CallExpr:
			if name := c17Callee(v.Fun); t.calls[name] {
				t.emit(name)
				if name == t.stop {
					t.done = true
					return false
				}
			}
			return true
		case *ast.SelectorExpr:
			if inCond {
				if c := c17Chain(v); c != nil && t.roots[c[0]] {
					if len(c) > 3 {
						c = c[:3]
					}
					t.emit(strings.Join(c, "."))
					return false
				}
			}
			return true
		}
		return true
	})
}

func c17Set(xs ...string) map[string]bool {
	m := map[string]bool{}
	for _, x := range xs {
		m[x] = true
	}
	return m
}

// c17Src prints an expression in canonical gofmt form on one line.
func c17Src(x ast.Node) string {
	var b bytes.Buffer
	_ = printer.Fprint(&b, token.NewFileSet(), x)
	return strings.Join(strings.Fields(b.String()), " ")
}

// c17Returns: the result lists of all return statements of a function, in source order (function literals skipped).
func c17Returns(fd *ast.FuncDecl) []string {
	var out []string
	ast.Inspect(fd.Body, func(x ast.Node) bool {
		switch v := x.(type) {
		case *ast.FuncLit:
			return false
		case *ast.ReturnStmt:
			var parts []string
			for _, r := range v.Results {
				parts = append(parts, c17Src(r))
			}
			out = append(out, strings.Join(parts, ", "))
		}
		return true
	})
	return out
}

// c17CondGuarding: source text of the condition of the first if-statement of `fd` whose body calls `callee`.
func c17CondGuarding(fd *ast.FuncDecl, callee string) string {
	res := ""
	ast.Inspect(fd.Body, func(x ast.Node) bool {
		if res != "" {
			return false
		}
		if v, ok := x.(*ast.IfStmt); ok {
			calls := false
			ast.Inspect(v.Body, func(y ast.Node) bool {
				if c, ok := y.(*ast.CallExpr); ok && c17Callee(c.Fun) == callee {
					calls = true
				}
				return !calls
			})
			if calls {
				res = c17Src(v.Cond)
				return false
			}
		}
		return true
	})
	return res
}

// c17Calls: names of all calls in a function body, in source order.
func c17Calls(fd *ast.FuncDecl) []string {
	var out []string
	ast.Inspect(fd.Body, func(x ast.Node) bool {
		if c, ok := x.(*ast.CallExpr); ok {
			if n := c17Callee(c.Fun); n != "" && !c17Logging[n] {
				out = append(out, n)
			}
		}
		return true
	})
	return out
}

// logging / naming helpers: not behaviour
var c17Logging = c17Set("Infof", "Warningf", "Errorf", "V", "InfoS", "ErrorS", "Info", "Error", "KObj", "GetReservationNamespacedName", "Sprintf")

func init() {
	extractors["C17"] = func(e *ext) {
		d := "pkg/descheduler/controllers/migration"
		strList := func(lean string, xs []string) {
			var parts []string
			for _, x := range xs {
				parts = append(parts, leanStr(x))
			}
			fmt.Fprintf(&e.out, "def %s : List String :=\n  [%s]\n\n", lean, strings.Join(parts, ",\n   "))
		}
		withFn := func(dir, recv, fn string, f func(fd *ast.FuncDecl)) {
			fd := e.funcDecl(dir, recv, fn)
			if fd == nil || fd.Body == nil {
				e.fail("%s.%s not found", recv, fn)
				f(&ast.FuncDecl{Body: &ast.BlockStmt{}})
				return
			}
			f(fd)
		}
		// what the boolean helpers return on each of their exits: `true` = "aborted / stop", also on a failed lookup
		withFn(d, "Reconciler", "abortJobIfReservationBoundByAnotherPod", func(fd *ast.FuncDecl) { strList("boundByOtherReturns", c17Returns(fd)) })
		withFn(d, "Reconciler", "abortJobIfReserveOnSameNode", func(fd *ast.FuncDecl) { strList("sameNodeReturns", c17Returns(fd)) })
		// the mode dispatch of doMigrate: the condition under which evictPodDirectly runs
		withFn(d, "Reconciler", "doMigrate", func(fd *ast.FuncDecl) {
			fmt.Fprintf(&e.out, "def directDispatchCond : String := %s\n\n", leanStr(c17CondGuarding(fd, "evictPodDirectly")))
		})
		// the lookup of the shipped interpreter: Client.Get, on NotFound one APIReader.Get
		withFn(d+"/reservation", "interpreterImpl", "GetReservation", func(fd *ast.FuncDecl) { strList("getReservationCalls", c17Calls(fd)) })
		withFn(d+"/reservation", "interpreterImpl", "DeleteReservation", func(fd *ast.FuncDecl) { strList("deleteReservationCalls", c17Calls(fd)) })
		// ----- ext3 -----
		// Reconcile: the stale-read guard precedes doMigrate; assume is a PLAIN call after doMigrate with the object doMigrate
		// worked on (a `defer assume(job.DeepCopy())` before doMigrate would remember the job as READ, not as written)
		withFn(d, "Reconciler", "Reconcile", func(fd *ast.FuncDecl) {
			var out []string
			want := c17Set("Get", "isNewOrSameObj", "doMigrate", "assume")
			var visit func(n ast.Node, deferred bool)
			visit = func(n ast.Node, deferred bool) {
				ast.Inspect(n, func(x ast.Node) bool {
					switch v := x.(type) {
					case *ast.DeferStmt:
						visit(v.Call, true)
						return false
					case *ast.GoStmt:
						visit(v.Call, true)
						return false
					case *ast.CallExpr:
						if name := c17Callee(v.Fun); want[name] {
							txt := name
							if name == "assume" {
								var args []string
								for _, a := range v.Args {
									args = append(args, c17Src(a))
								}
								txt = name + "(" + strings.Join(args, ", ") + ")"
							}
							if deferred {
								txt = "defer " + txt
							}
							out = append(out, txt)
						}
					}
					return true
				})
			}
			visit(fd.Body, false)
			strList("reconcileOrder", out)
		})
		// CreateOrUpdateReservationOptions: every assignment to ...AllocateOnce with its nesting depth (0 = unconditional)
		withFn(d+"/reservation", "", "CreateOrUpdateReservationOptions", func(fd *ast.FuncDecl) {
			var out []string
			var visit func(n ast.Node, depth int)
			visit = func(n ast.Node, depth int) {
				ast.Inspect(n, func(x ast.Node) bool {
					if x == nil || x == n {
						return true
					}
					switch v := x.(type) {
					case *ast.IfStmt, *ast.ForStmt, *ast.RangeStmt, *ast.SwitchStmt, *ast.TypeSwitchStmt, *ast.SelectStmt, *ast.FuncLit:
						visit(v, depth+1)
						return false
					case *ast.AssignStmt:
						for i, l := range v.Lhs {
							if ch := c17Chain(l); len(ch) > 0 && ch[len(ch)-1] == "AllocateOnce" && i < len(v.Rhs) {
								out = append(out, fmt.Sprintf("%d:%s", depth, c17Src(v.Rhs[i])))
							}
						}
					}
					return true
				})
			}
			visit(fd.Body, 0)
			strList("allocateOnceAssign", out)
		})
		// the scheduler side the harness plays: Succeeded only for an allocate-once reservation; nil defaults to true
		withFn("pkg/scheduler/plugins/reservation/controller", "Controller", "syncStatus", func(fd *ast.FuncDecl) {
			fmt.Fprintf(&e.out, "def syncStatusSucceededCond : String := %s\n\n", leanStr(c17CondGuarding(fd, "SetReservationSucceeded")))
		})
		withFn("apis/extension", "", "IsReservationAllocateOnce", func(fd *ast.FuncDecl) { strList("isAllocateOnceReturns", c17Returns(fd)) })
		// the arbitrator's Create handler: its top-level statements up to AddPodMigrationJob — every early return with its
		// condition (a finished job must not be taken in again after a restart: fix 2a5d178)
		withFn(d+"/arbitrator", "arbitrationHandler", "Create", func(fd *ast.FuncDecl) {
			var out []string
			for _, st := range fd.Body.List {
				switch v := st.(type) {
				case *ast.IfStmt:
					returns := false
					if n := len(v.Body.List); n > 0 {
						_, returns = v.Body.List[n-1].(*ast.ReturnStmt)
					}
					if returns && v.Else == nil {
						out = append(out, "return if "+c17Src(v.Cond))
					} else {
						out = append(out, "if "+c17Src(v.Cond))
					}
				default:
					for _, c := range c17Calls(&ast.FuncDecl{Body: &ast.BlockStmt{List: []ast.Stmt{st}}}) {
						if c == "AddPodMigrationJob" {
							out = append(out, c)
						}
					}
				}
			}
			strList("createHandlerSteps", out)
		})
		// ----- ext5: the scavenger and the created-by stamp -----
		// doScavenge, the body of its loop over the LISTed jobs in source order: every assignment to timeoutDuration, every
		// if whose body ends in continue / break / return / an assignment (with its condition), the calls deleteReservation and Delete.
		// A test of the created-by annotation here (as in Reconcile) would strand the jobs of an earlier controller instance.
		withFn(d, "Reconciler", "doScavenge", func(fd *ast.FuncDecl) {
			var out []string
			var visit func(n ast.Node)
			visit = func(n ast.Node) {
				if n == nil {
					return
				}
				ast.Inspect(n, func(x ast.Node) bool {
					switch v := x.(type) {
					case *ast.FuncLit:
						return false
					case *ast.IfStmt:
						if v.Init != nil {
							visit(v.Init)
						}
						if k := len(v.Body.List); k > 0 {
							switch b := v.Body.List[k-1].(type) {
							case *ast.BranchStmt:
								out = append(out, "if "+c17Src(v.Cond)+" -> "+b.Tok.String())
							case *ast.ReturnStmt:
								out = append(out, "if "+c17Src(v.Cond)+" -> return")
							case *ast.AssignStmt:
								out = append(out, "if "+c17Src(v.Cond)+" -> assign")
							}
						}
						visit(v.Body)
						if v.Else != nil {
							visit(v.Else)
						}
						return false
					case *ast.AssignStmt:
						for i, l := range v.Lhs {
							if id, ok := l.(*ast.Ident); ok && id.Name == "timeoutDuration" && i < len(v.Rhs) {
								out = append(out, "timeoutDuration = "+c17Src(v.Rhs[i]))
							}
						}
					case *ast.CallExpr:
						if name := c17Callee(v.Fun); name == "deleteReservation" || name == "Delete" {
							out = append(out, name)
						}
					}
					return true
				})
			}
			for _, st := range fd.Body.List {
				if loop, ok := st.(*ast.ForStmt); ok {
					visit(loop.Body)
				}
				if loop, ok := st.(*ast.RangeStmt); ok {
					visit(loop.Body)
				}
			}
			strList("scavengeSteps", out)
		})
		// who stamps the created-by annotation with what, and the guard of Reconcile that reads it
		var stamp []string
		withFn(d, "", "CreatePodMigrationJob", func(fd *ast.FuncDecl) {
			ast.Inspect(fd.Body, func(x ast.Node) bool {
				if kv, ok := x.(*ast.KeyValueExpr); ok {
					if id, ok := kv.Key.(*ast.Ident); ok && id.Name == "AnnotationJobCreatedBy" {
						stamp = append(stamp, "annotation = "+c17Src(kv.Value))
					}
				}
				return true
			})
		})
		withFn(d, "Reconciler", "Evict", func(fd *ast.FuncDecl) {
			ast.Inspect(fd.Body, func(x ast.Node) bool {
				if c, ok := x.(*ast.CallExpr); ok && c17Callee(c.Fun) == "CreatePodMigrationJob" && len(c.Args) > 0 {
					stamp = append(stamp, "Evict passes "+c17Src(c.Args[len(c.Args)-1]))
				}
				return true
			})
		})
		withFn(d, "", "New", func(fd *ast.FuncDecl) {
			ast.Inspect(fd.Body, func(x ast.Node) bool {
				if a, ok := x.(*ast.AssignStmt); ok {
					for i, l := range a.Lhs {
						if ch := c17Chain(l); len(ch) > 0 && ch[len(ch)-1] == "reconcilerUID" && i < len(a.Rhs) {
							stamp = append(stamp, "New: reconcilerUID = "+c17Src(a.Rhs[i]))
						}
					}
				}
				return true
			})
		})
		withFn(d, "Reconciler", "Reconcile", func(fd *ast.FuncDecl) {
			ast.Inspect(fd.Body, func(x ast.Node) bool {
				if v, ok := x.(*ast.IfStmt); ok && v.Init != nil && strings.Contains(c17Src(v.Init), "AnnotationJobCreatedBy") {
					ret := false
					if k := len(v.Body.List); k > 0 {
						_, ret = v.Body.List[k-1].(*ast.ReturnStmt)
					}
					stamp = append(stamp, fmt.Sprintf("Reconcile: %s; if %s -> return=%v", c17Src(v.Init), c17Src(v.Cond), ret))
				}
				return true
			})
		})
		strList("createdByFacts", stamp)

		emit := func(lean, fn string, calls map[string]bool, stop string) {
			t := &c17Tracer{calls: calls, roots: c17Set("job", "cond"), stop: stop}
			fd := e.funcDecl(d, "Reconciler", fn)
			if fd == nil || fd.Body == nil {
				e.fail("Reconciler.%s not found", fn)
			} else {
				t.walk(fd.Body, false)
				if !t.done {
					e.fail("Reconciler.%s never calls %s", fn, stop)
				}
			}
			var parts []string
			for _, g := range t.out {
				parts = append(parts, fmt.Sprintf("(%s, %v)", leanStr(g.name), g.exit))
			}
			fmt.Fprintf(&e.out, "def %s : List (String × Bool) :=\n  [%s]\n\n", lean, strings.Join(parts, ",\n   "))
		}
		emit("doMigrateGates", "doMigrate", c17Set("abortJobIfTimeout", "preparePendingJob", "requeueJobIfObjectLimiterFailed",
			"setReservationOrder", "handleReservationCreateSuccess", "GetReservation", "IsNotFound", "syncReservationScheduleFailed",
			"IsReservationPending", "IsReservationExpired", "IsReservationScheduled", "prepareJobWithReservationScheduleSuccess",
			"IsMigratePendingPod", "evictPod"), "evictPod")
		emit("evictPodGates", "evictPod", c17Set("GetCondition", "Get", "IsNotFound", "abortJobIfReservationBoundByAnotherPod", "Evict"), "Evict")
		emit("nodeCheckGates", "prepareJobWithReservationScheduleSuccess", c17Set("GetScheduledNodeName", "GetCondition",
			"abortJobIfReserveOnSameNode", "updateCondition"), "updateCondition")
	}
}
