package main

import (
	"fmt"
	"go/ast"
	"strings"
)

// C17 facts: the GUARD ORDER of the migration controller (DESIGN §3.2).
// For doMigrate, evictPod and prepareJobWithReservationScheduleSuccess: the sequence, in source order, of
//   * calls to the named gate functions, and
//   * `job.X.Y` / `cond.X` selectors that occur in an if-condition,
// up to and including the `stop` call, each with the flag "a return statement follows before the next gate"
// (= the gate is an early exit).  Logging, event recording and the abort helpers are not listed, so renaming
// those does not trip the tie; moving / removing / un-guarding a gate does.

type c17Gate struct {
	name string
	exit bool
}

type c17Tracer struct {
	calls map[string]bool
	roots map[string]bool
	stop  string
	out   []c17Gate
	done  bool
}

func c17Callee(f ast.Expr) string {
	switch v := f.(type) {
	case *ast.Ident:
		return v.Name
	case *ast.SelectorExpr:
		return v.Sel.Name
	}
	return ""
}

func c17Chain(x ast.Expr) []string {
	switch v := x.(type) {
	case *ast.Ident:
		return []string{v.Name}
	case *ast.SelectorExpr:
		if c := c17Chain(v.X); c != nil {
			return append(c, v.Sel.Name)
		}
	}
	return nil
}

func (t *c17Tracer) emit(name string) {
	if n := len(t.out); n > 0 && t.out[n-1].name == name && !t.out[n-1].exit {
		return
	}
	t.out = append(t.out, c17Gate{name: name})
}

func (t *c17Tracer) walk(n ast.Node, inCond bool) {
	if n == nil {
		return
	}
	ast.Inspect(n, func(x ast.Node) bool {
		if t.done || x == nil {
			return false
		}
		switch v := x.(type) {
		case *ast.IfStmt:
			if v.Init != nil {
				t.walk(v.Init, false)
			}
			t.walk(v.Cond, true)
			t.walk(v.Body, false)
			if v.Else != nil {
				t.walk(v.Else, false)
			}
			return false
		case *ast.ReturnStmt:
			if n := len(t.out); n > 0 {
				t.out[n-1].exit = true
			}
			return true
		case *ast.CallExpr:
			if name := c17Callee(v.Fun); t.calls[name] {
				t.emit(name)
				if name == t.stop {
					t.done = true
					return false
				}
			}
			return true
		case *ast.SelectorExpr:
			if inCond {
				if c := c17Chain(v); c != nil && t.roots[c[0]] {
					if len(c) > 3 {
						c = c[:3]
					}
					t.emit(strings.Join(c, "."))
					return false
				}
			}
			return true
		}
		return true
	})
}

func c17Set(xs ...string) map[string]bool {
	m := map[string]bool{}
	for _, x := range xs {
		m[x] = true
	}
	return m
}

func init() {
	extractors["C17"] = func(e *ext) {
		d := "pkg/descheduler/controllers/migration"
		emit := func(lean, fn string, calls map[string]bool, stop string) {
			t := &c17Tracer{calls: calls, roots: c17Set("job", "cond"), stop: stop}
			fd := e.funcDecl(d, "Reconciler", fn)
			if fd == nil || fd.Body == nil {
				e.fail("Reconciler.%s not found", fn)
			} else {
				t.walk(fd.Body, false)
				if !t.done {
					e.fail("Reconciler.%s never calls %s", fn, stop)
				}
			}
			var parts []string
			for _, g := range t.out {
				parts = append(parts, fmt.Sprintf("(%s, %v)", leanStr(g.name), g.exit))
			}
			fmt.Fprintf(&e.out, "def %s : List (String × Bool) :=\n  [%s]\n\n", lean, strings.Join(parts, ",\n   "))
		}
		emit("doMigrateGates", "doMigrate", c17Set("abortJobIfTimeout", "preparePendingJob", "requeueJobIfObjectLimiterFailed",
			"setReservationOrder", "handleReservationCreateSuccess", "GetReservation", "IsNotFound", "syncReservationScheduleFailed",
			"IsReservationPending", "IsReservationExpired", "IsReservationScheduled", "prepareJobWithReservationScheduleSuccess",
			"IsMigratePendingPod", "evictPod"), "evictPod")
		emit("evictPodGates", "evictPod", c17Set("GetCondition", "Get", "IsNotFound", "abortJobIfReservationBoundByAnotherPod", "Evict"), "Evict")
		emit("nodeCheckGates", "prepareJobWithReservationScheduleSuccess", c17Set("GetScheduledNodeName", "GetCondition",
			"abortJobIfReserveOnSameNode", "updateCondition"), "updateCondition")
	}
}
