package main

import (
	"fmt"
	"go/ast"
	"go/token"
	"sort"
	"strconv"
	"strings"
)

// C13 facts.  Constants are extracted by VALUE (the string a constant denotes), found through the
// places that USE them (switch cases, call arguments, map literals, index expressions), so that
// renaming a Go identifier leaves the facts unchanged while changing a value changes them.

func c13Name(x ast.Expr) string {
	switch v := x.(type) {
	case *ast.Ident:
		return v.Name
	case *ast.SelectorExpr:
		return v.Sel.Name
	}
	return "?"
}

// Kubernetes API constants used by the anchored code (k8s.io/api core/v1, a stable API; trusted).
var c13External = map[string]string{
	"ResourceCPU":                    "cpu",
	"ResourceMemory":                 "memory",
	"ResourceDefaultNamespacePrefix": "kubernetes.io/",
	"PodQOSGuaranteed":               "Guaranteed",
	"PodQOSBurstable":                "Burstable",
	"PodQOSBestEffort":               "BestEffort",
}

const c13ExtDir = "apis/extension"

// c13EvalStr evaluates a constant string expression of package `dir` (identifiers of apis/extension
// are followed through their declarations).
func c13EvalStr(e *ext, dir string, x ast.Expr, depth int) (string, bool) {
	if depth > 20 || x == nil {
		return "", false
	}
	switch v := x.(type) {
	case *ast.BasicLit:
		if v.Kind == token.STRING {
			s, err := strconv.Unquote(v.Value)
			return s, err == nil
		}
	case *ast.ParenExpr:
		return c13EvalStr(e, dir, v.X, depth+1)
	case *ast.BinaryExpr:
		if v.Op == token.ADD {
			a, ok1 := c13EvalStr(e, dir, v.X, depth+1)
			b, ok2 := c13EvalStr(e, dir, v.Y, depth+1)
			return a + b, ok1 && ok2
		}
	case *ast.Ident:
		if y, ok := e.valueSpec(dir, v.Name); ok {
			return c13EvalStr(e, dir, y, depth+1)
		}
		if dir != c13ExtDir {
			if y, ok := e.valueSpec(c13ExtDir, v.Name); ok {
				return c13EvalStr(e, c13ExtDir, y, depth+1)
			}
		}
	case *ast.SelectorExpr:
		if s, ok := c13External[v.Sel.Name]; ok {
			if y, ok2 := e.valueSpec(c13ExtDir, v.Sel.Name); !ok2 || y == nil {
				return s, true
			}
		}
		if y, ok := e.valueSpec(c13ExtDir, v.Sel.Name); ok {
			return c13EvalStr(e, c13ExtDir, y, depth+1)
		}
	case *ast.CallExpr: // conversions such as QoSClass("BE")
		if len(v.Args) == 1 {
			return c13EvalStr(e, dir, v.Args[0], depth+1)
		}
	}
	return "", false
}

func c13Bytes(s string) string {
	parts := make([]string, len(s))
	for i := 0; i < len(s); i++ {
		parts[i] = strconv.Itoa(int(s[i]))
	}
	return "[" + strings.Join(parts, ", ") + "]"
}

func c13BytesList(xs []string) string {
	q := make([]string, len(xs))
	for i, x := range xs {
		q[i] = c13Bytes(x)
	}
	return "[" + strings.Join(q, ", ") + "]"
}

func (e *ext) c13Str(dir string, x ast.Expr, what string) string {
	s, ok := c13EvalStr(e, dir, x, 0)
	if !ok {
		e.fail("%s: not a constant string expression", what)
		return "?"
	}
	return s
}

// c13SwitchTable: the (case value, returned value) pairs of the first switch of a function and the
// value returned after it.  A clause that returns the switch tag itself is recorded as value ↦ value.
func c13SwitchTable(e *ext, dir, fn string) (pairs [][2]string, def string) {
	fd := e.funcDecl(dir, "", fn)
	if fd == nil || fd.Body == nil {
		e.fail("%s not found", fn)
		return nil, "?"
	}
	var sw *ast.SwitchStmt
	for _, st := range fd.Body.List {
		if s, ok := st.(*ast.SwitchStmt); ok && sw == nil {
			sw = s
		}
	}
	if sw == nil {
		e.fail("%s: no switch", fn)
		return nil, "?"
	}
	for _, c := range sw.Body.List {
		cc := c.(*ast.CaseClause)
		var ret ast.Expr
		for _, st := range cc.Body {
			if r, ok := st.(*ast.ReturnStmt); ok && len(r.Results) == 1 {
				ret = r.Results[0]
			}
		}
		if ret == nil || cc.List == nil {
			e.fail("%s: unexpected case clause", fn)
			continue
		}
		for _, cv := range cc.List {
			v := e.c13Str(dir, cv, fn+" case")
			if id, ok := ret.(*ast.Ident); ok && sw.Tag != nil && c13Name(sw.Tag) == id.Name {
				pairs = append(pairs, [2]string{v, v})
			} else {
				pairs = append(pairs, [2]string{v, e.c13Str(dir, ret, fn+" result")})
			}
		}
	}
	sort.Slice(pairs, func(i, j int) bool { return pairs[i][0] < pairs[j][0] })
	if last, ok := fd.Body.List[len(fd.Body.List)-1].(*ast.ReturnStmt); ok && len(last.Results) == 1 {
		def = e.c13Str(dir, last.Results[0], fn+" default")
	} else {
		e.fail("%s: no final return", fn)
		def = "?"
	}
	return pairs, def
}

func c13EmitTable(e *ext, name string, pairs [][2]string, def string) {
	q := make([]string, len(pairs))
	for i, p := range pairs {
		q[i] = fmt.Sprintf("(%s, %s)", c13Bytes(p[0]), c13Bytes(p[1]))
	}
	fmt.Fprintf(&e.out, "def %s : List (List Nat × List Nat) := [%s]\n", name, strings.Join(q, ", "))
	fmt.Fprintf(&e.out, "def %sDefault : List Nat := %s\n", name, c13Bytes(def))
}

// c13IndexKey: the value of the first constant-string key of an index expression `m[key]` in a function
// (whatever the map expression is called).
func c13IndexKey(e *ext, dir, recv, fn string) string {
	fd := e.funcDecl(dir, recv, fn)
	if fd == nil || fd.Body == nil {
		e.fail("%s not found", fn)
		return "?"
	}
	key, found := "", false
	ast.Inspect(fd.Body, func(n ast.Node) bool {
		if ix, ok := n.(*ast.IndexExpr); ok && !found {
			if s, ok := c13EvalStr(e, dir, ix.Index, 0); ok {
				key, found = s, true
			}
		}
		return true
	})
	if !found {
		e.fail("%s: no m[<constant string>] expression", fn)
		return "?"
	}
	return key
}

func init() {
	extractors["C13"] = func(e *ext) {
		d := c13ExtDir
		for _, n := range []string{"PriorityProdValueMin", "PriorityProdValueMax", "PriorityMidValueMin", "PriorityMidValueMax",
			"PriorityBatchValueMin", "PriorityBatchValueMax", "PriorityFreeValueMin", "PriorityFreeValueMax"} {
			e.constInt(d, n, n)
		}
		fmt.Fprintf(&e.out, "-- strings are the byte lists of the constants' VALUES\n")
		// name -> class switches
		pairs, def := c13SwitchTable(e, d, "GetPodQoSClassByName")
		c13EmitTable(e, "qosByName", pairs, def)
		pairs, def = c13SwitchTable(e, d, "GetPodPriorityClassByName")
		c13EmitTable(e, "pcByName", pairs, def)
		pairs, def = c13SwitchTable(e, d, "GetPodPriorityClassWithQoS")
		c13EmitTable(e, "pcOfQoS", pairs, def)
		pairs, def = c13SwitchTable(e, d, "GetPodQoSClassWithKubeQoS")
		c13EmitTable(e, "qosOfKubeQoS", pairs, def)
		// getPriorityClassByPriority: the chain `if p >= Min && p <= Max { return C } else if ...; return Default`
		var ranges []string
		rdef := "?"
		if fd := e.funcDecl(d, "", "getPriorityClassByPriority"); fd == nil || fd.Body == nil {
			e.fail("getPriorityClassByPriority not found")
		} else {
			for _, st := range fd.Body.List {
				ifs, ok := st.(*ast.IfStmt)
				if !ok {
					continue
				}
				for ifs != nil {
					be, ok := ifs.Cond.(*ast.BinaryExpr)
					if !ok || be.Op != token.LAND {
						break // the nil guard
					}
					lo, ok1 := be.X.(*ast.BinaryExpr)
					hi, ok2 := be.Y.(*ast.BinaryExpr)
					var ret ast.Expr
					if len(ifs.Body.List) == 1 {
						if r, ok := ifs.Body.List[0].(*ast.ReturnStmt); ok && len(r.Results) == 1 {
							ret = r.Results[0]
						}
					}
					if !ok1 || !ok2 || lo.Op != token.GEQ || hi.Op != token.LEQ || ret == nil {
						e.fail("getPriorityClassByPriority: unexpected guard shape")
						break
					}
					a, oka := e.evalInt(d, lo.Y, 0)
					b, okb := e.evalInt(d, hi.Y, 0)
					if !oka || !okb {
						e.fail("getPriorityClassByPriority: bounds not constant")
					}
					ranges = append(ranges, fmt.Sprintf("(%d, %d, %s)", a, b, c13Bytes(e.c13Str(d, ret, "range class"))))
					next, _ := ifs.Else.(*ast.IfStmt)
					ifs = next
				}
			}
			if last, ok := fd.Body.List[len(fd.Body.List)-1].(*ast.ReturnStmt); ok && len(last.Results) == 1 {
				rdef = e.c13Str(d, last.Results[0], "range default")
			}
		}
		fmt.Fprintf(&e.out, "def priorityRanges : List (Int × Int × List Nat) := [%s]\n", strings.Join(ranges, ", "))
		fmt.Fprintf(&e.out, "def priorityRangesDefault : List Nat := %s\n", c13Bytes(rdef))

		// the (QoS, priority classes...) arguments of every forbidSpecialQoSClassAndPriorityClass call
		vd := "pkg/webhook/pod/validating"
		var forb []string
		fd := e.funcDecl(vd, "PodValidatingHandler", "clusterColocationProfileValidatingPod")
		if fd == nil {
			e.fail("clusterColocationProfileValidatingPod not found")
		} else {
			ast.Inspect(fd.Body, func(n ast.Node) bool {
				if c, ok := n.(*ast.CallExpr); ok && c13Name(c.Fun) == "forbidSpecialQoSClassAndPriorityClass" && len(c.Args) >= 2 {
					var pcs []string
					for _, a := range c.Args[2:] {
						pcs = append(pcs, e.c13Str(vd, a, "forbidden class"))
					}
					sort.Strings(pcs)
					forb = append(forb, fmt.Sprintf("(%s, %s)", c13Bytes(e.c13Str(vd, c.Args[1], "forbidden QoS")), c13BytesList(pcs)))
				}
				return true
			})
			sort.Strings(forb)
		}
		fmt.Fprintf(&e.out, "def forbidden : List (List Nat × List (List Nat)) := [%s]\n", strings.Join(forb, ", "))

		// ResourceNameMap
		var tiers []string
		if x, ok := e.valueSpec(d, "ResourceNameMap"); !ok {
			e.fail("ResourceNameMap not found")
		} else if cl, ok := x.(*ast.CompositeLit); !ok {
			e.fail("ResourceNameMap is not a composite literal")
		} else {
			for _, el := range cl.Elts {
				kv, ok := el.(*ast.KeyValueExpr)
				if !ok {
					e.fail("ResourceNameMap: unexpected element")
					continue
				}
				inner, ok2 := kv.Value.(*ast.CompositeLit)
				if !ok2 {
					e.fail("ResourceNameMap: unexpected element")
					continue
				}
				var ents []string
				for _, iel := range inner.Elts {
					ikv, ok := iel.(*ast.KeyValueExpr)
					if !ok {
						e.fail("ResourceNameMap: unexpected inner element")
						continue
					}
					ents = append(ents, fmt.Sprintf("(%s, %s)", c13Bytes(e.c13Str(d, ikv.Key, "native name")), c13Bytes(e.c13Str(d, ikv.Value, "tier name"))))
				}
				sort.Strings(ents)
				tiers = append(tiers, fmt.Sprintf("(%s, [%s])", c13Bytes(e.c13Str(d, kv.Key, "tier class")), strings.Join(ents, ", ")))
			}
			sort.Strings(tiers)
		}
		fmt.Fprintf(&e.out, "def resourceNameMap : List (List Nat × List (List Nat × List Nat)) := [%s]\n", strings.Join(tiers, ", "))

		// mutatePodResourceSpec: the classes compared with `==` in the early return
		md := "pkg/webhook/pod/mutating"
		var skip []string
		if fd := e.funcDecl(md, "PodMutatingHandler", "mutatePodResourceSpec"); fd == nil || fd.Body == nil {
			e.fail("mutatePodResourceSpec not found")
		} else {
			for _, st := range fd.Body.List {
				if ifs, ok := st.(*ast.IfStmt); ok {
					ast.Inspect(ifs.Cond, func(n ast.Node) bool {
						if be, ok := n.(*ast.BinaryExpr); ok && be.Op == token.EQL {
							skip = append(skip, e.c13Str(md, be.Y, "untranslated class"))
						}
						return true
					})
					break
				}
			}
			sort.Strings(skip)
		}
		fmt.Fprintf(&e.out, "def untranslatedClasses : List (List Nat) := %s\n", c13BytesList(skip))

		// mutateByExtendedResources: the resource names of the summary annotation
		var sum []string
		if fd := e.funcDecl(md, "PodMutatingHandler", "mutateByExtendedResources"); fd == nil || fd.Body == nil {
			e.fail("mutateByExtendedResources not found")
		} else {
			ast.Inspect(fd.Body, func(n ast.Node) bool {
				if c, ok := n.(*ast.CallExpr); ok && c13Name(c.Fun) == "getContainerExtendedResourcesRequirement" && len(c.Args) == 2 {
					if cl, ok := c.Args[1].(*ast.CompositeLit); ok {
						for _, el := range cl.Elts {
							sum = append(sum, e.c13Str(md, el, "summary resource"))
						}
					}
				}
				return true
			})
		}
		fmt.Fprintf(&e.out, "def summaryResources : List (List Nat) := %s\n", c13BytesList(sum))

		// handleCreate: the order of the h.<step>(ctx, req, obj) calls (the harness drives the first two steps directly)
		var steps []string
		if fd := e.funcDecl(md, "PodMutatingHandler", "handleCreate"); fd == nil || fd.Body == nil {
			e.fail("handleCreate not found")
		} else {
			ast.Inspect(fd.Body, func(n ast.Node) bool {
				if c, ok := n.(*ast.CallExpr); ok {
					if sel, ok := c.Fun.(*ast.SelectorExpr); ok && len(c.Args) == 3 {
						if id, ok := sel.X.(*ast.Ident); ok && fd.Recv != nil && len(fd.Recv.List[0].Names) == 1 && id.Name == fd.Recv.List[0].Names[0].Name {
							steps = append(steps, leanStr(sel.Sel.Name))
						}
					}
				}
				return true
			})
		}
		fmt.Fprintf(&e.out, "def handleCreateSteps : List String := [%s]\n", strings.Join(steps, ", "))
		// doMutateByColocationProfile: the profile.Spec fields in the order their `if` blocks appear
		var fields []string
		if fd := e.funcDecl(md, "PodMutatingHandler", "doMutateByColocationProfile"); fd == nil || fd.Body == nil {
			e.fail("doMutateByColocationProfile not found")
		} else {
			for _, st := range fd.Body.List {
				ifs, ok := st.(*ast.IfStmt)
				if !ok {
					continue
				}
				found := ""
				ast.Inspect(ifs.Cond, func(n ast.Node) bool {
					if sel, ok := n.(*ast.SelectorExpr); ok && found == "" {
						if inner, ok := sel.X.(*ast.SelectorExpr); ok && inner.Sel.Name == "Spec" {
							found = sel.Sel.Name
						}
					}
					return true
				})
				if found != "" {
					fields = append(fields, leanStr(found))
				}
			}
		}
		fmt.Fprintf(&e.out, "def profileFieldOrder : List String := [%s]\n", strings.Join(fields, ", "))

		// label / annotation keys, through the index expressions that read them
		fmt.Fprintf(&e.out, "def labelQoS : List Nat := %s\n", c13Bytes(c13IndexKey(e, d, "", "GetQoSClassByAttrs")))
		fmt.Fprintf(&e.out, "def labelPriorityClass : List Nat := %s\n", c13Bytes(c13IndexKey(e, d, "", "GetPodPriorityClassRaw")))
		fmt.Fprintf(&e.out, "def labelPriority : List Nat := %s\n", c13Bytes(c13IndexKey(e, vd, "", "validateImmutablePriority")))
		fmt.Fprintf(&e.out, "def annotationExtendedResourceSpec : List Nat := %s\n", c13Bytes(c13IndexKey(e, d, "", "GetExtendedResourceSpec")))
		fmt.Fprintf(&e.out, "def annotationSkipUpdateResource : List Nat := %s\n", c13Bytes(c13IndexKey(e, d, "", "ShouldSkipUpdateResource")))
		c13EntryFacts(e)
	}
}

// ---- the entry points (Model/C13Handle.lean): dispatch, `mutated` bookkeeping, guards in front of the validators ----

func c13StrList(xs []string) string {
	q := make([]string, len(xs))
	for i, x := range xs {
		q[i] = leanStr(x)
	}
	return "[" + strings.Join(q, ", ") + "]"
}

// c13Mentions: the selector names, called function names and string literals an expression mentions (sorted, distinct;
// local variable names are left out, so renaming a local is harmless).
func c13Mentions(xs ...ast.Node) []string {
	set := map[string]bool{}
	for _, x := range xs {
		if x == nil {
			continue
		}
		ast.Inspect(x, func(n ast.Node) bool {
			switch v := n.(type) {
			case *ast.SelectorExpr:
				set[v.Sel.Name] = true
			case *ast.CallExpr:
				if id, ok := v.Fun.(*ast.Ident); ok {
					set[id.Name] = true
				}
			case *ast.BasicLit:
				if v.Kind == token.STRING {
					set[v.Value] = true
				}
			}
			return true
		})
	}
	var out []string
	for k := range set {
		out = append(out, k)
	}
	sort.Strings(out)
	return out
}

// c13Names: c13Mentions without the string literals (a reason text such as admission.Allowed("") may change freely)
func c13Names(xs ...ast.Node) []string {
	var out []string
	for _, m := range c13Mentions(xs...) {
		if !strings.HasPrefix(m, "\"") && !strings.HasPrefix(m, "`") {
			out = append(out, m)
		}
	}
	return out
}

func c13RecvName(fd *ast.FuncDecl) string {
	if fd.Recv != nil && len(fd.Recv.List) == 1 && len(fd.Recv.List[0].Names) == 1 {
		return fd.Recv.List[0].Names[0].Name
	}
	return ""
}

// c13RecvCalls: the names of the calls recv.<name>(...) with at least minArgs arguments inside n, in source order.
func c13RecvCalls(n ast.Node, recv string, minArgs int) []string {
	var out []string
	if n == nil || recv == "" {
		return out
	}
	ast.Inspect(n, func(x ast.Node) bool {
		if c, ok := x.(*ast.CallExpr); ok && len(c.Args) >= minArgs {
			if sel, ok := c.Fun.(*ast.SelectorExpr); ok {
				if id, ok := sel.X.(*ast.Ident); ok && id.Name == recv {
					out = append(out, sel.Sel.Name)
				}
			}
		}
		return true
	})
	return out
}

type c13Ret struct {
	admit, reject bool
	mentions      []string
}

// c13Returns: the return statements of stmts with the conditions of the enclosing ifs.  admit = naked return or first
// result `true`; reject = first result `false`.
func c13Returns(stmts []ast.Stmt, conds []ast.Node, out *[]c13Ret) {
	for _, st := range stmts {
		switch s := st.(type) {
		case *ast.ReturnStmt:
			r := c13Ret{mentions: c13Mentions(conds...)}
			if len(s.Results) == 0 {
				r.admit = true
			} else if id, ok := s.Results[0].(*ast.Ident); ok && id.Name == "true" {
				r.admit = true
			} else if ok && id.Name == "false" {
				r.reject = true
			}
			*out = append(*out, r)
		case *ast.IfStmt:
			inner := append(append([]ast.Node{}, conds...), s.Cond)
			if s.Init != nil {
				inner = append(inner, s.Init)
			}
			c13Returns(s.Body.List, inner, out)
			switch el := s.Else.(type) {
			case *ast.BlockStmt:
				c13Returns(el.List, inner, out)
			case *ast.IfStmt:
				c13Returns([]ast.Stmt{el}, inner, out)
			}
		case *ast.BlockStmt:
			c13Returns(s.List, conds, out)
		default:
			ast.Inspect(st, func(n ast.Node) bool {
				if r, ok := n.(*ast.ReturnStmt); ok {
					c13Returns([]ast.Stmt{r}, append(append([]ast.Node{}, conds...), st), out)
				}
				return true
			})
		}
	}
}

func c13IgnoreFacts(e *ext, dir string) []string {
	fd := e.funcDecl(dir, "", "shouldIgnoreIfNotPod")
	if fd == nil || fd.Body == nil || len(fd.Body.List) == 0 {
		e.fail("shouldIgnoreIfNotPod not found in %s", dir)
		return nil
	}
	ifs, ok := fd.Body.List[0].(*ast.IfStmt)
	if !ok {
		e.fail("shouldIgnoreIfNotPod in %s does not start with an if", dir)
		return nil
	}
	out := c13Mentions(ifs.Cond)
	ast.Inspect(ifs.Cond, func(n ast.Node) bool {
		if be, ok := n.(*ast.BinaryExpr); ok {
			out = append(out, be.Op.String())
		}
		return true
	})
	return out
}

func c13EntryFacts(e *ext) {
	md, vd := "pkg/webhook/pod/mutating", "pkg/webhook/pod/validating"
	fmt.Fprintf(&e.out, "-- entry points\n")
	fmt.Fprintf(&e.out, "def ignoreMutating : List String := %s\n", c13StrList(c13IgnoreFacts(e, md)))
	fmt.Fprintf(&e.out, "def ignoreValidating : List String := %s\n", c13StrList(c13IgnoreFacts(e, vd)))

	// PodMutatingHandler.Handle: the switch on req.Operation, the "no patch unless mutated" guard, the patch constructor
	var dispatch []string
	noPatchGuard, patchFrom, firstGuard := false, "", ""
	if fd := e.funcDecl(md, "PodMutatingHandler", "Handle"); fd == nil || fd.Body == nil {
		e.fail("PodMutatingHandler.Handle not found")
	} else {
		recv := c13RecvName(fd)
		flagVar := ""
		for i, st := range fd.Body.List {
			if i == 0 {
				if ifs, ok := st.(*ast.IfStmt); ok {
					firstGuard = strings.Join(c13Mentions(ifs.Cond), ",")
				}
			}
			if sw, ok := st.(*ast.SwitchStmt); ok && strings.Join(c13Mentions(sw.Tag), ",") == "Operation" {
				for _, cc := range sw.Body.List {
					cl := cc.(*ast.CaseClause)
					label := "default"
					if len(cl.List) > 0 {
						label = strings.Join(c13Mentions(cl.List[0]), ",")
					}
					target := strings.Join(c13RecvCalls(cl, recv, 3), ",")
					if target == "" {
						target = strings.Join(c13Names(cl), ",")
					}
					for _, b := range cl.Body {
						if as, ok := b.(*ast.AssignStmt); ok && len(as.Lhs) > 0 {
							if id, ok := as.Lhs[0].(*ast.Ident); ok {
								flagVar = id.Name
							}
						}
					}
					dispatch = append(dispatch, fmt.Sprintf("(%s, %s)", leanStr(label), leanStr(target)))
				}
			}
			if ifs, ok := st.(*ast.IfStmt); ok && flagVar != "" {
				if un, ok := ifs.Cond.(*ast.UnaryExpr); ok && un.Op == token.NOT {
					if id, ok := un.X.(*ast.Ident); ok && id.Name == flagVar && len(ifs.Body.List) == 1 {
						if r, ok := ifs.Body.List[0].(*ast.ReturnStmt); ok && len(r.Results) == 1 && strings.Join(c13Names(r.Results[0]), ",") == "Allowed" {
							noPatchGuard = true
						}
					}
				}
			}
			if r, ok := st.(*ast.ReturnStmt); ok && i == len(fd.Body.List)-1 && len(r.Results) == 1 {
				if c, ok := r.Results[0].(*ast.CallExpr); ok {
					patchFrom = c13Name(c.Fun)
				}
			}
		}
	}
	fmt.Fprintf(&e.out, "def mutatingFirstGuard : String := %s\n", leanStr(firstGuard))
	fmt.Fprintf(&e.out, "def mutatingDispatch : List (String × String) := [%s]\n", strings.Join(dispatch, ", "))
	fmt.Fprintf(&e.out, "def mutatingNoPatchUnlessMutated : Bool := %v\n", noPatchGuard)
	fmt.Fprintf(&e.out, "def mutatingPatchFrom : String := %s\n", leanStr(patchFrom))

	// handleCreate: every step's flag is ORed into the result; handleUpdate runs no step
	ors := 0
	if fd := e.funcDecl(md, "PodMutatingHandler", "handleCreate"); fd != nil && fd.Body != nil {
		for _, st := range fd.Body.List {
			if as, ok := st.(*ast.AssignStmt); ok && len(as.Lhs) == 1 && len(as.Rhs) == 1 {
				if be, ok := as.Rhs[0].(*ast.BinaryExpr); ok && be.Op == token.LOR {
					l, lok := as.Lhs[0].(*ast.Ident)
					x, xok := be.X.(*ast.Ident)
					y, yok := be.Y.(*ast.Ident)
					if lok && xok && yok && (l.Name == x.Name) != (l.Name == y.Name) {
						ors++
					}
				}
			}
		}
	}
	fmt.Fprintf(&e.out, "def handleCreateFlagOrs : Nat := %d\n", ors)
	var upd []string
	if fd := e.funcDecl(md, "PodMutatingHandler", "handleUpdate"); fd == nil || fd.Body == nil {
		e.fail("handleUpdate not found")
	} else {
		upd = c13RecvCalls(fd.Body, c13RecvName(fd), 3)
	}
	fmt.Fprintf(&e.out, "def handleUpdateSteps : List String := %s\n", c13StrList(upd))

	// clusterColocationProfileMutatingPod: CREATE only; the last return ORs the flag of mutatePodResourceSpec into the
	// flag set by applied profiles
	createOnly, orsResourceFlag := false, false
	if fd := e.funcDecl(md, "PodMutatingHandler", "clusterColocationProfileMutatingPod"); fd == nil || fd.Body == nil || len(fd.Body.List) < 3 {
		e.fail("clusterColocationProfileMutatingPod not found")
	} else {
		if ifs, ok := fd.Body.List[0].(*ast.IfStmt); ok {
			if be, ok := ifs.Cond.(*ast.BinaryExpr); ok && be.Op == token.NEQ && strings.Join(c13Mentions(be), ",") == "Create,Operation" && len(ifs.Body.List) == 1 {
				if r, ok := ifs.Body.List[0].(*ast.ReturnStmt); ok && len(r.Results) == 2 {
					if id, ok := r.Results[0].(*ast.Ident); ok && id.Name == "false" {
						createOnly = true
					}
				}
			}
		}
		n := len(fd.Body.List)
		last, lok := fd.Body.List[n-1].(*ast.ReturnStmt)
		prev, pok := fd.Body.List[n-2].(*ast.AssignStmt)
		if lok && pok && len(last.Results) == 2 && len(prev.Lhs) == 2 && len(prev.Rhs) == 1 {
			calls := c13RecvCalls(prev.Rhs[0], c13RecvName(fd), 1)
			flag, fok := prev.Lhs[0].(*ast.Ident)
			if be, ok := last.Results[0].(*ast.BinaryExpr); ok && fok && be.Op == token.LOR && len(calls) == 1 && calls[0] == "mutatePodResourceSpec" {
				x, xok := be.X.(*ast.Ident)
				y, yok := be.Y.(*ast.Ident)
				if xok && yok && (x.Name == flag.Name) != (y.Name == flag.Name) {
					other := x.Name
					if x.Name == flag.Name {
						other = y.Name
					}
					// `other` must be the flag the profile loop sets to true
					setTrue := false
					ast.Inspect(fd.Body, func(nn ast.Node) bool {
						if as, ok := nn.(*ast.AssignStmt); ok && len(as.Lhs) == 1 && len(as.Rhs) == 1 {
							l, lok := as.Lhs[0].(*ast.Ident)
							r, rok := as.Rhs[0].(*ast.Ident)
							if lok && rok && l.Name == other && r.Name == "true" {
								setTrue = true
							}
						}
						return true
					})
					orsResourceFlag = setTrue
				}
			}
		}
	}
	fmt.Fprintf(&e.out, "def colocationCreateOnly : Bool := %v\n", createOnly)
	fmt.Fprintf(&e.out, "def colocationOrsResourceFlag : Bool := %v\n", orsResourceFlag)

	// extendedResourceSpecMutatingPod: the guards in front of mutateByExtendedResources (each returns false, nil)
	var extGuards []string
	if fd := e.funcDecl(md, "PodMutatingHandler", "extendedResourceSpecMutatingPod"); fd == nil || fd.Body == nil {
		e.fail("extendedResourceSpecMutatingPod not found")
	} else {
		for _, st := range fd.Body.List {
			if ifs, ok := st.(*ast.IfStmt); ok {
				extGuards = append(extGuards, strings.Join(c13Mentions(ifs.Cond), ","))
			}
		}
	}
	fmt.Fprintf(&e.out, "def extStepGuards : List String := %s\n", c13StrList(extGuards))

	// validatingPodFn: the returns in front of the first validator, and the validators in order
	var admits [][]string
	rejects := 0
	var steps []string
	if fd := e.funcDecl(vd, "PodValidatingHandler", "validatingPodFn"); fd == nil || fd.Body == nil {
		e.fail("validatingPodFn not found")
	} else {
		recv := c13RecvName(fd)
		steps = c13RecvCalls(fd.Body, recv, 3)
		var before []ast.Stmt
		for _, st := range fd.Body.List {
			if len(c13RecvCalls(st, recv, 3)) > 0 {
				break
			}
			before = append(before, st)
		}
		var rets []c13Ret
		c13Returns(before, nil, &rets)
		for _, r := range rets {
			if r.admit {
				admits = append(admits, r.mentions)
			}
			if r.reject {
				rejects++
			}
		}
	}
	var ad []string
	for _, a := range admits {
		ad = append(ad, c13StrList(a))
	}
	fmt.Fprintf(&e.out, "def validatingEarlyAdmits : List (List String) := [%s]\n", strings.Join(ad, ", "))
	fmt.Fprintf(&e.out, "def validatingEarlyRejects : Nat := %d\n", rejects)
	fmt.Fprintf(&e.out, "def validatingSteps : List String := %s\n", c13StrList(steps))

	// clusterColocationProfileValidatingPod: what runs on UPDATE only (plain / behind a feature gate), what runs always
	var updPlain, updGated, always []string
	if fd := e.funcDecl(vd, "PodValidatingHandler", "clusterColocationProfileValidatingPod"); fd == nil || fd.Body == nil {
		e.fail("clusterColocationProfileValidatingPod not found")
	} else {
		calls := func(n ast.Node) []string {
			var out []string
			ast.Inspect(n, func(x ast.Node) bool {
				if c, ok := x.(*ast.CallExpr); ok {
					if id, ok := c.Fun.(*ast.Ident); ok && id.Name != "append" {
						out = append(out, id.Name)
					}
				}
				return true
			})
			return out
		}
		for _, st := range fd.Body.List {
			if sw, ok := st.(*ast.SwitchStmt); ok {
				for _, cc := range sw.Body.List {
					cl := cc.(*ast.CaseClause)
					if len(cl.List) != 1 || strings.Join(c13Mentions(cl.List[0]), ",") != "Update" {
						if len(cl.Body) > 0 {
							e.fail("clusterColocationProfileValidatingPod: a non-UPDATE case has a body")
						}
						continue
					}
					for _, b := range cl.Body {
						if ifs, ok := b.(*ast.IfStmt); ok {
							pol := ""
							if un, ok := ifs.Cond.(*ast.UnaryExpr); ok && un.Op == token.NOT {
								pol = "!"
							}
							for _, f := range calls(ifs.Body) {
								updGated = append(updGated, pol+strings.Join(c13Mentions(ifs.Cond), ",")+":"+f)
							}
						} else {
							updPlain = append(updPlain, calls(b)...)
						}
					}
				}
			} else if as, ok := st.(*ast.AssignStmt); ok {
				always = append(always, calls(as)...)
			}
		}
	}
	fmt.Fprintf(&e.out, "def updateChecks : List String := %s\n", c13StrList(updPlain))
	fmt.Fprintf(&e.out, "def updateGatedChecks : List String := %s\n", c13StrList(updGated))
	fmt.Fprintf(&e.out, "def alwaysChecks : List String := %s\n", c13StrList(always))
	c13PodRequestFacts(e, vd)
}

// c13PodRequestFacts (ext6): how the two resource validators read "the pod's request": through which helper of
// pkg/util, which k8s helper that one calls, and which fields of the options literal it sets (none: the SPEC is read;
// UseStatusResources would make it max(spec, status) / the status alone).
func c13PodRequestFacts(e *ext, vd string) {
	var readers []string
	for _, fn := range []string{"validateRequiredQoSClass", "validateResources"} {
		fd := e.funcDecl(vd, "", fn)
		if fd == nil || fd.Body == nil {
			e.fail(fn + " not found")
			continue
		}
		ast.Inspect(fd.Body, func(n ast.Node) bool {
			if c, ok := n.(*ast.CallExpr); ok {
				if se, ok := c.Fun.(*ast.SelectorExpr); ok {
					if x, ok := se.X.(*ast.Ident); ok && x.Name == "util" {
						readers = append(readers, fn+":"+se.Sel.Name)
					}
				}
			}
			return true
		})
	}
	fmt.Fprintf(&e.out, "def requestReaders : List String := %s\n", c13StrList(readers))
	callee, opts := "?", []string{"?"}
	if fd := e.funcDecl("pkg/util", "", "GetPodRequest"); fd == nil || fd.Body == nil {
		e.fail("util.GetPodRequest not found")
	} else {
		n := 0
		ast.Inspect(fd.Body, func(x ast.Node) bool {
			c, ok := x.(*ast.CallExpr)
			if !ok || len(c.Args) != 2 {
				return true
			}
			se, ok := c.Fun.(*ast.SelectorExpr)
			if !ok || !strings.HasPrefix(se.Sel.Name, "Pod") {
				return true
			}
			n++
			callee = se.Sel.Name
			if cl, ok := c.Args[1].(*ast.CompositeLit); ok {
				opts = []string{}
				for _, el := range cl.Elts {
					if kv, ok := el.(*ast.KeyValueExpr); ok {
						if v, ok := kv.Value.(*ast.Ident); ok && v.Name == "false" {
							continue // the zero value written out: not an option that is set
						}
						opts = append(opts, c13Name(kv.Key))
					} else {
						opts = append(opts, "?")
					}
				}
			}
			return true
		})
		if n != 1 {
			callee, opts = "?", []string{"?"}
		}
	}
	fmt.Fprintf(&e.out, "def podRequestHelper : String := %s\n", leanStr(callee))
	fmt.Fprintf(&e.out, "def podRequestOptions : List String := %s\n", c13StrList(opts))
}
