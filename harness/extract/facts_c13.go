package main

import (
	"fmt"
	"go/ast"
	"sort"
	"strings"
)

func c13Name(x ast.Expr) string {
	switch v := x.(type) {
	case *ast.Ident:
		return v.Name
	case *ast.SelectorExpr:
		return v.Sel.Name
	}
	return "?"
}

func c13StrList(xs []string) string {
	q := make([]string, len(xs))
	for i, x := range xs {
		q[i] = leanStr(x)
	}
	return "[" + strings.Join(q, ", ") + "]"
}

func init() {
	extractors["C13"] = func(e *ext) {
		d := "apis/extension"
		for _, n := range []string{"PriorityProdValueMin", "PriorityProdValueMax", "PriorityMidValueMin", "PriorityMidValueMax",
			"PriorityBatchValueMin", "PriorityBatchValueMax", "PriorityFreeValueMin", "PriorityFreeValueMax"} {
			e.constInt(d, n, n)
		}
		// the (QoS, priority classes...) arguments of every forbidSpecialQoSClassAndPriorityClass call
		var pairs []string
		fd := e.funcDecl("pkg/webhook/pod/validating", "PodValidatingHandler", "clusterColocationProfileValidatingPod")
		if fd == nil {
			e.fail("clusterColocationProfileValidatingPod not found")
		} else {
			ast.Inspect(fd.Body, func(n ast.Node) bool {
				if c, ok := n.(*ast.CallExpr); ok && c13Name(c.Fun) == "forbidSpecialQoSClassAndPriorityClass" && len(c.Args) >= 2 {
					var pcs []string
					for _, a := range c.Args[2:] {
						pcs = append(pcs, c13Name(a))
					}
					sort.Strings(pcs)
					pairs = append(pairs, fmt.Sprintf("(%s, %s)", leanStr(c13Name(c.Args[1])), c13StrList(pcs)))
				}
				return true
			})
			sort.Strings(pairs)
		}
		fmt.Fprintf(&e.out, "def forbidden : List (String × List String) := [%s]\n", strings.Join(pairs, ", "))
		// ResourceNameMap
		var tiers []string
		if x, ok := e.valueSpec(d, "ResourceNameMap"); !ok {
			e.fail("ResourceNameMap not found")
		} else if cl, ok := x.(*ast.CompositeLit); !ok {
			e.fail("ResourceNameMap is not a composite literal")
		} else {
			for _, el := range cl.Elts {
				kv, ok := el.(*ast.KeyValueExpr)
				inner, ok2 := kv.Value.(*ast.CompositeLit)
				if !ok || !ok2 {
					e.fail("ResourceNameMap: unexpected element")
					continue
				}
				var ents []string
				for _, iel := range inner.Elts {
					ikv, ok := iel.(*ast.KeyValueExpr)
					if !ok {
						e.fail("ResourceNameMap: unexpected inner element")
						continue
					}
					ents = append(ents, fmt.Sprintf("(%s, %s)", leanStr(c13Name(ikv.Key)), leanStr(c13Name(ikv.Value))))
				}
				sort.Strings(ents)
				tiers = append(tiers, fmt.Sprintf("(%s, [%s])", leanStr(c13Name(kv.Key)), strings.Join(ents, ", ")))
			}
			sort.Strings(tiers)
		}
		fmt.Fprintf(&e.out, "def resourceNameMap : List (String × List (String × String)) := [%s]\n", strings.Join(tiers, ", "))
	}
}
