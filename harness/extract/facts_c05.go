package main

import (
	"fmt"
	"go/ast"
	"go/token"
	"strings"
)

// C05 facts: guard orders / condition SHAPES the model mirrors (local identifiers are blanked, so renames of
// locals do not trip them; method, field and constant names stay):
//   * Plugin.NominateReservation: the top-level guards before the filter loop, incl. the single-candidate
//     shortcut and the allocate-once gate nested in it,
//   * Plugin.FilterNominateReservation: the first gate,
//   * podEventHandler.updatePod: the top-level routing guards, the guard in front of cache.updatePod, the
//     annotation-validity tests; util.IsPodTerminated,
//   * fitsNodeAndReservation: the policy switch; fitsReservation: the non-negative clamp comes AFTER the
//     preemptible subtraction,
//   * reservationCache: every mutating entry point is one critical section (Lock + deferred Unlock first),
//   * frameworkext/eventhandlers (several profiles): the loop of deleteReservationFromSchedulerCache ranges over
//     GetAllReservationCaches(), calls DeleteReservation unconditionally and has NO break / return / continue / goto;
//     GetAllReservationCaches' Range callback always returns true; the guard order of updateReservation with the
//     cache function each case calls (locals resolved to their defining calls, parameters named #i), the
//     delete-then-add guard of updateReservationInSchedulerCache, toReservation's shapes, isReservationActive,
//     the plugin's reservationEventHandler gates.
func c05Shape(x ast.Expr) string {
	switch v := x.(type) {
	case *ast.ParenExpr:
		return c05Shape(v.X)
	case *ast.BinaryExpr:
		return "(" + c05Shape(v.X) + " " + v.Op.String() + " " + c05Shape(v.Y) + ")"
	case *ast.UnaryExpr:
		return v.Op.String() + c05Shape(v.X)
	case *ast.CallExpr:
		switch f := v.Fun.(type) {
		case *ast.Ident:
			return f.Name + "()"
		case *ast.SelectorExpr:
			return f.Sel.Name + "()"
		}
		return "?()"
	case *ast.SelectorExpr:
		return "." + v.Sel.Name
	case *ast.IndexExpr:
		return c05Shape(v.X) + "[]"
	case *ast.BasicLit:
		return v.Value
	case *ast.Ident:
		if v.Name == "nil" || v.Name == "true" || v.Name == "false" {
			return v.Name
		}
		return "_"
	}
	return "?"
}

func c05Leaves(s *ast.IfStmt) string {
	if len(s.Body.List) == 0 {
		return ""
	}
	switch l := s.Body.List[len(s.Body.List)-1].(type) {
	case *ast.ReturnStmt:
		return "return"
	case *ast.BranchStmt:
		return strings.ToLower(l.Tok.String())
	}
	return ""
}

func c05List(out *strings.Builder, name string, xs []string) {
	q := make([]string, len(xs))
	for i, s := range xs {
		q[i] = leanStr(s)
	}
	fmt.Fprintf(out, "def %s : List String := [%s]\n", name, strings.Join(q, ", "))
}

func c05Calls(n ast.Node, sel string) token.Pos {
	pos := token.NoPos
	ast.Inspect(n, func(m ast.Node) bool {
		if c, ok := m.(*ast.CallExpr); ok && pos == token.NoPos {
			if f, ok := c.Fun.(*ast.SelectorExpr); ok && f.Sel.Name == sel {
				pos = c.Pos()
			}
		}
		return true
	})
	return pos
}

// c05Resolve renders x with local identifiers replaced by the shape of their (single) defining expression and the
// function's parameters by #index, so that renaming locals does not change the fact
func c05Resolve(x ast.Expr, defs map[string]ast.Expr, params map[string]int, depth int) string {
	switch v := x.(type) {
	case *ast.ParenExpr:
		return c05Resolve(v.X, defs, params, depth)
	case *ast.BinaryExpr:
		return "(" + c05Resolve(v.X, defs, params, depth) + " " + v.Op.String() + " " + c05Resolve(v.Y, defs, params, depth) + ")"
	case *ast.UnaryExpr:
		return v.Op.String() + c05Resolve(v.X, defs, params, depth)
	case *ast.CallExpr:
		name := "?"
		switch f := v.Fun.(type) {
		case *ast.Ident:
			name = f.Name
		case *ast.SelectorExpr:
			name = f.Sel.Name
		}
		args := make([]string, len(v.Args))
		for i, a := range v.Args {
			args[i] = c05Resolve(a, defs, params, depth)
		}
		return name + "(" + strings.Join(args, ",") + ")"
	case *ast.SelectorExpr:
		return c05Resolve(v.X, defs, params, depth) + "." + v.Sel.Name
	case *ast.BasicLit:
		return v.Value
	case *ast.Ident:
		if v.Name == "nil" || v.Name == "true" || v.Name == "false" {
			return v.Name
		}
		if i, ok := params[v.Name]; ok {
			return fmt.Sprintf("#%d", i)
		}
		if d, ok := defs[v.Name]; ok && depth < 4 {
			return c05Resolve(d, defs, params, depth+1)
		}
		return "_"
	}
	return "?"
}

func c05Params(fd *ast.FuncDecl) map[string]int {
	m := map[string]int{}
	i := 0
	for _, f := range fd.Type.Params.List {
		for _, n := range f.Names {
			m[n.Name] = i
			i++
		}
	}
	return m
}

// top-level `name := expr` / `name, _ := expr` definitions of a function body
func c05Defs(body *ast.BlockStmt) map[string]ast.Expr {
	m := map[string]ast.Expr{}
	for _, st := range body.List {
		if as, ok := st.(*ast.AssignStmt); ok && as.Tok == token.DEFINE && len(as.Rhs) == 1 {
			if id, ok := as.Lhs[0].(*ast.Ident); ok {
				m[id.Name] = as.Rhs[0]
			}
		}
	}
	return m
}

// names of the functions called anywhere in n, restricted to `want`, in source order
func c05CalledOf(n ast.Node, want map[string]bool) []string {
	var out []string
	ast.Inspect(n, func(m ast.Node) bool {
		if c, ok := m.(*ast.CallExpr); ok {
			name := ""
			switch f := c.Fun.(type) {
			case *ast.Ident:
				name = f.Name
			case *ast.SelectorExpr:
				name = f.Sel.Name
			}
			if want[name] {
				out = append(out, name)
			}
		}
		return true
	})
	return out
}

// like c05CalledOf, with the resolved arguments
func c05CalledArgs(n ast.Node, want map[string]bool, defs map[string]ast.Expr, params map[string]int) []string {
	var out []string
	ast.Inspect(n, func(m ast.Node) bool {
		if c, ok := m.(*ast.CallExpr); ok {
			name := ""
			switch f := c.Fun.(type) {
			case *ast.Ident:
				name = f.Name
			case *ast.SelectorExpr:
				name = f.Sel.Name
			}
			if want[name] {
				args := make([]string, len(c.Args))
				for i, a := range c.Args {
					args[i] = c05Resolve(a, defs, params, 0)
				}
				out = append(out, name+"("+strings.Join(args, ",")+")")
			}
		}
		return true
	})
	return out
}

func c05Profiles(e *ext) {
	d := "pkg/scheduler/frameworkext/eventhandlers"
	cacheFns := map[string]bool{"addReservationToSchedulerCache": true, "updateReservationInSchedulerCache": true,
		"deleteReservationFromSchedulerCache": true}

	// --- deleteReservationFromSchedulerCache: first guard + the loop over every registered cache ---
	firstGuard := ""
	var loopFacts, loopExits []string
	if fd := e.funcDecl(d, "", "deleteReservationFromSchedulerCache"); fd != nil && fd.Body != nil {
		params, defs := c05Params(fd), c05Defs(fd.Body)
		for _, st := range fd.Body.List {
			if is, ok := st.(*ast.IfStmt); ok {
				firstGuard = c05Resolve(is.Cond, map[string]ast.Expr{}, params, 0) + ":" + c05Leaves(is)
				break
			}
		}
		loops := 0
		for _, st := range fd.Body.List {
			rs, ok := st.(*ast.RangeStmt)
			if !ok {
				continue
			}
			loops++
			loopFacts = append(loopFacts, "range:"+c05Resolve(rs.X, defs, params, 0))
			for _, bst := range rs.Body.List { // statements executed on EVERY iteration (top level of the body)
				switch v := bst.(type) {
				case *ast.AssignStmt:
					for _, c := range c05CalledArgs(v, map[string]bool{"DeleteReservation": true}, defs, params) {
						loopFacts = append(loopFacts, "always:"+c)
					}
				case *ast.ExprStmt:
					for _, c := range c05CalledArgs(v, map[string]bool{"DeleteReservation": true}, defs, params) {
						loopFacts = append(loopFacts, "always:"+c)
					}
				}
			}
			ast.Inspect(rs.Body, func(n ast.Node) bool {
				switch v := n.(type) {
				case *ast.BranchStmt:
					loopExits = append(loopExits, strings.ToLower(v.Tok.String()))
				case *ast.ReturnStmt:
					loopExits = append(loopExits, "return")
				case *ast.FuncLit:
					return false
				}
				return true
			})
		}
		if loops != 1 {
			e.fail("deleteReservationFromSchedulerCache: %d range loops, want 1", loops)
		}
		// DeleteReservation must not be called outside the loop
		if n := len(c05CalledOf(fd.Body, map[string]bool{"DeleteReservation": true})); n != 1 {
			e.fail("deleteReservationFromSchedulerCache: %d DeleteReservation calls, want 1", n)
		}
	} else {
		e.fail("deleteReservationFromSchedulerCache not found")
	}
	fmt.Fprintf(&e.out, "def deleteFirstGuard : String := %s\n", leanStr(firstGuard))
	c05List(&e.out, "cacheLoop", loopFacts)
	c05List(&e.out, "cacheLoopExits", loopExits)

	// --- GetAllReservationCaches: the Range callback never stops the iteration ---
	var rangeReturns []string
	if fd := e.funcDecl("pkg/scheduler/frameworkext", "", "GetAllReservationCaches"); fd != nil && fd.Body != nil {
		ast.Inspect(fd.Body, func(n ast.Node) bool {
			if fl, ok := n.(*ast.FuncLit); ok {
				ast.Inspect(fl.Body, func(m ast.Node) bool {
					if rs, ok := m.(*ast.ReturnStmt); ok && len(rs.Results) == 1 {
						rangeReturns = append(rangeReturns, c05Shape(rs.Results[0]))
					}
					return true
				})
				return false
			}
			return true
		})
	} else {
		e.fail("frameworkext.GetAllReservationCaches not found")
	}
	c05List(&e.out, "allCachesRangeReturns", rangeReturns)

	// --- updateReservation (scheduler-wide): guard order + the cache function each case calls ---
	var cases []string
	if fd := e.funcDecl(d, "", "updateReservation"); fd != nil && fd.Body != nil {
		params, defs := c05Params(fd), c05Defs(fd.Body)
		for _, st := range fd.Body.List {
			is, ok := st.(*ast.IfStmt)
			if !ok {
				continue
			}
			cases = append(cases, c05Resolve(is.Cond, defs, params, 0)+" => "+strings.Join(c05CalledArgs(is.Body, cacheFns, defs, params), ",")+":"+c05Leaves(is))
		}
	} else {
		e.fail("eventhandlers.updateReservation not found")
	}
	c05List(&e.out, "globalUpdateCases", cases)

	var inCache []string
	if fd := e.funcDecl(d, "", "updateReservationInSchedulerCache"); fd != nil && fd.Body != nil {
		params, defs := c05Params(fd), c05Defs(fd.Body)
		for _, st := range fd.Body.List {
			if is, ok := st.(*ast.IfStmt); ok && len(c05CalledOf(is.Body, cacheFns)) > 0 {
				inCache = append(inCache, c05Resolve(is.Cond, defs, params, 0)+" => "+strings.Join(c05CalledArgs(is.Body, cacheFns, defs, params), ",")+":"+c05Leaves(is))
			}
		}
	} else {
		e.fail("updateReservationInSchedulerCache not found")
	}
	c05List(&e.out, "globalUpdateInCache", inCache)

	var addCases, delCalls []string
	if fd := e.funcDecl(d, "", "addReservation"); fd != nil && fd.Body != nil {
		addCases = c05CalledOf(fd.Body, map[string]bool{"deleteReservationFromSchedulerCache": true, "DeleteReservation": true})
	} else {
		e.fail("eventhandlers.addReservation not found")
	}
	c05List(&e.out, "globalAddDeletes", addCases)
	if fd := e.funcDecl(d, "", "deleteReservation"); fd != nil && fd.Body != nil {
		for _, st := range fd.Body.List { // top level = unconditional
			if es, ok := st.(*ast.ExprStmt); ok {
				delCalls = append(delCalls, c05CalledArgs(es, cacheFns, map[string]ast.Expr{}, c05Params(fd))...)
			}
		}
	} else {
		e.fail("eventhandlers.deleteReservation not found")
	}
	c05List(&e.out, "globalDeleteAlways", delCalls)

	active := ""
	if fd := e.funcDecl(d, "", "isReservationActive"); fd != nil && fd.Body != nil && len(fd.Body.List) == 1 {
		if rs, ok := fd.Body.List[0].(*ast.ReturnStmt); ok && len(rs.Results) == 1 {
			active = c05Resolve(rs.Results[0], map[string]ast.Expr{}, c05Params(fd), 0)
		}
	} else {
		e.fail("eventhandlers.isReservationActive not found or not a single return")
	}
	fmt.Fprintf(&e.out, "def globalActiveDef : String := %s\n", leanStr(active))

	var shapes []string
	if fd := e.funcDecl(d, "", "toReservation"); fd != nil && fd.Body != nil {
		ast.Inspect(fd.Body, func(n ast.Node) bool {
			if cc, ok := n.(*ast.CaseClause); ok {
				for _, x := range cc.List {
					t := x
					if st, ok := t.(*ast.StarExpr); ok {
						t = st.X
					}
					if se, ok := t.(*ast.SelectorExpr); ok {
						shapes = append(shapes, se.Sel.Name)
					} else {
						shapes = append(shapes, "?")
					}
				}
			}
			return true
		})
	} else {
		e.fail("eventhandlers.toReservation not found")
	}
	c05List(&e.out, "toReservationShapes", shapes)

	// --- the plugin's reservationEventHandler: which gate leads to which cache call ---
	pd := "pkg/scheduler/plugins/reservation"
	cacheCalls := map[string]bool{"updateReservation": true, "updateReservationIfExists": true, "DeleteReservation": true}
	var plug []string
	for _, fn := range []string{"OnAdd", "OnUpdate", "OnDelete"} {
		fd := e.funcDecl(pd, "reservationEventHandler", fn)
		if fd == nil || fd.Body == nil {
			e.fail("reservationEventHandler.%s not found", fn)
			continue
		}
		for _, st := range fd.Body.List {
			switch v := st.(type) {
			case *ast.IfStmt:
				for cur := v; cur != nil; {
					if calls := c05CalledOf(cur.Body, cacheCalls); len(calls) > 0 {
						plug = append(plug, fn+":"+c05Shape(cur.Cond)+" => "+strings.Join(calls, ","))
					}
					next, _ := cur.Else.(*ast.IfStmt)
					cur = next
				}
			case *ast.ExprStmt:
				for _, c := range c05CalledOf(v, cacheCalls) {
					plug = append(plug, fn+":always => "+c)
				}
			}
		}
	}
	c05List(&e.out, "pluginRsvHandler", plug)
}

func init() {
	extractors["C05"] = func(e *ext) {
		d := "pkg/scheduler/plugins/reservation"

		// --- NominateReservation ---
		var guards, inner []string
		if fd := e.funcDecl(d, "Plugin", "NominateReservation"); fd != nil && fd.Body != nil {
			for _, st := range fd.Body.List {
				if _, ok := st.(*ast.ForStmt); ok {
					break
				}
				if _, ok := st.(*ast.RangeStmt); ok {
					break
				}
				is, ok := st.(*ast.IfStmt)
				if !ok {
					continue
				}
				sh := c05Shape(is.Cond)
				guards = append(guards, sh+":"+c05Leaves(is))
				if strings.Contains(sh, "hasAffinity") {
					for _, st2 := range is.Body.List {
						if is2, ok := st2.(*ast.IfStmt); ok {
							inner = append(inner, c05Shape(is2.Cond)+":"+c05Leaves(is2))
						}
					}
				}
			}
		} else {
			e.fail("Plugin.NominateReservation not found")
		}
		c05List(&e.out, "nominateGuards", guards)
		c05List(&e.out, "shortcutInner", inner)

		gate := ""
		if fd := e.funcDecl(d, "Plugin", "FilterNominateReservation"); fd != nil && fd.Body != nil {
			for _, st := range fd.Body.List {
				if is, ok := st.(*ast.IfStmt); ok {
					gate = c05Shape(is.Cond) + ":" + c05Leaves(is)
					break
				}
			}
		} else {
			e.fail("Plugin.FilterNominateReservation not found")
		}
		fmt.Fprintf(&e.out, "def nominateFilterGate : String := %s\n", leanStr(gate))

		// --- podEventHandler.updatePod / deletePod ---
		var hguards, annot []string
		routeGuard := ""
		collectAnnot := func(body *ast.BlockStmt) {
			ast.Inspect(body, func(n ast.Node) bool {
				if is, ok := n.(*ast.IfStmt); ok {
					if sh := c05Shape(is.Cond); strings.Contains(sh, ".UID != \"\"") {
						annot = append(annot, sh)
					}
				}
				return true
			})
		}
		if fd := e.funcDecl(d, "podEventHandler", "updatePod"); fd != nil && fd.Body != nil {
			for _, st := range fd.Body.List {
				is, ok := st.(*ast.IfStmt)
				if !ok {
					continue
				}
				hguards = append(hguards, c05Shape(is.Cond)+":"+c05Leaves(is))
				if c05Calls(is.Body, "updatePod") != token.NoPos && routeGuard == "" {
					routeGuard = c05Shape(is.Cond)
				}
			}
			collectAnnot(fd.Body)
		} else {
			e.fail("podEventHandler.updatePod not found")
		}
		if fd := e.funcDecl(d, "podEventHandler", "deletePod"); fd != nil && fd.Body != nil {
			collectAnnot(fd.Body)
		} else {
			e.fail("podEventHandler.deletePod not found")
		}
		c05List(&e.out, "handlerGuards", hguards)
		fmt.Fprintf(&e.out, "def handlerRouteGuard : String := %s\n", leanStr(routeGuard))
		c05List(&e.out, "annotationValid", annot)

		term := ""
		if fd := e.funcDecl("pkg/util", "", "IsPodTerminated"); fd != nil && fd.Body != nil && len(fd.Body.List) == 1 {
			if rs, ok := fd.Body.List[0].(*ast.ReturnStmt); ok && len(rs.Results) == 1 {
				term = c05Shape(rs.Results[0])
			}
		} else {
			e.fail("util.IsPodTerminated not found or not a single return")
		}
		fmt.Fprintf(&e.out, "def terminatedDef : String := %s\n", leanStr(term))

		// --- fitsNodeAndReservation policy switch, fitsReservation clamp order ---
		var policy []string
		if fd := e.funcDecl(d, "", "fitsNodeAndReservation"); fd != nil && fd.Body != nil {
			for _, st := range fd.Body.List {
				is, ok := st.(*ast.IfStmt)
				if !ok || !strings.Contains(c05Shape(is.Cond), "ReservationAllocatePolicy") {
					continue
				}
				for cur := is; cur != nil; {
					policy = append(policy, c05Shape(cur.Cond))
					next, _ := cur.Else.(*ast.IfStmt)
					cur = next
				}
			}
		} else {
			e.fail("fitsNodeAndReservation not found")
		}
		c05List(&e.out, "policySwitch", policy)

		clampAfterSub := false
		if fd := e.funcDecl(d, "", "fitsReservation"); fd != nil && fd.Body != nil {
			subPos, clampPos := token.NoPos, token.NoPos
			ast.Inspect(fd.Body, func(n ast.Node) bool {
				switch v := n.(type) {
				case *ast.CallExpr:
					if f, ok := v.Fun.(*ast.SelectorExpr); ok && f.Sel.Name == "Sub" {
						if id, ok := f.X.(*ast.Ident); ok && id.Name == "used" && subPos == token.NoPos {
							subPos = v.Pos()
						}
					}
				case *ast.IfStmt:
					if c05Shape(v.Cond) == "(Sign() < 0)" && clampPos == token.NoPos {
						clampPos = v.Pos()
					}
				}
				return true
			})
			clampAfterSub = subPos != token.NoPos && clampPos != token.NoPos && subPos < clampPos
		} else {
			e.fail("fitsReservation not found")
		}
		fmt.Fprintf(&e.out, "def fitClampAfterPreemptibleSub : Bool := %v\n", clampAfterSub)

		// --- reservationCache critical sections ---
		var locks []string
		for _, fn := range []string{"updateReservation", "updateReservationIfExists", "DeleteReservation", "addPods", "updatePod", "deletePods", "ForEachMatchableReservationOnNode"} {
			kind := "none"
			if fd := e.funcDecl(d, "reservationCache", fn); fd != nil && fd.Body != nil && len(fd.Body.List) >= 2 {
				first, second := "", ""
				if es, ok := fd.Body.List[0].(*ast.ExprStmt); ok {
					if c, ok := es.X.(*ast.CallExpr); ok {
						if f, ok := c.Fun.(*ast.SelectorExpr); ok {
							first = f.Sel.Name
						}
					}
				}
				if ds, ok := fd.Body.List[1].(*ast.DeferStmt); ok {
					if f, ok := ds.Call.Fun.(*ast.SelectorExpr); ok {
						second = f.Sel.Name
					}
				}
				if (first == "Lock" && second == "Unlock") || (first == "RLock" && second == "RUnlock") {
					kind = first
				}
			} else {
				e.fail("reservationCache.%s not found", fn)
			}
			locks = append(locks, fn+":"+kind)
		}
		c05List(&e.out, "criticalSections", locks)

		c05Profiles(e)
		c05Rollback(e)
		c05Selector(e)
		c05Controller(e)
	}
}

// selector path of x with the base identifier blanked (parameters: #index); calls are rendered as path()
func c05Path(x ast.Expr, params map[string]int) string {
	switch v := x.(type) {
	case *ast.ParenExpr:
		return c05Path(v.X, params)
	case *ast.UnaryExpr:
		return v.Op.String() + c05Path(v.X, params)
	case *ast.SelectorExpr:
		return c05Path(v.X, params) + "." + v.Sel.Name
	case *ast.CallExpr:
		return c05Path(v.Fun, params) + "()"
	case *ast.BasicLit:
		return v.Value
	case *ast.Ident:
		if v.Name == "nil" || v.Name == "true" || v.Name == "false" {
			return v.Name
		}
		if i, ok := params[v.Name]; ok {
			return fmt.Sprintf("#%d", i)
		}
		return "_"
	}
	return "?"
}

func c05CallName(st ast.Stmt) string {
	es, ok := st.(*ast.ExprStmt)
	if !ok {
		return ""
	}
	c, ok := es.X.(*ast.CallExpr)
	if !ok {
		return ""
	}
	switch f := c.Fun.(type) {
	case *ast.Ident:
		return f.Name
	case *ast.SelectorExpr:
		return f.Sel.Name
	}
	return ""
}

// roll-back facts (round 4): the statement ORDER of Plugin.Unreserve in both branches, of the reserve-pod branch of
// Plugin.Reserve, of Plugin.PreBind, the one-line cache aliases, and the key DeleteReservation cleans the indexes by
func c05Rollback(e *ext) {
	d := "pkg/scheduler/plugins/reservation"
	klogCall := func(st ast.Stmt) bool {
		n := c05CallName(st)
		return n == "InfoS" || n == "Infof" || n == "ErrorS" || n == "Errorf" || n == "Warningf"
	}
	assigns := func(prefix string, list []ast.Stmt, params map[string]int, out *[]string) {
		for _, st := range list {
			if as, ok := st.(*ast.AssignStmt); ok && len(as.Lhs) == 1 && len(as.Rhs) == 1 {
				*out = append(*out, prefix+c05Path(as.Lhs[0], params)+"="+c05Path(as.Rhs[0], params))
			}
		}
	}
	var stubKeys func(n ast.Node, params map[string]int, out *[]string)
	stubKeys = func(n ast.Node, params map[string]int, out *[]string) {
		ast.Inspect(n, func(m ast.Node) bool {
			if kv, ok := m.(*ast.KeyValueExpr); ok {
				if k, ok := kv.Key.(*ast.Ident); ok && (k.Name == "UID" || k.Name == "NodeName") {
					*out = append(*out, "stub:"+k.Name+"="+c05Path(kv.Value, params))
				}
			}
			return true
		})
	}

	var normal, rsv []string
	if fd := e.funcDecl(d, "Plugin", "Unreserve"); fd != nil && fd.Body != nil {
		params := c05Params(fd)
		seenBranch := false
		for _, st := range fd.Body.List {
			if klogCall(st) {
				continue
			}
			if is, ok := st.(*ast.IfStmt); ok && !seenBranch && c05Shape(is.Cond) == "IsReservePod()" {
				seenBranch = true
				for _, st2 := range is.Body.List {
					if klogCall(st2) {
						continue
					}
					switch v := st2.(type) {
					case *ast.IfStmt:
						if eb, ok := v.Else.(*ast.BlockStmt); ok {
							stubKeys(v.Body, params, &rsv)
							assigns("else:", eb.List, params, &rsv)
						} else {
							rsv = append(rsv, c05Shape(v.Cond)+":"+c05Leaves(v))
						}
					case *ast.ExprStmt:
						rsv = append(rsv, "call:"+c05CallName(v))
					}
				}
				continue
			}
			if !seenBranch {
				continue
			}
			switch v := st.(type) {
			case *ast.IfStmt:
				normal = append(normal, c05Shape(v.Cond)+":"+c05Leaves(v))
			case *ast.ExprStmt:
				normal = append(normal, "call:"+c05CallName(v))
			case *ast.RangeStmt:
				for _, n := range c05CalledOf(v.Body, map[string]bool{"unreservePod": true, "forgetPods": true}) {
					normal = append(normal, "range:"+n)
				}
			}
		}
	} else {
		e.fail("Plugin.Unreserve not found")
	}
	c05List(&e.out, "unreserveNormalOrder", normal)
	c05List(&e.out, "unreserveRsvBranch", rsv)

	var rres []string
	if fd := e.funcDecl(d, "Plugin", "Reserve"); fd != nil && fd.Body != nil {
		params := c05Params(fd)
		for _, st := range fd.Body.List {
			is, ok := st.(*ast.IfStmt)
			if !ok || c05Shape(is.Cond) != "IsReservePod()" {
				continue
			}
			done := false
			for _, st2 := range is.Body.List {
				if klogCall(st2) || done {
					continue
				}
				switch v := st2.(type) {
				case *ast.IfStmt:
					rres = append(rres, c05Shape(v.Cond)+":"+c05Leaves(v))
					if strings.Contains(strings.Join(rres, " "), "call:assumeReservation") {
						done = true // the first guard after assumeReservation ends the non-pre-allocation path
					}
				case *ast.AssignStmt:
					if v.Tok == token.ASSIGN {
						assigns("", []ast.Stmt{v}, params, &rres)
					}
				case *ast.ExprStmt:
					rres = append(rres, "call:"+c05CallName(v))
				}
			}
			break
		}
	} else {
		e.fail("Plugin.Reserve not found")
	}
	c05List(&e.out, "reserveRsvBranch", rres)

	var pb []string
	if fd := e.funcDecl(d, "Plugin", "PreBind"); fd != nil && fd.Body != nil {
		params := c05Params(fd)
		for _, st := range fd.Body.List {
			switch v := st.(type) {
			case *ast.IfStmt:
				pb = append(pb, c05Shape(v.Cond)+":"+c05Leaves(v))
			case *ast.AssignStmt:
				if v.Tok == token.ASSIGN {
					assigns("set:", []ast.Stmt{v}, params, &pb)
				}
			case *ast.ExprStmt:
				if !klogCall(v) {
					pb = append(pb, "call:"+c05CallName(v))
				}
			}
		}
	} else {
		e.fail("Plugin.PreBind not found")
	}
	c05List(&e.out, "preBindOrder", pb)

	var aliases []string
	for _, fn := range []string{"assumeReservation", "forgetReservation", "assumePods", "forgetPods"} {
		got := "?"
		if fd := e.funcDecl(d, "reservationCache", fn); fd != nil && fd.Body != nil && len(fd.Body.List) == 1 {
			params := c05Params(fd)
			var call *ast.CallExpr
			switch v := fd.Body.List[0].(type) {
			case *ast.ExprStmt:
				call, _ = v.X.(*ast.CallExpr)
			case *ast.ReturnStmt:
				if len(v.Results) == 1 {
					call, _ = v.Results[0].(*ast.CallExpr)
				}
			}
			if call != nil {
				if f, ok := call.Fun.(*ast.SelectorExpr); ok {
					args := make([]string, len(call.Args))
					for i, a := range call.Args {
						args[i] = c05Path(a, params)
					}
					got = f.Sel.Name + "(" + strings.Join(args, ",") + ")"
				}
			}
		} else {
			e.fail("reservationCache.%s not found or not a one-liner", fn)
		}
		aliases = append(aliases, fn+"="+got)
	}
	c05List(&e.out, "cacheAliases", aliases)

	keyed := ""
	if fd := e.funcDecl(d, "reservationCache", "DeleteReservation"); fd != nil && fd.Body != nil {
		params := c05Params(fd)
		defs := c05Defs(fd.Body)
		if got := c05CalledArgs(fd.Body, map[string]bool{"deleteReservationOnNode": true}, defs, params); len(got) == 1 {
			keyed = got[0]
		}
	} else {
		e.fail("reservationCache.DeleteReservation not found")
	}
	fmt.Fprintf(&e.out, "def deleteKeyedBy : String := %s\n", leanStr(keyed))

	// ReservationInfo.IsUnschedulable: the last statement's return shape (a terminating reservation is unschedulable)
	// and IsTerminating's definition
	unsch, termDef := "", ""
	fx := "pkg/scheduler/frameworkext"
	if fd := e.funcDecl(fx, "ReservationInfo", "IsUnschedulable"); fd != nil && fd.Body != nil && len(fd.Body.List) > 0 {
		if rs, ok := fd.Body.List[len(fd.Body.List)-1].(*ast.ReturnStmt); ok && len(rs.Results) == 1 {
			unsch = c05Shape(rs.Results[0])
		}
	} else {
		e.fail("ReservationInfo.IsUnschedulable not found")
	}
	if fd := e.funcDecl(fx, "ReservationInfo", "IsTerminating"); fd != nil && fd.Body != nil && len(fd.Body.List) == 1 {
		if rs, ok := fd.Body.List[0].(*ast.ReturnStmt); ok && len(rs.Results) == 1 {
			termDef = c05Path(rs.Results[0], c05Params(fd))
		}
	} else {
		e.fail("ReservationInfo.IsTerminating not found or not a single return")
	}
	fmt.Fprintf(&e.out, "def unschedulableDef : String := %s\n", leanStr(unsch))
	fmt.Fprintf(&e.out, "def terminatingDef : String := %s\n", leanStr(termDef))
}

// full expression text with parameters named #i (calls keep their arguments; other locals are blanked)
func c05Full(x ast.Expr, params map[string]int) string {
	switch v := x.(type) {
	case *ast.ParenExpr:
		return c05Full(v.X, params)
	case *ast.BinaryExpr:
		return "(" + c05Full(v.X, params) + " " + v.Op.String() + " " + c05Full(v.Y, params) + ")"
	case *ast.UnaryExpr:
		return v.Op.String() + c05Full(v.X, params)
	case *ast.SelectorExpr:
		return c05Full(v.X, params) + "." + v.Sel.Name
	case *ast.CallExpr:
		args := make([]string, len(v.Args))
		for i, a := range v.Args {
			args[i] = c05Full(a, params)
		}
		name := "?"
		switch f := v.Fun.(type) {
		case *ast.Ident:
			name = f.Name
		case *ast.SelectorExpr:
			name = f.Sel.Name
		}
		return name + "(" + strings.Join(args, ",") + ")"
	case *ast.BasicLit:
		return v.Value
	case *ast.Ident:
		if v.Name == "nil" || v.Name == "true" || v.Name == "false" {
			return v.Name
		}
		if i, ok := params[v.Name]; ok {
			return fmt.Sprintf("#%d", i)
		}
		return "_"
	}
	return "?"
}

// owner label selectors (round 6): util.GetFastLabelSelector's guard in front of the labels-only fast path, what the
// fast path builds, the fall-through; which helper ParseReservationOwnerMatchers parses an owner's selector with and
// that a parse error drops the whole spec; MatchOwners' ParseError gate.
func c05Selector(e *ext) {
	var fast []string
	if fd := e.funcDecl("pkg/util", "", "GetFastLabelSelector"); fd != nil && fd.Body != nil {
		params := c05Params(fd)
		for _, st := range fd.Body.List {
			switch v := st.(type) {
			case *ast.IfStmt:
				fast = append(fast, "if:"+c05Full(v.Cond, params))
				ast.Inspect(v.Body, func(n ast.Node) bool {
					if c, ok := n.(*ast.CallExpr); ok {
						fast = append(fast, "then:"+c05Full(c, params))
						return false
					}
					return true
				})
				if v.Else != nil {
					fast = append(fast, "else")
				}
			case *ast.ReturnStmt:
				for _, r := range v.Results {
					fast = append(fast, "return:"+c05Full(r, params))
				}
			case *ast.DeclStmt:
			default:
				fast = append(fast, "other")
			}
		}
	} else {
		e.fail("util.GetFastLabelSelector not found")
	}
	c05List(&e.out, "fastSelector", fast)

	var parse []string
	if fd := e.funcDecl("pkg/util/reservation", "", "ParseReservationOwnerMatchers"); fd != nil && fd.Body != nil {
		ast.Inspect(fd.Body, func(n ast.Node) bool {
			switch v := n.(type) {
			case *ast.AssignStmt:
				if len(v.Rhs) == 1 {
					if c, ok := v.Rhs[0].(*ast.CallExpr); ok {
						if f, ok := c.Fun.(*ast.SelectorExpr); ok && len(c.Args) == 1 {
							if a, ok := c.Args[0].(*ast.SelectorExpr); ok && a.Sel.Name == "LabelSelector" {
								parse = append(parse, "selector="+f.Sel.Name+"(.LabelSelector)")
							}
						}
					}
				}
			case *ast.IfStmt:
				sh := c05Shape(v.Cond)
				if sh == "(len() > 0)" {
					ret := ""
					if len(v.Body.List) > 0 {
						if rs, ok := v.Body.List[len(v.Body.List)-1].(*ast.ReturnStmt); ok && len(rs.Results) == 2 {
							ret = c05Shape(rs.Results[0])
						}
					}
					parse = append(parse, "errs:"+sh+" => return "+ret)
				}
			}
			return true
		})
	} else {
		e.fail("reservationutil.ParseReservationOwnerMatchers not found")
	}
	c05List(&e.out, "ownerSelectorParse", parse)

	gate := ""
	if fd := e.funcDecl("pkg/scheduler/frameworkext", "ReservationInfo", "MatchOwners"); fd != nil && fd.Body != nil {
		for _, st := range fd.Body.List {
			if is, ok := st.(*ast.IfStmt); ok {
				ret := ""
				if len(is.Body.List) > 0 {
					if rs, ok := is.Body.List[len(is.Body.List)-1].(*ast.ReturnStmt); ok && len(rs.Results) == 1 {
						ret = c05Shape(rs.Results[0])
					}
				}
				gate = c05Shape(is.Cond) + " => return " + ret
				break
			}
		}
	} else {
		e.fail("ReservationInfo.MatchOwners not found")
	}
	fmt.Fprintf(&e.out, "def matchOwnersGate : String := %s\n", leanStr(gate))
}

// owner controller references + the nomination drop after Reserve (round 8):
//   * util/reservation.MatchReservationControllerReference: what the loop ranges over, the conjuncts of the guard inside
//     the loop (parameters #i, the range value $, pointer dereferences kept), what the guard's body and the function's
//     last statement return;
//   * frameworkExtenderImpl.RunReservePluginsReserve: the guard under which the pod's nomination is dropped after the
//     Reserve plugins ran (it must not depend on the Reserve status).
func c05CtlExpr(x ast.Expr, params map[string]int, loopVar string) string {
	switch v := x.(type) {
	case *ast.ParenExpr:
		return c05CtlExpr(v.X, params, loopVar)
	case *ast.BinaryExpr:
		return "(" + c05CtlExpr(v.X, params, loopVar) + " " + v.Op.String() + " " + c05CtlExpr(v.Y, params, loopVar) + ")"
	case *ast.UnaryExpr:
		return v.Op.String() + c05CtlExpr(v.X, params, loopVar)
	case *ast.StarExpr:
		return "*" + c05CtlExpr(v.X, params, loopVar)
	case *ast.SelectorExpr:
		return c05CtlExpr(v.X, params, loopVar) + "." + v.Sel.Name
	case *ast.CallExpr:
		args := make([]string, len(v.Args))
		for i, a := range v.Args {
			args[i] = c05CtlExpr(a, params, loopVar)
		}
		name := "?"
		switch f := v.Fun.(type) {
		case *ast.Ident:
			name = f.Name
		case *ast.SelectorExpr:
			name = f.Sel.Name
		}
		return name + "(" + strings.Join(args, ",") + ")"
	case *ast.BasicLit:
		return v.Value
	case *ast.Ident:
		if v.Name == "nil" || v.Name == "true" || v.Name == "false" {
			return v.Name
		}
		if v.Name == loopVar {
			return "$"
		}
		if i, ok := params[v.Name]; ok {
			return fmt.Sprintf("#%d", i)
		}
		return "_"
	}
	return "?"
}

func c05Conjuncts(x ast.Expr) []ast.Expr {
	if b, ok := x.(*ast.BinaryExpr); ok && b.Op == token.LAND {
		return append(c05Conjuncts(b.X), c05Conjuncts(b.Y)...)
	}
	return []ast.Expr{x}
}

func c05Controller(e *ext) {
	var guard, frame []string
	if fd := e.funcDecl("pkg/util/reservation", "", "MatchReservationControllerReference"); fd != nil && fd.Body != nil {
		params := c05Params(fd)
		for _, st := range fd.Body.List {
			switch v := st.(type) {
			case *ast.RangeStmt:
				loopVar := ""
				if id, ok := v.Value.(*ast.Ident); ok {
					loopVar = id.Name
				}
				frame = append(frame, "range:"+c05CtlExpr(v.X, params, loopVar))
				for _, inner := range v.Body.List {
					is, ok := inner.(*ast.IfStmt)
					if !ok || is.Init != nil || is.Else != nil {
						frame = append(frame, "loop-other")
						continue
					}
					for _, c := range c05Conjuncts(is.Cond) {
						guard = append(guard, c05CtlExpr(c, params, loopVar))
					}
					ret := "?"
					if len(is.Body.List) == 1 {
						if rs, ok := is.Body.List[0].(*ast.ReturnStmt); ok && len(rs.Results) == 1 {
							ret = c05CtlExpr(rs.Results[0], params, loopVar)
						}
					}
					frame = append(frame, "loop-if-guard:return "+ret)
				}
			case *ast.IfStmt:
				ret := "?"
				if len(v.Body.List) == 1 {
					if rs, ok := v.Body.List[0].(*ast.ReturnStmt); ok && len(rs.Results) == 1 {
						ret = c05CtlExpr(rs.Results[0], params, "")
					}
				}
				frame = append(frame, "if:"+c05CtlExpr(v.Cond, params, "")+":return "+ret)
			case *ast.ReturnStmt:
				for _, r := range v.Results {
					frame = append(frame, "return:"+c05CtlExpr(r, params, ""))
				}
			default:
				frame = append(frame, "other")
			}
		}
	} else {
		e.fail("reservation.MatchReservationControllerReference not found")
	}
	c05List(&e.out, "controllerRefFrame", frame)
	c05List(&e.out, "controllerRefGuard", guard)

	var drop []string
	if fd := e.funcDecl("pkg/scheduler/frameworkext", "frameworkExtenderImpl", "RunReservePluginsReserve"); fd != nil && fd.Body != nil {
		const sel = "DeleteNominatedReservePodOrReservation"
		for _, st := range fd.Body.List {
			switch v := st.(type) {
			case *ast.IfStmt:
				if c05Calls(v.Body, sel) != token.NoPos {
					nested := false
					for _, inner := range v.Body.List {
						if _, ok := inner.(*ast.ExprStmt); !ok {
							nested = true
						}
					}
					if nested || v.Else != nil {
						drop = append(drop, "drop-nested")
					} else {
						drop = append(drop, "drop-if:"+c05Shape(v.Cond))
					}
				} else {
					drop = append(drop, "if:"+c05Shape(v.Cond)+":"+c05Leaves(v))
				}
			case *ast.ExprStmt:
				if c05Calls(v, sel) != token.NoPos {
					drop = append(drop, "drop")
				}
			case *ast.ReturnStmt:
				drop = append(drop, "return")
			}
		}
	} else {
		e.fail("frameworkExtenderImpl.RunReservePluginsReserve not found")
	}
	c05List(&e.out, "reserveNominationDrop", drop)
}
