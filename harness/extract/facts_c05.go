package main

import (
	"fmt"
	"go/ast"
	"go/token"
	"strings"
)

// C05 facts: guard orders / condition SHAPES the model mirrors (local identifiers are blanked, so renames of
// locals do not trip them; method, field and constant names stay):
//   * Plugin.NominateReservation: the top-level guards before the filter loop, incl. the single-candidate
//     shortcut and the allocate-once gate nested in it,
//   * Plugin.FilterNominateReservation: the first gate,
//   * podEventHandler.updatePod: the top-level routing guards, the guard in front of cache.updatePod, the
//     annotation-validity tests; util.IsPodTerminated,
//   * fitsNodeAndReservation: the policy switch; fitsReservation: the non-negative clamp comes AFTER the
//     preemptible subtraction,
//   * reservationCache: every mutating entry point is one critical section (Lock + deferred Unlock first).
func c05Shape(x ast.Expr) string {
	switch v := x.(type) {
	case *ast.ParenExpr:
		return c05Shape(v.X)
	case *ast.BinaryExpr:
		return "(" + c05Shape(v.X) + " " + v.Op.String() + " " + c05Shape(v.Y) + ")"
	case *ast.UnaryExpr:
		return v.Op.String() + c05Shape(v.X)
	case *ast.CallExpr:
		switch f := v.Fun.(type) {
		case *ast.Ident:
			return f.Name + "()"
		case *ast.SelectorExpr:
			return f.Sel.Name + "()"
		}
		return "?()"
	case *ast.SelectorExpr:
		return "." + v.Sel.Name
	case *ast.IndexExpr:
		return c05Shape(v.X) + "[]"
	case *ast.BasicLit:
		return v.Value
	case *ast.Ident:
		if v.Name == "nil" || v.Name == "true" || v.Name == "false" {
			return v.Name
		}
		return "_"
	}
	return "?"
}

func c05Leaves(s *ast.IfStmt) string {
	if len(s.Body.List) == 0 {
		return ""
	}
	switch l := s.Body.List[len(s.Body.List)-1].(type) {
	case *ast.ReturnStmt:
		return "return"
	case *ast.BranchStmt:
		return strings.ToLower(l.Tok.String())
	}
	return ""
}

func c05List(out *strings.Builder, name string, xs []string) {
	q := make([]string, len(xs))
	for i, s := range xs {
		q[i] = leanStr(s)
	}
	fmt.Fprintf(out, "def %s : List String := [%s]\n", name, strings.Join(q, ", "))
}

func c05Calls(n ast.Node, sel string) token.Pos {
	pos := token.NoPos
	ast.Inspect(n, func(m ast.Node) bool {
		if c, ok := m.(*ast.CallExpr); ok && pos == token.NoPos {
			if f, ok := c.Fun.(*ast.SelectorExpr); ok && f.Sel.Name == sel {
				pos = c.Pos()
			}
		}
		return true
	})
	return pos
}

func init() {
	extractors["C05"] = func(e *ext) {
		d := "pkg/scheduler/plugins/reservation"

		// --- NominateReservation ---
		var guards, inner []string
		if fd := e.funcDecl(d, "Plugin", "NominateReservation"); fd != nil && fd.Body != nil {
			for _, st := range fd.Body.List {
				if _, ok := st.(*ast.ForStmt); ok {
					break
				}
				if _, ok := st.(*ast.RangeStmt); ok {
					break
				}
				is, ok := st.(*ast.IfStmt)
				if !ok {
					continue
				}
				sh := c05Shape(is.Cond)
				guards = append(guards, sh+":"+c05Leaves(is))
				if strings.Contains(sh, "hasAffinity") {
					for _, st2 := range is.Body.List {
						if is2, ok := st2.(*ast.IfStmt); ok {
							inner = append(inner, c05Shape(is2.Cond)+":"+c05Leaves(is2))
						}
					}
				}
			}
		} else {
			e.fail("Plugin.NominateReservation not found")
		}
		c05List(&e.out, "nominateGuards", guards)
		c05List(&e.out, "shortcutInner", inner)

		gate := ""
		if fd := e.funcDecl(d, "Plugin", "FilterNominateReservation"); fd != nil && fd.Body != nil {
			for _, st := range fd.Body.List {
				if is, ok := st.(*ast.IfStmt); ok {
					gate = c05Shape(is.Cond) + ":" + c05Leaves(is)
					break
				}
			}
		} else {
			e.fail("Plugin.FilterNominateReservation not found")
		}
		fmt.Fprintf(&e.out, "def nominateFilterGate : String := %s\n", leanStr(gate))

		// --- podEventHandler.updatePod / deletePod ---
		var hguards, annot []string
		routeGuard := ""
		collectAnnot := func(body *ast.BlockStmt) {
			ast.Inspect(body, func(n ast.Node) bool {
				if is, ok := n.(*ast.IfStmt); ok {
					if sh := c05Shape(is.Cond); strings.Contains(sh, ".UID != \"\"") {
						annot = append(annot, sh)
					}
				}
				return true
			})
		}
		if fd := e.funcDecl(d, "podEventHandler", "updatePod"); fd != nil && fd.Body != nil {
			for _, st := range fd.Body.List {
				is, ok := st.(*ast.IfStmt)
				if !ok {
					continue
				}
				hguards = append(hguards, c05Shape(is.Cond)+":"+c05Leaves(is))
				if c05Calls(is.Body, "updatePod") != token.NoPos && routeGuard == "" {
					routeGuard = c05Shape(is.Cond)
				}
			}
			collectAnnot(fd.Body)
		} else {
			e.fail("podEventHandler.updatePod not found")
		}
		if fd := e.funcDecl(d, "podEventHandler", "deletePod"); fd != nil && fd.Body != nil {
			collectAnnot(fd.Body)
		} else {
			e.fail("podEventHandler.deletePod not found")
		}
		c05List(&e.out, "handlerGuards", hguards)
		fmt.Fprintf(&e.out, "def handlerRouteGuard : String := %s\n", leanStr(routeGuard))
		c05List(&e.out, "annotationValid", annot)

		term := ""
		if fd := e.funcDecl("pkg/util", "", "IsPodTerminated"); fd != nil && fd.Body != nil && len(fd.Body.List) == 1 {
			if rs, ok := fd.Body.List[0].(*ast.ReturnStmt); ok && len(rs.Results) == 1 {
				term = c05Shape(rs.Results[0])
			}
		} else {
			e.fail("util.IsPodTerminated not found or not a single return")
		}
		fmt.Fprintf(&e.out, "def terminatedDef : String := %s\n", leanStr(term))

		// --- fitsNodeAndReservation policy switch, fitsReservation clamp order ---
		var policy []string
		if fd := e.funcDecl(d, "", "fitsNodeAndReservation"); fd != nil && fd.Body != nil {
			for _, st := range fd.Body.List {
				is, ok := st.(*ast.IfStmt)
				if !ok || !strings.Contains(c05Shape(is.Cond), "ReservationAllocatePolicy") {
					continue
				}
				for cur := is; cur != nil; {
					policy = append(policy, c05Shape(cur.Cond))
					next, _ := cur.Else.(*ast.IfStmt)
					cur = next
				}
			}
		} else {
			e.fail("fitsNodeAndReservation not found")
		}
		c05List(&e.out, "policySwitch", policy)

		clampAfterSub := false
		if fd := e.funcDecl(d, "", "fitsReservation"); fd != nil && fd.Body != nil {
			subPos, clampPos := token.NoPos, token.NoPos
			ast.Inspect(fd.Body, func(n ast.Node) bool {
				switch v := n.(type) {
				case *ast.CallExpr:
					if f, ok := v.Fun.(*ast.SelectorExpr); ok && f.Sel.Name == "Sub" {
						if id, ok := f.X.(*ast.Ident); ok && id.Name == "used" && subPos == token.NoPos {
							subPos = v.Pos()
						}
					}
				case *ast.IfStmt:
					if c05Shape(v.Cond) == "(Sign() < 0)" && clampPos == token.NoPos {
						clampPos = v.Pos()
					}
				}
				return true
			})
			clampAfterSub = subPos != token.NoPos && clampPos != token.NoPos && subPos < clampPos
		} else {
			e.fail("fitsReservation not found")
		}
		fmt.Fprintf(&e.out, "def fitClampAfterPreemptibleSub : Bool := %v\n", clampAfterSub)

		// --- reservationCache critical sections ---
		var locks []string
		for _, fn := range []string{"updateReservation", "updateReservationIfExists", "DeleteReservation", "addPods", "updatePod", "deletePods", "ForEachMatchableReservationOnNode"} {
			kind := "none"
			if fd := e.funcDecl(d, "reservationCache", fn); fd != nil && fd.Body != nil && len(fd.Body.List) >= 2 {
				first, second := "", ""
				if es, ok := fd.Body.List[0].(*ast.ExprStmt); ok {
					if c, ok := es.X.(*ast.CallExpr); ok {
						if f, ok := c.Fun.(*ast.SelectorExpr); ok {
							first = f.Sel.Name
						}
					}
				}
				if ds, ok := fd.Body.List[1].(*ast.DeferStmt); ok {
					if f, ok := ds.Call.Fun.(*ast.SelectorExpr); ok {
						second = f.Sel.Name
					}
				}
				if (first == "Lock" && second == "Unlock") || (first == "RLock" && second == "RUnlock") {
					kind = first
				}
			} else {
				e.fail("reservationCache.%s not found", fn)
			}
			locks = append(locks, fn+":"+kind)
		}
		c05List(&e.out, "criticalSections", locks)
	}
}
