package main

import (
	"fmt"
	"go/ast"
	"go/token"
	"go/types"
	"sort"
	"strings"
)

func init() {
	extractors["C10"] = func(e *ext) {
		d := "pkg/koordlet/qosmanager/plugins/cpusuppress"
		e.constInt(d, "beMinCPUSetCores", "beMinCPUSetCores")
		e.constInt(d, "beMinQuota", "beMinQuota")
		e.constInt(d, "beUnsetQuota", "beUnsetQuota")
		e.constInt("pkg/koordlet/util/system", "DefaultCPUCFSPeriod", "DefaultCPUCFSPeriod")
		// float literals, kept as source text
		for _, name := range []string{"beMaxIncreaseCPUPercent", "suppressBypassQuotaDeltaRatio"} {
			x, ok := e.valueSpec(d, name)
			lit, isLit := x.(*ast.BasicLit)
			if !ok || !isLit || lit.Kind != token.FLOAT {
				e.fail("%s.%s is not a float literal", d, name)
				fmt.Fprintf(&e.out, "def %s : String := \"?\"\n", name)
				continue
			}
			fmt.Fprintf(&e.out, "def %s : String := %s\n", name, leanStr(lit.Value))
		}
		// guard order in adjustByCPUSet: `if len(lsrCpus)+len(lsCpus) == 0 { ... return }` must precede
		// every division by `len(lsrCpus) + len(lsCpus)`.
		norm := func(x ast.Expr) string { return strings.ReplaceAll(types.ExprString(x), " ", "") }
		fd := e.funcDecl(d, "CPUSuppress", "adjustByCPUSet")
		guardPos, divPos, nDiv := token.NoPos, token.NoPos, 0
		if fd == nil || fd.Body == nil {
			e.fail("adjustByCPUSet not found")
		} else {
			ast.Inspect(fd.Body, func(n ast.Node) bool {
				switch v := n.(type) {
				case *ast.IfStmt:
					if c := norm(v.Cond); (c == "len(lsrCpus)+len(lsCpus)==0" || c == "len(lsCpus)+len(lsrCpus)==0") && v.Init == nil {
						hasRet := false
						for _, s := range v.Body.List {
							if _, ok := s.(*ast.ReturnStmt); ok {
								hasRet = true
							}
						}
						if hasRet && guardPos == token.NoPos {
							guardPos = v.Pos()
						}
					}
				case *ast.BinaryExpr:
					if v.Op == token.QUO || v.Op == token.REM {
						y := norm(v.Y)
						if strings.Contains(y, "len(lsrCpus)") || strings.Contains(y, "len(lsCpus)") {
							nDiv++
							if divPos == token.NoPos || v.Pos() < divPos {
								divPos = v.Pos()
							}
						}
					}
				}
				return true
			})
		}
		fmt.Fprintf(&e.out, "def poolSizeDivisions : Nat := %d\n", nDiv)
		fmt.Fprintf(&e.out, "def zeroPoolGuardBeforeDivision : Bool := %v\n",
			guardPos != token.NoPos && (divPos == token.NoPos || guardPos < divPos))

		// ---- which pods count: the `for ... range podMetas` loops of adjustByCPUSet and calcBECPUSet.
		// number of `continue` guards and whether anything about the pod's lifecycle is consulted.
		lifecycleWords := map[string]bool{"DeletionTimestamp": true, "DeletionGracePeriodSeconds": true, "Phase": true,
			"IsPodTerminated": true, "IsPodTerminating": true, "PodSucceeded": true, "PodFailed": true, "PodRunning": true, "PodPending": true}
		podLoop := func(fn string, lean string) {
			fd := e.funcDecl(d, "CPUSuppress", fn)
			nLoops, nCont, life := 0, 0, false
			if fd == nil || fd.Body == nil {
				e.fail("%s not found", fn)
			} else {
				ast.Inspect(fd.Body, func(n ast.Node) bool {
					rs, ok := n.(*ast.RangeStmt)
					if !ok || norm(rs.X) != "podMetas" {
						return true
					}
					nLoops++
					ast.Inspect(rs.Body, func(m ast.Node) bool {
						switch v := m.(type) {
						case *ast.BranchStmt:
							if v.Tok == token.CONTINUE || v.Tok == token.BREAK || v.Tok == token.GOTO {
								nCont++
							}
						case *ast.ReturnStmt:
							nCont++
						case *ast.Ident:
							if lifecycleWords[v.Name] {
								life = true
							}
						}
						return true
					})
					return false
				})
			}
			if nLoops != 1 {
				e.fail("%s: expected exactly one loop over podMetas, found %d", fn, nLoops)
			}
			fmt.Fprintf(&e.out, "def %sPodLoopExits : Nat := %d\n", lean, nCont)
			fmt.Fprintf(&e.out, "def %sPodLoopReadsLifecycle : Bool := %v\n", lean, life)
		}
		podLoop("adjustByCPUSet", "adjust")
		podLoop("calcBECPUSet", "recover")

		// ---- the filters calculateBESuppressCPU hands to CalculateFilterPodsUsed (last two arguments)
		podFilter, appFilter := "?", "?"
		if fd := e.funcDecl(d, "CPUSuppress", "calculateBESuppressCPU"); fd == nil || fd.Body == nil {
			e.fail("calculateBESuppressCPU not found")
		} else {
			ast.Inspect(fd.Body, func(n ast.Node) bool {
				if c, ok := n.(*ast.CallExpr); ok && strings.HasSuffix(norm(c.Fun), "CalculateFilterPodsUsed") && len(c.Args) >= 2 {
					podFilter, appFilter = norm(c.Args[len(c.Args)-2]), norm(c.Args[len(c.Args)-1])
				}
				return true
			})
		}
		fmt.Fprintf(&e.out, "def budgetPodFilter : String := %s\n", leanStr(podFilter))
		fmt.Fprintf(&e.out, "def budgetHostAppFilter : String := %s\n", leanStr(appFilter))

		// ---- helpers.NonBEHostAppFilter / NonBEPodFilter: a single `return a || b || c` (resp. `a && b`); operands sorted
		chain := func(dir, fn string, op token.Token, lean string) {
			var parts []string
			fd := e.funcDecl(dir, "", fn)
			if fd == nil || fd.Body == nil || len(fd.Body.List) != 1 {
				e.fail("%s is not a single-statement function", fn)
			} else if rs, ok := fd.Body.List[0].(*ast.ReturnStmt); !ok || len(rs.Results) != 1 {
				e.fail("%s is not a single return", fn)
			} else {
				var walk func(x ast.Expr)
				walk = func(x ast.Expr) {
					if p, ok := x.(*ast.ParenExpr); ok {
						walk(p.X)
						return
					}
					if b, ok := x.(*ast.BinaryExpr); ok && b.Op == op {
						walk(b.X)
						walk(b.Y)
						return
					}
					parts = append(parts, norm(x))
				}
				walk(rs.Results[0])
			}
			sort.Strings(parts)
			qs := make([]string, len(parts))
			for i, p := range parts {
				qs[i] = leanStr(p)
			}
			fmt.Fprintf(&e.out, "def %s : List String := [%s]\n", lean, strings.Join(qs, ", "))
		}
		hd := "pkg/koordlet/qosmanager/helpers"
		chain(hd, "NonBEHostAppFilter", token.LOR, "hostAppFilterDisjuncts")
		chain(hd, "NonBEPodFilter", token.LAND, "podFilterConjuncts")

		// ---- adjustByCfsQuota: both the 1 % bypass and the 10 % step test exclude the unset quota (-1)
		bypassUnset, stepUnset := false, false
		if fd := e.funcDecl(d, "CPUSuppress", "adjustByCfsQuota"); fd == nil || fd.Body == nil {
			e.fail("adjustByCfsQuota not found")
		} else {
			ast.Inspect(fd.Body, func(n ast.Node) bool {
				if v, ok := n.(*ast.IfStmt); ok {
					c := norm(v.Cond)
					g := strings.Contains(c, "&&currentBeQuota!=beUnsetQuota") && !strings.Contains(c, "||")
					if strings.Contains(c, "<minQuotaDelta") {
						bypassUnset = g
					}
					if strings.Contains(c, ">beMaxIncreaseCPUQuota") {
						stepUnset = g
					}
				}
				return true
			})
		}
		fmt.Fprintf(&e.out, "def quotaBypassExcludesUnset : Bool := %v\n", bypassUnset)
		fmt.Fprintf(&e.out, "def quotaStepExcludesUnset : Bool := %v\n", stepUnset)

		// ---- applyBESuppressCPUSet: method calls on r in the static branch (in order) and in the else branch
		var staticCalls, otherCalls []string
		if fd := e.funcDecl(d, "CPUSuppress", "applyBESuppressCPUSet"); fd == nil || fd.Body == nil {
			e.fail("applyBESuppressCPUSet not found")
		} else {
			calls := func(b ast.Node) []string {
				var out []string
				ast.Inspect(b, func(n ast.Node) bool {
					if c, ok := n.(*ast.CallExpr); ok {
						if f := norm(c.Fun); strings.HasPrefix(f, "r.") && !strings.HasPrefix(f, "r.statesInformer") {
							out = append(out, strings.TrimPrefix(f, "r."))
						}
					}
					return true
				})
				return out
			}
			ast.Inspect(fd.Body, func(n ast.Node) bool {
				if v, ok := n.(*ast.IfStmt); ok && norm(v.Cond) == "kubeletPolicy.Policy==apiext.KubeletCPUManagerPolicyStatic" {
					staticCalls = calls(v.Body)
					if v.Else != nil {
						otherCalls = calls(v.Else)
					}
					return false
				}
				return true
			})
		}
		q := func(xs []string) string {
			qs := make([]string, len(xs))
			for i, x := range xs {
				qs[i] = leanStr(x)
			}
			return "[" + strings.Join(qs, ", ") + "]"
		}
		fmt.Fprintf(&e.out, "def staticPolicyCalls : List String := %s\n", q(staticCalls))
		fmt.Fprintf(&e.out, "def otherPolicyCalls : List String := %s\n", q(otherCalls))

		// ---- suppressBECPU: what the mode branches and the disabled branch call on r, and the arguments the budget gets
		var quotaCalls, cpusetCalls, disabledCalls, budgetArgs []string
		if fd := e.funcDecl(d, "CPUSuppress", "suppressBECPU"); fd == nil || fd.Body == nil {
			e.fail("suppressBECPU not found")
		} else {
			rcalls := func(b ast.Node) []string {
				var out []string
				ast.Inspect(b, func(n ast.Node) bool {
					if c, ok := n.(*ast.CallExpr); ok {
						if f := norm(c.Fun); strings.HasPrefix(f, "r.") && strings.Count(f, ".") == 1 {
							out = append(out, strings.TrimPrefix(f, "r."))
						}
					}
					return true
				})
				return out
			}
			var visit func(n ast.Node) bool
			visit = func(n ast.Node) bool {
				switch v := n.(type) {
				case *ast.IfStmt:
					c := norm(v.Cond)
					if strings.HasSuffix(c, "CPUSuppressPolicy==slov1alpha1.CPUCfsQuotaPolicy") {
						quotaCalls = rcalls(v.Body)
						if v.Else != nil {
							cpusetCalls = rcalls(v.Else)
						}
						return false
					}
					if c == "disabled" {
						disabledCalls = rcalls(v.Body)
					}
				case *ast.CallExpr:
					if norm(v.Fun) == "r.calculateBESuppressCPU" {
						for _, a := range v.Args {
							budgetArgs = append(budgetArgs, norm(a))
						}
					}
				}
				return true
			}
			ast.Inspect(fd.Body, visit)
		}
		fmt.Fprintf(&e.out, "def roundQuotaModeCalls : List String := %s\n", q(quotaCalls))
		fmt.Fprintf(&e.out, "def roundCpusetModeCalls : List String := %s\n", q(cpusetCalls))
		fmt.Fprintf(&e.out, "def roundDisabledCalls : List String := %s\n", q(disabledCalls))
		fmt.Fprintf(&e.out, "def roundBudgetArgs : List String := %s\n", q(budgetArgs))
	}
}
