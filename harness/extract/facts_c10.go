package main

import (
	"fmt"
	"go/ast"
	"go/token"
	"go/types"
	"sort"
	"strings"
)

func init() {
	extractors["C10"] = func(e *ext) {
		d := "pkg/koordlet/qosmanager/plugins/cpusuppress"
		e.constInt(d, "beMinCPUSetCores", "beMinCPUSetCores")
		e.constInt(d, "beMinQuota", "beMinQuota")
		e.constInt(d, "beUnsetQuota", "beUnsetQuota")
		e.constInt("pkg/koordlet/util/system", "DefaultCPUCFSPeriod", "DefaultCPUCFSPeriod")
		// float literals, kept as source text
		for _, name := range []string{"beMaxIncreaseCPUPercent", "suppressBypassQuotaDeltaRatio"} {
			x, ok := e.valueSpec(d, name)
			lit, isLit := x.(*ast.BasicLit)
			if !ok || !isLit || lit.Kind != token.FLOAT {
				e.fail("%s.%s is not a float literal", d, name)
				fmt.Fprintf(&e.out, "def %s : String := \"?\"\n", name)
				continue
			}
			fmt.Fprintf(&e.out, "def %s : String := %s\n", name, leanStr(lit.Value))
		}
		// guard order in adjustByCPUSet: `if len(lsrCpus)+len(lsCpus) == 0 { ... return }` must precede
		// every division by `len(lsrCpus) + len(lsCpus)`.
		norm := func(x ast.Expr) string { return strings.ReplaceAll(types.ExprString(x), " ", "") }
		fd := e.funcDecl(d, "CPUSuppress", "adjustByCPUSet")
		guardPos, divPos, nDiv := token.NoPos, token.NoPos, 0
		if fd == nil || fd.Body == nil {
			e.fail("adjustByCPUSet not found")
		} else {
			ast.Inspect(fd.Body, func(n ast.Node) bool {
				switch v := n.(type) {
				case *ast.IfStmt:
					if c := norm(v.Cond); (c == "len(lsrCpus)+len(lsCpus)==0" || c == "len(lsCpus)+len(lsrCpus)==0") && v.Init == nil {
						hasRet := false
						for _, s := range v.Body.List {
							if _, ok := s.(*ast.ReturnStmt); ok {
								hasRet = true
							}
						}
						if hasRet && guardPos == token.NoPos {
							guardPos = v.Pos()
						}
					}
				case *ast.BinaryExpr:
					if v.Op == token.QUO || v.Op == token.REM {
						y := norm(v.Y)
						if strings.Contains(y, "len(lsrCpus)") || strings.Contains(y, "len(lsCpus)") {
							nDiv++
							if divPos == token.NoPos || v.Pos() < divPos {
								divPos = v.Pos()
							}
						}
					}
				}
				return true
			})
		}
		fmt.Fprintf(&e.out, "def poolSizeDivisions : Nat := %d\n", nDiv)
		fmt.Fprintf(&e.out, "def zeroPoolGuardBeforeDivision : Bool := %v\n",
			guardPos != token.NoPos && (divPos == token.NoPos || guardPos < divPos))

		// ---- the two node-annotation sources (reserved CPUs of the node reservation, exclusive system-QoS cpuset): wherever the
		// package reads one of them, the handler of its parse error must not leave the function (the model's effReserved /
		// effSysExcl turn an unreadable source into "protects nothing" and carry on with the other source).  Counted as
		// "leaving": a handler containing return / goto / panic / Fatal while the same function reads a source further down.
		//   source A: `x, err := getSystemQOSExclusiveCPU(..)` followed by `if err != nil {..}` (or as the if's init statement)
		//   source B: `s, _ := apiext.GetReservedCPUs(..)` and later in the same block `cpuset.Parse(s)` with its `err != nil` handler
		srcHandlers, srcLeaving := 0, 0
		leaves := func(b *ast.BlockStmt) bool {
			out := false
			ast.Inspect(b, func(n ast.Node) bool {
				switch v := n.(type) {
				case *ast.FuncLit:
					return false
				case *ast.ReturnStmt:
					out = true
				case *ast.BranchStmt:
					if v.Tok == token.GOTO {
						out = true
					}
				case *ast.CallExpr:
					if f := norm(v.Fun); f == "panic" || f == "os.Exit" || strings.HasPrefix(f, "klog.Fatal") || strings.HasPrefix(f, "log.Fatal") {
						out = true
					}
				}
				return true
			})
			return out
		}
		callIn := func(st ast.Stmt, suffix string) *ast.CallExpr {
			as, ok := st.(*ast.AssignStmt)
			if !ok {
				return nil
			}
			for _, x := range as.Rhs {
				if c, ok := x.(*ast.CallExpr); ok && strings.HasSuffix(norm(c.Fun), suffix) {
					return c
				}
			}
			return nil
		}
		errCond := func(ifs *ast.IfStmt) bool { return strings.Contains(norm(ifs.Cond), "err!=nil") }
		for _, file := range e.dir(d) {
			for _, decl := range file.Decls {
				fd, ok := decl.(*ast.FuncDecl)
				if !ok || fd.Body == nil || fd.Name.Name == "getSystemQOSExclusiveCPU" {
					continue
				}
				var srcPos []token.Pos     // where this function reads a source
				var leavingEnd []token.Pos // end of every error handler of a source that leaves the function
				ast.Inspect(fd.Body, func(n ast.Node) bool {
					blk, ok := n.(*ast.BlockStmt)
					if !ok {
						return true
					}
					reservedVars := map[string]bool{}
					for k, st := range blk.List {
						if c := callIn(st, "GetReservedCPUs"); c != nil {
							if id, ok := st.(*ast.AssignStmt).Lhs[0].(*ast.Ident); ok {
								reservedVars[id.Name] = true
							}
						}
						isSrc := func(s2 ast.Stmt) bool {
							if callIn(s2, "getSystemQOSExclusiveCPU") != nil {
								return true
							}
							if c := callIn(s2, "cpuset.Parse"); c != nil && len(c.Args) == 1 && reservedVars[norm(c.Args[0])] {
								return true
							}
							return false
						}
						switch v := st.(type) {
						case *ast.AssignStmt:
							if isSrc(v) {
								srcPos = append(srcPos, v.Pos())
								if k+1 < len(blk.List) {
									if ifs, ok := blk.List[k+1].(*ast.IfStmt); ok && ifs.Init == nil && errCond(ifs) {
										srcHandlers++
										if leaves(ifs.Body) {
											leavingEnd = append(leavingEnd, ifs.Body.End())
										}
									}
								}
							}
						case *ast.IfStmt:
							if v.Init != nil && isSrc(v.Init) {
								srcPos = append(srcPos, v.Pos())
								if errCond(v) {
									srcHandlers++
									if leaves(v.Body) {
										leavingEnd = append(leavingEnd, v.Body.End())
									}
								}
							}
						}
					}
					return true
				})
				// a handler that leaves is harmful when the function reads another source AFTER it (that source is then skipped)
				for _, end := range leavingEnd {
					for _, p := range srcPos {
						if p > end {
							srcLeaving++
							break
						}
					}
				}
			}
		}
		fmt.Fprintf(&e.out, "def nodeSourceErrorHandlers : Nat := %d\n", srcHandlers)
		fmt.Fprintf(&e.out, "def nodeSourceErrorHandlersLeaving : Nat := %d\n", srcLeaving)

		// ---- which pods count: the `for ... range podMetas` loops of adjustByCPUSet and calcBECPUSet.
		// number of `continue` guards and whether anything about the pod's lifecycle is consulted.
		lifecycleWords := map[string]bool{"DeletionTimestamp": true, "DeletionGracePeriodSeconds": true, "Phase": true,
			"IsPodTerminated": true, "IsPodTerminating": true, "PodSucceeded": true, "PodFailed": true, "PodRunning": true, "PodPending": true}
		podLoop := func(fn string, lean string) {
			fd := e.funcDecl(d, "CPUSuppress", fn)
			nLoops, nCont, life := 0, 0, false
			if fd == nil || fd.Body == nil {
				e.fail("%s not found", fn)
			} else {
				ast.Inspect(fd.Body, func(n ast.Node) bool {
					rs, ok := n.(*ast.RangeStmt)
					if !ok || norm(rs.X) != "podMetas" {
						return true
					}
					nLoops++
					ast.Inspect(rs.Body, func(m ast.Node) bool {
						switch v := m.(type) {
						case *ast.BranchStmt:
							if v.Tok == token.CONTINUE || v.Tok == token.BREAK || v.Tok == token.GOTO {
								nCont++
							}
						case *ast.ReturnStmt:
							nCont++
						case *ast.Ident:
							if lifecycleWords[v.Name] {
								life = true
							}
						}
						return true
					})
					return false
				})
			}
			if nLoops != 1 {
				e.fail("%s: expected exactly one loop over podMetas, found %d", fn, nLoops)
			}
			fmt.Fprintf(&e.out, "def %sPodLoopExits : Nat := %d\n", lean, nCont)
			fmt.Fprintf(&e.out, "def %sPodLoopReadsLifecycle : Bool := %v\n", lean, life)
		}
		podLoop("adjustByCPUSet", "adjust")
		podLoop("calcBECPUSet", "recover")

		// ---- the filters calculateBESuppressCPU hands to CalculateFilterPodsUsed (last two arguments)
		podFilter, appFilter := "?", "?"
		if fd := e.funcDecl(d, "CPUSuppress", "calculateBESuppressCPU"); fd == nil || fd.Body == nil {
			e.fail("calculateBESuppressCPU not found")
		} else {
			ast.Inspect(fd.Body, func(n ast.Node) bool {
				if c, ok := n.(*ast.CallExpr); ok && strings.HasSuffix(norm(c.Fun), "CalculateFilterPodsUsed") && len(c.Args) >= 2 {
					podFilter, appFilter = norm(c.Args[len(c.Args)-2]), norm(c.Args[len(c.Args)-1])
				}
				return true
			})
		}
		fmt.Fprintf(&e.out, "def budgetPodFilter : String := %s\n", leanStr(podFilter))
		fmt.Fprintf(&e.out, "def budgetHostAppFilter : String := %s\n", leanStr(appFilter))

		// ---- helpers.NonBEHostAppFilter / NonBEPodFilter: a single `return a || b || c` (resp. `a && b`); operands sorted
		chain := func(dir, fn string, op token.Token, lean string) {
			var parts []string
			fd := e.funcDecl(dir, "", fn)
			if fd == nil || fd.Body == nil || len(fd.Body.List) != 1 {
				e.fail("%s is not a single-statement function", fn)
			} else if rs, ok := fd.Body.List[0].(*ast.ReturnStmt); !ok || len(rs.Results) != 1 {
				e.fail("%s is not a single return", fn)
			} else {
				var walk func(x ast.Expr)
				walk = func(x ast.Expr) {
					if p, ok := x.(*ast.ParenExpr); ok {
						walk(p.X)
						return
					}
					if b, ok := x.(*ast.BinaryExpr); ok && b.Op == op {
						walk(b.X)
						walk(b.Y)
						return
					}
					parts = append(parts, norm(x))
				}
				walk(rs.Results[0])
			}
			sort.Strings(parts)
			qs := make([]string, len(parts))
			for i, p := range parts {
				qs[i] = leanStr(p)
			}
			fmt.Fprintf(&e.out, "def %s : List String := [%s]\n", lean, strings.Join(qs, ", "))
		}
		hd := "pkg/koordlet/qosmanager/helpers"
		chain(hd, "NonBEHostAppFilter", token.LOR, "hostAppFilterDisjuncts")
		chain(hd, "NonBEPodFilter", token.LAND, "podFilterConjuncts")

		// ---- adjustByCfsQuota: both the 1 % bypass and the 10 % step test exclude the unset quota (-1)
		bypassUnset, stepUnset := false, false
		if fd := e.funcDecl(d, "CPUSuppress", "adjustByCfsQuota"); fd == nil || fd.Body == nil {
			e.fail("adjustByCfsQuota not found")
		} else {
			ast.Inspect(fd.Body, func(n ast.Node) bool {
				if v, ok := n.(*ast.IfStmt); ok {
					c := norm(v.Cond)
					g := strings.Contains(c, "&&currentBeQuota!=beUnsetQuota") && !strings.Contains(c, "||")
					if strings.Contains(c, "<minQuotaDelta") {
						bypassUnset = g
					}
					if strings.Contains(c, ">beMaxIncreaseCPUQuota") {
						stepUnset = g
					}
				}
				return true
			})
		}
		fmt.Fprintf(&e.out, "def quotaBypassExcludesUnset : Bool := %v\n", bypassUnset)
		fmt.Fprintf(&e.out, "def quotaStepExcludesUnset : Bool := %v\n", stepUnset)

		// ---- applyBESuppressCPUSet: method calls on r in the static branch (in order) and in the else branch
		var staticCalls, otherCalls []string
		if fd := e.funcDecl(d, "CPUSuppress", "applyBESuppressCPUSet"); fd == nil || fd.Body == nil {
			e.fail("applyBESuppressCPUSet not found")
		} else {
			calls := func(b ast.Node) []string {
				var out []string
				ast.Inspect(b, func(n ast.Node) bool {
					if c, ok := n.(*ast.CallExpr); ok {
						if f := norm(c.Fun); strings.HasPrefix(f, "r.") && !strings.HasPrefix(f, "r.statesInformer") {
							out = append(out, strings.TrimPrefix(f, "r."))
						}
					}
					return true
				})
				return out
			}
			ast.Inspect(fd.Body, func(n ast.Node) bool {
				if v, ok := n.(*ast.IfStmt); ok && norm(v.Cond) == "kubeletPolicy.Policy==apiext.KubeletCPUManagerPolicyStatic" {
					staticCalls = calls(v.Body)
					if v.Else != nil {
						otherCalls = calls(v.Else)
					}
					return false
				}
				return true
			})
		}
		q := func(xs []string) string {
			qs := make([]string, len(xs))
			for i, x := range xs {
				qs[i] = leanStr(x)
			}
			return "[" + strings.Join(qs, ", ") + "]"
		}
		fmt.Fprintf(&e.out, "def staticPolicyCalls : List String := %s\n", q(staticCalls))
		fmt.Fprintf(&e.out, "def otherPolicyCalls : List String := %s\n", q(otherCalls))

		// ---- suppressBECPU: what the mode branches and the disabled branch call on r, and the arguments the budget gets
		var quotaCalls, cpusetCalls, disabledCalls, budgetArgs []string
		if fd := e.funcDecl(d, "CPUSuppress", "suppressBECPU"); fd == nil || fd.Body == nil {
			e.fail("suppressBECPU not found")
		} else {
			rcalls := func(b ast.Node) []string {
				var out []string
				ast.Inspect(b, func(n ast.Node) bool {
					if c, ok := n.(*ast.CallExpr); ok {
						if f := norm(c.Fun); strings.HasPrefix(f, "r.") && strings.Count(f, ".") == 1 {
							out = append(out, strings.TrimPrefix(f, "r."))
						}
					}
					return true
				})
				return out
			}
			var visit func(n ast.Node) bool
			visit = func(n ast.Node) bool {
				switch v := n.(type) {
				case *ast.IfStmt:
					c := norm(v.Cond)
					if strings.HasSuffix(c, "CPUSuppressPolicy==slov1alpha1.CPUCfsQuotaPolicy") {
						quotaCalls = rcalls(v.Body)
						if v.Else != nil {
							cpusetCalls = rcalls(v.Else)
						}
						return false
					}
					if c == "disabled" {
						disabledCalls = rcalls(v.Body)
					}
				case *ast.CallExpr:
					if norm(v.Fun) == "r.calculateBESuppressCPU" {
						for _, a := range v.Args {
							budgetArgs = append(budgetArgs, norm(a))
						}
					}
				}
				return true
			}
			ast.Inspect(fd.Body, visit)
		}
		fmt.Fprintf(&e.out, "def roundQuotaModeCalls : List String := %s\n", q(quotaCalls))
		fmt.Fprintf(&e.out, "def roundCpusetModeCalls : List String := %s\n", q(cpusetCalls))
		fmt.Fprintf(&e.out, "def roundDisabledCalls : List String := %s\n", q(disabledCalls))
		fmt.Fprintf(&e.out, "def roundBudgetArgs : List String := %s\n", q(budgetArgs))

		// ---- which writes go through the executor's cache: every call on r.executor in the package, as
		// "<enclosing method>:<executor method>(<first argument>)", in source order of the methods the model follows
		var execCalls []string
		for _, fn := range []string{"writeBECgroupsCPUSet", "adjustByCfsQuota", "recoverCFSQuotaIfNeed"} {
			fd := e.funcDecl(d, "CPUSuppress", fn)
			if fd == nil || fd.Body == nil {
				e.fail("%s not found", fn)
				continue
			}
			ast.Inspect(fd.Body, func(n ast.Node) bool {
				if c, ok := n.(*ast.CallExpr); ok {
					if f := norm(c.Fun); strings.HasPrefix(f, "r.executor.") && len(c.Args) > 0 {
						execCalls = append(execCalls, fn+":"+strings.TrimPrefix(f, "r.executor.")+"("+norm(c.Args[0])+")")
					}
				}
				return true
			})
		}
		fmt.Fprintf(&e.out, "def executorCalls : List String := %s\n", q(execCalls))
		// any other user of r.executor in the package (a new write path the model does not know)
		otherExec := 0
		for _, f := range e.dir(d) {
			for _, dd := range f.Decls {
				fd, ok := dd.(*ast.FuncDecl)
				if !ok || fd.Body == nil {
					continue
				}
				switch fd.Name.Name {
				case "writeBECgroupsCPUSet", "adjustByCfsQuota", "recoverCFSQuotaIfNeed", "init":
					continue
				}
				ast.Inspect(fd.Body, func(n ast.Node) bool {
					if c, ok := n.(*ast.CallExpr); ok && strings.HasPrefix(norm(c.Fun), "r.executor.") {
						otherExec++
					}
					return true
				})
			}
		}
		fmt.Fprintf(&e.out, "def otherExecutorCalls : Nat := %d\n", otherExec)

		// ---- resourceexecutor.updateByCache: inside `if e.needUpdate(updater) {` the statements are, in this order,
		// updater.update(), an `if` on the ignored error ending in return, an `if err != nil` ending in return, and only then
		// the single ResourceCache.SetDefault; the direct update() never touches the cache; Update(false, ..) goes to update().
		xd := "pkg/koordlet/resourceexecutor"
		setAfterWrite, setCalls, updateTouchesCache, needUpdateGuards := false, 0, true, false
		endsInReturn := func(b *ast.BlockStmt) bool {
			if b == nil || len(b.List) == 0 {
				return false
			}
			_, ok := b.List[len(b.List)-1].(*ast.ReturnStmt)
			return ok
		}
		if fd := e.funcDecl(xd, "ResourceUpdateExecutorImpl", "updateByCache"); fd == nil || fd.Body == nil {
			e.fail("updateByCache not found")
		} else {
			ast.Inspect(fd.Body, func(n ast.Node) bool {
				if c, ok := n.(*ast.CallExpr); ok && strings.HasSuffix(norm(c.Fun), "ResourceCache.SetDefault") || ok && strings.HasSuffix(norm(c.Fun), "ResourceCache.Set") {
					setCalls++
				}
				return true
			})
			for _, st := range fd.Body.List {
				ifs, ok := st.(*ast.IfStmt)
				if !ok || norm(ifs.Cond) != "e.needUpdate(updater)" {
					continue
				}
				needUpdateGuards = true
				posUpdate, posIgnored, posErr, posSet := -1, -1, -1, -1
				for k, s2 := range ifs.Body.List {
					src := ""
					switch v := s2.(type) {
					case *ast.AssignStmt:
						if len(v.Rhs) == 1 {
							src = norm(v.Rhs[0])
						}
						if src == "updater.update()" && posUpdate < 0 {
							posUpdate = k
						}
						if strings.Contains(src, "ResourceCache.SetDefault") && posSet < 0 {
							posSet = k
						}
					case *ast.IfStmt:
						c := norm(v.Cond)
						if c == "err!=nil&&e.isUpdateErrIgnored(err)" && endsInReturn(v.Body) && v.Else == nil && posIgnored < 0 {
							posIgnored = k
						}
						if c == "err!=nil" && endsInReturn(v.Body) && v.Else == nil && posErr < 0 && posSet < 0 {
							posErr = k
						}
					}
				}
				setAfterWrite = posUpdate >= 0 && posUpdate < posIgnored && posIgnored < posErr && posErr < posSet
			}
		}
		if fd := e.funcDecl(xd, "ResourceUpdateExecutorImpl", "update"); fd == nil || fd.Body == nil {
			e.fail("executor update not found")
		} else {
			updateTouchesCache = false
			ast.Inspect(fd.Body, func(n ast.Node) bool {
				if se, ok := n.(*ast.SelectorExpr); ok && se.Sel.Name == "ResourceCache" {
					updateTouchesCache = true
				}
				return true
			})
		}
		fmt.Fprintf(&e.out, "def cacheSetAfterSuccessfulWriteOnly : Bool := %v\n", setAfterWrite && needUpdateGuards)
		fmt.Fprintf(&e.out, "def cacheSetCallsInUpdateByCache : Nat := %d\n", setCalls)
		fmt.Fprintf(&e.out, "def directUpdateTouchesCache : Bool := %v\n", updateTouchesCache)
		// Update / UpdateBatch dispatch on the flag: cacheable -> updateByCache, else -> update
		dispatch := func(fn string) string {
			fd := e.funcDecl(xd, "ResourceUpdateExecutorImpl", fn)
			if fd == nil || fd.Body == nil {
				e.fail("executor %s not found", fn)
				return "?"
			}
			var thenCalls, elseCalls []string
			collect := func(b ast.Node, skip ast.Node) []string {
				var out []string
				ast.Inspect(b, func(n ast.Node) bool {
					if n == skip {
						return false
					}
					if c, ok := n.(*ast.CallExpr); ok {
						if f := norm(c.Fun); f == "e.updateByCache" || f == "e.update" {
							out = append(out, strings.TrimPrefix(f, "e."))
						}
					}
					return true
				})
				return out
			}
			for _, st := range fd.Body.List {
				if ifs, ok := st.(*ast.IfStmt); ok && norm(ifs.Cond) == "cacheable" {
					thenCalls = collect(ifs.Body, nil)
					if ifs.Else != nil {
						elseCalls = collect(ifs.Else, nil)
					} else {
						elseCalls = collect(fd.Body, ifs)
					}
				}
			}
			return strings.Join(thenCalls, ",") + "|" + strings.Join(elseCalls, ",")
		}
		fmt.Fprintf(&e.out, "def executorUpdateDispatch : String := %s\n", leanStr(dispatch("Update")))
		fmt.Fprintf(&e.out, "def executorUpdateBatchDispatch : String := %s\n", leanStr(dispatch("UpdateBatch")))
		// needUpdate: true without an entry, on another value, on an entry older than the force-update interval
		nuReturns := ""
		if fd := e.funcDecl(xd, "ResourceUpdateExecutorImpl", "needUpdate"); fd == nil || fd.Body == nil {
			e.fail("needUpdate not found")
		} else {
			for _, st := range fd.Body.List {
				switch v := st.(type) {
				case *ast.IfStmt:
					c := norm(v.Cond)
					ret := "?"
					if len(v.Body.List) > 0 {
						if rs, ok := v.Body.List[len(v.Body.List)-1].(*ast.ReturnStmt); ok && len(rs.Results) == 1 {
							ret = norm(rs.Results[0])
						}
					}
					switch {
					case c == "preResource==nil":
						nuReturns += "noentry:" + ret + ";"
					case c == "updater.Value()!=preResourceUpdater.Value()":
						nuReturns += "othervalue:" + ret + ";"
					case strings.HasPrefix(c, "time.Since(preResourceUpdater.GetLastUpdateTimestamp())>") && strings.Contains(c, "ResourceForceUpdateSeconds"):
						nuReturns += "stale:" + ret + ";"
					default:
						nuReturns += "other(" + c + "):" + ret + ";"
					}
				case *ast.ReturnStmt:
					if len(v.Results) == 1 {
						nuReturns += "else:" + norm(v.Results[0])
					}
				}
			}
		}
		fmt.Fprintf(&e.out, "def needUpdateRules : String := %s\n", leanStr(nuReturns))
		// the force-update interval of NewDefaultConfig (the harness ages cache entries by 61 s)
		force := int64(-1)
		if fd := e.funcDecl(xd, "", "NewDefaultConfig"); fd != nil && fd.Body != nil {
			ast.Inspect(fd.Body, func(n ast.Node) bool {
				if kv, ok := n.(*ast.KeyValueExpr); ok && norm(kv.Key) == "ResourceForceUpdateSeconds" {
					if v, ok := e.evalInt(xd, kv.Value, 0); ok {
						force = v
					}
				}
				return true
			})
		}
		if force < 0 {
			e.fail("ResourceForceUpdateSeconds default not found")
		}
		fmt.Fprintf(&e.out, "def resourceForceUpdateSeconds : Int := %d\n", force)

		// ---- ext6: the budget's node-reservation term.  helpers.GetNodeResourceReserved hands node.Annotations to ONE helper of
		// pkg/util; neither that helper nor GetNodeReservationResources may look at the annotation's ApplyPolicy (the model's
		// annoReservedP ignores it: the amount is reserved under every policy).
		annoCallee, nAnnoCalls := "", 0
		if fd := e.funcDecl("pkg/koordlet/qosmanager/helpers", "", "GetNodeResourceReserved"); fd == nil || fd.Body == nil {
			e.fail("helpers.GetNodeResourceReserved not found")
		} else {
			ast.Inspect(fd.Body, func(n ast.Node) bool {
				if c, ok := n.(*ast.CallExpr); ok {
					for _, a := range c.Args {
						if norm(a) == "node.Annotations" {
							annoCallee = norm(c.Fun)
							nAnnoCalls++
						}
					}
				}
				return true
			})
		}
		fmt.Fprintf(&e.out, "def nodeReservedAnnoHelper : String := %s\n", leanStr(annoCallee))
		fmt.Fprintf(&e.out, "def nodeReservedAnnoHelperCalls : Nat := %d\n", nAnnoCalls)
		readsPolicy := false
		for _, fn := range []string{"GetNodeReservationFromAnnotation", "GetNodeReservationResources"} {
			fd := e.funcDecl("pkg/util", "", fn)
			if fd == nil || fd.Body == nil {
				e.fail("util.%s not found", fn)
				continue
			}
			ast.Inspect(fd.Body, func(n ast.Node) bool {
				switch v := n.(type) {
				case *ast.SelectorExpr:
					if strings.Contains(v.Sel.Name, "ApplyPolicy") {
						readsPolicy = true
					}
				case *ast.Ident:
					if strings.Contains(v.Name, "ApplyPolicy") {
						readsPolicy = true
					}
				}
				return true
			})
		}
		fmt.Fprintf(&e.out, "def annoReservationReadsApplyPolicy : Bool := %v\n", readsPolicy)
	}
}
