package main

import (
	"fmt"
	"go/ast"
	"go/token"
	"go/types"
	"strings"
)

func init() {
	extractors["C10"] = func(e *ext) {
		d := "pkg/koordlet/qosmanager/plugins/cpusuppress"
		e.constInt(d, "beMinCPUSetCores", "beMinCPUSetCores")
		e.constInt(d, "beMinQuota", "beMinQuota")
		e.constInt(d, "beUnsetQuota", "beUnsetQuota")
		e.constInt("pkg/koordlet/util/system", "DefaultCPUCFSPeriod", "DefaultCPUCFSPeriod")
		// float literals, kept as source text
		for _, name := range []string{"beMaxIncreaseCPUPercent", "suppressBypassQuotaDeltaRatio"} {
			x, ok := e.valueSpec(d, name)
			lit, isLit := x.(*ast.BasicLit)
			if !ok || !isLit || lit.Kind != token.FLOAT {
				e.fail("%s.%s is not a float literal", d, name)
				fmt.Fprintf(&e.out, "def %s : String := \"?\"\n", name)
				continue
			}
			fmt.Fprintf(&e.out, "def %s : String := %s\n", name, leanStr(lit.Value))
		}
		// guard order in adjustByCPUSet: `if len(lsrCpus)+len(lsCpus) == 0 { ... return }` must precede
		// every division by `len(lsrCpus) + len(lsCpus)`.
		norm := func(x ast.Expr) string { return strings.ReplaceAll(types.ExprString(x), " ", "") }
		fd := e.funcDecl(d, "CPUSuppress", "adjustByCPUSet")
		guardPos, divPos, nDiv := token.NoPos, token.NoPos, 0
		if fd == nil || fd.Body == nil {
			e.fail("adjustByCPUSet not found")
		} else {
			ast.Inspect(fd.Body, func(n ast.Node) bool {
				switch v := n.(type) {
				case *ast.IfStmt:
					if c := norm(v.Cond); (c == "len(lsrCpus)+len(lsCpus)==0" || c == "len(lsCpus)+len(lsrCpus)==0") && v.Init == nil {
						hasRet := false
						for _, s := range v.Body.List {
							if _, ok := s.(*ast.ReturnStmt); ok {
								hasRet = true
							}
						}
						if hasRet && guardPos == token.NoPos {
							guardPos = v.Pos()
						}
					}
				case *ast.BinaryExpr:
					if v.Op == token.QUO || v.Op == token.REM {
						y := norm(v.Y)
						if strings.Contains(y, "len(lsrCpus)") || strings.Contains(y, "len(lsCpus)") {
							nDiv++
							if divPos == token.NoPos || v.Pos() < divPos {
								divPos = v.Pos()
							}
						}
					}
				}
				return true
			})
		}
		fmt.Fprintf(&e.out, "def poolSizeDivisions : Nat := %d\n", nDiv)
		fmt.Fprintf(&e.out, "def zeroPoolGuardBeforeDivision : Bool := %v\n",
			guardPos != token.NoPos && (divPos == token.NoPos || guardPos < divPos))
	}
}
