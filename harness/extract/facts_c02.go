package main

import (
	"bytes"
	"fmt"
	"go/ast"
	"go/printer"
	"go/token"
	"sort"
)

func c02Src(e *ext, n ast.Node) string {
	var b bytes.Buffer
	_ = printer.Fprint(&b, e.fset, n)
	return b.String()
}

// C02: every method of *RuntimeQuotaCalculator that changes the inputs of the redistribution
// (a quotaTree insert/update*/erase, or an assignment to qtw.totalResource) also increments
// qtw.globalRuntimeVersion; and updateOneGroupRuntimeQuota returns early only when the stamp equals
// the version, recomputes, then stamps.
func init() {
	extractors["C02"] = func(e *ext) {
		dir := "pkg/scheduler/plugins/elasticquota/core"
		mutCalls := map[string]bool{"insert": true, "updateRequest": true, "updateMin": true,
			"updateSharedWeight": true, "updateGuaranteed": true, "erase": true}
		type row struct {
			name           string
			mutates, bumps bool
		}
		var rows []row
		for _, f := range e.dir(dir) {
			for _, d := range f.Decls {
				fd, ok := d.(*ast.FuncDecl)
				if !ok || fd.Recv == nil || len(fd.Recv.List) == 0 || fd.Body == nil {
					continue
				}
				t := fd.Recv.List[0].Type
				if st, ok := t.(*ast.StarExpr); ok {
					t = st.X
				}
				id, ok := t.(*ast.Ident)
				if !ok || id.Name != "RuntimeQuotaCalculator" {
					continue
				}
				r := row{name: fd.Name.Name}
				ast.Inspect(fd.Body, func(n ast.Node) bool {
					switch x := n.(type) {
					case *ast.CallExpr:
						if se, ok := x.Fun.(*ast.SelectorExpr); ok && mutCalls[se.Sel.Name] {
							r.mutates = true
						}
					case *ast.AssignStmt:
						for _, l := range x.Lhs {
							if se, ok := l.(*ast.SelectorExpr); ok && se.Sel.Name == "totalResource" {
								r.mutates = true
							}
						}
					case *ast.IncDecStmt:
						if se, ok := x.X.(*ast.SelectorExpr); ok && se.Sel.Name == "globalRuntimeVersion" && x.Tok == token.INC {
							r.bumps = true
						}
					}
					return true
				})
				if r.mutates {
					rows = append(rows, r)
				}
			}
		}
		sort.Slice(rows, func(i, j int) bool { return rows[i].name < rows[j].name })
		if len(rows) == 0 {
			e.fail("no mutating method of RuntimeQuotaCalculator found")
		}
		fmt.Fprintf(&e.out, "/-- (method, increments globalRuntimeVersion) for every method that changes redistribution inputs -/\n")
		fmt.Fprintf(&e.out, "def mutators : List (String × Bool) := [\n")
		for i, r := range rows {
			sep := ","
			if i == len(rows)-1 {
				sep = ""
			}
			fmt.Fprintf(&e.out, "  (%s, %v)%s\n", leanStr(r.name), r.bumps, sep)
		}
		fmt.Fprintf(&e.out, "]\n\n")

		// shape of updateOneGroupRuntimeQuota: [stampEqVersionReturn, recompute, stamp] in this order
		var shape []string
		if fd := e.funcDecl(dir, "RuntimeQuotaCalculator", "updateOneGroupRuntimeQuota"); fd != nil && fd.Body != nil {
			for _, st := range fd.Body.List {
				switch x := st.(type) {
				case *ast.IfStmt:
					if be, ok := x.Cond.(*ast.BinaryExpr); ok && be.Op == token.EQL {
						l, lok := be.X.(*ast.SelectorExpr)
						r, rok := be.Y.(*ast.SelectorExpr)
						if lok && rok && l.Sel.Name == "RuntimeVersion" && r.Sel.Name == "globalRuntimeVersion" &&
							len(x.Body.List) == 1 {
							if _, isRet := x.Body.List[0].(*ast.ReturnStmt); isRet {
								shape = append(shape, "return-if-stamp-eq-version")
							}
						}
					}
				case *ast.ExprStmt:
					if ce, ok := x.X.(*ast.CallExpr); ok {
						if se, ok := ce.Fun.(*ast.SelectorExpr); ok && se.Sel.Name == "calculateRuntimeNoLock" {
							shape = append(shape, "recompute")
						}
					}
				case *ast.AssignStmt:
					if len(x.Lhs) == 1 && len(x.Rhs) == 1 {
						l, lok := x.Lhs[0].(*ast.SelectorExpr)
						r, rok := x.Rhs[0].(*ast.SelectorExpr)
						if lok && rok && l.Sel.Name == "RuntimeVersion" && r.Sel.Name == "globalRuntimeVersion" {
							shape = append(shape, "stamp")
						}
					}
				}
			}
		} else {
			e.fail("updateOneGroupRuntimeQuota not found")
		}
		fmt.Fprintf(&e.out, "def refreshShape : List String := [")
		for i, s := range shape {
			if i > 0 {
				fmt.Fprintf(&e.out, ", ")
			}
			fmt.Fprintf(&e.out, "%s", leanStr(s))
		}
		fmt.Fprintf(&e.out, "]\n\n")

		// ---- loop domains: every `for … range X` of a RuntimeQuotaCalculator method whose body touches a
		// per-dimension tree (mutator call or redistribution): X, whether only the key is bound, and whether the
		// per-dimension value is read with `<list>.Name(<key>, …)` (a missing key reads 0) ----
		treeCalls := map[string]bool{"redistribution": true}
		for k := range mutCalls {
			treeCalls[k] = true
		}
		type loopRow struct {
			method, domain  string
			keyOnly, byName bool
		}
		var loops []loopRow
		for _, f := range e.dir(dir) {
			for _, d := range f.Decls {
				fd, ok := d.(*ast.FuncDecl)
				if !ok || fd.Recv == nil || len(fd.Recv.List) == 0 || fd.Body == nil {
					continue
				}
				t := fd.Recv.List[0].Type
				if st, ok := t.(*ast.StarExpr); ok {
					t = st.X
				}
				if id, ok := t.(*ast.Ident); !ok || id.Name != "RuntimeQuotaCalculator" {
					continue
				}
				recvName := ""
				if len(fd.Recv.List[0].Names) > 0 {
					recvName = fd.Recv.List[0].Names[0].Name
				}
				ast.Inspect(fd.Body, func(n ast.Node) bool {
					rs, ok := n.(*ast.RangeStmt)
					if !ok {
						return true
					}
					touches, byName := false, false
					keyName := ""
					if id, ok := rs.Key.(*ast.Ident); ok {
						keyName = id.Name
					}
					needsValue := false
					ast.Inspect(rs.Body, func(m ast.Node) bool {
						ce, ok := m.(*ast.CallExpr)
						if !ok {
							return true
						}
						se, ok := ce.Fun.(*ast.SelectorExpr)
						if !ok {
							return true
						}
						if treeCalls[se.Sel.Name] {
							touches = true
						}
						if se.Sel.Name == "updateMin" || se.Sel.Name == "updateSharedWeight" || se.Sel.Name == "updateRequest" || se.Sel.Name == "updateGuaranteed" {
							needsValue = true
						}
						if se.Sel.Name == "Name" && len(ce.Args) >= 1 {
							if id, ok := ce.Args[0].(*ast.Ident); ok && id.Name == keyName && keyName != "" {
								byName = true
							}
						}
						return true
					})
					if touches {
						dom := c02Src(e, rs.X) // "recv.<field>" when it is a field of the receiver, whatever the receiver is called
						if se, ok := rs.X.(*ast.SelectorExpr); ok {
							if id, ok := se.X.(*ast.Ident); ok && id.Name == recvName {
								dom = "recv." + se.Sel.Name
							}
						}
						loops = append(loops, loopRow{fd.Name.Name, dom, rs.Value == nil, byName || !needsValue})
					}
					return true
				})
			}
		}
		sort.Slice(loops, func(i, j int) bool {
			if loops[i].method != loops[j].method {
				return loops[i].method < loops[j].method
			}
			return loops[i].domain < loops[j].domain
		})
		if len(loops) == 0 {
			e.fail("no per-dimension loop found in RuntimeQuotaCalculator")
		}
		fmt.Fprintf(&e.out, "/-- (method, range expression, binds only the key, reads the per-dimension value with list.Name(key)) for every loop that touches a per-dimension tree -/\n")
		fmt.Fprintf(&e.out, "def treeLoops : List (String × String × Bool × Bool) := [\n")
		for i, r := range loops {
			sep := ","
			if i == len(loops)-1 {
				sep = ""
			}
			fmt.Fprintf(&e.out, "  (%s, %s, %v, %v)%s\n", leanStr(r.method), leanStr(r.domain), r.keyOnly, r.byName, sep)
		}
		fmt.Fprintf(&e.out, "]\n\n")

		// ---- extension.GetSharedWeight: statement shape ----
		var sw []string
		parsedVar := "" // the variable json.Unmarshal fills
		calleeOf := func(x ast.Expr) string {
			if ce, ok := x.(*ast.CallExpr); ok {
				if se, ok := ce.Fun.(*ast.SelectorExpr); ok {
					return se.Sel.Name
				}
				if id, ok := ce.Fun.(*ast.Ident); ok {
					return id.Name
				}
			}
			return ""
		}
		var walk func(list []ast.Stmt)
		walk = func(list []ast.Stmt) {
			for _, st := range list {
				switch x := st.(type) {
				case *ast.AssignStmt:
					switch r := x.Rhs[0].(type) {
					case *ast.IndexExpr:
						k := ""
						if id, ok := r.Index.(*ast.Ident); ok {
							k = id.Name
						}
						sw = append(sw, "assign index "+k)
					case *ast.CompositeLit:
						sw = append(sw, "assign empty-list")
					case *ast.CallExpr:
						c := calleeOf(r)
						if c == "Unmarshal" && len(r.Args) == 2 {
							if ue, ok := r.Args[1].(*ast.UnaryExpr); ok && ue.Op == token.AND {
								if id, ok := ue.X.(*ast.Ident); ok {
									parsedVar = id.Name
								}
							}
						}
						sw = append(sw, "assign call "+c)
					default:
						sw = append(sw, fmt.Sprintf("assign other %T", r))
					}
				case *ast.IfStmt:
					var calls []string
					ops := ""
					ast.Inspect(x.Cond, func(n ast.Node) bool {
						switch y := n.(type) {
						case *ast.CallExpr:
							calls = append(calls, calleeOf(y))
						case *ast.BinaryExpr:
							ops += y.Op.String()
						case *ast.UnaryExpr:
							ops += y.Op.String()
						}
						return true
					})
					sw = append(sw, "if "+ops+" "+fmt.Sprint(calls))
					walk(x.Body.List)
					if x.Else != nil {
						sw = append(sw, "else")
					}
					sw = append(sw, "end")
				case *ast.ReturnStmt:
					r := "return"
					for _, v := range x.Results {
						if id, ok := v.(*ast.Ident); ok {
							if id.Name == parsedVar && parsedVar != "" {
								r += " parsed"
							} else {
								r += " ident"
							}
						} else if c := calleeOf(v); c != "" {
							r += " call " + c
							if ce, ok := v.(*ast.CallExpr); ok {
								if se, ok := ce.Fun.(*ast.SelectorExpr); ok {
									if inner, ok := se.X.(*ast.SelectorExpr); ok {
										r += " of " + inner.Sel.Name
									}
								}
							}
						} else {
							r += fmt.Sprintf(" other %T", v)
						}
					}
					sw = append(sw, r)
				default:
					sw = append(sw, fmt.Sprintf("other %T", st))
				}
			}
		}
		if fd := e.funcDecl("apis/extension", "", "GetSharedWeight"); fd != nil && fd.Body != nil {
			walk(fd.Body.List)
		} else {
			e.fail("extension.GetSharedWeight not found")
		}
		fmt.Fprintf(&e.out, "def sharedWeightShape : List String := [\n")
		for i, x := range sw {
			sep := ","
			if i == len(sw)-1 {
				sep = ""
			}
			fmt.Fprintf(&e.out, "  %s%s\n", leanStr(x), sep)
		}
		fmt.Fprintf(&e.out, "]\n\n")

		// ---- doUpdateOneGroupMinQuotaNoLock: calls on the parent's calculator, in order ----
		var minCalls []string
		if fd := e.funcDecl(dir, "GroupQuotaManager", "doUpdateOneGroupMinQuotaNoLock"); fd != nil && fd.Body != nil {
			ast.Inspect(fd.Body, func(n ast.Node) bool {
				if ce, ok := n.(*ast.CallExpr); ok {
					if se, ok := ce.Fun.(*ast.SelectorExpr); ok {
						switch se.Sel.Name {
						case "updateOneGroupMinQuota", "needUpdateOneGroupRequest", "updateOneGroupRequest", "needUpdateOneGroupGuaranteed", "updateOneGroupGuaranteed":
							minCalls = append(minCalls, se.Sel.Name)
						}
					}
				}
				return true
			})
		} else {
			e.fail("doUpdateOneGroupMinQuotaNoLock not found")
		}
		fmt.Fprintf(&e.out, "def minUpdateCalculatorCalls : List String := [")
		for i, x := range minCalls {
			if i > 0 {
				fmt.Fprintf(&e.out, ", ")
			}
			fmt.Fprintf(&e.out, "%s", leanStr(x))
		}
		fmt.Fprintf(&e.out, "]\n\n")

		// ---- the lend flag and NewQuotaInfoFromQuota ----
		rule := ""
		if fd := e.funcDecl("apis/extension", "", "IsAllowLentResource"); fd != nil && fd.Body != nil && len(fd.Body.List) == 1 {
			if rs, ok := fd.Body.List[0].(*ast.ReturnStmt); ok && len(rs.Results) == 1 {
				if be, ok := rs.Results[0].(*ast.BinaryExpr); ok {
					if ix, ok := be.X.(*ast.IndexExpr); ok {
						if id, ok := ix.Index.(*ast.Ident); ok {
							if lit, ok := be.Y.(*ast.BasicLit); ok {
								rule = "label " + id.Name + " " + be.Op.String() + " " + lit.Value
							}
						}
					}
				}
			}
		}
		if rule == "" {
			e.fail("IsAllowLentResource: unexpected shape")
		}
		fmt.Fprintf(&e.out, "def allowLentRule : String := %s\n", leanStr(rule))
		e.c02NodeFacts(dir)
	}
}

// c02NodeFacts: the node event handlers of GroupQuotaManager — which lists are compared / subtracted / handed to
// UpdateClusterTotalResource, in source order, with local aliases resolved, parameters written $0,$1 and the
// receiver written recv; and how updateClusterTotalResourceNoLock folds a delta into the total.
func (e *ext) c02NodeFacts(dir string) {
	interesting := map[string]bool{"UpdateClusterTotalResource": true, "Subtract": true, "SubtractWithNonNegativeResult": true, "Equals": true, "delete": true,
		"Add": true, "IsZero": true, "setClusterTotalResource": true}
	type fn struct {
		fd     *ast.FuncDecl
		names  map[string]string   // parameter / receiver -> canonical
		single map[string]ast.Expr // local assigned exactly once -> its right-hand side
	}
	prep := func(name string) *fn {
		fd := e.funcDecl(dir, "GroupQuotaManager", name)
		if fd == nil || fd.Body == nil {
			e.fail("GroupQuotaManager.%s not found", name)
			return nil
		}
		f := &fn{fd: fd, names: map[string]string{}, single: map[string]ast.Expr{}}
		if len(fd.Recv.List[0].Names) > 0 {
			f.names[fd.Recv.List[0].Names[0].Name] = "recv"
		}
		i := 0
		for _, p := range fd.Type.Params.List {
			for _, n := range p.Names {
				f.names[n.Name] = fmt.Sprintf("$%d", i)
				i++
			}
		}
		count := map[string]int{}
		ast.Inspect(fd.Body, func(n ast.Node) bool {
			switch x := n.(type) {
			case *ast.AssignStmt:
				for k, l := range x.Lhs {
					if id, ok := l.(*ast.Ident); ok {
						count[id.Name]++
						if len(x.Lhs) == len(x.Rhs) {
							f.single[id.Name] = x.Rhs[k]
						}
					}
				}
			case *ast.DeclStmt:
				if gd, ok := x.Decl.(*ast.GenDecl); ok {
					for _, sp := range gd.Specs {
						if vs, ok := sp.(*ast.ValueSpec); ok {
							for _, id := range vs.Names {
								count[id.Name] += 2 // `var x T` + later assignments: never resolved
							}
						}
					}
				}
			case *ast.RangeStmt:
				for _, l := range []ast.Expr{x.Key, x.Value} {
					if id, ok := l.(*ast.Ident); ok {
						count[id.Name] += 2
					}
				}
			}
			return true
		})
		for k, c := range count {
			if c != 1 {
				delete(f.single, k)
			}
		}
		return f
	}
	var res func(f *fn, x ast.Expr, depth int) string
	res = func(f *fn, x ast.Expr, depth int) string {
		switch y := x.(type) {
		case *ast.Ident:
			if c, ok := f.names[y.Name]; ok {
				return c
			}
			if rhs, ok := f.single[y.Name]; ok && depth < 6 {
				return res(f, rhs, depth+1)
			}
			return y.Name
		case *ast.SelectorExpr:
			if id, ok := y.X.(*ast.Ident); ok {
				if _, isParam := f.names[id.Name]; !isParam {
					if _, isLocal := f.single[id.Name]; !isLocal {
						return y.Sel.Name // package-qualified: quotav1.Subtract -> Subtract
					}
				}
			}
			return res(f, y.X, depth) + "." + y.Sel.Name
		case *ast.CallExpr:
			s := res(f, y.Fun, depth) + "("
			for i, a := range y.Args {
				if i > 0 {
					s += ", "
				}
				s += res(f, a, depth)
			}
			return s + ")"
		case *ast.UnaryExpr:
			return y.Op.String() + res(f, y.X, depth)
		case *ast.IndexExpr:
			return res(f, y.X, depth) + "[" + res(f, y.Index, depth) + "]"
		}
		return c02Src(e, x)
	}
	calls := func(f *fn) []string {
		var out []string
		if f == nil {
			return out
		}
		ast.Inspect(f.fd.Body, func(n ast.Node) bool {
			switch x := n.(type) {
			case *ast.CallExpr:
				name := ""
				switch fx := x.Fun.(type) {
				case *ast.SelectorExpr:
					name = fx.Sel.Name
				case *ast.Ident:
					name = fx.Name
				}
				if interesting[name] {
					s := res(f, x, 0)
					if name == "UpdateClusterTotalResource" || name == "setClusterTotalResource" {
						s = name + s[len(res(f, x.Fun, 0)):] // drop the receiver
					}
					out = append(out, s)
				}
			case *ast.RangeStmt: // a hand-written loop over one list's keys
				out = append(out, "range "+res(f, x.X, 0))
			}
			return true
		})
		return out
	}
	emit := func(lean string, xs []string) {
		fmt.Fprintf(&e.out, "\ndef %s : List String := [", lean)
		for i, x := range xs {
			if i > 0 {
				fmt.Fprintf(&e.out, ",")
			}
			fmt.Fprintf(&e.out, "\n  %s", leanStr(x))
		}
		fmt.Fprintf(&e.out, "]\n")
	}
	emit("onNodeAddCalls", calls(prep("OnNodeAdd")))
	emit("onNodeUpdateCalls", calls(prep("OnNodeUpdate")))
	emit("onNodeDeleteCalls", calls(prep("OnNodeDelete")))
	// updateClusterTotalResourceNoLock: what is assigned to recv.totalResource, and the guard of the push
	var assign, guard []string
	if f := prep("updateClusterTotalResourceNoLock"); f != nil {
		ast.Inspect(f.fd.Body, func(n ast.Node) bool {
			switch x := n.(type) {
			case *ast.AssignStmt:
				if len(x.Lhs) == 1 && len(x.Rhs) == 1 && res(f, x.Lhs[0], 0) == "recv.totalResource" {
					saved := f.single
					f.single = map[string]ast.Expr{} // the right-hand side as written
					assign = append(assign, res(f, x.Rhs[0], 0))
					f.single = saved
				}
			case *ast.IfStmt:
				pushes := false
				ast.Inspect(x.Body, func(m ast.Node) bool {
					if ce, ok := m.(*ast.CallExpr); ok {
						if se, ok := ce.Fun.(*ast.SelectorExpr); ok && se.Sel.Name == "setClusterTotalResource" {
							pushes = true
						}
					}
					return true
				})
				if pushes {
					guard = append(guard, res(f, x.Cond, 0))
				}
			}
			return true
		})
	}
	emit("clusterTotalAssign", assign)
	emit("clusterTotalPushGuard", guard)
}
