package main

import (
	"fmt"
	"go/ast"
	"go/token"
	"sort"
)

// C02: every method of *RuntimeQuotaCalculator that changes the inputs of the redistribution
// (a quotaTree insert/update*/erase, or an assignment to qtw.totalResource) also increments
// qtw.globalRuntimeVersion; and updateOneGroupRuntimeQuota returns early only when the stamp equals
// the version, recomputes, then stamps.
func init() {
	extractors["C02"] = func(e *ext) {
		dir := "pkg/scheduler/plugins/elasticquota/core"
		mutCalls := map[string]bool{"insert": true, "updateRequest": true, "updateMin": true,
			"updateSharedWeight": true, "updateGuaranteed": true, "erase": true}
		type row struct {
			name           string
			mutates, bumps bool
		}
		var rows []row
		for _, f := range e.dir(dir) {
			for _, d := range f.Decls {
				fd, ok := d.(*ast.FuncDecl)
				if !ok || fd.Recv == nil || len(fd.Recv.List) == 0 || fd.Body == nil {
					continue
				}
				t := fd.Recv.List[0].Type
				if st, ok := t.(*ast.StarExpr); ok {
					t = st.X
				}
				id, ok := t.(*ast.Ident)
				if !ok || id.Name != "RuntimeQuotaCalculator" {
					continue
				}
				r := row{name: fd.Name.Name}
				ast.Inspect(fd.Body, func(n ast.Node) bool {
					switch x := n.(type) {
					case *ast.CallExpr:
						if se, ok := x.Fun.(*ast.SelectorExpr); ok && mutCalls[se.Sel.Name] {
							r.mutates = true
						}
					case *ast.AssignStmt:
						for _, l := range x.Lhs {
							if se, ok := l.(*ast.SelectorExpr); ok && se.Sel.Name == "totalResource" {
								r.mutates = true
							}
						}
					case *ast.IncDecStmt:
						if se, ok := x.X.(*ast.SelectorExpr); ok && se.Sel.Name == "globalRuntimeVersion" && x.Tok == token.INC {
							r.bumps = true
						}
					}
					return true
				})
				if r.mutates {
					rows = append(rows, r)
				}
			}
		}
		sort.Slice(rows, func(i, j int) bool { return rows[i].name < rows[j].name })
		if len(rows) == 0 {
			e.fail("no mutating method of RuntimeQuotaCalculator found")
		}
		fmt.Fprintf(&e.out, "/-- (method, increments globalRuntimeVersion) for every method that changes redistribution inputs -/\n")
		fmt.Fprintf(&e.out, "def mutators : List (String × Bool) := [\n")
		for i, r := range rows {
			sep := ","
			if i == len(rows)-1 {
				sep = ""
			}
			fmt.Fprintf(&e.out, "  (%s, %v)%s\n", leanStr(r.name), r.bumps, sep)
		}
		fmt.Fprintf(&e.out, "]\n\n")

		// shape of updateOneGroupRuntimeQuota: [stampEqVersionReturn, recompute, stamp] in this order
		var shape []string
		if fd := e.funcDecl(dir, "RuntimeQuotaCalculator", "updateOneGroupRuntimeQuota"); fd != nil && fd.Body != nil {
			for _, st := range fd.Body.List {
				switch x := st.(type) {
				case *ast.IfStmt:
					if be, ok := x.Cond.(*ast.BinaryExpr); ok && be.Op == token.EQL {
						l, lok := be.X.(*ast.SelectorExpr)
						r, rok := be.Y.(*ast.SelectorExpr)
						if lok && rok && l.Sel.Name == "RuntimeVersion" && r.Sel.Name == "globalRuntimeVersion" &&
							len(x.Body.List) == 1 {
							if _, isRet := x.Body.List[0].(*ast.ReturnStmt); isRet {
								shape = append(shape, "return-if-stamp-eq-version")
							}
						}
					}
				case *ast.ExprStmt:
					if ce, ok := x.X.(*ast.CallExpr); ok {
						if se, ok := ce.Fun.(*ast.SelectorExpr); ok && se.Sel.Name == "calculateRuntimeNoLock" {
							shape = append(shape, "recompute")
						}
					}
				case *ast.AssignStmt:
					if len(x.Lhs) == 1 && len(x.Rhs) == 1 {
						l, lok := x.Lhs[0].(*ast.SelectorExpr)
						r, rok := x.Rhs[0].(*ast.SelectorExpr)
						if lok && rok && l.Sel.Name == "RuntimeVersion" && r.Sel.Name == "globalRuntimeVersion" {
							shape = append(shape, "stamp")
						}
					}
				}
			}
		} else {
			e.fail("updateOneGroupRuntimeQuota not found")
		}
		fmt.Fprintf(&e.out, "def refreshShape : List String := [")
		for i, s := range shape {
			if i > 0 {
				fmt.Fprintf(&e.out, ", ")
			}
			fmt.Fprintf(&e.out, "%s", leanStr(s))
		}
		fmt.Fprintf(&e.out, "]\n")
	}
}
