#!/usr/bin/env python3
"""mkmut.py <round> <letters> <PID>...  -> writes /tmp/mutout/<PID>.prompt<round>.txt and a worktree /tmp/mut<round>-<pid>"""
import json,os,sys,subprocess
V='/verif'
rnd=sys.argv[1]; letters=sys.argv[2]; pids=sys.argv[3:]
props={json.loads(l)['id']:json.loads(l) for l in open(f'{V}/properties.jsonl')}
tmpl=open(f'{V}/build/prompts/MUTANT2.tmpl').read()
a,b=letters[0],letters[1]
for pid in pids:
    p=props[pid]; prev=[]
    for x in 'abcdefghijklmn':
        mp=f'{V}/seeded/{pid}-{x}/meta.json'
        if os.path.exists(mp):
            m=json.load(open(mp))
            files=sorted({l[6:].strip() for l in open(f'{V}/seeded/{pid}-{x}/patch.diff') if l.startswith('+++ b/')})
            prev.append(f" - in {', '.join(files)}: {m.get('breaks','')[:360]}")
    wt=f'/tmp/mut{rnd}-{pid.lower()}'
    s=(tmpl.replace('{WT}',wt).replace('{PID}',pid).replace('{pid}',pid.lower()).replace('{TITLE}',p['title'])
       .replace('{STATEMENT}',p['statement']).replace('{QUANT}',p['quantifier']['text'])
       .replace('{FILES}',', '.join(p['anchors']['files'])).replace('{PREVIOUS}','\n'.join(prev)))
    s=s.replace('TWO MORE',f'TWO MORE (round {rnd})').replace('<c|d>',f'<{a}|{b}>').replace('change c and change d',f'change {a} and change {b}').replace(f'/tmp/mutout/{pid}/c',f'/tmp/mutout/{pid}/{a}').replace(f'/tmp/mutout/{pid}/d',f'/tmp/mutout/{pid}/{b}')
    s+=f"\nRound {rnd} note: {len(prev)} earlier changes exist (listed above); the checker has meanwhile been extended to drive event handlers (incl. tombstones), config decoding, multi-round histories and several concurrency races. Find what is STILL plausible to slip through: (1) a code path reached only under a non-default feature gate / config value / API version / cgroup version / scheduler profile count; (2) error and retry paths (an API call that fails once, a conflict, a NotFound, a partial write) that leave state half-updated; (3) mistakes in conversions between units or representations (milli vs whole, bytes vs Mi, percent vs ratio, int32/int64 narrowing, Quantity formats, sorted vs unsorted keys); (4) an invariant that only breaks when TWO features interact (e.g. reservations + preemption, amplification + NUMA, multi-quota-tree + default quota, normalization + suppress); (5) a helper in another package changed for an unrelated reason whose callers in the anchored code silently depend on the old behaviour. Each change must still be a mistake a competent maintainer could plausibly commit.\n"
    open(f'/tmp/mutout/{pid}.prompt{rnd}.txt','w').write(s)
    subprocess.run(['git','-C','/repo','worktree','remove','--force',wt],capture_output=True)
    r=subprocess.run(['git','-C','/repo','worktree','add','--detach',wt,'HEAD','-q'],capture_output=True,text=True)
    print(pid,len(prev),r.returncode,r.stderr[:80])
