#!/bin/bash
# usage: sweep.sh "<seeds>" P1 P2 ... ; runs sequentially, logs one line per run
SEEDS=$1; shift
for P in "$@"; do for s in $SEEDS; do
  out=$(cd /verif && VERIF_SEED=$s ./check.py $P 2>&1); rc=$?
  echo "[$P seed=$s rc=$rc] $(echo "$out" | grep -v '^KNOWN-FINDING' | tail -1)"
done; done
