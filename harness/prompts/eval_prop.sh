#!/bin/bash
# usage: eval_prop.sh Cxx  — evaluates k then l sequentially
P=$1
for l in ${LETTERS:-k l}; do
  d=/tmp/mutout/$P/$l
  [ -f $d/meta.json ] || continue
  [ -f /verif/build/r6/$P-$l.done ] && continue
  echo "== $P-$l $(date -u +%H:%M)" 
  cd /verif && ./seed_eval.py $d $P-$l > build/r6/$P-$l.log 2>&1
  echo "rc=$?" >> build/r6/$P-$l.log
  touch /verif/build/r6/$P-$l.done
  tail -3 build/r6/$P-$l.log
done
