#!/usr/bin/env python3
"""mkext8.py Cxx <goals-file>: writes build/prompts/Cxx.ext9.txt from the ext7 prompt of C19 as a template."""
import sys, re
pid, gf = sys.argv[1], sys.argv[2]
t = open("/verif/build/prompts/C19.ext7.txt").read()
head, rest = t.split("\n1. elasticquota core", 1)
tail = rest[rest.index("\nGeneral directions"):]
head = head.replace("fifth-round", "eighth-round").replace("HARD TIME LIMIT: 60 minutes", "HARD TIME LIMIT: 50 minutes").replace("at minute 45 at the latest", "at minute 38 at the latest").replace("about 1 hours", "about 50 minutes")
s = head + "\n" + open(gf).read().rstrip("\n") + "\n" + tail
s = s.replace("C19", pid).replace("c19", pid.lower())
open(f"/verif/build/prompts/{pid}.ext9.txt", "w").write(s)
open(f"/verif/harness/prompts/{pid}.ext9.txt", "w").write(s)
print(pid, len(s))
