//go:build verif

package cpuset

import (
	"fmt"
	"sort"
	"testing"
)

// C19 harness (codec part): the CPU-set text codec that carries every CPU allocation across a
// scheduler restart.  `fmt` cases: a generated set -> String() -> Parse(); `parse` cases: a
// generated text (canonical, non-canonical, malformed) -> Parse().  Texts cross the boundary as
// byte values, sets as sorted element lists.

func c19Bytes(s string) []int {
	out := make([]int, len(s))
	for i := 0; i < len(s); i++ {
		out[i] = int(s[i])
	}
	return out
}

func c19GenSet(r *vRand) []int {
	var es []int
	switch r.Intn(8) {
	case 0: // empty / singleton
		if r.Bool() {
			es = append(es, c19GenID(r))
		}
	case 1: // one contiguous range
		lo := r.Range(0, 200)
		for i := 0; i < r.Range(2, 40); i++ {
			es = append(es, lo+i)
		}
	case 2: // around the 4096 limit
		for i := 0; i < r.Range(1, 6); i++ {
			es = append(es, r.Range(4090, 4096))
		}
	case 3: // every second CPU (hyper-thread siblings split): many singleton ranges
		lo := r.Range(0, 64)
		for i := 0; i < r.Range(2, 16); i++ {
			es = append(es, lo+2*i)
		}
	default: // several runs of mixed length, unsorted, with duplicates
		n := r.Range(1, 6)
		for i := 0; i < n; i++ {
			lo := r.Range(0, 300)
			if r.Chance(1, 6) {
				lo = r.Range(1000, 4090)
			}
			l := r.Range(1, 5)
			for j := 0; j < l; j++ {
				es = append(es, lo+j)
			}
		}
		p := r.Perm(len(es))
		sh := make([]int, len(es))
		for i, j := range p {
			sh[i] = es[j]
		}
		es = sh
	}
	return es
}

func c19GenID(r *vRand) int {
	switch r.Intn(6) {
	case 0:
		return 0
	case 1:
		return 4096
	case 2:
		return r.Range(9, 11)
	case 3:
		return r.Range(99, 101)
	default:
		return r.Range(0, 4096)
	}
}

func c19GenNum(r *vRand) string {
	switch r.Intn(14) {
	case 0:
		return ""
	case 1:
		return "+" + fmt.Sprint(r.Range(0, 50))
	case 2:
		return fmt.Sprintf("%03d", r.Range(0, 50))
	case 3:
		return fmt.Sprint(r.Range(4090, 4100))
	case 4:
		return "2147483647"
	case 5:
		return "2147483648"
	case 6:
		return fmt.Sprint(r.Range(0, 9)) + string("ax _.:"[r.Intn(6)])
	case 7:
		return " " + fmt.Sprint(r.Range(0, 9))
	default:
		return fmt.Sprint(r.Range(0, 64))
	}
}

func c19GenText(r *vRand) string {
	if r.Chance(1, 20) {
		return ""
	}
	n := r.Range(1, 4)
	s := ""
	for i := 0; i < n; i++ {
		if i > 0 {
			s += ","
		}
		switch r.Intn(8) {
		case 0, 1, 2:
			s += c19GenNum(r)
		case 3: // reversed / degenerate range
			a := r.Range(0, 20)
			s += fmt.Sprintf("%d-%d", a+r.Range(0, 3), a)
		case 4: // three boundaries
			s += c19GenNum(r) + "-" + c19GenNum(r) + "-" + c19GenNum(r)
		default:
			s += c19GenNum(r) + "-" + c19GenNum(r)
		}
	}
	return s
}

func c19SetOf(es []int) []int {
	m := map[int]bool{}
	for _, e := range es {
		m[e] = true
	}
	var out []int
	for e := range m {
		out = append(out, e)
	}
	sort.Ints(out)
	return out
}

func c19EqInts(a, b []int) bool {
	if len(a) != len(b) {
		return false
	}
	for i := range a {
		if a[i] != b[i] {
			return false
		}
	}
	return true
}

func TestVerifC19Cpuset(t *testing.T) {
	h := vOpen("C19")
	if h == nil {
		t.Skip("VERIF_OUT not set")
	}
	n := h.N(3000, 60000)
	for idx := 0; idx < n; idx++ {
		r := h.Begin(idx)
		if r == nil {
			continue
		}
		if r.Chance(3, 5) {
			es := c19GenSet(r)
			h.Op("fmt %s", vIntsI(es))
			want := c19SetOf(es)
			var text string
			var back CPUSet
			var err error
			if h.Guard(func() {
				text = NewCPUSet(es...).String()
				back, err = Parse(text)
			}) {
				h.Obs("panic")
				h.Fail("C19:cpuset-roundtrip", "String/Parse panicked on %v", es)
			} else {
				h.Obs("str %s", vIntsI(c19Bytes(text)))
				if err != nil {
					h.Obs("back err")
					h.Fail("C19:cpuset-roundtrip", "Parse(String(%v)) = error %v (text %q)", want, err, text)
				} else {
					got := back.ToSlice()
					h.Obs("back %s", vIntsI(got))
					// the property: every set within [0, 4096] reads back to exactly itself
					if !c19EqInts(got, want) {
						h.Fail("C19:cpuset-roundtrip", "Parse(String(%v)) = %v (text %q)", want, got, text)
					}
				}
			}
			h.Tag(fmt.Sprintf("fmt:size<=%d", 1<<uint(c19Log2(len(want)))))
			if len(want) >= 2 {
				h.Nontrivial()
			}
		} else {
			text := c19GenText(r)
			h.Op("parse %s", vIntsI(c19Bytes(text)))
			var s CPUSet
			var err error
			if h.Guard(func() { s, err = Parse(text) }) {
				h.Obs("panic")
			} else if err != nil {
				h.Obs("err")
				h.Tag("parse:err")
			} else {
				got := s.ToSlice()
				h.Obs("ok %s", vIntsI(got))
				h.Tag("parse:ok")
				// accepted text within [0,4096]: the canonical re-encoding denotes the same set
				// (Parse accepts single ids above 4096 but no range ending above it; outside the property)
				inRange := true
				for _, e := range got {
					if e > 4096 {
						inRange = false
					}
				}
				again, err2 := Parse(s.String())
				if inRange && (err2 != nil || !c19EqInts(again.ToSlice(), got)) {
					h.Fail("C19:cpuset-reencode", "Parse(%q)=%v but Parse(String())=%v err=%v", text, got, again.ToSlice(), err2)
				}
				if len(got) >= 2 {
					h.Nontrivial()
				}
			}
		}
		h.End()
	}
	h.Close("fmt: sets of CPU ids in [0,4096] (empty, singletons, runs, alternating, around 4096, shuffled with duplicates) through String then Parse; parse: canonical / non-canonical / malformed texts (signs, leading zeros, >4096, int32 overflow, reversed ranges, 3 boundaries, blanks). Non-trivial = set with >= 2 elements")
}

func c19Log2(n int) int {
	k := 0
	for (1 << uint(k)) < n {
		k++
	}
	return k
}
