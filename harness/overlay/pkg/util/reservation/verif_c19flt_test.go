//go:build verif

package reservation

import (
	"fmt"
	"strings"
	"testing"
	"time"

	corev1 "k8s.io/api/core/v1"
	metav1 "k8s.io/apimachinery/pkg/apis/meta/v1"
	"k8s.io/apimachinery/pkg/types"
	"k8s.io/client-go/tools/cache"

	schedulingv1alpha1 "github.com/koordinator-sh/koordinator/apis/scheduling/v1alpha1"
)

// C19 harness `rflt` (ext2): the Reservation -> pod event adapter every plugin registers on the Reservation informer,
// NewReservationToPodEventHandler(podHandler, IsObjValidActiveReservation).  One case = the versions of ONE Reservation
// as the live scheduler's informer delivers them: add(v0), update(v0,v1), ..., optionally delete(last) (plain or as a
// tombstone by value); a recording pod handler sits behind the REAL adapter.  A fresh scheduler sees add(last) only.
//   op   rpod flt <del> <k> (<template> <owners> <expiry> <node> <phase>)^k      phase 0 Pending 1 Available 2 Waiting 3 Succeeded 4 Failed
//   obs  calls <0 add|1 update|2 delete>*    present <0|1>    fresh <0|1>
// Model: Model/C19Adapter.lean.  Cases 0..797 enumerate all histories of length <= 3 over 7 version kinds x delete.

type c19fRV struct {
	tmpl, owners, expiry, node bool
	phase                      int
}

var c19fPhases = []schedulingv1alpha1.ReservationPhase{schedulingv1alpha1.ReservationPending, schedulingv1alpha1.ReservationAvailable,
	schedulingv1alpha1.ReservationWaiting, schedulingv1alpha1.ReservationSucceeded, schedulingv1alpha1.ReservationFailed}

// the 7 version kinds of the exhaustive stream
var c19fKinds = []c19fRV{
	{true, true, true, false, 0}, // pending, not scheduled
	{true, true, true, true, 1},  // available
	{true, true, true, true, 2},  // waiting
	{true, true, true, true, 3},  // succeeded
	{true, true, true, true, 4},  // failed
	{true, false, true, true, 1}, // available but invalid (no owners)
	{true, true, true, false, 1}, // phase Available without a node name
}

func (v c19fRV) obj(useExpires bool) *schedulingv1alpha1.Reservation {
	r := &schedulingv1alpha1.Reservation{ObjectMeta: metav1.ObjectMeta{Name: "r1", UID: types.UID("uid-r1")}}
	if v.tmpl {
		r.Spec.Template = &corev1.PodTemplateSpec{ObjectMeta: metav1.ObjectMeta{Namespace: "default"}}
	}
	if v.owners {
		r.Spec.Owners = []schedulingv1alpha1.ReservationOwner{{Object: &corev1.ObjectReference{Name: "owner"}}}
	}
	if v.expiry {
		if useExpires {
			t := metav1.NewTime(time.Unix(4102444800, 0))
			r.Spec.Expires = &t
		} else {
			r.Spec.TTL = &metav1.Duration{Duration: time.Hour}
		}
	}
	if v.node {
		r.Status.NodeName = "node-1"
	}
	r.Status.Phase = c19fPhases[v.phase]
	return r
}

func (v c19fRV) tok() string {
	return fmt.Sprintf("%d %d %d %d %d", vB(v.tmpl), vB(v.owners), vB(v.expiry), vB(v.node), v.phase)
}

// what the property says about one version: a scheduled Reservation that has not finished holds its resources
func (v c19fRV) holds() bool {
	return v.tmpl && v.owners && v.expiry && v.node && (v.phase == 1 || v.phase == 2)
}

type c19fRec struct {
	calls  []int
	badObj bool
}

func (c *c19fRec) check(objs ...interface{}) {
	for _, o := range objs {
		if p, ok := o.(*corev1.Pod); !ok || !IsReservePod(p) || p.Spec.NodeName != "node-1" || string(p.UID) != "uid-r1" {
			c.badObj = true
		}
	}
}
func (c *c19fRec) OnAdd(obj interface{}, _ bool) { c.calls = append(c.calls, 0); c.check(obj) }
func (c *c19fRec) OnUpdate(o, n interface{})     { c.calls = append(c.calls, 1); c.check(o, n) }
func (c *c19fRec) OnDelete(obj interface{})      { c.calls = append(c.calls, 2); c.check(obj) }

func c19fPresent(calls []int) bool {
	p := false
	for _, c := range calls {
		p = c != 2
	}
	return p
}

const c19fExhaustive = 2 * (7 + 49 + 343)

func TestVerifC19ReserveFilter(t *testing.T) {
	h := vOpen("C19")
	if h == nil {
		t.Skip("VERIF_OUT not set")
	}
	n := h.N(c19fExhaustive+300, c19fExhaustive+5000)
	for idx := 0; idx < n; idx++ {
		r := h.Begin(idx)
		if r == nil {
			continue
		}
		var vs []c19fRV
		del, tomb, useExpires := false, false, false
		if idx < c19fExhaustive {
			x := idx
			del = x%2 == 1
			tomb = del && (x/2)%2 == 1
			x /= 2
			switch {
			case x < 7:
				vs = []c19fRV{c19fKinds[x]}
			case x < 7+49:
				x -= 7
				vs = []c19fRV{c19fKinds[x%7], c19fKinds[x/7]}
			default:
				x -= 7 + 49
				vs = []c19fRV{c19fKinds[x%7], c19fKinds[(x/7)%7], c19fKinds[x/49]}
			}
			h.Tag("stream:exhaustive")
		} else {
			k := r.Range(1, 6)
			for i := 0; i < k; i++ {
				v := c19fRV{tmpl: !r.Chance(1, 12), owners: !r.Chance(1, 12), expiry: !r.Chance(1, 12), node: !r.Chance(1, 4), phase: r.Intn(5)}
				if i > 0 && r.Chance(1, 3) { // a metadata-only update
					v = vs[i-1]
				}
				vs = append(vs, v)
			}
			del, tomb, useExpires = r.Chance(1, 3), r.Bool(), r.Bool()
			h.Tag("stream:random")
		}
		var toks []string
		for _, v := range vs {
			toks = append(toks, v.tok())
		}
		h.Op("rpod flt %d %d %s", vB(del), len(vs), strings.Join(toks, " "))
		last := vs[len(vs)-1]

		rec := &c19fRec{}
		fresh := &c19fRec{}
		if h.Guard(func() {
			ad := NewReservationToPodEventHandler(rec, IsObjValidActiveReservation)
			ad.OnAdd(vs[0].obj(useExpires), false)
			for i := 1; i < len(vs); i++ {
				ad.OnUpdate(vs[i-1].obj(useExpires), vs[i].obj(useExpires))
			}
			if del {
				var o interface{} = last.obj(useExpires)
				if tomb {
					o = cache.DeletedFinalStateUnknown{Key: "r1", Obj: o}
					h.Tag("del:tombstone")
				} else {
					h.Tag("del:plain")
				}
				ad.OnDelete(o)
			} else {
				NewReservationToPodEventHandler(fresh, IsObjValidActiveReservation).OnAdd(last.obj(useExpires), true)
			}
		}) {
			h.Obs("panic")
			h.Fail("C19:rflt-panic", "the adapter panicked")
			h.End()
			continue
		}
		h.Obs("calls %s", vIntsI(rec.calls))
		present, freshPresent := c19fPresent(rec.calls), c19fPresent(fresh.calls)
		h.Obs("present %d", vB(present))
		h.Obs("fresh %d", vB(freshPresent))

		// ---- oracle
		want := !del && last.holds()
		if want && !present {
			h.Fail("C19:rflt-held-reservation-dropped", "the last version (%s) is scheduled and not finished, but after calls %v the pod handler no longer holds its reserve pod", last.tok(), rec.calls)
		}
		if !want && present {
			h.Fail("C19:rflt-released-reservation-kept", "the last version (%s, deleted=%v) holds nothing, but after calls %v the pod handler still holds its reserve pod", last.tok(), del, rec.calls)
		}
		if freshPresent != present {
			h.Fail("C19:rflt-rebuilt-differs", "live scheduler present=%v after calls %v, restarted scheduler present=%v after add(last version %s)", present, rec.calls, freshPresent, last.tok())
		}
		if rec.badObj || fresh.badObj {
			h.Fail("C19:rflt-not-a-reserve-pod", "the pod handler received something that is not the Reservation's reserve pod (uid, node, marker)")
		}
		changes := 0
		for i := 1; i < len(vs); i++ {
			if vs[i].holds() != vs[i-1].holds() {
				changes++
			}
		}
		if changes > 0 {
			h.Nontrivial()
		}
		h.Tag(fmt.Sprintf("flips:%d", changes))
		h.Tag(fmt.Sprintf("last-phase:%d", last.phase))
		h.End()
	}
	h.Close("cases 0..797: every history of 1-3 versions over 7 version kinds (pending unscheduled, available, waiting, succeeded, failed, available without owners, Available without node name) x {kept, deleted (plain / tombstone)}; the rest: 1-6 random versions (template / owners / expiry each absent 1/12, node name absent 1/4, phase uniform, 1/3 unchanged version), 1/3 deleted at the end (1/2 as DeletedFinalStateUnknown by value), TTL or Expires. A recording pod handler behind the real NewReservationToPodEventHandler(_, IsObjValidActiveReservation). Non-trivial = the holding status flips at least once along the history")
}
