//go:build verif

package reservation

import (
	"fmt"
	"sort"
	"strings"
	"testing"

	corev1 "k8s.io/api/core/v1"
	metav1 "k8s.io/apimachinery/pkg/apis/meta/v1"
	"k8s.io/apimachinery/pkg/types"

	apiext "github.com/koordinator-sh/koordinator/apis/extension"
	schedulingv1alpha1 "github.com/koordinator-sh/koordinator/apis/scheduling/v1alpha1"
)

// C19 harness `rpod` (ext2): the reserve-pod adapter NewReservePod — what every plugin's Reservation informer handler
// (ReservationToPodEventHandler) turns a Reservation into before the pod handler reads the persisted allocation.
// One case = one Reservation with annotations / labels on spec.template and on the object itself.
//   op   rpod <preAlloc> <specNode> <nT> (k v)^nT <nO> (k v)^nO <nTL> (k v)^nTL <nOL> (k v)^nOL
//   obs  ann (k v)*   lab (k v)*      (the reserve pod's maps, sorted by key id)
// Key / value ids: see Model/C19Boot.lean.  The first 2500 cases enumerate a small scope exhaustively.

var c19rAnnKeys = map[int]string{
	0:  apiext.AnnotationResourceStatus,
	1:  apiext.AnnotationResourceSpec,
	2:  apiext.AnnotationDeviceAllocated,
	3:  apiext.AnnotationReservationAllocated,
	4:  apiext.SchedulingDomainPrefix + "/verif-x",
	5:  "example.com/a",
	6:  "node.koordinator.sh/verif-y",
	10: AnnotationReservePod,
	11: AnnotationReservationName,
	12: AnnotationIsPreAllocation,
	13: AnnotationReservationNode,
}

var c19rLabKeys = map[int]string{
	0: apiext.LabelPodQoS,
	1: apiext.LabelQuotaName,
	2: "app",
	3: apiext.SchedulingDomainPrefix + "/verif-l",
}

const (
	c19rName = "resv-x"
	c19rNode = "node-7"
)

func c19rVal(id int) string {
	switch id {
	case 0:
		return "true"
	case 1:
		return c19rName
	case 2:
		return c19rNode
	}
	return fmt.Sprintf(`{"cpuset":"%d-%d"}`, id, id+3)
}

func c19rValID(s string) int {
	for id := 0; id < 12; id++ {
		if c19rVal(id) == s {
			return id
		}
	}
	return 99
}

func c19rKeyID(tab map[int]string, s string) int {
	for id, k := range tab {
		if k == s {
			return id
		}
	}
	return 99
}

type c19rMap map[int]int // key id -> value id

func (m c19rMap) tok() string {
	ks := make([]int, 0, len(m))
	for k := range m {
		ks = append(ks, k)
	}
	sort.Ints(ks)
	parts := []string{fmt.Sprint(len(ks))}
	for _, k := range ks {
		parts = append(parts, fmt.Sprint(k), fmt.Sprint(m[k]))
	}
	return strings.Join(parts, " ")
}

func (m c19rMap) real(tab map[int]string, nilIfEmpty bool) map[string]string {
	if len(m) == 0 && nilIfEmpty {
		return nil
	}
	out := map[string]string{}
	for k, v := range m {
		out[tab[k]] = c19rVal(v)
	}
	return out
}

func c19rObs(tab map[int]string, m map[string]string) string {
	type kv struct{ k, v int }
	var l []kv
	for k, v := range m {
		l = append(l, kv{c19rKeyID(tab, k), c19rValID(v)})
	}
	sort.Slice(l, func(i, j int) bool { return l[i].k < l[j].k })
	var parts []string
	for _, e := range l {
		parts = append(parts, fmt.Sprint(e.k), fmt.Sprint(e.v))
	}
	return strings.Join(parts, " ")
}

const c19rExhaustive = 2500 // 5^4 placements of keys {0, 2, 4, 5} x preAlloc x specNode

func TestVerifC19ReservePod(t *testing.T) {
	h := vOpen("C19")
	if h == nil {
		t.Skip("VERIF_OUT not set")
	}
	n := h.N(c19rExhaustive+400, c19rExhaustive+6000)
	fixed := map[int]bool{10: true, 11: true, 12: true, 13: true}
	for idx := 0; idx < n; idx++ {
		r := h.Begin(idx)
		if r == nil {
			continue
		}
		tmpl, own, tl, ol := c19rMap{}, c19rMap{}, c19rMap{}, c19rMap{}
		preAlloc, specNode, nilTemplate, nilOwn := false, false, false, false
		if idx < c19rExhaustive {
			// ---- exhaustive small scope: every key of {resource-status, device-allocated, another scheduling-domain key,
			// a foreign-domain key} is absent / on the template only / on the object only / on both with different
			// values / on both with the same value
			x := idx
			for _, k := range []int{0, 2, 4, 5} {
				switch x % 5 {
				case 1:
					tmpl[k] = 3 + k
				case 2:
					own[k] = 4 + k
				case 3:
					tmpl[k], own[k] = 3+k, 4+k
				case 4:
					tmpl[k], own[k] = 3+k, 3+k
				}
				x /= 5
			}
			preAlloc, specNode = x%2 == 1, (x/2)%2 == 1
			h.Tag("stream:exhaustive")
		} else {
			h.Tag("stream:random")
			gen := func(keys []int, p int) c19rMap {
				m := c19rMap{}
				for _, k := range keys {
					if r.Chance(p, 10) {
						m[k] = r.Range(0, 9)
					}
				}
				return m
			}
			annKeys := []int{0, 1, 2, 3, 4, 5, 6}
			if r.Chance(1, 4) { // the user (or a copied ObjectMeta) declares the adapter's own keys
				annKeys = append(annKeys, 10, 11, 12, 13)
				h.Tag("declares-adapter-keys")
			}
			tmpl, own = gen(annKeys, 4), gen(annKeys, 4)
			tl, ol = gen([]int{0, 1, 2, 3}, 4), gen([]int{0, 1, 2, 3}, 4)
			preAlloc, specNode = r.Chance(1, 4), r.Chance(1, 3)
			nilTemplate = r.Chance(1, 12)
			nilOwn = r.Bool()
			if nilTemplate {
				tmpl, tl, specNode = c19rMap{}, c19rMap{}, false
				h.Tag("template:nil")
			}
		}
		h.Op("rpod %d %d %s %s %s %s", vB(preAlloc), vB(specNode), tmpl.tok(), own.tok(), tl.tok(), ol.tok())

		resv := &schedulingv1alpha1.Reservation{
			ObjectMeta: metav1.ObjectMeta{Name: c19rName, UID: types.UID("uid-x"),
				Annotations: own.real(c19rAnnKeys, nilOwn), Labels: ol.real(c19rLabKeys, nilOwn)},
			Spec: schedulingv1alpha1.ReservationSpec{PreAllocation: preAlloc,
				Owners: []schedulingv1alpha1.ReservationOwner{{Object: &corev1.ObjectReference{Name: "owner"}}}},
			Status: schedulingv1alpha1.ReservationStatus{NodeName: "node-1", Phase: schedulingv1alpha1.ReservationAvailable},
		}
		if !nilTemplate {
			resv.Spec.Template = &corev1.PodTemplateSpec{
				ObjectMeta: metav1.ObjectMeta{Namespace: "default", Annotations: tmpl.real(c19rAnnKeys, idx%2 == 0), Labels: tl.real(c19rLabKeys, idx%2 == 0)},
			}
			if specNode {
				resv.Spec.Template.Spec.NodeName = c19rNode
			}
		}
		before := resv.DeepCopy()
		var rp *corev1.Pod
		if h.Guard(func() { rp = NewReservePod(resv) }) || rp == nil {
			h.Obs("panic")
			h.Fail("C19:rpod-panic", "NewReservePod panicked")
			h.End()
			continue
		}
		h.Obs("ann %s", c19rObs(c19rAnnKeys, rp.Annotations))
		h.Obs("lab %s", c19rObs(c19rLabKeys, rp.Labels))

		// ---- oracle (from the property text: "every allocation persisted on a reservation can be read back to exactly the
		// value that was written"): whatever the OBJECT declares is what the reserve pod carries; what only the template
		// declares is kept; the input object is not modified
		both := false
		for k, v := range own {
			if fixed[k] {
				continue
			}
			if _, ok := tmpl[k]; ok && tmpl[k] != v {
				both = true
			}
			if got, ok := rp.Annotations[c19rAnnKeys[k]]; !ok || got != c19rVal(v) {
				fp := "C19:rpod-own-annotation-not-read"
				if k == 0 || k == 1 || k == 2 {
					fp = "C19:rpod-own-allocation-not-read"
				}
				h.Fail(fp, "annotation %s: the Reservation object declares %q, the template %q (declared %v), the reserve pod carries %q",
					c19rAnnKeys[k], c19rVal(v), c19rVal(tmpl[k]), hasKey(tmpl, k), got)
			}
		}
		for k, v := range tmpl {
			if _, ok := own[k]; ok || fixed[k] {
				continue
			}
			if got, ok := rp.Annotations[c19rAnnKeys[k]]; !ok || got != c19rVal(v) {
				h.Fail("C19:rpod-template-annotation-lost", "annotation %s: only the template declares %q, the reserve pod carries %q", c19rAnnKeys[k], c19rVal(v), got)
			}
		}
		for k, v := range ol {
			if got, ok := rp.Labels[c19rLabKeys[k]]; !ok || got != c19rVal(v) {
				h.Fail("C19:rpod-own-label-not-read", "label %s: the Reservation object declares %q, the reserve pod carries %q", c19rLabKeys[k], c19rVal(v), got)
			}
		}
		for k, v := range tl {
			if _, ok := ol[k]; ok {
				continue
			}
			if got, ok := rp.Labels[c19rLabKeys[k]]; !ok || got != c19rVal(v) {
				h.Fail("C19:rpod-template-label-lost", "label %s: only the template declares %q, the reserve pod carries %q", c19rLabKeys[k], c19rVal(v), got)
			}
		}
		if rp.Annotations[AnnotationReservePod] != "true" || rp.Annotations[AnnotationReservationName] != c19rName {
			h.Fail("C19:rpod-adapter-keys", "reserve-pod marker %q / reservation name %q", rp.Annotations[AnnotationReservePod], rp.Annotations[AnnotationReservationName])
		}
		if fmt.Sprint(before.Annotations) != fmt.Sprint(resv.Annotations) || fmt.Sprint(before.Labels) != fmt.Sprint(resv.Labels) ||
			(before.Spec.Template != nil && fmt.Sprint(before.Spec.Template.Annotations) != fmt.Sprint(resv.Spec.Template.Annotations)) {
			h.Fail("C19:rpod-input-modified", "NewReservePod changed the Reservation it was given")
		}
		if both {
			h.Nontrivial()
			h.Tag("conflict:own-vs-template")
		}
		if _, a := own[0]; a {
			if _, b := tmpl[0]; b {
				h.Tag("conflict:resource-status-on-both")
			}
		}
		if _, a := own[2]; a {
			if _, b := tmpl[2]; b {
				h.Tag("conflict:device-allocated-on-both")
			}
		}
		h.End()
	}
	h.Close("cases 0..2499 enumerate exhaustively the placement (absent / template only / object only / both different / both equal) of resource-status, device-allocated, another scheduling.koordinator.sh key and a foreign-domain key x preAllocation x template nodeName; the rest draw annotation maps over 7 (+4 adapter-written) keys and label maps over 4 keys for template and object (nil vs empty maps, nil template). Observation: the reserve pod's annotation and label maps. Non-trivial = some key is declared with different values by the template and by the object")
}

func hasKey(m c19rMap, k int) bool { _, ok := m[k]; return ok }
