//go:build verif

package descheduler

import (
	"fmt"
	"os"
	"path/filepath"
	"strings"
	"testing"

	deschedulerappconfig "github.com/koordinator-sh/koordinator/cmd/koord-descheduler/app/config"
	"github.com/koordinator-sh/koordinator/cmd/koord-descheduler/app/options"
	deschedulerconfig "github.com/koordinator-sh/koordinator/pkg/descheduler/apis/config"
	"github.com/koordinator-sh/koordinator/pkg/descheduler/evictions"
)

// C16 harness "config": the caps of a descheduling cycle as the OPERATOR declares them.  One case = one generated
// v1alpha2 DeschedulerConfiguration file (YAML or JSON) -> the start-up path of cmd/koord-descheduler
// (options.NewOptions, --config, Options.ApplyTo = loadConfigFromFile: UniversalDecoder with defaulting and conversion to
// the internal type, ApplyLeaderElectionTo, ValidateDeschedulerConfiguration) -> the EvictionLimiter built from the
// decoded fields in the order of app.Setup (server.go; the order is tied by facts: Ties/C16.lean tie_setup_limiter_args)
// -> the history of descheduling cycles of harness "cycle" over a real Descheduler using that limiter and the decoded
// dry-run switch.  The oracle judges the evictions issued against the DECLARED caps, 0 ("evict nothing") included.

// how a cap is written in the file
const (
	c16cfAbsent    = -1 // key not present
	c16cfNull      = -2 // key present, value null
	c16cfMalformed = -3 // a value that is not a non-negative integer
)

type c16cfSrc struct {
	decl    [3]int // node, namespace, total: c16cfAbsent / c16cfNull / c16cfMalformed / n >= 0
	dry     bool
	nodeFit int // MigrationControllerArgs.nodeFit of the first profile as written: -1 no such plugin config, 0 false, 1 true
	path    string
	text    string
}

// what the operator declared: -1 = no cap
func (s *c16cfSrc) declared(i int) int {
	if s.decl[i] < 0 {
		return -1
	}
	return s.decl[i]
}

var c16cfKeys = [3]string{"maxNoOfPodsToEvictPerNode", "maxNoOfPodsToEvictPerNamespace", "maxNoOfPodsToEvictTotal"}

// load = what the process does with --config before anything is built (options.go ApplyTo).  Serving is switched off
// (no listener is opened by a test); leader election flags are untouched.
func (s *c16cfSrc) load() (*deschedulerconfig.DeschedulerConfiguration, error) {
	o := options.NewOptions()
	o.ConfigFile = s.path
	o.SecureServing.BindPort = 0
	o.CombinedInsecureServing = nil
	c := &deschedulerappconfig.Config{}
	if err := o.ApplyTo(c); err != nil {
		return nil, err
	}
	return &c.ComponentConfig, nil
}

// start = load + the limiter exactly as app.Setup builds it from the completed config
func (s *c16cfSrc) start() (*evictions.EvictionLimiter, bool) {
	cc, err := s.load()
	if err != nil {
		panic(fmt.Sprintf("c16cf: configuration that loaded before is rejected now: %v", err))
	}
	el := evictions.NewEvictionLimiter(
		cc.MaxNoOfPodsToEvictPerNode,
		cc.MaxNoOfPodsToEvictPerNamespace,
		cc.MaxNoOfPodsToEvictTotal)
	return el, cc.DryRun
}

func c16cfShow(p *uint) int64 {
	if p == nil {
		return -1
	}
	return int64(*p)
}

// opStart emits the op + observation of one process start; false = the file was rejected
func (s *c16cfSrc) opStart(h *vHarness) bool {
	h.Op("cfgfile %d %d %d %d", vB(s.dry), s.decl[0], s.decl[1], s.decl[2])
	cc, err := s.load()
	if err != nil {
		h.Obs("cfgerr")
		h.Tag("cfg:rejected")
		return false
	}
	h.Obs("caps %d %d %d", c16cfShow(cc.MaxNoOfPodsToEvictPerNode), c16cfShow(cc.MaxNoOfPodsToEvictPerNamespace), c16cfShow(cc.MaxNoOfPodsToEvictTotal))
	// fields next to the caps that the generator varies arrive as written (no property clause: generator self-check)
	if cc.DryRun != s.dry {
		h.Tag("cfg:dryrun-differs-from-file")
	}
	if s.nodeFit >= 0 {
		got := -1
		for _, pc := range cc.Profiles[0].PluginConfig {
			if a, ok := pc.Args.(*deschedulerconfig.MigrationControllerArgs); ok {
				got = vB(a.NodeFit)
			}
		}
		if got != s.nodeFit {
			h.Tag("cfg:nodefit-differs-from-file")
		}
	}
	return true
}

type c16cfKV struct{ k, v string } // v = a JSON value ("" = YAML empty value = null)

func c16cfGen(r *vRand, dir string, idx int) *c16cfSrc {
	s := &c16cfSrc{nodeFit: -1}
	pickCap := func() int {
		switch k := r.Intn(24); {
		case k < 5:
			return c16cfAbsent
		case k < 7:
			return c16cfNull
		case k < 12:
			return 0
		case k < 16:
			return 1
		case k < 21:
			return r.Range(2, 3)
		case k < 23:
			return int(r.Pick([]int64{100, 65536, 4294967296}))
		default:
			return c16cfMalformed
		}
	}
	for i := range s.decl {
		s.decl[i] = pickCap()
	}
	if r.Chance(1, 3) { // the total cap is the one most often set alone
		s.decl[0], s.decl[1] = c16cfAbsent, c16cfAbsent
		if s.decl[2] < 0 {
			s.decl[2] = r.Intn(3)
		}
	}
	asJSON := r.Chance(1, 3)
	kv := []c16cfKV{}
	for i, d := range s.decl {
		switch {
		case d == c16cfAbsent:
		case d == c16cfNull:
			v := "null"
			if !asJSON {
				v = []string{"null", "~", ""}[r.Intn(3)]
			}
			kv = append(kv, c16cfKV{c16cfKeys[i], v})
		case d == c16cfMalformed:
			kv = append(kv, c16cfKV{c16cfKeys[i], []string{"-1", "1.5", "\"2\"", "\"abc\"", "[1]"}[r.Intn(5)]})
		default:
			kv = append(kv, c16cfKV{c16cfKeys[i], fmt.Sprint(d)})
		}
	}
	switch r.Intn(4) {
	case 0:
		s.dry = true
		kv = append(kv, c16cfKV{"dryRun", "true"})
	case 1:
		kv = append(kv, c16cfKV{"dryRun", "false"})
	}
	if r.Bool() {
		kv = append(kv, c16cfKV{"deschedulingInterval", []string{"\"10s\"", "\"2m\"", "\"0s\""}[r.Intn(3)]})
	}
	if r.Chance(1, 3) {
		kv = append(kv, c16cfKV{"leaderElection", []string{`{"leaderElect": false}`, `{"resourceLock": "leases", "resourceName": "koord-descheduler", "resourceNamespace": "koordinator-system"}`}[r.Intn(2)]})
	}
	if r.Chance(1, 4) {
		kv = append(kv, c16cfKV{"enableProfiling", []string{"true", "false"}[r.Intn(2)]})
	}
	if r.Chance(1, 4) {
		kv = append(kv, c16cfKV{"healthzBindAddress", "\"0.0.0.0:10251\""}, c16cfKV{"metricsBindAddress", "\"0.0.0.0:10251\""})
	}
	if r.Chance(1, 4) {
		kv = append(kv, c16cfKV{"nodeSelector", `{"matchLabels": {"pool": "batch"}}`})
	}
	if r.Chance(1, 4) {
		kv = append(kv, c16cfKV{"clientConnection", `{"qps": 20, "burst": 40}`})
	}
	if r.Chance(2, 3) {
		var pcs []string
		if r.Chance(2, 3) {
			s.nodeFit = r.Intn(2)
			pcs = append(pcs, fmt.Sprintf(`{"name": "MigrationController", "args": {"apiVersion": "descheduler/v1alpha2", "kind": "MigrationControllerArgs", "evictionPolicy": "Eviction", `+
				`"nodeFit": %v, "evictLocalStoragePods": %v, "maxMigratingPerNode": %d, "evictQPS": "10", "evictBurst": 1}}`, s.nodeFit == 1, r.Bool(), r.Intn(3)))
		}
		if r.Chance(1, 3) {
			pcs = append(pcs, fmt.Sprintf(`{"name": "LowNodeLoad", "args": {"apiVersion": "descheduler/v1alpha2", "kind": "LowNodeLoadArgs", "nodeFit": %v, `+
				`"lowThresholds": {"cpu": 45}, "highThresholds": {"cpu": 75}}}`, r.Bool()))
		}
		plugins := `{"deschedule": {"disabled": [{"name": "*"}]}, "evict": {"disabled": [{"name": "*"}], "enabled": [{"name": "MigrationController"}]}}`
		if r.Chance(1, 3) {
			plugins = `{"balance": {"enabled": [{"name": "LowNodeLoad"}]}}`
		}
		kv = append(kv, c16cfKV{"profiles", fmt.Sprintf(`[{"name": "koord-descheduler", "plugins": %s, "pluginConfig": [%s]}]`, plugins, strings.Join(pcs, ", "))})
	}
	// key order is the operator's business
	sh := make([]c16cfKV, 0, len(kv)+2)
	for _, j := range r.Perm(len(kv)) {
		sh = append(sh, kv[j])
	}
	head := []c16cfKV{{"apiVersion", "\"descheduler/v1alpha2\""}, {"kind", "\"DeschedulerConfiguration\""}}
	if r.Bool() {
		sh = append(head, sh...)
	} else {
		sh = append(sh, head...)
	}
	var b strings.Builder
	if asJSON {
		b.WriteString("{\n")
		for i, e := range sh {
			fmt.Fprintf(&b, "  %q: %s", e.k, e.v)
			if i+1 < len(sh) {
				b.WriteString(",")
			}
			b.WriteString("\n")
		}
		b.WriteString("}\n")
	} else {
		for _, e := range sh {
			if e.v == "" {
				fmt.Fprintf(&b, "%s:\n", e.k)
			} else {
				fmt.Fprintf(&b, "%s: %s\n", e.k, e.v) // JSON values are YAML flow values
			}
		}
	}
	s.text = b.String()
	s.path = filepath.Join(dir, fmt.Sprintf("cfg-%d.yaml", idx))
	if err := os.WriteFile(s.path, []byte(s.text), 0o644); err != nil {
		panic(err)
	}
	return s
}

func TestVerifC16Config(t *testing.T) {
	h := vOpen("C16")
	if h == nil {
		t.Skip("VERIF_OUT not set")
	}
	c16cyQuiet()
	dir := t.TempDir()
	n := h.N(240, 2400)
	for idx := 0; idx < n; idx++ {
		r := h.Begin(idx)
		if r == nil {
			continue
		}
		src := c16cfGen(r, dir, idx)
		for i, d := range src.decl {
			lbl := fmt.Sprint(d)
			switch {
			case d == c16cfAbsent:
				lbl = "absent"
			case d == c16cfNull:
				lbl = "null"
			case d == c16cfMalformed:
				lbl = "malformed"
			case d > 3:
				lbl = "large"
			}
			h.Tag(fmt.Sprintf("cfg:%s=%s", []string{"node", "ns", "total"}[i], lbl))
		}
		h.Tag(fmt.Sprintf("cfg:dry=%d", vB(src.dry)))
		h.Tag(fmt.Sprintf("cfg:nodefit=%d", src.nodeFit))
		c16cyCaseSrc(h, r, nil, src)
		h.End()
		_ = os.Remove(src.path)
	}
	h.Close("one case = one generated v1alpha2 DeschedulerConfiguration file (YAML 2/3 with JSON flow values, JSON 1/3; keys in random order) in which each of " +
		"maxNoOfPodsToEvictPerNode / PerNamespace / Total is absent (5/24), null (null / ~ / empty value, 2/24), 0 (5/24), 1 (4/24), 2-3 (5/24), huge (100 / 65536 / 2^32, 2/24) or " +
		"malformed (-1, 1.5, a quoted number, a word, a list; 1/24: the start-up must reject the file); in 1/3 only the total cap is set; dryRun true / false / absent; optional " +
		"deschedulingInterval, leaderElection, enableProfiling, bind addresses, nodeSelector, clientConnection, one profile with " +
		"MigrationController (nodeFit true / false) / LowNodeLoad plugin configs. The file goes through options.NewOptions + Options.ApplyTo (--config: decode, defaulting, conversion, validation) and the " +
		"EvictionLimiter + dry-run switch of every (re)started Descheduler are built from the decoded configuration as app.Setup does; then the history of harness cycle " +
		"(2-5 cycles, kills + restarts re-reading the file, plugin errors) runs with the oracle judging against the DECLARED caps. " +
		"Non-trivial = some cycle issued evictions in both phases and refused at least one eviction")
}

// TestVerifC16ConfigExhaustive (thorough tier): every way of writing the three caps in {absent, null, 0, 1, 2}^3, as YAML and as
// JSON, x Deschedule-phase and Balance-phase attempt lists of length 0..1 over the pod kinds (n1,s0) and (n2,s1); one profile,
// the cycle is run twice
func TestVerifC16ConfigExhaustive(t *testing.T) {
	h := vOpen("C16")
	if h == nil {
		t.Skip("VERIF_OUT not set")
	}
	c16cyQuiet()
	dir := t.TempDir()
	decls := []int{c16cfAbsent, c16cfNull, 0, 1, 2}
	lists := [][]int{nil, {0}, {1}, {0, 0}}
	idx := 0
	for _, dn := range decls {
		for _, ds := range decls {
			for _, dt := range decls {
				for _, l1 := range lists {
					for _, l2 := range lists {
						r := h.Begin(idx)
						idx++
						if r == nil {
							continue
						}
						src := &c16cfSrc{decl: [3]int{dn, ds, dt}, nodeFit: -1, path: filepath.Join(dir, fmt.Sprintf("x-%d.yaml", idx))}
						var b strings.Builder
						asJSON := idx%2 == 0
						if asJSON {
							b.WriteString("{\"apiVersion\": \"descheduler/v1alpha2\", \"kind\": \"DeschedulerConfiguration\"")
						} else {
							b.WriteString("apiVersion: descheduler/v1alpha2\nkind: DeschedulerConfiguration\n")
						}
						for i, d := range src.decl {
							v := fmt.Sprint(d)
							switch d {
							case c16cfAbsent:
								continue
							case c16cfNull:
								v = "null"
							}
							if asJSON {
								fmt.Fprintf(&b, ", %q: %s", c16cfKeys[i], v)
							} else {
								fmt.Fprintf(&b, "%s: %s\n", c16cfKeys[i], v)
							}
						}
						if asJSON {
							b.WriteString("}\n")
						}
						src.text = b.String()
						if err := os.WriteFile(src.path, []byte(src.text), 0o644); err != nil {
							panic(err)
						}
						kinds := func(l []int) []int { // cyclex pod kinds: 0 (n1,s0), 1 (n2,s0), 2 (n1,s1)
							out := []int{}
							for _, k := range l {
								out = append(out, k)
							}
							return out
						}
						c16cyCaseSrc(h, r, &c16cyForced{ph: [3][]int{nil, kinds(l1), kinds(l2)}}, src)
						h.End()
						_ = os.Remove(src.path)
					}
				}
			}
		}
	}
	h.Close("exhaustive small scope: each of the three caps written as absent / null / 0 / 1 / 2 (125 files, alternately YAML and JSON) x Deschedule-phase and " +
		"Balance-phase attempt lists in {[], [(n1,s0)], [(n2,s0)], [(n1,s0),(n1,s0)]}; start-up path as in harness config; one profile, the cycle is run twice. " +
		"Non-trivial = a cycle issued evictions in both phases and refused at least one")
}
