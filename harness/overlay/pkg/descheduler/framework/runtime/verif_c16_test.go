//go:build verif

package runtime

import (
	"context"
	"fmt"
	"sort"
	"strings"
	"sync"
	"testing"
	"time"

	corev1 "k8s.io/api/core/v1"
	metav1 "k8s.io/apimachinery/pkg/apis/meta/v1"
	k8sruntime "k8s.io/apimachinery/pkg/runtime"

	deschedulerconfig "github.com/koordinator-sh/koordinator/pkg/descheduler/apis/config"
	"github.com/koordinator-sh/koordinator/pkg/descheduler/evictions"
	"github.com/koordinator-sh/koordinator/pkg/descheduler/framework"
)

// C16 harness "proxy": histories of eviction requests through the REAL evictorProxy (obtained from a REAL
// frameworkImpl built by NewFramework) with the REAL evictions.EvictionLimiter behind it and a scripted
// evict plugin; sequentially (exact comparison with the Lean model) and from N goroutines held inside the
// plugin call (barrier).  Two caller styles, both found in the plugins: one proxy kept and shared, and a
// fresh `handle.Evictor()` for every eviction.

type c16Plugin struct {
	mu       sync.Mutex
	okCalls  int
	allCalls int
	script   map[string]bool // pod name -> plugin fails
	barrierN int
	arrived  int
	release  chan struct{}
	timeout  time.Duration
}

func (p *c16Plugin) Name() string { return "c16-evictor" }

func (p *c16Plugin) arm(n int) {
	p.mu.Lock()
	p.barrierN, p.arrived, p.release = n, 0, make(chan struct{})
	p.mu.Unlock()
}

func (p *c16Plugin) disarm() {
	p.mu.Lock()
	p.barrierN = 0
	p.mu.Unlock()
}

func (p *c16Plugin) Evict(ctx context.Context, pod *corev1.Pod, opts framework.EvictOptions) bool {
	p.mu.Lock()
	p.allCalls++
	fail := p.script[pod.Name]
	n, rel := p.barrierN, p.release
	if n > 0 {
		p.arrived++
		if p.arrived == n {
			close(rel)
		}
	}
	p.mu.Unlock()
	if n > 0 {
		select {
		case <-rel:
		case <-time.After(p.timeout):
		}
	}
	if fail {
		return false
	}
	p.mu.Lock()
	p.okCalls++
	p.mu.Unlock()
	return true
}

func c16NodeName(k int) string {
	if k == 0 {
		return ""
	}
	return fmt.Sprintf("n%d", k)
}
func c16NsName(k int) string { return fmt.Sprintf("s%d", k) }

func c16Pod(seq, node, ns int) *corev1.Pod {
	return &corev1.Pod{
		ObjectMeta: metav1.ObjectMeta{Name: fmt.Sprintf("p%d", seq), Namespace: c16NsName(ns), UID: "u"},
		Spec:       corev1.PodSpec{NodeName: c16NodeName(node)},
	}
}

func c16Cap(r *vRand) int {
	switch r.Intn(6) {
	case 0:
		return -1 // nil pointer
	case 1:
		return 0
	default:
		return r.Range(1, 3)
	}
}

func c16Ptr(c int) *uint {
	if c < 0 {
		return nil
	}
	u := uint(c)
	return &u
}

const c16Nodes, c16Nss = 3, 3 // node ids 0..3 (0 = ""), namespace ids 0..2

// independent tally of what the fake API server granted
type c16Tally struct {
	node  map[int]int
	ns    map[int]int
	total int
}

func c16NewTally() *c16Tally { return &c16Tally{node: map[int]int{}, ns: map[int]int{}} }
func (t *c16Tally) add(node, ns int) {
	if node != 0 {
		t.node[node]++
	}
	t.ns[ns]++
	t.total++
}

func c16ShowMap(m map[int]int) string {
	ks := []int{}
	for k, v := range m {
		if v != 0 {
			ks = append(ks, k)
		}
	}
	sort.Ints(ks)
	var b strings.Builder
	for _, k := range ks {
		fmt.Fprintf(&b, " %d %d", k, m[k])
	}
	return b.String()
}

func c16Ctr(total int, node, ns map[int]int) string {
	return fmt.Sprintf("t %d n%s s%s", total, c16ShowMap(node), c16ShowMap(ns))
}

func c16SameMap(a, b map[int]int) bool {
	for k, v := range a {
		if b[k] != v {
			return false
		}
	}
	for k, v := range b {
		if a[k] != v {
			return false
		}
	}
	return true
}

// oracle: granted evictions within the caps, reported counters == granted evictions
func c16CheckCaps(h *vHarness, who string, tl *c16Tally, capNode, capNs, capTotal int) {
	c16CheckCapsFp(h, "C16:"+who+"-cap-exceeded", tl, capNode, capNs, capTotal)
}

func c16CheckCapsFp(h *vHarness, fp string, tl *c16Tally, capNode, capNs, capTotal int) {
	for k, v := range tl.node {
		if capNode >= 0 && v > capNode {
			h.Fail(fp, "node %d: %d evictions issued, cap %d", k, v, capNode)
		}
	}
	for k, v := range tl.ns {
		if capNs >= 0 && v > capNs {
			h.Fail(fp, "namespace %d: %d evictions issued, cap %d", k, v, capNs)
		}
	}
	if capTotal >= 0 && tl.total > capTotal {
		h.Fail(fp, "total: %d evictions issued, cap %d", tl.total, capTotal)
	}
}

func c16CheckCounters(h *vHarness, who string, tl *c16Tally, total int, node, ns map[int]int) {
	if total != tl.total || !c16SameMap(node, tl.node) || !c16SameMap(ns, tl.ns) {
		h.Fail("C16:"+who+"-counter-mismatch", "reported %s, issued %s", c16Ctr(total, node, ns), c16Ctr(tl.total, tl.node, tl.ns))
	}
}


func c16Reported(ev framework.Evictor, el *evictions.EvictionLimiter) (int, map[int]int, map[int]int) {
	node, ns := map[int]int{}, map[int]int{}
	if el == nil {
		return int(ev.(*evictorProxy).TotalEvicted()), node, ns
	}
	for k := 0; k <= c16Nodes; k++ {
		node[k] = int(el.NodeEvicted(c16NodeName(k)))
	}
	for k := 0; k < c16Nss; k++ {
		ns[k] = int(el.NamespaceEvicted(c16NsName(k)))
	}
	return int(ev.(*evictorProxy).TotalEvicted()), node, ns
}

func TestVerifC16Proxy(t *testing.T) {
	h := vOpen("C16")
	if h == nil {
		t.Skip("VERIF_OUT not set")
	}
	n := h.N(645, 5800) // 1/15 (thorough 2/15) of the cases are multi-framework cases; the single-framework stream keeps >= 600 / 5000 cases
	for idx := 0; idx < n; idx++ {
		r := h.Begin(idx)
		if r == nil {
			continue
		}
		if idx%15 == 3 || (h.Tier == "thorough" && idx%15 == 11) {
			c16ProxyMultiCase(h, r)
		} else {
			c16ProxyCase(h, r, idx%15 == 0 || (h.Tier == "thorough" && idx%15 == 7))
		}
		h.End()
	}
	h.Close("one case = one history of 3-14 evictions through handle.Evictor() (shared proxy or a fresh one per call) over 4 node names x 3 namespaces, " +
		"limiter caps (node/namespace/total) in {nil,0,1,2,3} or no limiter at all, dry-run 1/6, plugin failures 1/5; every 15th case adds N=2..16 " +
		"goroutines held inside the plugin call; every 15th case (another residue) builds 2-4 frameworks (profiles) over ONE limiter the way " +
		"descheduler.New / profile.NewMap do, evicts sequentially through proxies of random frameworks and 1-2 times from 2-8 goroutines spread " +
		"over at least two frameworks, half of them with a cap below the number of frameworks involved. Non-trivial = at least one refusal and one granted eviction")
}

// ---- several profiles: descheduler.New hands ONE option list (one WithEvictionLimiter) to profile.NewMap, which calls
// NewFramework once per profile with it.  (package profile imports this package, so its loop is repeated here;
// facts: profileFrameworkPerProfile / profilesShareLimiter.)
func c16ProxyMultiCase(h *vHarness, r *vRand) {
	nfw := r.Range(2, 4)
	capNode, capNs, capTotal := c16Cap(r), c16Cap(r), c16Cap(r)
	tight := r.Bool()
	if tight {
		// exactly one small cap, below the number of frameworks
		c := r.Range(1, nfw-1)
		capNode, capNs, capTotal = -1, -1, -1
		switch r.Intn(3) {
		case 0:
			capNode = c
		case 1:
			capNs = c
		default:
			capTotal = c
		}
	} else if r.Bool() {
		capTotal = r.Range(2, 6)
	}
	el := evictions.NewEvictionLimiter(c16Ptr(capNode), c16Ptr(capNs), c16Ptr(capTotal))
	plug := &c16Plugin{script: map[string]bool{}, timeout: 30 * time.Millisecond}
	reg := Registry{}
	_ = reg.Register(plug.Name(), func(ctx context.Context, args k8sruntime.Object, handle framework.Handle) (framework.Plugin, error) {
		return plug, nil
	})
	opts := []Option{WithDryRun(false), WithEvictionLimiter(el)}
	fhs := make([]framework.Handle, nfw)
	shared := make([]framework.Evictor, nfw)
	for k := range fhs {
		profile := deschedulerconfig.DeschedulerProfile{Name: fmt.Sprintf("c16-%d", k), Plugins: &deschedulerconfig.Plugins{
			Evict: deschedulerconfig.PluginSet{Enabled: []deschedulerconfig.Plugin{{Name: plug.Name()}}}}}
		fh, err := NewFramework(context.TODO(), reg, &profile, opts...)
		if err != nil {
			panic(err)
		}
		fhs[k] = fh
		shared[k] = fh.Evictor()
	}
	h.Op("px 0 1 %d %d %d", capNode, capNs, capTotal)
	h.Op("pxm %d", nfw)
	h.Tag(fmt.Sprintf("pxm:frameworks=%d,tight=%d", nfw, vB(tight)))
	tl := c16NewTally()
	seq, refusals, grants := 0, 0, 0
	steps := r.Range(2, 8)
	conc := map[int]bool{r.Intn(steps): true}
	if tight || r.Bool() {
		conc[0] = true
	}
	for s := 0; s < steps; s++ {
		if conc[s] {
			nf := len(h.fails)
			c16ConcMulti(h, r, fhs, shared, el, plug, tl, &seq, capNode, capNs, capTotal, &refusals, &grants)
			if len(h.fails) > nf {
				return
			}
			continue
		}
		node, ns := r.Intn(c16Nodes+1), r.Intn(c16Nss)
		if r.Chance(1, 2) {
			node, ns = 1, 0
		}
		fail := r.Chance(1, 5)
		fresh := r.Bool()
		k := r.Intn(nfw)
		seq++
		pod := c16Pod(seq, node, ns)
		plug.script[pod.Name] = fail
		ev := shared[k]
		if fresh {
			ev = fhs[k].Evictor()
		}
		before, okBefore := plug.allCalls, plug.okCalls
		bt, bn, bs := c16Reported(shared[0], el)
		var ok bool
		h.Op("pev %d %d %d %d %d", node, ns, vB(!fail), vB(fresh), k)
		if h.Guard(func() { ok = ev.Evict(context.TODO(), pod, framework.EvictOptions{Reason: "verif"}) }) {
			h.Obs("panic")
			h.Fail("C16:panic", "evictorProxy.Evict panicked")
			return
		}
		called := plug.allCalls - before
		granted := plug.okCalls - okBefore
		if granted > 0 {
			tl.add(node, ns)
			grants++
		}
		at, an, as := c16Reported(shared[(k+1)%nfw], el) // the counters as another profile's proxy reports them
		h.Obs("ev %d %d %s", vB(ok), vB(called > 0), c16Ctr(at, an, as))
		h.Tag(fmt.Sprintf("evm:ok=%d,called=%d", vB(ok), called))
		if !ok && called == 0 {
			refusals++
			if at != bt || !c16SameMap(an, bn) || !c16SameMap(as, bs) {
				h.Fail("C16:proxy-refused-side-effect", "refused eviction changed the counters")
			}
		}
		if called > 1 {
			h.Fail("C16:proxy-double-call", "%d plugin calls for one eviction", called)
		}
		if ok != (granted > 0) {
			h.Fail("C16:proxy-result-wrong", "Evict returned %v but the plugin granted %d", ok, granted)
		}
		// sequential use of several profiles: the caps are caps of the cycle, whichever profile evicts
		c16CheckCapsFp(h, "C16:proxy-cap-exceeded-sequential-profiles", tl, capNode, capNs, capTotal)
		c16CheckCounters(h, "proxy", tl, at, an, as)
	}
	if refusals > 0 && grants > 0 {
		h.Nontrivial()
	}
}

// n goroutines evict at the same time through proxies of at least two DIFFERENT frameworks that share the limiter; the
// evict plugin (one object for all frameworks) holds a caller until as many callers as there are frameworks involved are
// inside it, or 30 ms have passed.  With one lock for all frameworks only one caller is ever inside.
func c16ConcMulti(h *vHarness, r *vRand, fhs []framework.Handle, shared []framework.Evictor, el *evictions.EvictionLimiter, plug *c16Plugin,
	tl *c16Tally, seq *int, capNode, capNs, capTotal int, refusals, grants *int) {
	nfw := len(fhs)
	n := r.Range(2, 8)
	fresh := r.Bool()
	type req struct{ fw, node, ns int }
	reqs := make([]req, n)
	capsSet := 0
	for _, c := range []int{capNode, capNs, capTotal} {
		if c >= 0 {
			capsSet++
		}
	}
	identical := capsSet >= 2 || r.Bool()
	fixedNode, fixedNs := r.Range(1, c16Nodes), r.Intn(c16Nss)
	if r.Bool() {
		fixedNode, fixedNs = 1, 0 // where the sequential steps put most of their evictions
	}
	perm := r.Perm(nfw)
	used := map[int]bool{}
	for i := range reqs {
		k := perm[i%nfw] // the first two callers are on different frameworks
		if i >= 2 && r.Bool() {
			k = r.Intn(nfw)
		}
		used[k] = true
		reqs[i] = req{k, fixedNode, fixedNs}
		if !identical {
			// vary only the capped dimension, so that the counters do not depend on who is admitted
			if capNs < 0 && capTotal < 0 {
				reqs[i].node = r.Range(1, 2)
			}
			if capNode < 0 && capTotal < 0 {
				reqs[i].ns = r.Intn(2)
			}
		}
	}
	op := fmt.Sprintf("pconcm %d %d", vB(fresh), n)
	pods := make([]*corev1.Pod, n)
	for i, q := range reqs {
		op += fmt.Sprintf(" %d %d %d", q.fw, q.node, q.ns)
		*seq++
		pods[i] = c16Pod(*seq, q.node, q.ns)
	}
	h.Op("%s", op)
	h.Tag(fmt.Sprintf("pconcm:fresh=%d,frameworks=%d", vB(fresh), len(used)))
	before, okBefore := plug.allCalls, plug.okCalls
	plug.arm(len(used))
	var wg sync.WaitGroup
	start := make(chan struct{})
	oks := make([]bool, n)
	for i := range pods {
		wg.Add(1)
		go func(i int) {
			defer wg.Done()
			<-start
			ev := shared[reqs[i].fw]
			if fresh {
				ev = fhs[reqs[i].fw].Evictor()
			}
			oks[i] = ev.Evict(context.TODO(), pods[i], framework.EvictOptions{Reason: "verif"})
		}(i)
	}
	close(start)
	wg.Wait()
	plug.disarm()
	succ := 0
	for i, ok := range oks {
		if ok {
			succ++
			tl.add(reqs[i].node, reqs[i].ns)
		}
	}
	if succ > 0 {
		*grants++
	}
	if succ < n {
		*refusals++
	}
	calls := plug.allCalls - before
	granted := plug.okCalls - okBefore
	at, an, as := c16Reported(shared[0], el)
	h.Obs("conc %d %d %s", succ, calls, c16Ctr(at, an, as))
	h.Tag("pconcm:admitted=" + []string{"none", "some", "all"}[vB(succ > 0)+vB(succ == n)])
	if granted != succ {
		h.Fail("C16:proxy-result-wrong", "%d callers succeeded, plugin granted %d", succ, granted)
	}
	c16CheckCapsFp(h, "C16:proxy-cap-exceeded-across-frameworks", tl, capNode, capNs, capTotal)
	c16CheckCounters(h, "proxy", tl, at, an, as)
}

func c16ProxyCase(h *vHarness, r *vRand, withConc bool) {
	dry := r.Chance(1, 6)
	hasLim := !r.Chance(1, 8)
	capNode, capNs, capTotal := c16Cap(r), c16Cap(r), c16Cap(r)
	if r.Bool() {
		capTotal = r.Range(2, 6)
	}
	if withConc {
		dry, hasLim = false, true
	}
	var el *evictions.EvictionLimiter
	var opts []Option
	if hasLim {
		el = evictions.NewEvictionLimiter(c16Ptr(capNode), c16Ptr(capNs), c16Ptr(capTotal))
		opts = append(opts, WithEvictionLimiter(el))
	} else {
		capNode, capNs, capTotal = -1, -1, -1
	}
	opts = append(opts, WithDryRun(dry))
	plug := &c16Plugin{script: map[string]bool{}, timeout: 30 * time.Millisecond}
	reg := Registry{}
	_ = reg.Register(plug.Name(), func(ctx context.Context, args k8sruntime.Object, handle framework.Handle) (framework.Plugin, error) {
		return plug, nil
	})
	profile := &deschedulerconfig.DeschedulerProfile{Name: "c16", Plugins: &deschedulerconfig.Plugins{
		Evict: deschedulerconfig.PluginSet{Enabled: []deschedulerconfig.Plugin{{Name: plug.Name()}}}}}
	fh, err := NewFramework(context.TODO(), reg, profile, opts...)
	if err != nil {
		panic(err)
	}
	shared := fh.Evictor()
	h.Op("px %d %d %d %d %d", vB(dry), vB(hasLim), capNode, capNs, capTotal)
	h.Tag(fmt.Sprintf("px:lim=%d,dry=%d", vB(hasLim), vB(dry)))
	tl := c16NewTally()
	seq, refusals, grants := 0, 0, 0
	steps := r.Range(3, 14)
	concAt := -1
	if withConc {
		concAt = r.Intn(steps)
	}
	for s := 0; s < steps; s++ {
		if s == concAt {
			nf := len(h.fails)
			c16ConcProxy(h, r, fh, shared, el, plug, tl, &seq, capNode, capNs, capTotal)
			if len(h.fails) > nf {
				return // already reported with the caller style in the fingerprint; the rest of the history adds nothing
			}
			continue
		}
		node, ns := r.Intn(c16Nodes+1), r.Intn(c16Nss)
		if r.Chance(1, 2) {
			node, ns = 1, 0
		}
		fail := r.Chance(1, 5)
		fresh := r.Bool()
		seq++
		pod := c16Pod(seq, node, ns)
		plug.script[pod.Name] = fail
		ev := shared
		if fresh {
			ev = fh.Evictor()
		}
		before, okBefore := plug.allCalls, plug.okCalls
		bt, bn, bs := c16Reported(shared, el)
		var ok bool
		h.Op("pev %d %d %d %d", node, ns, vB(!fail), vB(fresh))
		if h.Guard(func() { ok = ev.Evict(context.TODO(), pod, framework.EvictOptions{Reason: "verif"}) }) {
			h.Obs("panic")
			h.Fail("C16:panic", "evictorProxy.Evict panicked")
			return
		}
		called := plug.allCalls - before
		granted := plug.okCalls - okBefore
		if dry && ok && hasLim {
			tl.add(node, ns) // dry-run: the limiter counts the would-be eviction (nothing is issued)
		} else if granted > 0 && hasLim {
			tl.add(node, ns)
		}
		if granted > 0 {
			grants++
		}
		at, an, as := c16Reported(shared, el)
		h.Obs("ev %d %d %s", vB(ok), vB(called > 0), c16Ctr(at, an, as))
		h.Tag(fmt.Sprintf("ev:ok=%d,called=%d", vB(ok), called))
		// ---- oracle
		if dry && called > 0 {
			h.Fail("C16:proxy-dryrun-call", "dry-run called the evict plugin %d times", called)
		}
		if !ok && called == 0 {
			refusals++
			if at != bt || !c16SameMap(an, bn) || !c16SameMap(as, bs) {
				h.Fail("C16:proxy-refused-side-effect", "refused eviction changed the counters")
			}
		}
		if called > 1 {
			h.Fail("C16:proxy-double-call", "%d plugin calls for one eviction", called)
		}
		if !dry && ok != (granted > 0) {
			h.Fail("C16:proxy-result-wrong", "Evict returned %v but the plugin granted %d", ok, granted)
		}
		c16CheckCaps(h, "proxy", tl, capNode, capNs, capTotal)
		if hasLim {
			c16CheckCounters(h, "proxy", tl, at, an, as)
		}
	}
	if refusals > 0 && grants > 0 {
		h.Nontrivial()
	}
}

func c16ConcProxy(h *vHarness, r *vRand, fh framework.Handle, shared framework.Evictor, el *evictions.EvictionLimiter, plug *c16Plugin,
	tl *c16Tally, seq *int, capNode, capNs, capTotal int) {
	n := r.Range(2, 16)
	fresh := r.Bool()
	type req struct{ node, ns int }
	reqs := make([]req, n)
	capsSet := 0
	for _, c := range []int{capNode, capNs, capTotal} {
		if c >= 0 {
			capsSet++
		}
	}
	identical := capsSet >= 2 || r.Bool()
	fixedNode, fixedNs := r.Range(1, c16Nodes), r.Intn(c16Nss)
	for i := range reqs {
		reqs[i] = req{fixedNode, fixedNs}
		if !identical {
			// vary only the capped dimension, so that the counters do not depend on who is admitted
			if capNs < 0 && capTotal < 0 {
				reqs[i].node = r.Range(1, 2)
			}
			if capNode < 0 && capTotal < 0 {
				reqs[i].ns = r.Intn(2)
			}
		}
	}
	op := fmt.Sprintf("pconc %d %d", vB(fresh), n)
	pods := make([]*corev1.Pod, n)
	for i, q := range reqs {
		op += fmt.Sprintf(" %d %d", q.node, q.ns)
		*seq++
		pods[i] = c16Pod(*seq, q.node, q.ns)
	}
	h.Op("%s", op)
	h.Tag(fmt.Sprintf("pconc:fresh=%d", vB(fresh)))
	before, okBefore := plug.allCalls, plug.okCalls
	plug.arm(n)
	var wg sync.WaitGroup
	start := make(chan struct{})
	oks := make([]bool, n)
	for i := range pods {
		wg.Add(1)
		go func(i int) {
			defer wg.Done()
			<-start
			ev := shared
			if fresh {
				ev = fh.Evictor() // what custompriority / scaledownbinpack / fragmentationaware do for every eviction
			}
			oks[i] = ev.Evict(context.TODO(), pods[i], framework.EvictOptions{Reason: "verif"})
		}(i)
	}
	close(start)
	wg.Wait()
	plug.disarm()
	succ := 0
	for i, ok := range oks {
		if ok {
			succ++
			tl.add(reqs[i].node, reqs[i].ns)
		}
	}
	calls := plug.allCalls - before
	granted := plug.okCalls - okBefore
	at, an, as := c16Reported(shared, el)
	h.Obs("conc %d %d %s", succ, calls, c16Ctr(at, an, as))
	who := "proxy"
	if granted != succ {
		h.Fail("C16:proxy-result-wrong", "%d callers succeeded, plugin granted %d", succ, granted)
	}
	// same oracle; the fingerprint tells which caller style exceeded the cap
	fp := "C16:proxy-cap-exceeded"
	if fresh {
		fp += "-fresh-evictor"
	}
	c16CheckCapsFp(h, fp, tl, capNode, capNs, capTotal)
	c16CheckCounters(h, who, tl, at, an, as)
}
