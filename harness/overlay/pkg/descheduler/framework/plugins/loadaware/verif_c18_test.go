//go:build verif

package loadaware

import (
	"context"
	"fmt"
	"sort"
	"testing"
	"time"

	gocache "github.com/patrickmn/go-cache"
	corev1 "k8s.io/api/core/v1"
	apierrors "k8s.io/apimachinery/pkg/api/errors"
	"k8s.io/apimachinery/pkg/api/resource"
	metav1 "k8s.io/apimachinery/pkg/apis/meta/v1"
	"k8s.io/apimachinery/pkg/labels"
	"k8s.io/apimachinery/pkg/runtime/schema"

	"github.com/koordinator-sh/koordinator/apis/extension"
	slov1alpha1 "github.com/koordinator-sh/koordinator/apis/slo/v1alpha1"
	koordinatorclientset "github.com/koordinator-sh/koordinator/pkg/client/clientset/versioned"
	koordfake "github.com/koordinator-sh/koordinator/pkg/client/clientset/versioned/fake"
	deschedulerconfig "github.com/koordinator-sh/koordinator/pkg/descheduler/apis/config"
	"github.com/koordinator-sh/koordinator/pkg/descheduler/framework"
	"github.com/koordinator-sh/koordinator/pkg/descheduler/utils/anomaly"
)

// C18 harness: one case = one node pool configuration + a history of balance rounds.  Every round
// builds nodes / NodeMetrics / pods from the repo's own types, runs the REAL LowNodeLoad.Balance
// with a recording evictor, and evaluates the property on the Evict calls against a usage/threshold
// table recomputed here from the generated integers.

var c18Dims = []corev1.ResourceName{corev1.ResourceCPU, corev1.ResourceMemory, corev1.ResourcePods}

var c18Namespaces = []string{"default", "c18x", "c18b"}

// one NodeMetric.Status.PodsMetric entry
type c18Metric struct {
	ns, name int
	m        [2]int64
}

type c18Pod struct {
	id, node  int
	ns, name  int // namespace index / name index: the pod is c18Namespaces[ns] + "/p<name>"; names repeat across namespaces
	prod      bool
	cls       int   // rank of the koordinator priority class in the pod sort (free 1, batch 2, mid 3, prod 4)
	prio      int64 // spec.priority, 0 when unset
	delCost   int64 // pod-deletion-cost / eviction-cost annotations as the sort reads them (invalid text = 0)
	evCost    int64
	hasMetric bool
	m         [2]int64 // cpu milli, memory bytes
	s1, s2    bool     // scripted evictor.Filter answers (first call / later calls)
	f1, f2    bool     // resulting pl.podFilter answers (namespace / selector glue included)
	evictOK   bool
	obj       *corev1.Pod
	calls     int
}

type c18Node struct {
	id           int
	inPool       bool
	unsched      bool
	noFit        bool
	rawAnno      bool
	rawKind      int   // 0 no raw-allocatable annotation, 1 annotation present and parsable, 2 annotation unparsable
	ampNum       int64 // status.allocatable = cap * ampNum / 2 on the amplified dims
	ampDims      [3]bool
	noPodsInAnno bool     // the annotation names cpu and memory only (what the resource-amplification webhook writes)
	rawWire      [3]int64 // what the parsed annotation reads as (a resource it does not name reads 0)
	alloc        [3]int64 // status.allocatable
	tendency     int
	cap          [3]int64 // the raw capacity every percentage refers to
	// per round
	metricKind int // 0 usable, 1 no NodeMetric object, 2 Status.NodeMetric nil, 3 expired, 4 UpdateTime nil
	usage      [3]int64
	prodUsage  [3]int64
	sys        [2]int64
	metrics    []c18Metric
	pods       []*c18Pod
	obj        *corev1.Node
}

type c18LogEntry struct {
	evict bool
	pod   *c18Pod
	res   bool
}

type c18Evictor struct {
	byKey map[string]*c18Pod
	log   []c18LogEntry
}

func (e *c18Evictor) Filter(pod *corev1.Pod) bool {
	p := e.byKey[pod.Namespace+"/"+pod.Name]
	if p == nil {
		return false
	}
	p.calls++
	if p.calls == 1 {
		return p.s1
	}
	return p.s2
}
func (e *c18Evictor) PreEvictionFilter(pod *corev1.Pod) bool { return true }
func (e *c18Evictor) Evict(ctx context.Context, pod *corev1.Pod, opts framework.EvictOptions) bool {
	p := e.byKey[pod.Namespace+"/"+pod.Name]
	if p == nil {
		e.log = append(e.log, c18LogEntry{evict: true, pod: &c18Pod{id: -1, node: -1}, res: false})
		return false
	}
	e.log = append(e.log, c18LogEntry{evict: true, pod: p, res: p.evictOK})
	return p.evictOK
}

type c18Handle struct {
	framework.Handle
	koordinatorclientset.Interface
	ev    *c18Evictor
	nodes map[string]*c18Node
}

func (h *c18Handle) Evictor() framework.Evictor { return h.ev }
func (h *c18Handle) GetPodsAssignedToNodeFunc() framework.GetPodsAssignedToNodeFunc {
	return func(nodeName string, filter framework.FilterFunc) ([]*corev1.Pod, error) {
		n := h.nodes[nodeName]
		out := []*corev1.Pod{}
		if n == nil {
			return out, nil
		}
		for _, p := range n.pods {
			if filter == nil || filter(p.obj) {
				out = append(out, p.obj)
			}
		}
		return out, nil
	}
}
func (h *c18Handle) IsWatchListSemanticsUnSupported() bool {
	type u interface{ IsWatchListSemanticsUnSupported() bool }
	if c, ok := h.Interface.(u); ok {
		return c.IsWatchListSemanticsUnSupported()
	}
	return false
}

type c18Lister struct {
	m map[string]*slov1alpha1.NodeMetric
}

func (l *c18Lister) List(sel labels.Selector) ([]*slov1alpha1.NodeMetric, error) {
	var out []*slov1alpha1.NodeMetric
	for _, v := range l.m {
		out = append(out, v)
	}
	return out, nil
}
func (l *c18Lister) Get(name string) (*slov1alpha1.NodeMetric, error) {
	if v, ok := l.m[name]; ok {
		return v, nil
	}
	return nil, apierrors.NewNotFound(schema.GroupResource{Group: "slo.koordinator.sh", Resource: "nodemetrics"}, name)
}

type c18Cfg struct {
	abn, norm     int // abn = 0: AnomalyCondition nil
	numberOfNodes int
	dry, dev      bool
	pct           [3][4]int64 // quarter-percent; -1 = key absent; [dim][low, high, prodLow, prodHigh]
	wts           [3]int64    // nodePool.ResourceWeights; -1 = key absent
	relapse       int         // 0 free generation; 1 / 2: node 0 is (node-level / prod) overloaded until it is drained, recovers, relapses
	hshape        int         // 1: directed "headroom" stream (c18GenCfgHeadroom): node 0 prod source, node 1 both-low, node 2 node-low / prod-mid
	useSelector   bool
	viaNew        bool
	exclNS        bool
	podSel        bool
}

func c18Quantity(dim int, v int64) resource.Quantity {
	switch dim {
	case 0:
		return *resource.NewMilliQuantity(v, resource.DecimalSI)
	case 1:
		return *resource.NewQuantity(v, resource.BinarySI)
	}
	return *resource.NewQuantity(v, resource.DecimalSI)
}

func c18PickPct(r *vRand, dev bool) int64 {
	if dev {
		switch r.Intn(8) {
		case 0:
			return 0
		case 1:
			return int64(r.Range(1, 160))
		default:
			return r.Pick([]int64{20, 25, 40, 50, 75, 80, 100, 125})
		}
	}
	switch r.Intn(6) {
	case 0:
		return int64(r.Range(0, 440))
	case 1:
		return int64(r.Range(20, 90)) * 4 // whole percents (0.01 rounding cases such as 29%)
	default:
		return r.Pick([]int64{50, 100, 150, 200, 250, 300, 350})
	}
}

func c18GenCfg(r *vRand) c18Cfg {
	c := c18Cfg{}
	switch r.Intn(10) {
	case 0, 1:
		c.abn = 0
	case 2, 3, 4:
		c.abn = 1
	case 5, 6, 7:
		c.abn = 2
	default:
		c.abn = 3
	}
	c.norm = r.Range(1, 3)
	if r.Chance(1, 5) {
		c.numberOfNodes = r.Range(1, 2)
	}
	c.dry = r.Chance(1, 25)
	c.dev = r.Chance(1, 4)
	c.wts = [3]int64{1, 1, 1}
	switch r.Intn(10) {
	case 0, 1, 2:
		c.wts = [3]int64{int64(r.Range(0, 3)), int64(r.Range(0, 3)), int64(r.Range(0, 3))}
	case 3:
		c.wts[r.Intn(3)] = -1
	case 4:
		c.wts = [3]int64{-1, -1, -1} // nil map
	}
	c.useSelector = r.Chance(1, 5)
	if r.Chance(1, 8) {
		// "relapse" stream: static cpu thresholds with a wide node window and a low prod window, anomaly gating on; node 0
		// is overloaded round after round until the detector lets it be drained, then measured normal, then overloaded again
		c.relapse = 1 + r.Intn(2)
		c.abn, c.norm, c.dev, c.dry, c.numberOfNodes, c.useSelector = 2+r.Intn(2), r.Range(1, 3), false, false, 0, false
		for d := 0; d < 3; d++ {
			c.pct[d] = [4]int64{-1, -1, -1, -1}
		}
		if c.relapse == 1 {
			c.pct[0] = [4]int64{120, 200, -1, -1} // node 30% / 50%
		} else {
			c.pct[0] = [4]int64{200, 380, 40, 120} // node 50% / 95%, prod 10% / 30%
		}
		c.viaNew, c.exclNS, c.podSel = false, false, false
		return c
	}
	c.viaNew = r.Chance(1, 12)
	c.exclNS = c.viaNew && r.Bool()
	c.podSel = c.viaNew && r.Bool()
	for d := 0; d < 3; d++ {
		for k := 0; k < 4; k++ {
			c.pct[d][k] = -1
		}
		incl := [3]int{9, 7, 3}[d]
		if !r.Chance(incl, 10) {
			continue
		}
		// node-level pair
		switch r.Intn(12) {
		case 0: // both absent
		case 1: // only high: overwritten by the default (quirk of newThresholds)
			c.pct[d][1] = c18PickPct(r, c.dev)
		default:
			a, b := c18PickPct(r, c.dev), c18PickPct(r, c.dev)
			if !c.dev && r.Chance(2, 3) {
				// keep a usable window in static mode
				a, b = r.Pick([]int64{50, 100, 120, 150, 200}), r.Pick([]int64{200, 220, 250, 280, 300, 350})
			}
			if a > b {
				a, b = b, a
			}
			c.pct[d][0], c.pct[d][1] = a, b
		}
		// prod pair
		switch r.Intn(10) {
		case 0, 1, 2, 3: // both absent
		case 4: // only prod high (overwritten by the default)
			v := c18PickPct(r, c.dev)
			if c.pct[d][1] >= 0 && v > c.pct[d][1] {
				v = c.pct[d][1]
			}
			c.pct[d][3] = v
		default:
			a, b := c18PickPct(r, c.dev), c18PickPct(r, c.dev)
			if !c.dev && r.Chance(2, 3) {
				a, b = r.Pick([]int64{20, 40, 60, 100}), r.Pick([]int64{80, 100, 120, 160, 200})
			}
			if a > b {
				a, b = b, a
			}
			if c.pct[d][1] >= 0 && b > c.pct[d][1] {
				b = c.pct[d][1]
			}
			if a > b {
				a = b
			}
			c.pct[d][2], c.pct[d][3] = a, b
		}
	}
	return c
}

// c18GenCfgHeadroom: configuration of the directed "headroom" stream (extension round 5).  Static cpu thresholds with the
// prod window 5-10 points under the node window (memory tracked at the default 100/100, pods untracked), no dry-run, no
// selector, anomaly gating off or light.  The nodes 0..2 of such a case are built by c18ShapeHeadroom.
func c18GenCfgHeadroom(r *vRand) c18Cfg {
	c := c18Cfg{hshape: 1, norm: r.Range(1, 3), wts: [3]int64{1, 1, 1}}
	c.abn = int(r.Pick([]int64{0, 1, 1, 2}))
	for d := 0; d < 3; d++ {
		c.pct[d] = [4]int64{-1, -1, -1, -1}
	}
	lo := r.Pick([]int64{120, 140, 160})    // node low 30 / 35 / 40 %
	hi := lo + r.Pick([]int64{60, 80, 100}) // node high 15 - 25 points above
	c.pct[0] = [4]int64{lo, hi, lo - int64(r.Range(20, 40)), hi - int64(r.Range(20, 40))}
	return c
}

// c18ShapeHeadroom fills the pods / metrics of the three shaped nodes of the "headroom" stream (cpu in quarter-percents of
// the node's capacity; memory of every pod tiny):
//
//	node 0 (S): prod usage just above prod high, node usage at or under node high => source of the PROD pass only; one big
//	            prod pod the filters reject plus 3-5 small removable prod pods (1-2 % each), more of them than the
//	            both-low node can take;
//	node 1 (B): node usage just under node low, nearly all of it NON-prod => both-low: its prod headroom is several times
//	            its node headroom; small capacity;
//	node 2 (L): node usage at or under node low, prod usage between prod low and prod high => a node-level receiver only
//	            (it cannot take prod pods); large capacity, so most of the node pass's headroom is its.
func c18ShapeHeadroom(r *vRand, c c18Cfg, n *c18Node, podID *int, ev *c18Evictor) {
	lo, hi, plo, phi := c.pct[0][0], c.pct[0][1], c.pct[0][2], c.pct[0][3]
	q := func(qp int64) int64 { return n.cap[0] * qp / 400 }
	add := func(prod bool, cpu int64, removable bool) {
		*podID++
		p := &c18Pod{id: *podID, node: n.id, name: *podID, prod: prod, hasMetric: true, s1: removable, s2: removable, evictOK: !r.Chance(1, 20)}
		c18BuildPod(r, c, p)
		n.pods = append(n.pods, p)
		ev.byKey[p.obj.Namespace+"/"+p.obj.Name] = p
		n.metrics = append(n.metrics, c18Metric{ns: p.ns, name: p.name, m: [2]int64{cpu, int64(r.Range(0, 3)) << 20}})
	}
	switch n.id {
	case 0:
		m := int64(r.Range(3, 5))
		budget := hi - phi + 6 // what the small pods may add on top of the big one (phi - 8) with node usage <= hi
		s := int64(r.Range(4, int(budget/m)))
		add(true, q(phi-8), false)
		for i := int64(0); i < m; i++ {
			add(true, q(s), true)
		}
		n.sys = [2]int64{q(int64(r.Range(0, 2))), int64(r.Range(0, 8)) << 20}
	case 1:
		add(false, q(lo-int64(r.Range(12, 20))), r.Bool())
		if r.Chance(2, 3) {
			add(true, q(int64(r.Range(0, 8))), r.Bool())
		}
		n.sys = [2]int64{q(int64(r.Range(0, 4))), int64(r.Range(0, 8)) << 20}
	default:
		add(true, q(plo+int64(r.Range(2, int(lo-plo-2)))), r.Bool())
		n.sys = [2]int64{q(int64(r.Range(0, 2))), int64(r.Range(0, 8)) << 20}
	}
}

func c18Thresholds(c c18Cfg, k int) deschedulerconfig.ResourceThresholds {
	var m deschedulerconfig.ResourceThresholds
	for d := 0; d < 3; d++ {
		if c.pct[d][k] >= 0 {
			if m == nil {
				m = deschedulerconfig.ResourceThresholds{}
			}
			m[c18Dims[d]] = deschedulerconfig.Percentage(float64(c.pct[d][k]) / 4)
		}
	}
	return m
}

func (c c18Cfg) tracked(d int) bool {
	return d == 1 || c.pct[d][0] >= 0 || c.pct[d][1] >= 0 || c.pct[d][2] >= 0 || c.pct[d][3] >= 0
}

// ---- the oracle's own table: effective percentages, thresholds, predicates (from scratch) ----

// effective percentage of kind k (0 low, 1 high, 2 prodLow, 3 prodHigh) for dim d: a resource
// without a low (prod low) entry is unconstrained at node (prod) level.
func (c c18Cfg) oraclePct(d, k int) float64 {
	dflt := 100.0
	if c.dev {
		dflt = 0
	}
	base := 0
	if k >= 2 {
		base = 2
	}
	if c.pct[d][base] < 0 {
		return dflt
	}
	if c.pct[d][k] < 0 {
		return 0
	}
	return float64(c.pct[d][k]) / 4
}

func c18Clamp(p float64) float64 {
	if p > 100 {
		return 100
	}
	if p < 0 {
		return 0
	}
	return p
}

func c18Qty(pct float64, cap int64) int64 { return int64(pct * 0.01 * float64(cap)) }

// thresholds [node][kind][dim] for the measured nodes
func c18OracleThresholds(c c18Cfg, ns []*c18Node) map[int][4][3]int64 {
	out := map[int][4][3]int64{}
	var avg, pavg [3]float64
	if c.dev {
		for d := 0; d < 3; d++ {
			for _, n := range ns {
				if n.cap[d] != 0 {
					avg[d] += float64(n.usage[d]) / float64(n.cap[d]) * 100
					pavg[d] += float64(n.prodUsage[d]) / float64(n.cap[d]) * 100
				}
			}
			avg[d] /= float64(len(ns))
			pavg[d] /= float64(len(ns))
		}
	}
	for _, n := range ns {
		var t [4][3]int64
		for d := 0; d < 3; d++ {
			if !c.tracked(d) {
				continue
			}
			if !c.dev {
				for k := 0; k < 4; k++ {
					t[k][d] = c18Qty(c.oraclePct(d, k), n.cap[d])
				}
				continue
			}
			if c.oraclePct(d, 0) == 0 {
				t[0][d], t[1][d] = n.cap[d], n.cap[d]
			} else {
				t[0][d] = c18Qty(c18Clamp(avg[d]-c.oraclePct(d, 0)), n.cap[d])
				t[1][d] = c18Qty(c18Clamp(avg[d]+c.oraclePct(d, 1)), n.cap[d])
			}
			if c.oraclePct(d, 2) == 0 {
				t[2][d], t[3][d] = n.cap[d], n.cap[d]
			} else {
				t[2][d] = c18Qty(c18Clamp(pavg[d]-c.oraclePct(d, 2)), n.cap[d])
				t[3][d] = c18Qty(c18Clamp(pavg[d]+c.oraclePct(d, 3)), n.cap[d])
			}
		}
		out[n.id] = t
	}
	return out
}

func (c c18Cfg) anyAbove(u, t [3]int64) bool {
	for d := 0; d < 3; d++ {
		if c.tracked(d) && u[d] > t[d] {
			return true
		}
	}
	return false
}

// ---- object builders ----

func c18BuildNode(n *c18Node) {
	node := &corev1.Node{ObjectMeta: metav1.ObjectMeta{Name: fmt.Sprintf("n%d", n.id), Labels: map[string]string{"c18pool": "b"}}}
	if n.inPool {
		node.Labels["c18pool"] = "a"
	}
	node.Spec.Unschedulable = n.unsched
	if n.noFit {
		node.Spec.Taints = []corev1.Taint{{Key: "c18", Value: "x", Effect: corev1.TaintEffectNoSchedule}}
	}
	raw := corev1.ResourceList{}
	for d := 0; d < 3; d++ {
		raw[c18Dims[d]] = c18Quantity(d, n.cap[d])
	}
	n.alloc = n.cap
	n.rawKind = 0
	n.rawWire = n.cap
	if n.rawAnno && n.noPodsInAnno {
		delete(raw, corev1.ResourcePods)
		n.rawWire[2] = -1
	}
	if n.rawAnno {
		// amplified allocatable in status, the raw one in the annotation (the code must use the raw one)
		amp := corev1.ResourceList{}
		for d := 0; d < 3; d++ {
			if n.ampDims[d] {
				n.alloc[d] = n.cap[d] * n.ampNum / 2
			}
			amp[c18Dims[d]] = c18Quantity(d, n.alloc[d])
		}
		node.Status.Allocatable = amp
		extension.SetNodeRawAllocatable(node, raw)
		n.rawKind = 1
	} else {
		node.Status.Allocatable = raw
		if n.ampNum == 1 {
			// an annotation that does not parse: the code falls back to status.allocatable
			node.Annotations = map[string]string{extension.AnnotationNodeRawAllocatable: "{\"cpu\":"}
			n.rawKind = 2
		}
	}
	n.obj = node
}

func c18BuildPod(r *vRand, c c18Cfg, p *c18Pod) {
	pod := &corev1.Pod{ObjectMeta: metav1.ObjectMeta{Name: fmt.Sprintf("p%d", p.name), Namespace: c18Namespaces[p.ns], Labels: map[string]string{}},
		Spec:   corev1.PodSpec{NodeName: fmt.Sprintf("n%d", p.node), Containers: []corev1.Container{{Name: "c"}}},
		Status: corev1.PodStatus{Phase: corev1.PodRunning}}
	nsOK, selOK := true, true
	if c.exclNS && p.ns == 1 {
		nsOK = false
	}
	if c.podSel {
		if r.Chance(1, 8) {
			selOK = false
		} else {
			pod.Labels["c18sel"] = "yes"
		}
	}
	setPrio := func(lo, hi int) {
		// a few distinct values per class so that equal priorities (ties) are common
		pr := int32(lo + 100*r.Intn(3))
		if r.Chance(1, 4) {
			pr = int32(r.Range(lo, hi))
		}
		pod.Spec.Priority = &pr
		p.prio = int64(pr)
	}
	if p.prod {
		p.cls = 4
		if r.Bool() {
			pod.Labels[extension.LabelPodPriorityClass] = string(extension.PriorityProd)
		} else {
			setPrio(9000, 9999)
		}
	} else {
		switch r.Intn(4) {
		case 0:
			p.cls = 2
			pod.Labels[extension.LabelPodPriorityClass] = string(extension.PriorityBatch)
		case 1:
			p.cls = 2
			setPrio(5000, 5999)
		case 2:
			p.cls = 1
			setPrio(3000, 3999)
		default:
			p.cls = 3
			setPrio(7000, 7999)
		}
	}
	// deletion / eviction cost annotations: mostly absent; valid small integers; sometimes text the parsers reject (= 0)
	cost := func(key string) int64 {
		if !r.Chance(1, 8) {
			return 0
		}
		if pod.Annotations == nil {
			pod.Annotations = map[string]string{}
		}
		switch r.Intn(6) {
		case 0:
			pod.Annotations[key] = []string{"+5", "007", "x", "", "1.5", "99999999999"}[r.Intn(6)]
			return 0
		default:
			v := int64(r.Range(-2, 3))
			pod.Annotations[key] = fmt.Sprintf("%d", v)
			return v
		}
	}
	p.delCost = cost("controller.kubernetes.io/pod-deletion-cost")
	p.evCost = cost(extension.AnnotationEvictionCost)
	p.f1 = p.s1 && nsOK && selOK
	p.f2 = p.s2 && nsOK && selOK
	p.obj = pod
}

func c18NodeMetric(n *c18Node, sys [2]int64, now time.Time) *slov1alpha1.NodeMetric {
	if n.metricKind == 1 {
		return nil
	}
	nm := &slov1alpha1.NodeMetric{ObjectMeta: metav1.ObjectMeta{Name: n.obj.Name}}
	switch n.metricKind {
	case 3:
		nm.Status.UpdateTime = &metav1.Time{Time: now.Add(-2 * time.Hour)}
	case 4:
	default:
		nm.Status.UpdateTime = &metav1.Time{Time: now}
	}
	if n.metricKind != 2 {
		nm.Status.NodeMetric = &slov1alpha1.NodeMetricInfo{SystemUsage: slov1alpha1.ResourceMap{ResourceList: corev1.ResourceList{
			corev1.ResourceCPU: c18Quantity(0, sys[0]), corev1.ResourceMemory: c18Quantity(1, sys[1])}}}
	}
	for _, e := range n.metrics {
		nm.Status.PodsMetric = append(nm.Status.PodsMetric, &slov1alpha1.PodMetricInfo{Namespace: c18Namespaces[e.ns], Name: fmt.Sprintf("p%d", e.name),
			PodUsage: slov1alpha1.ResourceMap{ResourceList: corev1.ResourceList{
				corev1.ResourceCPU: c18Quantity(0, e.m[0]), corev1.ResourceMemory: c18Quantity(1, e.m[1])}}})
	}
	return nm
}

// ---- round generation ----

func c18GenRound(r *vRand, c c18Cfg, rd int, relapsePhase *int, nodes []*c18Node, podID *int, now time.Time, lister *c18Lister, ev *c18Evictor) {
	lister.m = map[string]*slov1alpha1.NodeMetric{}
	ev.byKey = map[string]*c18Pod{}
	ev.log = nil
	for _, n := range nodes {
		if r.Chance(1, 30) {
			n.unsched = !n.unsched
		}
		shaped := c.hshape > 0 && n.id < 3
		if c.relapse > 0 || shaped {
			n.unsched = false
		}
		c18BuildNode(n)
		n.metricKind = 0
		if r.Chance(1, 10) {
			n.metricKind = r.Range(1, 4)
		}
		tend := n.tendency
		if r.Chance(1, 4) {
			tend = r.Intn(3)
		}
		var level [2]int64 // in 1/64 of the capacity
		for d := 0; d < 2; d++ {
			switch tend {
			case 0:
				level[d] = int64(r.Range(0, 20))
			case 1:
				level[d] = int64(r.Range(16, 44))
			default:
				level[d] = int64(r.Range(36, 66))
			}
			if r.Chance(1, 6) {
				level[d] = int64(r.Range(0, 66))
			}
		}
		k := r.Range(0, 5)
		if tend == 2 && k < 2 {
			k += 2
		}
		forceProd := -1 // -1 free, 0 all non-prod, 1 all prod
		if shaped {
			n.metricKind, level, k = 0, [2]int64{}, 0
		}
		if c.relapse > 0 {
			n.metricKind = 0
			hot := n.id == 0 && *relapsePhase != 1
			switch {
			case hot:
				// 44%..62% of the cpu in 4-5 pods with metrics: over node high 50% mostly (relapse 1) / over prod high 30% (relapse 2)
				level[0], level[1], k = int64(r.Range(34, 40)), int64(r.Range(0, 20)), r.Range(4, 5)
				forceProd = c.relapse - 1
			case n.id == 0:
				level[0], level[1], k = int64(r.Range(22, 30)), int64(r.Range(0, 20)), r.Range(2, 4)
				if c.relapse == 2 {
					level[0] = int64(r.Range(8, 16))
				}
				forceProd = c.relapse - 1
			default:
				level[0], level[1] = int64(r.Range(0, 10)), int64(r.Range(0, 20))
				forceProd = 0
			}
		}
		n.pods = nil
		// namespace/name: names are unique per namespace only; a pod may share its name with an earlier pod of the
		// same node that lives in another namespace (prod + non-prod and same-class pairs)
		usedNS := map[int]map[int]bool{} // name -> namespaces taken on this node
		for i := 0; i < k; i++ {
			*podID++
			p := &c18Pod{id: *podID, node: n.id, name: *podID, prod: r.Bool(), hasMetric: !r.Chance(1, 7), s1: !r.Chance(1, 8), evictOK: !r.Chance(1, 12)}
			if r.Chance(1, 6) {
				p.ns = 2
			}
			if c.exclNS && r.Chance(1, 8) {
				p.ns = 1
			}
			if len(n.pods) > 0 && r.Chance(1, 4) {
				q := n.pods[r.Intn(len(n.pods))]
				var free []int64
				for ns := 0; ns < 3; ns++ {
					if !usedNS[q.name][ns] {
						free = append(free, int64(ns))
					}
				}
				if len(free) > 0 {
					p.name, p.ns = q.name, int(r.Pick(free))
					if r.Chance(2, 3) {
						p.prod = !q.prod
					} else {
						p.prod = q.prod
					}
					if r.Chance(3, 4) {
						p.hasMetric = true
					}
				}
			}
			if usedNS[p.name] == nil {
				usedNS[p.name] = map[int]bool{}
			}
			usedNS[p.name][p.ns] = true
			p.s2 = p.s1
			if r.Chance(1, 15) {
				p.s2 = !p.s1
			}
			if forceProd >= 0 {
				p.prod = forceProd == 1
				if n.id == 0 {
					p.hasMetric, p.s1, p.s2, p.evictOK = true, true, true, true
				}
			}
			c18BuildPod(r, c, p)
			n.pods = append(n.pods, p)
			ev.byKey[p.obj.Namespace+"/"+p.obj.Name] = p
		}
		// metric entries: one per pod with a metric; sometimes a second (earlier, overwritten) entry for the same pod,
		// sometimes an entry whose pod is not assigned to the node (fresh name, or the name of one of the node's pods in
		// a namespace where the node has no such pod)
		n.metrics = nil
		for _, p := range n.pods {
			if p.hasMetric {
				n.metrics = append(n.metrics, c18Metric{ns: p.ns, name: p.name})
				if r.Chance(1, 25) {
					n.metrics = append(n.metrics, c18Metric{ns: p.ns, name: p.name})
				}
			}
		}
		if r.Chance(1, 8) {
			*podID++
			e := c18Metric{ns: r.Intn(3), name: *podID}
			if len(n.pods) > 0 && r.Chance(2, 3) {
				q := n.pods[r.Intn(len(n.pods))]
				for ns := 0; ns < 3; ns++ {
					if !usedNS[q.name][ns] {
						e = c18Metric{ns: ns, name: q.name}
					}
				}
			}
			n.metrics = append(n.metrics, e)
		}
		if len(n.metrics) > 1 {
			perm := r.Perm(len(n.metrics))
			sh := make([]c18Metric, len(n.metrics))
			for i, j := range perm {
				sh[i] = n.metrics[j]
			}
			n.metrics = sh
		}
		weights := make([]int64, len(n.metrics))
		wsum := int64(r.Range(0, 3)) // system share
		for i := range n.metrics {
			weights[i] = int64(r.Range(0, 4))
			wsum += weights[i]
		}
		n.sys = [2]int64{}
		for d := 0; d < 2; d++ {
			unit := n.cap[d] / 64
			rest := level[d]
			for i := range n.metrics {
				if wsum > 0 {
					sh := level[d] * weights[i] / wsum
					n.metrics[i].m[d] = sh * unit
					rest -= sh
				}
			}
			n.sys[d] = rest * unit
			if !c.dev && r.Chance(1, 3) {
				n.sys[d] += int64(r.Range(0, int(unit/2)+1)) // off-grid values in static mode
			}
		}
		if shaped {
			// the free generator above produced no pod and only zero-valued (orphan) entries for this node
			c18ShapeHeadroom(r, c, n, podID, ev)
		}
		// what the oracle takes as measured: every reported entry counts for the node; an entry counts as prod usage
		// iff its namespace AND name are those of a prod pod assigned to the node; a pod's own metric is the last
		// entry carrying its namespace/name
		n.usage, n.prodUsage = [3]int64{}, [3]int64{}
		for _, p := range n.pods {
			p.hasMetric, p.m = false, [2]int64{}
		}
		for d := 0; d < 2; d++ {
			n.usage[d] = n.sys[d]
		}
		for _, e := range n.metrics {
			isProd := false
			for _, p := range n.pods {
				if p.ns == e.ns && p.name == e.name {
					p.hasMetric, p.m = true, e.m
					isProd = isProd || p.prod
				}
			}
			for d := 0; d < 2; d++ {
				n.usage[d] += e.m[d]
				if isProd {
					n.prodUsage[d] += e.m[d]
				}
			}
		}
		n.usage[2] = int64(len(n.pods))
		for _, p := range n.pods {
			if p.prod {
				n.prodUsage[2]++
			}
		}
		sys := n.sys
		if nm := c18NodeMetric(n, sys, now); nm != nil {
			lister.m[n.obj.Name] = nm
		}
	}
}

func c18Vec(c c18Cfg, v [3]int64) []int64 {
	var out []int64
	for d := 0; d < 3; d++ {
		if c.tracked(d) {
			out = append(out, v[d])
		}
	}
	return out
}

func c18ThrVec(m map[corev1.ResourceName]*resource.Quantity) []int64 {
	var out []int64
	for d := 0; d < 3; d++ {
		if q, ok := m[c18Dims[d]]; ok && q != nil {
			if d == 0 {
				out = append(out, q.MilliValue())
			} else {
				out = append(out, q.Value())
			}
		}
	}
	return out
}

func c18EmitDets(h *vHarness, tag int, cache *gocache.Cache) {
	type row struct {
		id, st      int
		cAbn, cNorm uint32
	}
	var rows []row
	for name, it := range cache.Items() {
		var id int
		fmt.Sscanf(name, "n%d", &id)
		det := it.Object.(anomaly.Detector)
		st := 0
		if det.State() == anomaly.StateAnomaly {
			st = 1
		}
		rw := row{id: id, st: st}
		if bd, ok := det.(*anomaly.BasicDetector); ok {
			cn := bd.Counter()
			rw.cAbn, rw.cNorm = cn.ConsecutiveAbnormalities, cn.ConsecutiveNormalities
		}
		rows = append(rows, rw)
	}
	sort.Slice(rows, func(i, j int) bool { return rows[i].id < rows[j].id })
	for _, x := range rows {
		h.Obs("det %d %d %d %d %d", tag, x.id, x.st, x.cAbn, x.cNorm)
	}
}

func TestVerifC18(t *testing.T) {
	h := vOpen("C18")
	if h == nil {
		t.Skip("VERIF_OUT not set")
	}
	ctx, cancel := context.WithCancel(context.Background())
	defer cancel()
	n := h.N(3000, 30000)
	// cases n .. n+n/10-1: the directed "headroom" stream (extension round 5); the cases 0..n-1 are generated as before
	for idx := 0; idx < n+n/10; idx++ {
		r := h.Begin(idx)
		if r == nil {
			continue
		}
		var c c18Cfg
		if idx >= n {
			c = c18GenCfgHeadroom(r)
			h.Tag("stream:headroom")
		} else {
			c = c18GenCfg(r)
		}
		h.Op("cfg %d %d %d %d %d", c.abn, c.norm, c.numberOfNodes, vB(c.dry), vB(c.dev))
		for d := 0; d < 3; d++ {
			h.Op("pct %d %d %d %d %d", d, c.pct[d][0], c.pct[d][1], c.pct[d][2], c.pct[d][3])
		}
		h.Tag(fmt.Sprintf("anomaly:%d", c.abn))
		h.Tag(fmt.Sprintf("deviation:%d", vB(c.dev)))

		// ---- nodes of the case
		nn := r.Range(2, 6)
		if r.Chance(1, 15) {
			nn = int(r.Pick([]int64{1, 7, 8}))
		}
		if c.hshape > 0 {
			nn = 3
			if r.Bool() {
				nn = r.Range(4, 5)
			}
		}
		var all []*c18Node
		for i := 0; i < nn; i++ {
			nd := &c18Node{id: i, inPool: !c.useSelector || !r.Chance(1, 4), unsched: r.Chance(1, 10), noFit: r.Chance(1, 10),
				rawAnno: r.Chance(1, 5), tendency: r.Intn(3), ampNum: 2}
			if nd.rawAnno {
				// amplification ratio 1, 1.5, 2 or 3 on cpu only / cpu+memory / every resource
				nd.ampNum = r.Pick([]int64{2, 3, 4, 4, 6})
				switch r.Intn(6) {
				case 0:
					nd.ampDims = [3]bool{true, true, true}
				case 1, 2:
					nd.ampDims = [3]bool{true, true, false}
				default:
					nd.ampDims = [3]bool{true, false, false}
				}
				// the resource-amplification webhook stores only cpu and memory in the annotation: every other resource
				// (pods) must keep its status.allocatable value (repaired by fix: 6bbb4ed — the annotation used to be
				// taken wholesale, so the pods capacity of an amplified node read 0)
				if r.Chance(1, 2) {
					nd.noPodsInAnno = true
					nd.ampDims[2] = false
				}
			} else if r.Chance(1, 30) {
				nd.ampNum = 1 // marks "annotation present but unparsable"
			}
			if c.dev {
				nd.cap = [3]int64{r.Pick([]int64{4096, 8192, 16384, 65536}), r.Pick([]int64{1 << 32, 1 << 33, 1 << 34, 1 << 36}), r.Pick([]int64{4, 8, 16, 32})}
			} else {
				nd.cap = [3]int64{r.Pick([]int64{1000, 4000, 8000, 16000, 32000, 64000, 96000}),
					r.Pick([]int64{8 << 30, 16 << 30, 100000000000, 64 << 30}), r.Pick([]int64{4, 8, 10, 16, 110})}
			}
			all = append(all, nd)
		}
		if c.hshape > 0 {
			// the three shaped nodes: plain (no amplification, no taint), in the pool; the both-low node is small, the prod
			// source 4-8 times and the node-level-only receiver 4-16 times its size
			base := r.Pick([]int64{1000, 4000})
			mul := [3]int64{r.Pick([]int64{4, 8}), 1, r.Pick([]int64{4, 16})}
			for i := 0; i < 3; i++ {
				nd := all[i]
				nd.inPool, nd.unsched, nd.noFit, nd.rawAnno, nd.ampNum, nd.ampDims, nd.noPodsInAnno = true, false, false, false, 2, [3]bool{}, false
				nd.cap[0] = base * mul[i]
			}
		}

		// ---- the plugin under test
		ev := &c18Evictor{}
		lister := &c18Lister{}
		hd := &c18Handle{ev: ev, nodes: map[string]*c18Node{}}
		for _, nd := range all {
			hd.nodes[fmt.Sprintf("n%d", nd.id)] = nd
		}
		pool := deschedulerconfig.LowNodeLoadNodePool{Name: "pool", UseDeviationThresholds: c.dev,
			LowThresholds: c18Thresholds(c, 0), HighThresholds: c18Thresholds(c, 1),
			ProdLowThresholds: c18Thresholds(c, 2), ProdHighThresholds: c18Thresholds(c, 3),
		}
		var wout [3]int64
		for d := 0; d < 3; d++ {
			if c.wts[d] >= 0 {
				if pool.ResourceWeights == nil {
					pool.ResourceWeights = map[corev1.ResourceName]int64{}
				}
				pool.ResourceWeights[c18Dims[d]] = c.wts[d]
				wout[d] = c.wts[d]
			}
		}
		h.Op("wts %s", vInts(wout[:]))
		switch {
		case c.wts == [3]int64{1, 1, 1}:
			h.Tag("weights:1,1,1")
		case c.wts == [3]int64{-1, -1, -1}:
			h.Tag("weights:nil-map")
		case c.wts[0] < 0 || c.wts[1] < 0 || c.wts[2] < 0:
			h.Tag("weights:key-missing")
		case c.wts[0] == 0 || c.wts[1] == 0 || c.wts[2] == 0:
			h.Tag("weights:random-with-zero")
		default:
			h.Tag("weights:random")
		}
		if c.abn > 0 {
			pool.AnomalyCondition = &deschedulerconfig.LoadAnomalyCondition{Timeout: metav1.Duration{Duration: time.Hour},
				ConsecutiveAbnormalities: uint32(c.abn), ConsecutiveNormalities: uint32(c.norm)}
		}
		if c.useSelector {
			pool.NodeSelector = &metav1.LabelSelector{MatchLabels: map[string]string{"c18pool": "a"}}
		}
		exp := int64(180)
		args := &deschedulerconfig.LowNodeLoadArgs{DryRun: c.dry, NumberOfNodes: int32(c.numberOfNodes), NodeMetricExpirationSeconds: &exp,
			NodePools: []deschedulerconfig.LowNodeLoadNodePool{pool}, DetectorCacheTimeout: &metav1.Duration{Duration: time.Hour}}
		var pl *LowNodeLoad
		if c.viaNew {
			if c.exclNS {
				args.EvictableNamespaces = &deschedulerconfig.Namespaces{Exclude: []string{"c18x"}}
			}
			if c.podSel {
				args.PodSelectors = []deschedulerconfig.LowNodeLoadPodSelector{{Name: "s", Selector: &metav1.LabelSelector{MatchLabels: map[string]string{"c18sel": "yes"}}}}
			}
			hd.Interface = koordfake.NewSimpleClientset()
			p, err := NewLowNodeLoad(ctx, args, hd)
			if err != nil {
				t.Fatalf("case %d: NewLowNodeLoad: %v", idx, err)
			}
			pl = p.(*LowNodeLoad)
			pl.nodeMetricLister = lister
			h.Tag("construct:NewLowNodeLoad")
		} else {
			pl = &LowNodeLoad{handle: hd, podFilter: ev.Filter, nodeMetricLister: lister, args: args,
				nodeAnomalyDetectors: gocache.New(time.Hour, time.Hour), prodAnomalyDetectors: gocache.New(time.Hour, time.Hour)}
			h.Tag("construct:direct")
		}
		// record every pl.podFilter call with its result (classification and pre-eviction calls)
		orig := pl.podFilter
		pl.podFilter = func(pod *corev1.Pod) bool {
			res := orig(pod)
			if p := ev.byKey[pod.Namespace+"/"+pod.Name]; p != nil {
				ev.log = append(ev.log, c18LogEntry{pod: p, res: res})
			}
			return res
		}

		rounds := r.Range(1, 6)
		if c.abn >= 2 {
			rounds = r.Range(3, 8)
		}
		relapsePhase := 0 // 0 overloaded until evicted from, 1 one recovered round, 2 overloaded again
		if c.relapse > 0 {
			rounds = c.abn + 1 + r.Range(3, 5)
			h.Tag(fmt.Sprintf("stream:relapse:%d", c.relapse))
		}
		podID := 0
		streakA, streakB := map[int]int{}, map[int]int{}
		totalA, totalB := map[int]int{}, map[int]int{} // rounds so far in which the node was measured over its (prod) high threshold
		// reset points by the code's own rule (a source node whose running usage dropped to/under its high threshold while
		// the eviction loop still had a candidate left is reset; in the prod pass that is the prod detector), per
		// detector kind (0 node, 1 prod): whether one was seen, and in how many later rounds the node was over again
		hasReset, sinceReset := [2]map[int]bool{{}, {}}, [2]map[int]int{{}, {}}
		evictedAny := false
		for rd := 0; rd < rounds; rd++ {
			now := time.Now()
			c18GenRound(r, c, rd, &relapsePhase, all, &podID, now, lister, ev)
			var inPool, measured []*c18Node
			var k8sNodes []*corev1.Node
			for _, nd := range all {
				k8sNodes = append(k8sNodes, nd.obj)
				if nd.inPool {
					inPool = append(inPool, nd)
					if nd.metricKind == 0 {
						measured = append(measured, nd)
					}
				}
			}
			// ---- oracle table
			thr := c18OracleThresholds(c, measured)
			isOver := func(nd *c18Node) bool { return c.anyAbove(nd.usage, thr[nd.id][1]) }
			isProdOver := func(nd *c18Node) bool { return c.anyAbove(nd.prodUsage, thr[nd.id][3]) }
			isUnder := func(nd *c18Node) bool { return !nd.unsched && !c.anyAbove(nd.usage, thr[nd.id][0]) }
			isProdUnder := func(nd *c18Node) bool { return !nd.unsched && !c.anyAbove(nd.prodUsage, thr[nd.id][2]) }
			nOver, nProdOver, nUnder, nProdUnder := 0, 0, 0, 0
			var headA, headB [3]int64
			for _, nd := range measured {
				if isOver(nd) {
					nOver++
					streakA[nd.id]++
					totalA[nd.id]++
					sinceReset[0][nd.id]++
				} else {
					streakA[nd.id] = 0
				}
				if isProdOver(nd) {
					nProdOver++
					streakB[nd.id]++
					totalB[nd.id]++
					sinceReset[1][nd.id]++
				} else {
					streakB[nd.id] = 0
				}
				if isUnder(nd) {
					nUnder++
					for d := 0; d < 3; d++ {
						if v := thr[nd.id][1][d] - nd.usage[d]; v > 0 {
							headA[d] += v
						}
					}
				}
				if isProdUnder(nd) {
					nProdUnder++
					for d := 0; d < 3; d++ {
						if v := thr[nd.id][3][d] - nd.prodUsage[d]; v > 0 {
							headB[d] += v
						}
					}
				}
			}
			for _, nd := range all {
				if !nd.inPool || nd.metricKind != 0 {
					streakA[nd.id], streakB[nd.id] = 0, 0
				}
			}
			// NodeFit reservations depend on the (map-iteration) order of the destination nodes, so it is
			// switched on only when each pass has at most one destination by the oracle's table.
			nodeFit := nUnder <= 1 && nProdUnder <= 1 && r.Chance(2, 3)
			pl.args.NodeFit = nodeFit

			// ---- run the real code
			panicked := h.Guard(func() { pl.Balance(ctx, k8sNodes) })
			log := ev.log
			ev.log = nil

			// ---- ops (inputs) of the round, including the observed processing order
			h.Op("round %d %d", len(inPool), vB(nodeFit))
			for _, nd := range measured {
				h.Op("node %d %d %d %s %d %s %s", nd.id, vB(nd.unsched), vB(nd.noFit), vInts(nd.alloc[:]), nd.rawKind, vInts(nd.rawWire[:]), vInts(nd.sys[:]))
			}
			for _, nd := range measured {
				for _, p := range nd.pods {
					h.Op("pod %d %d %d %d %d %d %d %d %d %d %d %d", nd.id, p.id, p.ns, p.name, vB(p.prod), vB(p.f1), vB(p.f2), vB(p.evictOK), p.cls, p.prio, p.delCost, p.evCost)
				}
				for _, e := range nd.metrics {
					h.Op("metric %d %d %d %d %d", nd.id, e.ns, e.name, e.m[0], e.m[1])
				}
			}
			seen := map[*c18Pod]bool{}
			var ordNodes []int
			ordPods := map[int][]int64{}
			inOrd := map[int]bool{}
			for _, e := range log {
				if e.pod.node < 0 {
					continue
				}
				if e.evict {
					seen[e.pod] = true
				}
				if !inOrd[e.pod.node] {
					inOrd[e.pod.node] = true
					ordNodes = append(ordNodes, e.pod.node)
				}
				if !seen[e.pod] {
					seen[e.pod] = true
					continue
				}
				dup := false
				for _, x := range ordPods[e.pod.node] {
					dup = dup || x == int64(e.pod.id)
				}
				if !dup {
					ordPods[e.pod.node] = append(ordPods[e.pod.node], int64(e.pod.id))
				}
			}
			for _, id := range ordNodes {
				h.Op("order %d %s", id, vInts(ordPods[id]))
			}
			h.Op("go")

			// ---- observations
			if panicked {
				h.Obs("panic")
			}
			lowT, highT, plowT, phighT := newThresholds(pool.UseDeviationThresholds, pool.LowThresholds, pool.HighThresholds, pool.ProdLowThresholds, pool.ProdHighThresholds)
			resourceNames := getResourceNames(lowT)
			var poolNodes []*corev1.Node
			for _, nd := range inPool {
				poolNodes = append(poolNodes, nd.obj)
			}
			usages := getNodeUsage(poolNodes, resourceNames, lister, hd.GetPodsAssignedToNodeFunc(), args.NodeMetricExpirationSeconds)
			implThr := getNodeThresholds(usages, lowT, highT, plowT, phighT, resourceNames, pool.UseDeviationThresholds)
			lowN, highN, plowN, phighN, bothN := classifyNodes(usages, implThr, lowThresholdFilter, highThresholdFilter, prodLowThresholdFilter, prodHighThresholdFilter)
			cls := map[string]int{}
			for code, lst := range [][]NodeInfo{lowN, highN, plowN, phighN, bothN} {
				for _, ni := range lst {
					cls[ni.node.Name] = code
				}
			}
			for _, nd := range inPool {
				nu, ok := usages[nd.obj.Name]
				if !ok {
					continue
				}
				var v []int64
				for _, m := range []map[corev1.ResourceName]*resource.Quantity{nu.usage, nu.prodUsage} {
					for d := 0; d < 3; d++ {
						q, ok := m[c18Dims[d]]
						switch {
						case !ok || q == nil:
							v = append(v, -1)
						case d == 0:
							v = append(v, q.MilliValue())
						default:
							v = append(v, q.Value())
						}
					}
				}
				h.Obs("use %d %s", nd.id, vInts(v))
				sameName := false
				for i, p := range nd.pods {
					for _, q := range nd.pods[:i] {
						if p.name == q.name {
							sameName = true
							if p.prod != q.prod {
								h.Tag("node:same-name-prod+nonprod")
							} else {
								h.Tag("node:same-name-same-class")
							}
						}
					}
				}
				if !sameName {
					h.Tag("node:names-unique")
				}
				if len(nd.metrics) > 0 {
					orphan, dup := false, false
					for i, e := range nd.metrics {
						own := false
						for _, p := range nd.pods {
							own = own || (p.ns == e.ns && p.name == e.name)
						}
						orphan = orphan || !own
						for _, f := range nd.metrics[:i] {
							dup = dup || (f.ns == e.ns && f.name == e.name)
						}
					}
					if orphan {
						h.Tag("metric:entry-without-assigned-pod")
					}
					if dup {
						h.Tag("metric:duplicate-entry")
					}
				}
				h.Tag(fmt.Sprintf("node:rawkind:%d", nd.rawKind))
				if nd.rawKind == 1 {
					h.Tag(fmt.Sprintf("node:amplified:x%d/2:cpu=%d,mem=%d,pods=%d,annotation-names-pods=%d", nd.ampNum, vB(nd.ampDims[0]), vB(nd.ampDims[1]), vB(nd.ampDims[2]), vB(!nd.noPodsInAnno)))
				}
			}
			for _, nd := range inPool {
				tt, ok := implThr[nd.obj.Name]
				if !ok {
					continue
				}
				var v []int64
				v = append(v, c18ThrVec(tt.lowResourceThreshold)...)
				v = append(v, c18ThrVec(tt.highResourceThreshold)...)
				v = append(v, c18ThrVec(tt.prodLowResourceThreshold)...)
				v = append(v, c18ThrVec(tt.prodHighResourceThreshold)...)
				h.Obs("thr %d %s", nd.id, vInts(v))
			}
			for _, nd := range inPool {
				if _, ok := usages[nd.obj.Name]; !ok {
					continue
				}
				code, ok := cls[nd.obj.Name]
				if !ok {
					code = 5
				}
				h.Obs("cls %d %d", nd.id, code)
				h.Tag(fmt.Sprintf("class:%d", code))
			}
			nEv := 0
			for _, e := range log {
				if e.evict {
					h.Obs("evict %d %d %d", e.pod.node, e.pod.id, vB(e.res))
					nEv++
				}
			}
			c18EmitDets(h, 0, pl.nodeAnomalyDetectors)
			c18EmitDets(h, 1, pl.prodAnomalyDetectors)
			h.Obs("end")
			if c.relapse > 0 {
				switch {
				case relapsePhase == 0 && nEv > 0:
					relapsePhase = 1
				case relapsePhase == 1:
					relapsePhase = 2
				}
			}
			if nEv > 3 {
				h.Tag("evictions:4+")
			} else {
				h.Tag(fmt.Sprintf("evictions:%d", nEv))
			}
			h.Tag(fmt.Sprintf("nodefit:%d", vB(nodeFit)))
			switch {
			case len(measured) == 0:
				h.Tag("round:no-measured-node")
			case nOver == 0 && nProdOver == 0:
				h.Tag("round:no-source")
			case nUnder == 0 && nProdUnder == 0:
				h.Tag("round:no-receiver")
			case nEv == 0:
				h.Tag("round:eligible-but-no-eviction")
			default:
				h.Tag("round:evicting")
			}

			// ---- property oracle on the Evict calls of this round
			byID := map[int]*c18Node{}
			for _, nd := range measured {
				byID[nd.id] = nd
			}
			runU, runPU := map[int][3]int64{}, map[int][3]int64{}
			for _, nd := range measured {
				runU[nd.id], runPU[nd.id] = nd.usage, nd.prodUsage
			}
			var usedA, usedB [3]int64
			lastFilter := map[*c18Pod]int{} // 0 never called, 1 false, 2 true
			filterAsked := map[*c18Pod]int{}
			firstFilter := map[*c18Pod]bool{}      // answer of the classification-time call
			evictedFrom := [2]map[int]bool{{}, {}} // source nodes of this round per pass (0 node pass, 1 prod pass)
			// ---- headroom PER PASS by the oracle's own bookkeeping (extension round 5).  Every measured node is in exactly
			// one class: a source of the node pass (over node high, not under node low), a source of the prod pass (prod
			// over prod high and not a source of the node pass), or a receiver: node-level only (under node low, prod usage
			// neither over prod high nor under prod low), prod only (not under node low, not over node high, under prod
			// low) or both-low.  Headroom of a receiver = its (prod) high threshold minus its measured (prod) usage.
			//   node pass: headroom of the node-level-only and of the both-low receivers, minus what the pass moved so far;
			//   prod pass: prod headroom of the prod-only receivers plus the both-low receivers' share, minus what the prod
			//              pass moved so far; the both-low share is their prod headroom, capped by their NODE headroom
			//              and by what the node pass left of ITS headroom (a both-low node takes a prod pod only while it
			//              stays under its node threshold, and the node pass may have filled it already).
			// The headroom of the node-level-only receivers is no room for prod pods.
			ocls := func(nd *c18Node) int {
				switch {
				case isUnder(nd) && isProdOver(nd):
					return 3
				case isUnder(nd) && isProdUnder(nd):
					return 4
				case isUnder(nd):
					return 0
				case isOver(nd):
					return 1
				case isProdOver(nd):
					return 3
				case isProdUnder(nd):
					return 2
				}
				return 5
			}
			var hLowOnly, hBothNode, hBothProd, hProdOnly, movedA, movedB [3]int64
			for _, nd := range measured {
				k := ocls(nd)
				for d := 0; d < 3; d++ {
					switch k {
					case 0:
						hLowOnly[d] += thr[nd.id][1][d] - nd.usage[d]
					case 2:
						hProdOnly[d] += thr[nd.id][3][d] - nd.prodUsage[d]
					case 4:
						hBothNode[d] += thr[nd.id][1][d] - nd.usage[d]
						hBothProd[d] += thr[nd.id][3][d] - nd.prodUsage[d]
					}
				}
			}
			min64 := func(a, b int64) int64 {
				if a < b {
					return a
				}
				return b
			}
			// available headroom of the prod pass right now; loose = the both-low share capped by what the node pass left
			// of the headroom of ALL its receivers only (the over-estimate that also counts node-level-only room)
			prodHead := func(loose bool) (out [3]int64) {
				for d := 0; d < 3; d++ {
					left := hLowOnly[d] + hBothNode[d] - movedA[d]
					share := min64(hBothProd[d], left)
					if !loose {
						share = min64(share, hBothNode[d])
					}
					out[d] = hProdOnly[d] + share - movedB[d]
				}
				return out
			}
			usedUp := func(v [3]int64) bool {
				for d := 0; d < 3; d++ {
					if c.tracked(d) && v[d] <= 0 {
						return true
					}
				}
				return false
			}
			// "all nodes are underused" (every node in an underused class, none overloaded) is a special case of
			// "no node is overloaded", so two clauses suffice.
			if nEv > 0 && ((nOver == 0 && nProdOver == 0) || (nUnder == 0 && nProdUnder == 0)) {
				h.Fail("C18:evict-when-nothing-to-do", "round %d: %d evictions with over=%d prodOver=%d under=%d prodUnder=%d nodes=%d",
					rd, nEv, nOver, nProdOver, nUnder, nProdUnder, len(inPool))
			}
			for _, e := range log {
				if !e.evict {
					if filterAsked[e.pod] == 0 {
						firstFilter[e.pod] = e.res
					}
					filterAsked[e.pod]++
					if e.res {
						lastFilter[e.pod] = 2
					} else {
						lastFilter[e.pod] = 1
					}
					continue
				}
				evictedAny = true
				p := e.pod
				nd := byID[p.node]
				if nd == nil {
					h.Fail("C18:evict-unmeasured-node", "round %d: pod %d evicted from node %d which has no usable metric / is outside the pool", rd, p.id, p.node)
					continue
				}
				passOf := ocls(nd)
				switch {
				case passOf == 1:
					var left [3]int64
					for d := 0; d < 3; d++ {
						left[d] = hLowOnly[d] + hBothNode[d] - movedA[d]
					}
					if usedUp(left) {
						h.Fail("C18:evict-after-headroom-used:node", "round %d: pod %d evicted from node %d (node pass) although the headroom of the underused nodes was used up: node-level-only receivers %v + both-low receivers %v - moved %v = %v",
							rd, p.id, nd.id, hLowOnly, hBothNode, movedA, left)
					}
				case passOf == 3 && p.prod:
					if left := prodHead(false); usedUp(left) {
						h.Fail("C18:evict-after-headroom-used:prod", "round %d: prod pod %d evicted from node %d (prod pass) although the headroom of the prod-underused nodes was used up: prod-only receivers %v + both-low share min(prod headroom %v, node headroom %v, left by the node pass %v + %v - %v) - moved %v = %v",
							rd, p.id, nd.id, hProdOnly, hBothProd, hBothNode, hLowOnly, hBothNode, movedA, movedB, left)
						if !usedUp(prodHead(true)) {
							h.Tag("headroom:prod-eviction-into-node-level-only-room")
						}
					}
				}
				// what the filters answer for this pod at the moment of the call (first ask: f1, later asks: f2),
				// whether or not the code asked
				passNow := p.f2
				if filterAsked[p] == 0 {
					passNow = p.f1
				}
				if !passNow || lastFilter[p] == 1 {
					h.Fail("C18:filter-not-passed", "round %d: pod %d evicted although it does not pass the pod filters at that moment (asked %d times, last answer %d)",
						rd, p.id, filterAsked[p], lastFilter[p])
				}
				headOK := func(used, head [3]int64) bool {
					for d := 0; d < 3; d++ {
						if c.tracked(d) && used[d] >= head[d] {
							return false
						}
					}
					return true
				}
				recvA, recvB := false, false
				for _, m := range measured {
					if m.id != nd.id {
						recvA = recvA || isUnder(m)
						recvB = recvB || isProdUnder(m)
					}
				}
				a1, a2, a3 := c.anyAbove(runU[nd.id], thr[nd.id][1]), recvA, headOK(usedA, headA)
				b1, b2, b3 := p.prod && c.anyAbove(runPU[nd.id], thr[nd.id][3]), recvB, headOK(usedB, headB)
				okA, okB := a1 && a2 && a3, b1 && b2 && b3
				kindA := okA || (!okB && isOver(nd))
				if !okA && !okB {
					x1, x2, x3, sfx := a1, a2, a3, ""
					if !kindA {
						x1, x2, x3, sfx = b1, b2, b3, "-prod"
					}
					switch {
					case !x1:
						h.Fail("C18:evict-not-over-high"+sfx, "round %d: pod %d evicted from node %d whose running usage %v / prod %v is not above high %v / prod high %v",
							rd, p.id, nd.id, runU[nd.id], runPU[nd.id], thr[nd.id][1], thr[nd.id][3])
					case !x2:
						h.Fail("C18:no-receiver"+sfx, "round %d: pod %d evicted from node %d but no other node is under the low thresholds", rd, p.id, nd.id)
					case !x3:
						h.Fail("C18:headroom-exhausted"+sfx, "round %d: pod %d evicted from node %d after the receivers' headroom was used up: moved %v/%v of %v/%v",
							rd, p.id, nd.id, usedA, usedB, headA, headB)
					}
				}
				if c.abn >= 2 {
					st, tot := streakA[nd.id], totalA[nd.id]
					if !kindA {
						st, tot = streakB[nd.id], totalB[nd.id]
					}
					// weaker clause that the code is expected to meet even with gaps (cf. anomaly_gating_partial)
					if tot < c.abn {
						h.Fail("C18:anomaly-too-few-detections", "round %d: pod %d evicted from node %d which was over its high threshold in only %d round(s) of the whole history; consecutiveAbnormalities=%d",
							rd, p.id, nd.id, tot, c.abn)
					}
					kd := 0
					if !kindA {
						kd = 1
					}
					switch {
					case st >= c.abn:
					case hasReset[kd][nd.id] && sinceReset[kd][nd.id] < c.abn:
						// not one of the recorded gap patterns: the detector was due to be reset and has not seen enough
						// over-threshold rounds since
						h.Fail("C18:anomaly-detector-not-reset", "round %d: pod %d evicted from node %d (prod pass: %v) which was over its high threshold in only the last %d consecutive round(s) and in only %d round(s) since it was drained under the threshold (detector due to be reset); consecutiveAbnormalities=%d",
							rd, p.id, nd.id, !kindA, st, sinceReset[kd][nd.id], c.abn)
					default:
						h.Fail("C18:anomaly-not-consecutive", "round %d: pod %d evicted from node %d which was over its high threshold in only the last %d consecutive round(s); consecutiveAbnormalities=%d",
							rd, p.id, nd.id, st, c.abn)
					}
					evictedFrom[kd][nd.id] = true
				}
				if e.res && p.hasMetric {
					q := [3]int64{p.m[0], p.m[1], 1}
					u, pu := runU[nd.id], runPU[nd.id]
					for d := 0; d < 3; d++ {
						u[d] -= q[d]
						if p.prod {
							pu[d] -= q[d]
						}
						if kindA {
							usedA[d] += q[d]
						} else {
							usedB[d] += q[d]
						}
						switch passOf {
						case 1:
							movedA[d] += q[d]
						case 3:
							movedB[d] += q[d]
						}
					}
					runU[nd.id], runPU[nd.id] = u, pu
				}
			}
			// how the prod pass of this round ended, by the oracle's bookkeeping (distribution only)
			if !c.dry && nProdOver > 0 {
				stillOver := false
				for _, nd := range measured {
					stillOver = stillOver || (ocls(nd) == 3 && c.anyAbove(runPU[nd.id], thr[nd.id][3]))
				}
				switch {
				case movedB == [3]int64{}:
				case !stillOver:
					h.Tag("headroom:prod-pass:all-sources-relieved")
				case usedUp(prodHead(false)) && !usedUp(prodHead(true)):
					h.Tag("headroom:prod-pass:stopped-at-both-low-NODE-headroom(node-level-only-room-left)")
				case usedUp(prodHead(false)):
					h.Tag("headroom:prod-pass:stopped-headroom-used")
				default:
					h.Tag("headroom:prod-pass:sources-left-over(no-candidate)")
				}
			}
			// ---- the code's own reset rule, evaluated on the oracle's running estimates
			for kd := 0; kd < 2 && c.abn >= 2 && !c.dry; kd++ {
				for _, nd := range measured {
					id := nd.id
					if !evictedFrom[kd][id] {
						continue
					}
					run, high := runU[id], thr[id][1]
					if kd == 1 {
						run, high = runPU[id], thr[id][3]
					}
					if c.anyAbove(run, high) {
						h.Tag("reset-rule:source-still-over")
						continue
					}
					if nodeFit {
						h.Tag("reset-rule:drained,nodefit(candidates-unknown)")
						continue
					}
					cand, done := 0, 0
					for _, p := range nd.pods {
						if (kd == 0 || p.prod) && filterAsked[p] >= 1 && firstFilter[p] {
							cand++
							if filterAsked[p] >= 2 {
								done++
							}
						}
					}
					if done >= cand {
						h.Tag("reset-rule:drained-by-last-candidate(no-reset)")
						continue
					}
					h.Tag(fmt.Sprintf("reset-rule:drained-with-candidates-left:%d", kd))
					hasReset[kd][id], sinceReset[kd][id] = true, 0
					cache := pl.nodeAnomalyDetectors
					if kd == 1 {
						cache = pl.prodAnomalyDetectors
					}
					if obj, ok := cache.Get(nd.obj.Name); ok {
						det := obj.(anomaly.Detector)
						var cAbn uint32
						if bd, ok := det.(*anomaly.BasicDetector); ok {
							cAbn = bd.Counter().ConsecutiveAbnormalities
						}
						if det.State() == anomaly.StateAnomaly || cAbn > 0 {
							h.Fail("C18:anomaly-detector-not-reset", "round %d: node %d was drained to %v <= high %v (prod pass: %v) with candidates left, but its detector carries state anomaly=%v abnormal marks=%d into the next round",
								rd, id, run, high, kd == 1, det.State() == anomaly.StateAnomaly, cAbn)
						}
					}
				}
			}
		}
		if evictedAny {
			h.Nontrivial()
		}
		h.End()
	}
	h.Close("one node pool (static or deviation thresholds on cpu/memory/pods, node and prod level, optional anomaly condition, NumberOfNodes, " +
		"node selector, dry-run) and a history of 1-8 balance rounds over 1-8 nodes with 0-5 pods each (sticky load tendencies, missing/expired/nil " +
		"NodeMetrics, pods without metrics, filter and evictor answers scripted, NodeFit per round); pods in three namespaces with names repeated across " +
		"namespaces on one node (prod + non-prod and same-class pairs), NodeMetric entries in shuffled order incl. duplicate entries and entries without an " +
		"assigned pod; amplified nodes (status.allocatable = raw x 1/1.5/2/3 on cpu, cpu+memory or all resources; annotation naming all resources or cpu+memory " +
		"only; unparsable annotation); ResourceWeights 0-3 / partial / nil; priorities with ties, deletion / eviction cost annotations (valid, rejected); " +
		"1/8 of the cases are a 'relapse' history (node 0 overloaded at node or prod level until drained, one recovered round, overloaded again); " +
		"plus n/10 extra cases of the directed 'headroom' stream (cpu thresholds with the prod window 5-10 points under the node window; node 0 a prod-pass " +
		"source with 3-5 small removable prod pods, node 1 a small both-low node carrying non-prod load, node 2 a large node that is node-low but prod-mid, " +
		"0-2 free nodes); " +
		"non-trivial = at least one Evict call in the history; distinct by op lines")
}

// TestVerifC18DetExhaustive: EXHAUSTIVE small scope for the anomaly gating glue.  Every sequence of a fixed length over
// {filterRealAbnormalNodes, tryMarkNodesAsNormal, resetNodesAsNormal} on one node, for every anomaly condition with
// consecutiveAbnormalities in 0..3 and consecutiveNormalities in 0..2, through the package's own three functions (which
// create the detector exactly as processOneNodePool does), compared mark by mark with the model's detector.
func TestVerifC18DetExhaustive(t *testing.T) {
	h := vOpen("C18")
	if h == nil {
		t.Skip("VERIF_OUT not set")
	}
	length := 5
	if h.Tier == "thorough" {
		length = 8
	}
	seqs := 1
	for i := 0; i < length; i++ {
		seqs *= 3
	}
	n := seqs * 12
	ni := NodeInfo{NodeUsage: &NodeUsage{node: &corev1.Node{ObjectMeta: metav1.ObjectMeta{Name: "n0"}}}}
	for idx := 0; idx < n; idx++ {
		r := h.Begin(idx)
		if r == nil {
			continue
		}
		ci, si := idx/seqs, idx%seqs
		abn, norm := ci/3, ci%3
		cond := &deschedulerconfig.LoadAnomalyCondition{Timeout: metav1.Duration{Duration: time.Hour},
			ConsecutiveAbnormalities: uint32(abn), ConsecutiveNormalities: uint32(norm)}
		cache := gocache.New(time.Hour, time.Hour)
		h.Op("dcfg %d %d", abn, norm)
		h.Tag(fmt.Sprintf("cond:%d/%d", abn, norm))
		streak := 0 // abnormal marks since the last normal mark (a reset does not interrupt: no-op in state OK)
		wasAnomaly := false
		everAnomaly := false
		for i := 0; i < length; i++ {
			k := si % 3
			si /= 3
			h.Op("dmark %d", k)
			ret := 0
			switch k {
			case 0:
				ret = len(filterRealAbnormalNodes([]NodeInfo{ni}, cache, cond))
			case 1:
				tryMarkNodesAsNormal([]NodeInfo{ni}, cache)
			default:
				resetNodesAsNormal([]NodeInfo{ni}, cache)
			}
			obj, ok := cache.Get("n0")
			if !ok {
				h.Obs("dst %d -1", ret)
				if k == 0 && abn != 1 {
					h.Fail("C18:detector-not-cached", "filterRealAbnormalNodes left no detector for the node (abn=%d)", abn)
				}
				continue
			}
			det := obj.(*anomaly.BasicDetector)
			an := det.State() == anomaly.StateAnomaly
			cn := det.Counter()
			h.Obs("dst %d %d %d %d", ret, vB(an), cn.ConsecutiveAbnormalities, cn.ConsecutiveNormalities)
			// oracle (the part of the gating clause the code is expected to meet, cf. anomaly_gating_partial): the node is
			// let through only in state Anomaly, and the detector turns anomalous only on an abnormal mark that takes the
			// number of abnormal marks not separated by a normal mark above consecutiveAbnormalities
			switch k {
			case 0:
				streak++
				if (ret == 1) != an {
					h.Fail("C18:detector-gate-mismatch", "filterRealAbnormalNodes returned %d node(s) with detector anomaly=%v", ret, an)
				}
				if an && !wasAnomaly && streak <= abn {
					h.Fail("C18:anomaly-too-few-detections", "detector turned anomalous after %d abnormal mark(s) since the last normal mark; consecutiveAbnormalities=%d", streak, abn)
				}
			case 1:
				streak = 0
				if an && !wasAnomaly {
					h.Fail("C18:detector-anomalous-on-normal-mark", "a normal mark turned the detector anomalous")
				}
			default:
				if an {
					h.Fail("C18:anomaly-detector-not-reset", "detector still anomalous right after resetNodesAsNormal")
				}
			}
			wasAnomaly = an
			everAnomaly = everAnomaly || an
		}
		if everAnomaly {
			h.Nontrivial()
		}
		h.End()
	}
	h.Close(fmt.Sprintf("EXHAUSTIVE: all 3^%d sequences of {abnormal mark via filterRealAbnormalNodes, normal mark via tryMarkNodesAsNormal, "+
		"reset via resetNodesAsNormal} x consecutiveAbnormalities 0..3 x consecutiveNormalities 0..2 on one node; non-trivial = the detector is anomalous at some point", length))
}

// TestVerifC18ClsExhaustive: EXHAUSTIVE small scope for classifyNodes with the four real threshold filters: one resource,
// every combination of usage / prod usage / low / high / prod low / prod high in 0..K-1 (K = 4 quick, 5 thorough) and
// schedulable / unschedulable - including windows the random stream never builds (low above high, prod above node).
func TestVerifC18ClsExhaustive(t *testing.T) {
	h := vOpen("C18")
	if h == nil {
		t.Skip("VERIF_OUT not set")
	}
	K := 4
	if h.Tier == "thorough" {
		K = 5
	}
	n := 2
	for i := 0; i < 6; i++ {
		n *= K
	}
	qty := func(v int) map[corev1.ResourceName]*resource.Quantity {
		return map[corev1.ResourceName]*resource.Quantity{corev1.ResourceCPU: resource.NewMilliQuantity(int64(v)*1000, resource.DecimalSI)}
	}
	for idx := 0; idx < n; idx++ {
		r := h.Begin(idx)
		if r == nil {
			continue
		}
		x := idx
		var v [6]int
		for i := 0; i < 6; i++ {
			v[i] = x % K
			x /= K
		}
		unsched := x == 1
		u, pu, lo, hi, plo, phi := v[0], v[1], v[2], v[3], v[4], v[5]
		h.Op("cls1 %d %d %d %d %d %d %d", vB(unsched), u*1000, pu*1000, lo*1000, hi*1000, plo*1000, phi*1000)
		node := &corev1.Node{ObjectMeta: metav1.ObjectMeta{Name: "n0"}}
		node.Spec.Unschedulable = unsched
		nu := &NodeUsage{node: node, usage: qty(u), prodUsage: qty(pu)}
		th := NodeThresholds{lowResourceThreshold: qty(lo), highResourceThreshold: qty(hi), prodLowResourceThreshold: qty(plo), prodHighResourceThreshold: qty(phi)}
		lowN, highN, plowN, phighN, bothN := classifyNodes(map[string]*NodeUsage{"n0": nu}, map[string]NodeThresholds{"n0": th},
			lowThresholdFilter, highThresholdFilter, prodLowThresholdFilter, prodHighThresholdFilter)
		code, hits := 5, 0
		for c, lst := range [][]NodeInfo{lowN, highN, plowN, phighN, bothN} {
			if len(lst) > 0 {
				code = c
				hits += len(lst)
			}
		}
		h.Obs("cls %d", code)
		h.Tag(fmt.Sprintf("class:%d", code))
		// oracle: what each class claims about the node, from the numbers alone
		over, prodOver := u > hi, pu > phi
		under, prodUnder := !unsched && u <= lo, !unsched && pu <= plo
		if hits > 1 {
			h.Fail("C18:classified-twice", "node is in %d class lists", hits)
		}
		switch code {
		case 1:
			if !over {
				h.Fail("C18:classified-high-not-over", "usage %d is not above high %d", u, hi)
			}
		case 3:
			if !prodOver {
				h.Fail("C18:classified-prod-high-not-over", "prod usage %d is not above prod high %d", pu, phi)
			}
		case 0:
			if !under {
				h.Fail("C18:classified-low-not-under", "unschedulable=%v usage %d low %d", unsched, u, lo)
			}
		case 2:
			if !prodUnder {
				h.Fail("C18:classified-prod-low-not-under", "unschedulable=%v prod usage %d prod low %d", unsched, pu, plo)
			}
		case 4:
			if !under || !prodUnder {
				h.Fail("C18:classified-both-low-not-under", "unschedulable=%v usage %d low %d prod usage %d prod low %d", unsched, u, lo, pu, plo)
			}
		}
		if code != 5 {
			h.Nontrivial()
		}
		h.End()
	}
	h.Close(fmt.Sprintf("EXHAUSTIVE: one resource, usage / prod usage / low / high / prod low / prod high each in 0..%d x schedulable / unschedulable, "+
		"through classifyNodes with the four real threshold filters; non-trivial = the node lands in one of the five class lists", K-1))
}
