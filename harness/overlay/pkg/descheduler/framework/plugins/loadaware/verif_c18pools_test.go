//go:build verif

package loadaware

import (
	"context"
	"encoding/json"
	"fmt"
	"os"
	"sort"
	"strings"
	"testing"
	"time"

	gocache "github.com/patrickmn/go-cache"
	corev1 "k8s.io/api/core/v1"
	metav1 "k8s.io/apimachinery/pkg/apis/meta/v1"
	"k8s.io/apimachinery/pkg/util/sets"
	sigyaml "sigs.k8s.io/yaml"

	slov1alpha1 "github.com/koordinator-sh/koordinator/apis/slo/v1alpha1"
	koordinatorclientset "github.com/koordinator-sh/koordinator/pkg/client/clientset/versioned"
	koordfake "github.com/koordinator-sh/koordinator/pkg/client/clientset/versioned/fake"
	deschedulerconfig "github.com/koordinator-sh/koordinator/pkg/descheduler/apis/config"
	"github.com/koordinator-sh/koordinator/pkg/descheduler/apis/config/scheme"
	"github.com/koordinator-sh/koordinator/pkg/descheduler/apis/config/validation"
	"github.com/koordinator-sh/koordinator/pkg/descheduler/framework"
)

// C18, several node pools.  Two harnesses:
//   config (TestVerifC18Config): a generated v1alpha2 LowNodeLoadArgs document (JSON or YAML) goes through the
//     descheduler scheme exactly as at start-up (decode + defaulting + conversion); the internal NodePools (order and
//     content), the converted scalars and the verdict of ValidateLowLoadUtilizationArgs are compared with the model.
//   pools (TestVerifC18Pools): internal args obtained that way drive the REAL LowNodeLoad.Balance over multi-round
//     histories; the oracle keeps, per Balance call and ACROSS the pools, its own estimate of every node's usage
//     (measured usage minus the usage of the pods evicted so far) and reports an Evict call from a node whose
//     estimate was already at or under the high threshold of every pool that could have issued it.

const c18mDefaultPoolName = "__default_node_pool__"

// one pool-shaped group of fields of the document (idx -1 = the top level)
type c18mPool struct {
	name   int // user pools: "pool<name>", name >= 1
	hasSel bool
	sel    [][2]int // matchLabels: label "c18k<k>" = "v<v>", sorted by key
	dev    int      // -1 absent (top level only), 0, 1
	pct    [4]map[int]int64
	wts    map[int]int64
	abn    int // -1: no anomalyCondition; 0: number absent inside a present anomalyCondition
	norm   int
}

type c18mCfg struct {
	dry, non, nodeFit, exp int // -1 absent
	top                    c18mPool
	pools                  []c18mPool
	yaml                   bool
}

func c18mGateAll() bool { return os.Getenv("VERIF_C18_MP") == "all" }

func c18mSelectors() [][][2]int {
	return [][][2]int{
		{{0, 0}}, {{0, 1}}, {{0, 2}}, // disjoint on key 0
		{{1, 0}}, {{1, 1}}, // overlap with the key-0 selectors
		{{0, 0}, {1, 0}}, // subset of {0:0} and of {1:0}
		{}, // the empty selector: every node, but processedNodes is honoured
	}
}

func c18mPctMap(r *vRand, hi bool, prod bool) map[int]int64 {
	m := map[int]int64{}
	for d := 0; d < 3; d++ {
		if !r.Chance([3]int{9, 4, 3}[d], 10) {
			continue
		}
		var v int64
		switch {
		case !hi && !prod:
			v = r.Pick([]int64{60, 100, 120, 160})
		case hi && !prod:
			v = r.Pick([]int64{180, 200, 220, 260, 300})
		case !hi && prod:
			v = r.Pick([]int64{20, 40, 60})
		default:
			v = r.Pick([]int64{80, 100, 120, 160})
		}
		if r.Chance(1, 12) {
			v = int64(r.Range(0, 400))
		}
		m[d] = v
	}
	return m
}

// thresholds of one pool-shaped group; `free` = anything goes (config harness), else a usable valid window
func c18mGenPcts(r *vRand, p *c18mPool, prodOK, free bool) {
	if r.Chance(1, 8) {
		return // all absent (a user pool then inherits everything)
	}
	p.pct[0], p.pct[1] = c18mPctMap(r, false, false), c18mPctMap(r, true, false)
	if !free {
		// same resources in low and high (a low entry without high entry reads high = 0, see props assumptions)
		for d := range p.pct[0] {
			if _, ok := p.pct[1][d]; !ok {
				p.pct[1][d] = p.pct[0][d] + 100
			}
		}
		for d, v := range p.pct[1] {
			if lo, ok := p.pct[0][d]; !ok || lo > v {
				p.pct[0][d] = v / 2
			}
		}
	}
	if prodOK && r.Chance(1, 2) {
		p.pct[2], p.pct[3] = c18mPctMap(r, false, true), c18mPctMap(r, true, true)
		if !free {
			for d := range p.pct[2] {
				if _, ok := p.pct[3][d]; !ok {
					p.pct[3][d] = p.pct[2][d] + 60
				}
			}
			for d, v := range p.pct[3] {
				if lo, ok := p.pct[2][d]; !ok || lo > v {
					p.pct[2][d] = v / 2
				}
				if h, ok := p.pct[1][d]; ok && v > h {
					p.pct[3][d] = h
					if p.pct[2][d] > h {
						p.pct[2][d] = h
					}
				}
			}
		}
	}
	if free {
		// nil-vs-empty, missing counterparts, negative and inverted values
		for k := 0; k < 4; k++ {
			switch r.Intn(14) {
			case 0:
				p.pct[k] = nil
			case 1:
				p.pct[k] = map[int]int64{}
			case 2:
				if len(p.pct[k]) > 0 {
					p.pct[k][r.Intn(3)] = int64(r.Range(-8, 400))
				}
			}
		}
	}
}

func c18mGenWts(r *vRand) map[int]int64 {
	switch r.Intn(8) {
	case 0:
		return map[int]int64{}
	case 1:
		return map[int]int64{0: int64(r.Range(0, 3)), 1: int64(r.Range(0, 3)), 2: int64(r.Range(0, 3))}
	case 2:
		return map[int]int64{r.Intn(3): int64(r.Range(-1, 3))}
	case 3:
		return map[int]int64{0: 2, 1: 1}
	}
	return nil
}

// free = config harness (every shape, also invalid documents); otherwise a valid document whose shape the unchanged
// code handles without re-processing a drained node (see the comment on c18mGateAll below)
func c18mGenCfg(r *vRand, free bool) c18mCfg {
	c := c18mCfg{dry: -1, non: -1, nodeFit: 0, exp: -1, yaml: r.Bool()}
	c.top = c18mPool{dev: -1, abn: -1}
	sels := c18mSelectors()
	gate := free || c18mGateAll()
	// shape: 0 = top level without selector + labelled pools, 1 = pairwise disjoint selectors everywhere,
	// 2 = top level with selector + labelled pools that may overlap it
	shape := 0
	switch r.Intn(20) {
	case 0, 1, 2, 3, 4:
		shape = 1
	case 5, 6, 7:
		shape = 2
	}
	prodOK := gate || shape == 1
	if free {
		c.dry, c.non, c.nodeFit, c.exp = r.Range(-1, 1), r.Range(-1, 2), r.Range(-1, 1), int(r.Pick([]int64{-1, -1, 60, 180, 0}))
		if r.Chance(1, 20) {
			c.non = -2 // written as -1: rejected by the validation
		}
	} else if r.Chance(1, 6) {
		c.non = 1
	}
	if r.Chance(1, 10) {
		// deviation thresholds only in the config harness: the pools harness uses capacities that are not powers of
		// two, so the float sums of the pool averages would depend on Go's map iteration order
		c.top.dev = r.Range(0, 1)
		if !free {
			c.top.dev = 0
		}
	}
	if !free || !r.Chance(1, 6) {
		c18mGenPcts(r, &c.top, prodOK, free)
	}
	c.top.wts = c18mGenWts(r)
	// anomaly condition of the document; in the pools harness every pool ends up with the same numbers
	switch r.Intn(10) {
	case 0, 1, 2, 3, 4, 5:
		c.top.abn, c.top.norm = 1, r.Range(1, 2)
	case 6, 7:
		c.top.abn, c.top.norm = 2, r.Range(1, 2)
	case 8:
		c.top.abn, c.top.norm = 3, 1
	default:
		c.top.abn = -1 // default 5 / 3
	}
	if free {
		switch r.Intn(6) {
		case 0:
			c.top.abn, c.top.norm = 0, r.Range(0, 2)
		case 1:
			c.top.norm = 0
		}
	}
	var disjoint []int
	if shape == 1 {
		disjoint = r.Perm(3)
	}
	if shape != 0 {
		c.top.hasSel = true
		if shape == 1 {
			c.top.sel = sels[disjoint[0]]
		} else {
			c.top.sel = sels[r.Intn(len(sels))]
		}
	}
	if free && r.Chance(1, 3) {
		c.top.hasSel = r.Bool()
		c.top.sel = sels[r.Intn(len(sels))]
	}
	np := r.Range(1, 3)
	if free || r.Chance(1, 10) {
		np = r.Range(0, 3)
	}
	if shape == 1 && np > 2 {
		np = 2
	}
	for i := 0; i < np; i++ {
		p := c18mPool{name: i + 1, dev: 0, abn: -1, hasSel: true}
		if shape == 1 {
			p.sel = sels[disjoint[i+1]]
		} else {
			p.sel = sels[r.Intn(len(sels))]
		}
		if gate && r.Chance(1, 5) {
			p.hasSel, p.sel = false, nil // a user pool without selector
		}
		if free && r.Chance(1, 12) {
			p.dev = 1
		}
		c18mGenPcts(r, &p, prodOK, free)
		if !free && p.pct[0] != nil && p.pct[2] == nil && (c.top.pct[2] != nil || c.top.pct[3] != nil) {
			// own node-level window: do not inherit the document's prod window (it may lie above the own high
			// threshold, which the validation rejects) - written as empty maps, which are kept
			p.pct[2], p.pct[3] = map[int]int64{}, map[int]int64{}
		}
		if !r.Chance(2, 3) {
			p.wts = c18mGenWts(r)
		}
		if free {
			switch r.Intn(5) {
			case 0:
				p.abn, p.norm = r.Range(0, 3), r.Range(0, 3)
			}
		} else if r.Chance(1, 3) {
			// written out with the document's own numbers, or with zeros that are inherited
			p.abn, p.norm = 0, 0
			if c.top.abn > 0 && r.Bool() {
				p.abn, p.norm = c.top.abn, c.top.norm
			}
		}
		c.pools = append(c.pools, p)
	}
	if free && r.Chance(1, 10) && len(c.pools) > 1 {
		c.pools[1].name = c.pools[0].name // duplicate names are legal
	}
	return c
}

var c18mDimNames = []string{"cpu", "memory", "pods"}

func c18mSelObj(sel [][2]int) map[string]interface{} {
	ml := map[string]interface{}{}
	for _, kv := range sel {
		ml[fmt.Sprintf("c18k%d", kv[0])] = fmt.Sprintf("v%d", kv[1])
	}
	if len(sel) == 0 {
		return map[string]interface{}{}
	}
	return map[string]interface{}{"matchLabels": ml}
}

func c18mPoolObj(p *c18mPool, top bool) map[string]interface{} {
	m := map[string]interface{}{}
	if !top {
		m["name"] = fmt.Sprintf("pool%d", p.name)
	}
	if p.hasSel {
		m["nodeSelector"] = c18mSelObj(p.sel)
	}
	if p.dev >= 0 && (top || p.dev == 1) {
		m["useDeviationThresholds"] = p.dev == 1
	}
	for k, key := range []string{"lowThresholds", "highThresholds", "prodLowThresholds", "prodHighThresholds"} {
		if p.pct[k] != nil {
			t := map[string]interface{}{}
			for d, q := range p.pct[k] {
				t[c18mDimNames[d]] = float64(q) / 4
			}
			m[key] = t
		}
	}
	if p.wts != nil {
		t := map[string]interface{}{}
		for d, w := range p.wts {
			t[c18mDimNames[d]] = w
		}
		m["resourceWeights"] = t
	}
	if p.abn >= 0 {
		ac := map[string]interface{}{"timeout": "1h"}
		if p.abn > 0 {
			ac["consecutiveAbnormalities"] = p.abn
		}
		if p.norm > 0 {
			ac["consecutiveNormalities"] = p.norm
		}
		m["anomalyCondition"] = ac
	}
	return m
}

func c18mDoc(c *c18mCfg) ([]byte, error) {
	m := c18mPoolObj(&c.top, true)
	m["apiVersion"], m["kind"] = "descheduler/v1alpha2", "LowNodeLoadArgs"
	m["detectorCacheTimeout"] = "1h"
	if c.dry >= 0 {
		m["dryRun"] = c.dry == 1
	}
	if c.non >= 0 {
		m["numberOfNodes"] = c.non
	} else if c.non == -2 {
		m["numberOfNodes"] = -1
	}
	if c.nodeFit >= 0 {
		m["nodeFit"] = c.nodeFit == 1
	}
	if c.exp >= 0 {
		m["nodeMetricExpirationSeconds"] = c.exp
	}
	if len(c.pools) > 0 {
		var ps []interface{}
		for i := range c.pools {
			ps = append(ps, c18mPoolObj(&c.pools[i], false))
		}
		m["nodePools"] = ps
	}
	b, err := json.Marshal(m)
	if err != nil || !c.yaml {
		return b, err
	}
	return sigyaml.JSONToYAML(b)
}

func c18mSortedKeys(m map[int]int64) []int {
	var ks []int
	for k := range m {
		ks = append(ks, k)
	}
	sort.Ints(ks)
	return ks
}

func c18mMapToks(m map[int]int64) string {
	out := []int64{int64(len(m))}
	for _, k := range c18mSortedKeys(m) {
		out = append(out, int64(k), m[k])
	}
	return vInts(out)
}

func c18mSelToks(sel [][2]int) string {
	out := []int64{int64(len(sel))}
	for _, kv := range sel {
		out = append(out, int64(kv[0]), int64(kv[1]))
	}
	return vInts(out)
}

func c18mEmitCfg(h *vHarness, c *c18mCfg) {
	non := c.non
	if non == -2 {
		non = -1
	}
	h.Op("mtop %d %d %d %d %d %d %d", c.dry, non, c.nodeFit, c.exp, c.top.dev, c.top.abn, c18mNormTok(&c.top))
	emit := func(idx int, p *c18mPool) {
		if p.hasSel {
			h.Op("msel %d %s", idx, c18mSelToks(p.sel))
		}
		for k := 0; k < 4; k++ {
			if p.pct[k] != nil {
				h.Op("mpct %d %d %s", idx, k, c18mMapToks(p.pct[k]))
			}
		}
		if p.wts != nil {
			h.Op("mwts %d %s", idx, c18mMapToks(p.wts))
		}
	}
	emit(-1, &c.top)
	for i := range c.pools {
		p := &c.pools[i]
		h.Op("mpool %d %d %d %d %d", i, p.name, vB(p.dev == 1), p.abn, c18mNormTok(p))
		emit(i, p)
	}
}

func c18mNormTok(p *c18mPool) int {
	if p.abn < 0 {
		return -1
	}
	return p.norm
}

// the document written with numberOfNodes -1 cannot be told apart from an absent field in the op line, so it gets
// its own op: the model reads numberOfNodes = -1 literally
func c18mEmitNegNon(h *vHarness, c *c18mCfg) {
	if c.non == -2 {
		h.Op("mnon -1")
	}
}

func c18mDimOf(name corev1.ResourceName) int {
	for d, n := range c18mDimNames {
		if string(name) == n {
			return d
		}
	}
	return 9
}

func c18mThrToks(t deschedulerconfig.ResourceThresholds) string {
	m := map[int]int64{}
	for k, v := range t {
		m[c18mDimOf(k)] = int64(float64(v) * 4)
	}
	return c18mMapToks(m)
}

// observation block of the converted args (mirrors the model's convLines)
func c18mObserveArgs(h *vHarness, args *deschedulerconfig.LowNodeLoadArgs) {
	exp := int64(-1)
	if args.NodeMetricExpirationSeconds != nil {
		exp = *args.NodeMetricExpirationSeconds
	}
	h.Obs("ctop %d %d %d %d", vB(args.DryRun), args.NumberOfNodes, vB(args.NodeFit), exp)
	for i, p := range args.NodePools {
		name := -7
		if p.Name == c18mDefaultPoolName {
			name = 0
		} else {
			fmt.Sscanf(p.Name, "pool%d", &name)
		}
		abn, norm := -1, -1
		if p.AnomalyCondition != nil {
			abn, norm = int(p.AnomalyCondition.ConsecutiveAbnormalities), int(p.AnomalyCondition.ConsecutiveNormalities)
		}
		h.Obs("cpool %d %d %d %d %d", i, name, vB(p.UseDeviationThresholds), abn, norm)
		if p.NodeSelector != nil {
			var sel [][2]int
			for k, v := range p.NodeSelector.MatchLabels {
				var ki, vi int
				fmt.Sscanf(k, "c18k%d", &ki)
				fmt.Sscanf(v, "v%d", &vi)
				sel = append(sel, [2]int{ki, vi})
			}
			sort.Slice(sel, func(a, b int) bool { return sel[a][0] < sel[b][0] })
			h.Obs("csel %d %s", i, c18mSelToks(sel))
		}
		for k, t := range []deschedulerconfig.ResourceThresholds{p.LowThresholds, p.HighThresholds, p.ProdLowThresholds, p.ProdHighThresholds} {
			if t != nil {
				h.Obs("cpct %d %d %s", i, k, c18mThrToks(t))
			}
		}
		if p.ResourceWeights != nil {
			m := map[int]int64{}
			for k, v := range p.ResourceWeights {
				m[c18mDimOf(k)] = v
			}
			h.Obs("cwts %d %s", i, c18mMapToks(m))
		}
	}
}

func c18mDecode(doc []byte) (*deschedulerconfig.LowNodeLoadArgs, error) {
	obj, _, err := scheme.Codecs.UniversalDecoder().Decode(doc, nil, nil)
	if err != nil {
		return nil, err
	}
	args, ok := obj.(*deschedulerconfig.LowNodeLoadArgs)
	if !ok {
		return nil, fmt.Errorf("decoded %T", obj)
	}
	return args, nil
}

func c18mSameSel(p *c18mPool, q *deschedulerconfig.LowNodeLoadNodePool) bool {
	if !p.hasSel {
		return q.NodeSelector == nil
	}
	if q.NodeSelector == nil || len(q.NodeSelector.MatchLabels) != len(p.sel) || len(q.NodeSelector.MatchExpressions) != 0 {
		return false
	}
	for _, kv := range p.sel {
		if q.NodeSelector.MatchLabels[fmt.Sprintf("c18k%d", kv[0])] != fmt.Sprintf("v%d", kv[1]) {
			return false
		}
	}
	return true
}

// the conversion clause the multi-pool theorems rest on: the implicit pool of the top-level fields comes FIRST, the
// user's pools follow in document order with their own selectors
func c18mConfigOracle(h *vHarness, c *c18mCfg, args *deschedulerconfig.LowNodeLoadArgs) {
	ps := args.NodePools
	if len(ps) != len(c.pools)+1 {
		h.Fail("C18:config-pool-count", "document with %d nodePools entries became %d internal pools (want the implicit default pool + the entries)", len(c.pools), len(ps))
		return
	}
	if ps[0].Name != c18mDefaultPoolName || !c18mSameSel(&c.top, &ps[0]) {
		h.Fail("C18:config-default-pool-not-first", "the first internal pool is %q (selector nil: %v), not the implicit pool of the top-level fields", ps[0].Name, ps[0].NodeSelector == nil)
		return
	}
	for i := range c.pools {
		if ps[i+1].Name != fmt.Sprintf("pool%d", c.pools[i].name) || !c18mSameSel(&c.pools[i], &ps[i+1]) {
			h.Fail("C18:config-pool-order", "internal pool %d is %q, the document's entry %d is pool%d (or its selector changed)", i+1, ps[i+1].Name, i, c.pools[i].name)
			return
		}
	}
}

func TestVerifC18Config(t *testing.T) {
	h := vOpen("C18")
	if h == nil {
		t.Skip("VERIF_OUT not set")
	}
	n := h.N(4000, 40000)
	for idx := 0; idx < n; idx++ {
		r := h.Begin(idx)
		if r == nil {
			continue
		}
		c := c18mGenCfg(r, true)
		c18mEmitCfg(h, &c)
		c18mEmitNegNon(h, &c)
		h.Op("mconv")
		doc, err := c18mDoc(&c)
		if err != nil {
			t.Fatalf("case %d: building the document: %v", idx, err)
		}
		args, err := c18mDecode(doc)
		if err != nil {
			h.Obs("decode-error")
			h.Tag("decode:error")
			h.End()
			continue
		}
		c18mObserveArgs(h, args)
		valid := validation.ValidateLowLoadUtilizationArgs(nil, args) == nil
		h.Obs("cvalid %d", vB(valid))
		c18mConfigOracle(h, &c, args)
		h.Tag(fmt.Sprintf("pools:%d", len(c.pools)))
		h.Tag(fmt.Sprintf("valid:%d", vB(valid)))
		h.Tag(fmt.Sprintf("top-selector:%d", vB(c.top.hasSel)))
		h.Tag(fmt.Sprintf("format-yaml:%d", vB(c.yaml)))
		sl := false
		for _, p := range c.pools {
			sl = sl || !p.hasSel
			if p.hasSel && len(p.sel) == 0 {
				h.Tag("pool:empty-selector")
			}
			for k := 0; k < 4; k++ {
				if p.pct[k] != nil && len(p.pct[k]) == 0 {
					h.Tag("pool:empty-threshold-map")
				}
				if p.pct[k] == nil {
					h.Tag("pool:inherited-threshold-map")
				}
			}
			if p.abn == 0 || (p.abn > 0 && p.norm == 0) {
				h.Tag("pool:anomaly-number-inherited")
			}
		}
		h.Tag(fmt.Sprintf("user-pool-without-selector:%d", vB(sl)))
		if len(c.pools) > 0 {
			h.Nontrivial()
		}
		h.End()
	}
	h.Close("v1alpha2 LowNodeLoadArgs documents (JSON / YAML) through scheme.Codecs.UniversalDecoder: top-level thresholds / weights / " +
		"anomaly condition / selector x 0-3 nodePools entries (selectors disjoint, overlapping, empty, absent; threshold maps absent, empty, " +
		"partial, negative, inverted; weights absent / empty / partial / non-positive; anomaly numbers absent or 0); scalars absent or set; " +
		"non-trivial = at least one nodePools entry; distinct by op lines")
}

// ---------------------------------------------------------------- multi-pool balance rounds

type c18mEvent struct {
	kind int // 0 handle.GetPodsAssignedToNodeFunc(), 1 NodeMetric Get, 2 pod filter, 3 Evict
	node int
	pod  *c18Pod
	res  bool
	pass int // Evict: 0 node pass, 1 prod pass, -1 unknown (read from the eviction reason; used to NAME a failure only)
}

type c18mRec struct {
	on  bool
	evs []c18mEvent
}

type c18mEvictor struct {
	base     *c18Evictor
	rec      *c18mRec
	goneMode bool
	gone     map[*c18Pod]bool
}

func (e *c18mEvictor) Filter(pod *corev1.Pod) bool {
	p := e.base.byKey[pod.Namespace+"/"+pod.Name]
	if p == nil {
		return false
	}
	return p.s1 && !(e.goneMode && e.gone[p])
}
func (e *c18mEvictor) PreEvictionFilter(pod *corev1.Pod) bool { return true }
func (e *c18mEvictor) Evict(ctx context.Context, pod *corev1.Pod, opts framework.EvictOptions) bool {
	p := e.base.byKey[pod.Namespace+"/"+pod.Name]
	if p == nil {
		e.rec.evs = append(e.rec.evs, c18mEvent{kind: 3, node: -1, pod: &c18Pod{id: -1, node: -1}})
		return false
	}
	pass := -1
	switch {
	case strings.Contains(opts.Reason, ", prod "):
		pass = 1
	case strings.Contains(opts.Reason, ", node "):
		pass = 0
	}
	e.rec.evs = append(e.rec.evs, c18mEvent{kind: 3, node: p.node, pod: p, res: p.evictOK, pass: pass})
	if p.evictOK {
		e.gone[p] = true
	}
	return p.evictOK
}

type c18mHandle struct {
	framework.Handle
	koordinatorclientset.Interface
	ev    *c18mEvictor
	nodes map[string]*c18Node
	rec   *c18mRec
}

func (h *c18mHandle) Evictor() framework.Evictor { return h.ev }
func (h *c18mHandle) GetPodsAssignedToNodeFunc() framework.GetPodsAssignedToNodeFunc {
	if h.rec.on {
		h.rec.evs = append(h.rec.evs, c18mEvent{kind: 0})
	}
	return func(nodeName string, filter framework.FilterFunc) ([]*corev1.Pod, error) {
		n := h.nodes[nodeName]
		out := []*corev1.Pod{}
		if n == nil {
			return out, nil
		}
		for _, p := range n.pods {
			if filter == nil || filter(p.obj) {
				out = append(out, p.obj)
			}
		}
		return out, nil
	}
}
func (h *c18mHandle) IsWatchListSemanticsUnSupported() bool {
	type u interface{ IsWatchListSemanticsUnSupported() bool }
	if c, ok := h.Interface.(u); ok {
		return c.IsWatchListSemanticsUnSupported()
	}
	return false
}

type c18mLister struct {
	*c18Lister
	rec *c18mRec
}

func (l *c18mLister) Get(name string) (*slov1alpha1.NodeMetric, error) {
	if l.rec.on {
		var id int
		fmt.Sscanf(name, "n%d", &id)
		l.rec.evs = append(l.rec.evs, c18mEvent{kind: 1, node: id})
	}
	return l.c18Lister.Get(name)
}

type c18mSeg struct {
	ids  []int64
	body []c18mEvent
}

// one segment per processOneNodePool call that had nodes: it asks the handle for the pods-of-node function and then
// fetches the NodeMetric of each of its nodes
func c18mSegments(evs []c18mEvent) []c18mSeg {
	var segs []c18mSeg
	for i, e := range evs {
		switch {
		case e.kind == 0:
			if i+1 < len(evs) && evs[i+1].kind == 1 {
				segs = append(segs, c18mSeg{})
			}
		case len(segs) == 0:
		case e.kind == 1:
			segs[len(segs)-1].ids = append(segs[len(segs)-1].ids, int64(e.node))
		default:
			segs[len(segs)-1].body = append(segs[len(segs)-1].body, e)
		}
	}
	return segs
}

// the oracle's view of one pool-shaped group of the DOCUMENT (nothing here comes from the converted args): the
// thresholds that apply to a node when this group handles it; absent maps of a nodePools entry are the top-level ones
func c18mOracleCfg(c *c18mCfg, p *c18mPool, top bool) c18Cfg {
	oc := c18Cfg{dev: p.dev == 1}
	for d := 0; d < 3; d++ {
		for k := 0; k < 4; k++ {
			m := p.pct[k]
			if m == nil && !top {
				m = c.top.pct[k]
			}
			oc.pct[d][k] = -1
			if v, ok := m[d]; ok {
				oc.pct[d][k] = v
			}
		}
	}
	return oc
}

func c18mMatches(p *c18mPool, lab map[int]int) bool {
	for _, kv := range p.sel {
		if v, ok := lab[kv[0]]; !ok || v != kv[1] {
			return false
		}
	}
	return true
}

func TestVerifC18Pools(t *testing.T) {
	h := vOpen("C18")
	if h == nil {
		t.Skip("VERIF_OUT not set")
	}
	ctx, cancel := context.WithCancel(context.Background())
	defer cancel()
	n := h.N(2500, 25000)
	for idx := 0; idx < n; idx++ {
		r := h.Begin(idx)
		if r == nil {
			continue
		}
		c := c18mGenCfg(r, false)
		c18mEmitCfg(h, &c)
		doc, err := c18mDoc(&c)
		if err != nil {
			t.Fatalf("case %d: building the document: %v", idx, err)
		}
		args, err := c18mDecode(doc)
		if err != nil {
			t.Fatalf("case %d: decode: %v\n%s", idx, err, doc)
		}
		goneMode := r.Chance(3, 4)
		h.Op("mp %d", vB(goneMode))
		h.Tag(fmt.Sprintf("pools:%d", len(c.pools)))
		h.Tag(fmt.Sprintf("top-selector:%d", vB(c.top.hasSel)))
		h.Tag(fmt.Sprintf("gone-mode:%d", vB(goneMode)))
		h.Tag(fmt.Sprintf("anomaly:%d", c.top.abn))

		// ---- nodes
		nn := r.Range(3, 6)
		var all []*c18Node
		labs := map[int]map[int]int{}
		for i := 0; i < nn; i++ {
			nd := &c18Node{id: i, inPool: true, unsched: r.Chance(1, 12), tendency: int(r.Pick([]int64{0, 0, 0, 1, 2, 2})), ampNum: 2}
			if i == 0 {
				nd.tendency = 2
			}
			nd.cap = [3]int64{r.Pick([]int64{4000, 8000, 16000, 32000}), r.Pick([]int64{8 << 30, 16 << 30, 64 << 30}), r.Pick([]int64{8, 10, 16, 110})}
			lab := map[int]int{}
			if !r.Chance(1, 10) {
				lab[0] = r.Intn(3)
			}
			if r.Chance(2, 3) {
				lab[1] = r.Intn(2)
			}
			labs[i] = lab
			all = append(all, nd)
		}

		// ---- plugin
		rec := &c18mRec{}
		base := &c18Evictor{}
		ev := &c18mEvictor{base: base, rec: rec, goneMode: goneMode, gone: map[*c18Pod]bool{}}
		baseLister := &c18Lister{}
		lister := &c18mLister{c18Lister: baseLister, rec: rec}
		hd := &c18mHandle{ev: ev, nodes: map[string]*c18Node{}, rec: rec}
		for _, nd := range all {
			hd.nodes[fmt.Sprintf("n%d", nd.id)] = nd
		}
		var pl *LowNodeLoad
		if r.Chance(1, 12) {
			hd.Interface = koordfake.NewSimpleClientset()
			p, err := NewLowNodeLoad(ctx, args, hd)
			if err != nil {
				t.Fatalf("case %d: NewLowNodeLoad: %v\n%s", idx, err, doc)
			}
			pl = p.(*LowNodeLoad)
			pl.nodeMetricLister = lister
			h.Tag("construct:NewLowNodeLoad")
		} else {
			if err := validation.ValidateLowLoadUtilizationArgs(nil, args); err != nil {
				t.Fatalf("case %d: generated document is invalid: %v\n%s", idx, err, doc)
			}
			pl = &LowNodeLoad{handle: hd, podFilter: ev.Filter, nodeMetricLister: lister, args: args,
				nodeAnomalyDetectors: gocache.New(time.Hour, time.Hour), prodAnomalyDetectors: gocache.New(time.Hour, time.Hour)}
			h.Tag("construct:direct")
		}
		pl.args.NodeFit = false
		orig := pl.podFilter
		pl.podFilter = func(pod *corev1.Pod) bool {
			res := orig(pod)
			if p := base.byKey[pod.Namespace+"/"+pod.Name]; p != nil && rec.on {
				rec.evs = append(rec.evs, c18mEvent{kind: 2, node: p.node, pod: p, res: res})
			}
			return res
		}

		// the document's pool-shaped groups as the oracle reads them
		type grp struct {
			p  *c18mPool
			oc c18Cfg
		}
		groups := []grp{{&c.top, c18mOracleCfg(&c, &c.top, true)}}
		userSelectorless, anyProd := false, false
		for i := range c.pools {
			groups = append(groups, grp{&c.pools[i], c18mOracleCfg(&c, &c.pools[i], false)})
			userSelectorless = userSelectorless || !c.pools[i].hasSel
		}
		for _, g := range groups {
			for d := 0; d < 3; d++ {
				anyProd = anyProd || g.oc.pct[d][2] >= 0 || g.oc.pct[d][3] >= 0
			}
		}

		rounds := r.Range(1, 3)
		if c.top.abn != 1 {
			rounds = r.Range(3, 7)
		}
		podID := 0
		phase := 0
		evictedAny := false
		gcfg := c18Cfg{}
		abnEff := c.top.abn // consecutiveAbnormalities of every pool of the document (inherited), default 5
		if abnEff <= 0 {
			abnEff = 5
		}
		overRounds := map[int]int{} // rounds so far in which the node was measured over some (prod) high threshold that applies to it
		for rd := 0; rd < rounds; rd++ {
			now := time.Now()
			c18GenRound(r, gcfg, rd, &phase, all, &podID, now, baseLister, base)
			ev.gone = map[*c18Pod]bool{}
			var k8sNodes []*corev1.Node
			var measured []*c18Node
			for _, nd := range all {
				for k, v := range labs[nd.id] {
					nd.obj.Labels[fmt.Sprintf("c18k%d", k)] = fmt.Sprintf("v%d", v)
				}
				for _, p := range nd.pods {
					p.s2, p.f1, p.f2 = p.s1, p.s1, p.s1
				}
				k8sNodes = append(k8sNodes, nd.obj)
				if nd.metricKind == 0 {
					measured = append(measured, nd)
				}
			}

			// ---- run the real code
			rec.evs, rec.on = nil, true
			panicked := h.Guard(func() { pl.Balance(ctx, k8sNodes) })
			rec.on = false
			segs := c18mSegments(rec.evs)

			// ---- ops
			h.Op("round %d 0", len(all))
			for _, nd := range all {
				var sel [][2]int
				for _, k := range []int{0, 1} {
					if v, ok := labs[nd.id][k]; ok {
						sel = append(sel, [2]int{k, v})
					}
				}
				h.Op("nlab %d %s", nd.id, c18mSelToks(sel))
			}
			for _, nd := range measured {
				h.Op("node %d %d %d %s %d %s %s", nd.id, vB(nd.unsched), vB(nd.noFit), vInts(nd.alloc[:]), nd.rawKind, vInts(nd.rawWire[:]), vInts(nd.sys[:]))
			}
			for _, nd := range measured {
				for _, p := range nd.pods {
					h.Op("pod %d %d %d %d %d %d %d %d %d %d %d %d", nd.id, p.id, p.ns, p.name, vB(p.prod), vB(p.f1), vB(p.f2), vB(p.evictOK), p.cls, p.prio, p.delCost, p.evCost)
				}
				for _, e := range nd.metrics {
					h.Op("metric %d %d %d %d %d", nd.id, e.ns, e.name, e.m[0], e.m[1])
				}
			}
			for si, sg := range segs {
				seen := map[*c18Pod]bool{}
				var ordNodes []int
				ordPods := map[int][]int64{}
				inOrd := map[int]bool{}
				for _, e := range sg.body {
					if e.node < 0 {
						continue
					}
					if e.kind == 3 {
						seen[e.pod] = true
					}
					if !inOrd[e.node] {
						inOrd[e.node] = true
						ordNodes = append(ordNodes, e.node)
					}
					if !seen[e.pod] {
						seen[e.pod] = true
						continue
					}
					dup := false
					for _, x := range ordPods[e.node] {
						dup = dup || x == int64(e.pod.id)
					}
					if !dup {
						ordPods[e.node] = append(ordPods[e.node], int64(e.pod.id))
					}
				}
				for _, id := range ordNodes {
					h.Op("porder %d %d %s", si, id, vInts(ordPods[id]))
				}
			}
			h.Op("mgo")

			// ---- observations
			if panicked {
				h.Obs("panic")
			}
			nEv := 0
			for si, sg := range segs {
				h.Obs("seg %d %s", si, vInts(sg.ids))
				for _, e := range sg.body {
					if e.kind == 3 {
						h.Obs("evict %d %d %d", e.pod.node, e.pod.id, vB(e.res))
						nEv++
					}
				}
			}
			c18EmitDets(h, 0, pl.nodeAnomalyDetectors)
			c18EmitDets(h, 1, pl.prodAnomalyDetectors)
			h.Obs("end")
			h.Tag(fmt.Sprintf("segments:%d", len(segs)))
			if nEv > 3 {
				h.Tag("evictions:4+")
			} else {
				h.Tag(fmt.Sprintf("evictions:%d", nEv))
			}

			// ---- oracle: running estimates per Balance call, across the pools
			byID := map[int]*c18Node{}
			for _, nd := range measured {
				byID[nd.id] = nd
			}
			est, pest := map[int][3]int64{}, map[int][3]int64{}
			moved := map[int]int{}
			movedInPass := [2]map[int]bool{{}, {}} // node -> something was moved away from it in a node pass / prod pass of an EARLIER pool of this call
			for _, nd := range measured {
				est[nd.id], pest[nd.id] = nd.usage, nd.prodUsage
			}
			for _, nd := range measured {
				ov := false
				for _, g := range groups {
					if (g.p.hasSel && !c18mMatches(g.p, labs[nd.id])) || g.oc.dev {
						continue
					}
					var hi, phi [3]int64
					for d := 0; d < 3; d++ {
						if g.oc.tracked(d) {
							hi[d], phi[d] = c18Qty(g.oc.oraclePct(d, 1), nd.cap[d]), c18Qty(g.oc.oraclePct(d, 3), nd.cap[d])
						}
					}
					ov = ov || g.oc.anyAbove(nd.usage, hi) || g.oc.anyAbove(nd.prodUsage, phi)
				}
				if ov {
					overRounds[nd.id]++
				}
			}
			counted := map[*c18Pod]bool{}
			seenNodeInSeg := map[int]int{} // node -> number of segments that evicted from it
			minIdx := 0
			for _, sg := range segs {
				segNodes := map[int]bool{}
				movedHere := [2]map[int]bool{{}, {}}
				// which pool-shaped groups of the document can have issued this segment: the pools run in document order
				// (implicit default pool first), each at most once, and a pool only takes nodes its selector matches
				var cands []grp
				first := -1
				for gi, g := range groups {
					if gi < minIdx {
						continue
					}
					ok := true
					for _, id := range sg.ids {
						ok = ok && (!g.p.hasSel || c18mMatches(g.p, labs[int(id)]))
					}
					if ok {
						cands = append(cands, g)
						if first < 0 {
							first = gi
						}
					}
				}
				if first >= 0 {
					minIdx = first + 1
				} else {
					cands = groups // the order premise does not hold (reported by the config harness): any group that matches the node
				}
				for _, e := range sg.body {
					if e.kind != 3 {
						continue
					}
					evictedAny = true
					p := e.pod
					nd := byID[p.node]
					if nd == nil {
						h.Fail("C18:evict-unmeasured-node", "round %d: pod %d evicted from node %d which has no usable metric", rd, p.id, p.node)
						continue
					}
					if !segNodes[nd.id] {
						segNodes[nd.id] = true
						seenNodeInSeg[nd.id]++
						if seenNodeInSeg[nd.id] == 2 {
							h.Tag("node-evicted-from-by-two-pools")
						}
					}
					if abnEff >= 2 && overRounds[nd.id] <= abnEff-1 && overRounds[nd.id] >= 1 {
						// anomaly gating over several pools: the detectors are shared by all pools (keyed by node name); before fix
						// 3c8e41b a pool that left through the "nobody anomalous yet" exit did not mark its nodes processed, so
						// overlapping pools gave ONE abnormal mark PER POOL per Balance call (VERIF_C18_MP_ANOMALY=0 turns the
						// failure into a tag)
						h.Tag("anomaly:evicted-after-fewer-over-threshold-rounds-than-required(marks-per-pool)")
						if os.Getenv("VERIF_C18_MP_ANOMALY") != "0" {
							h.Fail("C18:anomaly-marked-once-per-pool", "round %d: pod %d evicted from node %d which was over a high threshold that applies to it in only %d Balance call(s) so far; consecutiveAbnormalities=%d for every pool (overlapping pools mark the shared detector once each per call)",
								rd, p.id, nd.id, overRounds[nd.id], abnEff)
						}
					}
					if !p.s1 || (goneMode && ev.goneBefore(p, counted)) {
						h.Fail("C18:filter-not-passed", "round %d: pod %d evicted although the evictor's filter rejects it at that moment", rd, p.id)
					}
					justified, unknown, nodeLevelSource := false, false, false
					var highs []string
					for _, g := range cands {
						if g.p.hasSel && !c18mMatches(g.p, labs[nd.id]) {
							continue
						}
						if g.oc.dev {
							unknown = true // deviation thresholds depend on the pool's node set
							continue
						}
						var hi, phi [3]int64
						for d := 0; d < 3; d++ {
							if g.oc.tracked(d) {
								hi[d], phi[d] = c18Qty(g.oc.oraclePct(d, 1), nd.cap[d]), c18Qty(g.oc.oraclePct(d, 3), nd.cap[d])
							}
						}
						highs = append(highs, fmt.Sprintf("%v/prod %v", hi, phi))
						if g.oc.anyAbove(est[nd.id], hi) || (p.prod && g.oc.anyAbove(pest[nd.id], phi)) {
							justified = true
						}
						nodeLevelSource = nodeLevelSource || g.oc.anyAbove(nd.usage, hi)
					}
					if !justified && !unknown {
						what := fmt.Sprintf("round %d: pod %d evicted from node %d whose estimated usage %v / prod %v (measured %v / prod %v, %d pod(s) moved away earlier in this Balance call) was already at or under every high threshold that applies to it (node-level/prod per pool-shaped group of the document: %v)",
							rd, p.id, nd.id, est[nd.id], pest[nd.id], nd.usage, nd.prodUsage, moved[nd.id], highs)
						switch {
						case moved[nd.id] == 0:
							h.Fail("C18:evict-not-over-high", "round %d: pod %d evicted from node %d whose measured usage %v / prod %v is above no high threshold that applies to it (%v)",
								rd, p.id, nd.id, est[nd.id], pest[nd.id], highs)
						// which defect lets a drained node be balanced again (names the failure; all of them are failures):
						case movedInPass[0][nd.id] && userSelectorless:
							// drained in a NODE pass, so it is in processedNodes: only a pool without selector that ignores them takes it
							h.Fail("C18:evict-after-relieved:user-pool-without-selector", "%s", what)
						case movedInPass[0][nd.id]:
							h.Fail("C18:evict-after-relieved", "%s", what)
						case movedInPass[1][nd.id] && userSelectorless && len(sg.ids) == len(all):
							h.Fail("C18:evict-after-relieved:user-pool-without-selector", "%s", what)
						case movedInPass[1][nd.id]:
							h.Fail("C18:evict-after-relieved:prod-source-not-marked-processed", "%s", what)
						// the pass of the earlier evictions is unknown (eviction reason not understood): by the shape of the document
						case !nodeLevelSource:
							// the node was never over a node-level high threshold: everything moved away from it went in prod passes
							h.Fail("C18:evict-after-relieved:prod-source-not-marked-processed", "%s", what)
						case userSelectorless:
							h.Fail("C18:evict-after-relieved:user-pool-without-selector", "%s", what)
						case anyProd && !c18mPairwiseDisjoint(&c):
							h.Fail("C18:evict-after-relieved:prod-source-not-marked-processed", "%s", what)
						default:
							h.Fail("C18:evict-after-relieved", "%s", what)
						}
					}
					if e.res && p.hasMetric && !counted[p] {
						counted[p] = true
						moved[nd.id]++
						if e.pass >= 0 {
							movedHere[e.pass][nd.id] = true
						}
						q := [3]int64{p.m[0], p.m[1], 1}
						u, pu := est[nd.id], pest[nd.id]
						for d := 0; d < 3; d++ {
							u[d] -= q[d]
							if p.prod {
								pu[d] -= q[d]
							}
						}
						est[nd.id], pest[nd.id] = u, pu
					} else if e.res {
						counted[p] = true
					}
				}
				for k := 0; k < 2; k++ {
					for id := range movedHere[k] {
						movedInPass[k][id] = true
					}
				}
			}
		}
		if evictedAny {
			h.Nontrivial()
		}
		h.End()
	}
	h.Close("a generated v1alpha2 LowNodeLoadArgs document (top-level thresholds x 0-3 labelled nodePools entries; selectors disjoint / overlapping / " +
		"empty; inherited threshold maps; one anomaly condition for the document) decoded through the descheduler scheme, then 1-7 Balance calls of the " +
		"real plugin over 3-6 labelled nodes (node 0 tends to be overloaded); the evictor's filter rejects a pod once it was evicted in this call (3/4 of the " +
		"cases); NodeFit off. VERIF_C18_MP=all additionally generates nodePools entries WITHOUT selector and prod thresholds with overlapping pools (both " +
		"re-process a drained node on the unchanged tree). non-trivial = at least one Evict call; distinct by op lines")
}

// goneBefore: the pod was evicted successfully earlier in this Balance call
func (e *c18mEvictor) goneBefore(p *c18Pod, counted map[*c18Pod]bool) bool { return counted[p] }

// every two pool-shaped groups of the document select disjoint node sets by construction (different values of key 0)
func c18mPairwiseDisjoint(c *c18mCfg) bool {
	seen := map[int]bool{}
	gs := []*c18mPool{&c.top}
	for i := range c.pools {
		gs = append(gs, &c.pools[i])
	}
	for _, g := range gs {
		if !g.hasSel || len(g.sel) != 1 || g.sel[0][0] != 0 || seen[g.sel[0][1]] {
			return false
		}
		seen[g.sel[0][1]] = true
	}
	return true
}

// TestVerifC18ConfigExhaustive (thorough tier): EXHAUSTIVE small scope for defaulting + conversion of one nodePools entry
// against the top level: low / high maps of both in {absent, empty, {cpu: v}}, anomaly condition of both in
// {absent, {}, {norm}, {abn}, {abn, norm}}, weights of both in {absent, empty, {cpu: 0}}, the entry's selector in
// {absent, empty, one label}.
func TestVerifC18ConfigExhaustive(t *testing.T) {
	h := vOpen("C18")
	if h == nil {
		t.Skip("VERIF_OUT not set")
	}
	maps := func(k int, v int64) map[int]int64 {
		switch k {
		case 0:
			return nil
		case 1:
			return map[int]int64{}
		}
		return map[int]int64{0: v}
	}
	conds := [][2]int{{-1, -1}, {0, 0}, {0, 1}, {2, 0}, {2, 1}}
	wts := func(k int) map[int]int64 {
		switch k {
		case 0:
			return nil
		case 1:
			return map[int]int64{}
		}
		return map[int]int64{0: 0}
	}
	dims := []int{3, 3, 3, 3, 5, 5, 3, 3, 3}
	n := 1
	for _, d := range dims {
		n *= d
	}
	for idx := 0; idx < n; idx++ {
		r := h.Begin(idx)
		if r == nil {
			continue
		}
		x := idx
		var v [9]int
		for i, d := range dims {
			v[i] = x % d
			x /= d
		}
		c := c18mCfg{dry: -1, non: -1, nodeFit: -1, exp: -1, yaml: idx%2 == 1}
		c.top = c18mPool{dev: -1, abn: conds[v[4]][0], norm: conds[v[4]][1], wts: wts(v[6])}
		c.top.pct[0], c.top.pct[1] = maps(v[0], 100), maps(v[1], 200)
		p := c18mPool{name: 1, abn: conds[v[5]][0], norm: conds[v[5]][1], wts: wts(v[7])}
		p.pct[0], p.pct[1] = maps(v[2], 120), maps(v[3], 180)
		switch v[8] {
		case 1:
			p.hasSel = true
		case 2:
			p.hasSel, p.sel = true, [][2]int{{0, 1}}
		}
		c.pools = []c18mPool{p}
		c18mEmitCfg(h, &c)
		h.Op("mconv")
		doc, err := c18mDoc(&c)
		if err != nil {
			t.Fatalf("case %d: building the document: %v", idx, err)
		}
		args, err := c18mDecode(doc)
		if err != nil {
			h.Obs("decode-error")
			h.End()
			continue
		}
		c18mObserveArgs(h, args)
		valid := validation.ValidateLowLoadUtilizationArgs(nil, args) == nil
		h.Obs("cvalid %d", vB(valid))
		c18mConfigOracle(h, &c, args)
		h.Tag(fmt.Sprintf("valid:%d", vB(valid)))
		h.Nontrivial()
		h.End()
	}
	h.Close("EXHAUSTIVE: top level x one nodePools entry: low / high maps each absent / empty / {cpu}, anomaly condition each absent / {} / {norm} / " +
		"{abn} / {abn, norm}, weights each absent / empty / {cpu: 0}, the entry's selector absent / empty / one label; JSON and YAML alternate; every case non-trivial")
}

// TestVerifC18FilterNodesExhaustive: EXHAUSTIVE small scope for filterNodes: 3 nodes with labels in
// {none, k0=v0, k0=v1, k0=v0+k1=v0} x selector in {nil, empty, k0=v0, k0=v1, k1=v0, k0=v0+k1=v0} x every processed set.
func TestVerifC18FilterNodesExhaustive(t *testing.T) {
	h := vOpen("C18")
	if h == nil {
		t.Skip("VERIF_OUT not set")
	}
	labSets := [][][2]int{{}, {{0, 0}}, {{0, 1}}, {{0, 0}, {1, 0}}}
	sels := [][][2]int{nil, {}, {{0, 0}}, {{0, 1}}, {{1, 0}}, {{0, 0}, {1, 0}}}
	n := 4 * 4 * 4 * len(sels) * 8
	for idx := 0; idx < n; idx++ {
		r := h.Begin(idx)
		if r == nil {
			continue
		}
		x := idx
		var nodes []*corev1.Node
		var labs [3][][2]int
		for i := 0; i < 3; i++ {
			labs[i] = labSets[x%4]
			x /= 4
			nd := &corev1.Node{}
			nd.Name = fmt.Sprintf("n%d", i)
			nd.Labels = map[string]string{"other": "x"}
			for _, kv := range labs[i] {
				nd.Labels[fmt.Sprintf("c18k%d", kv[0])] = fmt.Sprintf("v%d", kv[1])
			}
			nodes = append(nodes, nd)
			h.Op("nlab %d %s", i, c18mSelToks(labs[i]))
		}
		si := x % len(sels)
		x /= len(sels)
		var proc []int64
		processed := map[string]bool{}
		for i := 0; i < 3; i++ {
			if x&(1<<i) != 0 {
				proc = append(proc, int64(i))
				processed[fmt.Sprintf("n%d", i)] = true
			}
		}
		selTok := "-1"
		pool := c18mPool{}
		if si > 0 {
			pool.hasSel, pool.sel = true, sels[si]
			selTok = c18mSelToks(sels[si])
		}
		h.Op("fnodes %d %s %s", len(proc), vInts(proc), selTok)
		var sel *metav1.LabelSelector
		if si > 0 {
			sel = &metav1.LabelSelector{}
			if len(sels[si]) > 0 {
				sel.MatchLabels = map[string]string{}
				for _, kv := range sels[si] {
					sel.MatchLabels[fmt.Sprintf("c18k%d", kv[0])] = fmt.Sprintf("v%d", kv[1])
				}
			}
		}
		ps := sets.NewString()
		for k := range processed {
			ps.Insert(k)
		}
		got, err := filterNodes(sel, nodes, ps)
		if err != nil {
			h.Obs("fn-error")
			h.End()
			continue
		}
		var ids []int64
		for _, nd := range got {
			var id int
			fmt.Sscanf(nd.Name, "n%d", &id)
			ids = append(ids, int64(id))
		}
		h.Obs("fn %s", vInts(ids))
		// oracle: a node already balanced in this Balance call is never handed to another pool; only matching nodes are
		for _, id := range ids {
			if processed[fmt.Sprintf("n%d", id)] {
				h.Fail("C18:pool-takes-processed-node", "filterNodes hands node %d to a pool (selector nil: %v) although it is in processedNodes", id, si == 0)
			}
			lab := map[int]int{}
			for _, kv := range labs[id] {
				lab[kv[0]] = kv[1]
			}
			if !c18mMatches(&pool, lab) {
				h.Fail("C18:pool-takes-unselected-node", "filterNodes hands node %d to a pool whose selector does not match its labels", id)
			}
		}
		h.Tag(fmt.Sprintf("selector:%d", si))
		h.Tag(fmt.Sprintf("taken:%d", len(ids)))
		if len(proc) > 0 {
			h.Nontrivial()
		}
		h.End()
	}
	h.Close("EXHAUSTIVE: 3 nodes with labels in {none, k0=v0, k0=v1, k0=v0+k1=v0} x selector in {nil, empty, k0=v0, k0=v1, k1=v0, k0=v0+k1=v0} x every " +
		"processedNodes set, through the real filterNodes; non-trivial = processedNodes not empty")
}
