//go:build verif

package evictions

import (
	"context"
	"encoding/json"
	"errors"
	"fmt"
	"net/http"
	"net/http/httptest"
	"sort"
	"strings"
	"sync"
	"testing"
	"time"

	corev1 "k8s.io/api/core/v1"
	policy "k8s.io/api/policy/v1"
	apierrors "k8s.io/apimachinery/pkg/api/errors"
	metav1 "k8s.io/apimachinery/pkg/apis/meta/v1"
	"k8s.io/apimachinery/pkg/runtime/schema"
	clientset "k8s.io/client-go/kubernetes"
	"k8s.io/client-go/kubernetes/fake"
	policyv1client "k8s.io/client-go/kubernetes/typed/policy/v1"
	restclient "k8s.io/client-go/rest"
	"k8s.io/client-go/tools/events"

	"github.com/koordinator-sh/koordinator/pkg/descheduler/framework"
)

// C16 harness "evict": histories of eviction requests against the REAL PodEvictor and the REAL
// EvictionLimiter, sequentially (exact comparison with the Lean model) and from N goroutines that
// are held inside the eviction API call (barrier) so that every caller that can pass the limit check
// before the first one counts does so.  The API server is a thin clientset wrapper that records the
// eviction requests it receives and answers from a script (ok / 429 / 404 / 500).

type c16Rec struct {
	mu       sync.Mutex
	okCalls  []string       // "ns/name" of eviction requests answered with success
	allCalls int            // every request received
	script   map[string]int // pod name -> answer kind, see c16AnswerCodes
	barrierN int
	arrived  int
	release  chan struct{}
	timeout  time.Duration
}

func (r *c16Rec) arm(n int) {
	r.mu.Lock()
	r.barrierN, r.arrived, r.release = n, 0, make(chan struct{})
	r.mu.Unlock()
}

func (r *c16Rec) disarm() {
	r.mu.Lock()
	r.barrierN = 0
	r.mu.Unlock()
}

// answer kinds of the scripted API server.  Granted (the eviction is issued) = a 2xx answer.
//   0: 201 Created   13: 200 OK   12: 200 whose body is a Status{Failure} (client-go's Do().Error() looks only at the code)
//   1: 429  2: 404  3: 500  4: 403  5: 409  6: 400  7: 503  8: 504  9: 401  10: 422  14: 300  15: 410  16: 502
//   11: no HTTP answer at all (connection dropped / transport error)
var c16AnswerCodes = map[int]int{0: 201, 13: 200, 12: 200, 1: 429, 2: 404, 3: 500, 4: 403, 5: 409, 6: 400, 7: 503, 8: 504, 9: 401, 10: 422,
	14: 300, 15: 410, 16: 502, 11: 0}

func c16Granted(kind int) bool { return kind == 0 || kind == 12 || kind == 13 }

// enter: one eviction request arrived; returns the scripted answer kind after the barrier (if armed)
func (r *c16Rec) enter(name string) int {
	r.mu.Lock()
	r.allCalls++
	kind := r.script[name]
	n, rel := r.barrierN, r.release
	if n > 0 {
		r.arrived++
		if r.arrived == n {
			close(rel)
		}
	}
	r.mu.Unlock()
	if n > 0 {
		select {
		case <-rel:
		case <-time.After(r.timeout):
		}
	}
	return kind
}

func (r *c16Rec) granted(ns, name string) {
	r.mu.Lock()
	r.okCalls = append(r.okCalls, ns+"/"+name)
	r.mu.Unlock()
}

// the error value client-go hands to the caller for an answer kind (wrapper mode: no HTTP involved)
func c16ErrorFor(kind int, name string) error {
	gr := schema.GroupResource{Resource: "pods"}
	switch kind {
	case 1:
		return apierrors.NewTooManyRequests("verif", 1)
	case 2:
		return apierrors.NewNotFound(gr, name)
	case 3:
		return apierrors.NewInternalError(fmt.Errorf("verif"))
	case 4:
		return apierrors.NewForbidden(gr, name, fmt.Errorf("verif"))
	case 5:
		return apierrors.NewConflict(gr, name, fmt.Errorf("verif"))
	case 6:
		return apierrors.NewBadRequest("verif")
	case 7:
		return apierrors.NewServiceUnavailable("verif")
	case 8:
		return apierrors.NewTimeoutError("verif", 1)
	case 9:
		return apierrors.NewUnauthorized("verif")
	case 10:
		return apierrors.NewInvalid(schema.GroupKind{Kind: "Eviction"}, name, nil)
	case 11:
		return errors.New("verif: connection reset by peer")
	case 14, 15, 16:
		return apierrors.NewGenericServerResponse(c16AnswerCodes[kind], "post", gr, name, "verif", 0, true)
	}
	return nil
}

func (r *c16Rec) evict(ev *policy.Eviction) error {
	kind := r.enter(ev.Name)
	if !c16Granted(kind) {
		return c16ErrorFor(kind, ev.Name)
	}
	r.granted(ev.Namespace, ev.Name)
	return nil
}

// HTTP mode: a real client-go clientset talks to this server, so the mapping from status codes (and bodies) to the error
// values that EvictPod inspects is client-go's own.  bodyless: error answers carry no Status object (reason derived from the code).
func c16HTTPServer(rec *c16Rec, bodyless bool) (*httptest.Server, clientset.Interface) {
	srv := httptest.NewServer(http.HandlerFunc(func(w http.ResponseWriter, req *http.Request) {
		parts := strings.Split(strings.Trim(req.URL.Path, "/"), "/") // api v1 namespaces <ns> pods <name> eviction
		if req.Method != http.MethodPost || len(parts) != 7 || parts[6] != "eviction" {
			http.Error(w, "verif: unexpected request "+req.Method+" "+req.URL.Path, http.StatusTeapot)
			return
		}
		ns, name := parts[3], parts[5]
		kind := rec.enter(name)
		code := c16AnswerCodes[kind]
		if code == 0 {
			if hj, ok := w.(http.Hijacker); ok {
				if conn, _, err := hj.Hijack(); err == nil {
					conn.Close()
				}
			}
			return
		}
		var st metav1.Status
		switch {
		case kind == 12:
			st = metav1.Status{Status: metav1.StatusFailure, Reason: metav1.StatusReasonInternalError, Code: 500, Message: "verif: failure body under 200"}
		case code < 300:
			st = metav1.Status{Status: metav1.StatusSuccess, Code: int32(code)}
		default:
			var se *apierrors.StatusError
			if errors.As(c16ErrorFor(kind, name), &se) {
				st = se.ErrStatus
			}
		}
		if c16Granted(kind) {
			rec.granted(ns, name)
		}
		if bodyless && code >= 300 {
			w.WriteHeader(code)
			return
		}
		st.TypeMeta = metav1.TypeMeta{Kind: "Status", APIVersion: "v1"}
		b, _ := json.Marshal(&st)
		w.Header().Set("Content-Type", "application/json")
		w.WriteHeader(code)
		_, _ = w.Write(b)
	}))
	cs, err := clientset.NewForConfig(&restclient.Config{Host: srv.URL, QPS: -1})
	if err != nil {
		panic(err)
	}
	return srv, cs
}

type c16Clientset struct {
	clientset.Interface
	rec *c16Rec
}

func (c *c16Clientset) PolicyV1() policyv1client.PolicyV1Interface {
	return &c16Policy{PolicyV1Interface: c.Interface.PolicyV1(), rec: c.rec}
}

type c16Policy struct {
	policyv1client.PolicyV1Interface
	rec *c16Rec
}

func (p *c16Policy) Evictions(namespace string) policyv1client.EvictionInterface {
	return &c16Evictions{rec: p.rec}
}

type c16Evictions struct{ rec *c16Rec }

func (e *c16Evictions) Evict(ctx context.Context, ev *policy.Eviction) error { return e.rec.evict(ev) }

func c16NodeName(k int) string {
	if k == 0 {
		return ""
	}
	return fmt.Sprintf("n%d", k)
}
func c16NsName(k int) string { return fmt.Sprintf("s%d", k) }

func c16Pod(seq, node, ns int) *corev1.Pod {
	return &corev1.Pod{
		ObjectMeta: metav1.ObjectMeta{Name: fmt.Sprintf("p%d", seq), Namespace: c16NsName(ns), UID: "u"},
		Spec:       corev1.PodSpec{NodeName: c16NodeName(node)},
	}
}

func c16Cap(r *vRand) int {
	switch r.Intn(6) {
	case 0:
		return -1 // nil pointer
	case 1:
		return 0
	default:
		return r.Range(1, 3)
	}
}

func c16Ptr(c int) *uint {
	if c < 0 {
		return nil
	}
	u := uint(c)
	return &u
}

const c16Nodes, c16Nss = 3, 3 // node ids 0..3 (0 = ""), namespace ids 0..2

// independent tally of what the fake API server granted
type c16Tally struct {
	node  map[int]int
	ns    map[int]int
	total int
}

func c16NewTally() *c16Tally { return &c16Tally{node: map[int]int{}, ns: map[int]int{}} }
func (t *c16Tally) add(node, ns int) {
	if node != 0 {
		t.node[node]++
	}
	t.ns[ns]++
	t.total++
}

func c16ShowMap(m map[int]int) string {
	ks := []int{}
	for k, v := range m {
		if v != 0 {
			ks = append(ks, k)
		}
	}
	sort.Ints(ks)
	var b strings.Builder
	for _, k := range ks {
		fmt.Fprintf(&b, " %d %d", k, m[k])
	}
	return b.String()
}

func c16Ctr(total int, node, ns map[int]int) string {
	return fmt.Sprintf("t %d n%s s%s", total, c16ShowMap(node), c16ShowMap(ns))
}

// counters as REPORTED through the public getters
func c16PEReported(pe *PodEvictor) (int, map[int]int, map[int]int) {
	node, ns := map[int]int{}, map[int]int{}
	for k := 0; k <= c16Nodes; k++ {
		node[k] = int(pe.NodeEvicted(c16NodeName(k)))
	}
	for k := 0; k < c16Nss; k++ {
		ns[k] = int(pe.NamespaceEvicted(c16NsName(k)))
	}
	return pe.TotalEvicted(), node, ns
}

func c16ELReported(el *EvictionLimiter) (int, map[int]int, map[int]int) {
	node, ns := map[int]int{}, map[int]int{}
	for k := 0; k <= c16Nodes; k++ {
		node[k] = int(el.NodeEvicted(c16NodeName(k)))
	}
	for k := 0; k < c16Nss; k++ {
		ns[k] = int(el.NamespaceEvicted(c16NsName(k)))
	}
	return int(el.TotalEvicted()), node, ns
}

func c16SameMap(a, b map[int]int) bool {
	for k, v := range a {
		if b[k] != v {
			return false
		}
	}
	for k, v := range b {
		if a[k] != v {
			return false
		}
	}
	return true
}

// oracle: granted evictions within the caps, reported counters == granted evictions
func c16CheckCaps(h *vHarness, who string, tl *c16Tally, capNode, capNs, capTotal int) {
	c16CheckCapsFp(h, "C16:"+who+"-cap-exceeded", tl, capNode, capNs, capTotal)
}

func c16CheckCapsFp(h *vHarness, fp string, tl *c16Tally, capNode, capNs, capTotal int) {
	for k, v := range tl.node {
		if capNode >= 0 && v > capNode {
			h.Fail(fp, "node %d: %d evictions issued, cap %d", k, v, capNode)
		}
	}
	for k, v := range tl.ns {
		if capNs >= 0 && v > capNs {
			h.Fail(fp, "namespace %d: %d evictions issued, cap %d", k, v, capNs)
		}
	}
	if capTotal >= 0 && tl.total > capTotal {
		h.Fail(fp, "total: %d evictions issued, cap %d", tl.total, capTotal)
	}
}

func c16CheckCounters(h *vHarness, who string, tl *c16Tally, total int, node, ns map[int]int) {
	if total != tl.total || !c16SameMap(node, tl.node) || !c16SameMap(ns, tl.ns) {
		h.Fail("C16:"+who+"-counter-mismatch", "reported %s, issued %s", c16Ctr(total, node, ns), c16Ctr(tl.total, tl.node, tl.ns))
	}
}

func TestVerifC16Evict(t *testing.T) {
	h := vOpen("C16")
	if h == nil {
		t.Skip("VERIF_OUT not set")
	}
	n := h.N(700, 6000)
	for idx := 0; idx < n; idx++ {
		r := h.Begin(idx)
		if r == nil {
			continue
		}
		switch {
		case idx%5 == 4:
			c16LimiterCase(h, r)
		default:
			// concurrency costs one barrier timeout per admitted call: keep it to a fraction of the cases
			c16PodEvictorCase(h, r, idx%20 == 0 || (h.Tier == "thorough" && idx%20 == 10))
		}
		h.End()
	}
	h.Close("one case = one history of 3-14 eviction requests over 4 node names (one empty) x 3 namespaces with caps in {nil,0,1,2,3}, " +
		"dry-run 1/6, scripted API answers 1/4 of the requests from every status class (200 / 201 / 200 with a failure body / 300 / 400 401 403 404 409 410 422 429 / 500 502 503 504 / " +
		"connection dropped), one third of the sequential cases through a real client-go clientset and an HTTP test server (error bodies present or absent); every 20th case adds N=2..16 goroutines held inside the API call; " +
		"every 5th case drives EvictionLimiter.AllowEvict/Done/Reset directly. Non-trivial = at least one refusal and one granted eviction")
}

func c16PodEvictorCase(h *vHarness, r *vRand, withConc bool) {
	dry := r.Chance(1, 6)
	capNode, capNs := c16Cap(r), c16Cap(r)
	if withConc {
		dry = false
	}
	rec := &c16Rec{script: map[string]int{}, timeout: 30 * time.Millisecond}
	var cs clientset.Interface = &c16Clientset{Interface: fake.NewSimpleClientset(), rec: rec}
	httpMode := !withConc && r.Chance(1, 3)
	if httpMode { // a real clientset against a scripted HTTP API server
		srv, real := c16HTTPServer(rec, r.Chance(1, 3))
		defer srv.Close()
		cs = real
	}
	h.Tag(fmt.Sprintf("pe:http=%d", vB(httpMode)))
	pe := NewPodEvictor(cs, &events.FakeRecorder{}, "policy/v1", dry, c16Ptr(capNode), c16Ptr(capNs))
	h.Op("pe %d %d %d", vB(dry), capNode, capNs)
	h.Tag(fmt.Sprintf("pe:capnode=%d", capNode))
	tl := c16NewTally()
	seq := 0
	refusals, grants := 0, 0
	steps := r.Range(3, 14)
	concAt := -1
	if withConc {
		concAt = r.Intn(steps)
	}
	for s := 0; s < steps; s++ {
		if s == concAt {
			c16ConcPE(h, r, pe, rec, tl, &seq, capNode, capNs)
			continue
		}
		node, ns := r.Intn(c16Nodes+1), r.Intn(c16Nss)
		if r.Chance(1, 2) { // concentrate on one node / namespace so that caps are reached
			node, ns = 1, 0
		}
		kind := 0
		if r.Chance(1, 4) {
			kind = r.Range(1, 16)
			if kind == 12 && !httpMode {
				kind = 13 // a failure body under a 2xx code only exists on the wire
			}
		} else if r.Chance(1, 8) {
			kind = 13
		}
		seq++
		pod := c16Pod(seq, node, ns)
		rec.script[pod.Name] = kind
		if !dry {
			h.Tag(fmt.Sprintf("ev:answer=%d", c16AnswerCodes[kind]))
		}
		before, okBefore := rec.allCalls, len(rec.okCalls)
		bt, bn, bs := c16PEReported(pe)
		var ok bool
		h.Op("ev %d %d %d", node, ns, vB(c16Granted(kind)))
		if h.Guard(func() { ok = pe.Evict(context.TODO(), pod, framework.EvictOptions{Reason: "verif"}) }) {
			h.Obs("panic")
			h.Fail("C16:panic", "PodEvictor.Evict panicked")
			return
		}
		called := rec.allCalls - before
		granted := len(rec.okCalls) - okBefore
		if granted > 0 {
			tl.add(node, ns)
			grants++
		}
		at, an, as := c16PEReported(pe)
		h.Obs("ev %d %d %s", vB(ok), vB(called > 0), c16Ctr(at, an, as))
		h.Tag(fmt.Sprintf("ev:ok=%d,called=%d", vB(ok), called))
		// ---- oracle
		if dry && called > 0 {
			h.Fail("C16:podevictor-dryrun-call", "dry-run issued %d API calls", called)
		}
		if !ok && called == 0 {
			refusals++
			if at != bt || !c16SameMap(an, bn) || !c16SameMap(as, bs) {
				h.Fail("C16:podevictor-refused-side-effect", "refused eviction changed the counters")
			}
		}
		if called > 1 {
			h.Fail("C16:podevictor-double-call", "%d API calls for one eviction", called)
		}
		if !dry && ok != (granted > 0) {
			h.Fail("C16:podevictor-result-wrong", "Evict returned %v but the API granted %d", ok, granted)
		}
		c16CheckCaps(h, "podevictor", tl, capNode, capNs, -1)
		c16CheckCounters(h, "podevictor", tl, at, an, as)
	}
	if refusals > 0 && grants > 0 {
		h.Nontrivial()
	}
}

// N goroutines evict at the same time.  The request set is chosen so that the outcome does not depend on
// the order in which the callers are served (identical pods, or only one kind of cap in force).
func c16ConcPE(h *vHarness, r *vRand, pe *PodEvictor, rec *c16Rec, tl *c16Tally, seq *int, capNode, capNs int) {
	n := r.Range(2, 16)
	type req struct{ node, ns int }
	reqs := make([]req, n)
	identical := (capNode >= 0 && capNs >= 0) || r.Bool()
	fixedNode, fixedNs := r.Range(1, c16Nodes), r.Intn(c16Nss)
	for i := range reqs {
		if identical {
			reqs[i] = req{fixedNode, fixedNs}
		} else {
			// vary only the dimension that is capped, so that the counters do not depend on who is admitted
			reqs[i] = req{fixedNode, fixedNs}
			if capNs < 0 {
				reqs[i].node = r.Range(1, 2)
			}
			if capNode < 0 {
				reqs[i].ns = r.Intn(2)
			}
		}
	}
	op := fmt.Sprintf("conc %d", n)
	pods := make([]*corev1.Pod, n)
	for i, q := range reqs {
		op += fmt.Sprintf(" %d %d", q.node, q.ns)
		*seq++
		pods[i] = c16Pod(*seq, q.node, q.ns)
	}
	h.Op("%s", op)
	h.Tag(fmt.Sprintf("conc:n=%d", n))
	before, okBefore := rec.allCalls, len(rec.okCalls)
	rec.arm(n)
	var wg sync.WaitGroup
	start := make(chan struct{})
	oks := make([]bool, n)
	for i := range pods {
		wg.Add(1)
		go func(i int) {
			defer wg.Done()
			<-start
			oks[i] = pe.Evict(context.TODO(), pods[i], framework.EvictOptions{Reason: "verif"})
		}(i)
	}
	close(start)
	wg.Wait()
	rec.disarm()
	succ := 0
	for i, ok := range oks {
		if ok {
			succ++
			tl.add(reqs[i].node, reqs[i].ns)
		}
	}
	calls := rec.allCalls - before
	granted := len(rec.okCalls) - okBefore
	at, an, as := c16PEReported(pe)
	h.Obs("conc %d %d %s", succ, calls, c16Ctr(at, an, as))
	if granted != succ {
		h.Fail("C16:podevictor-result-wrong", "%d callers succeeded, API granted %d", succ, granted)
	}
	c16CheckCaps(h, "podevictor", tl, capNode, capNs, -1)
	c16CheckCounters(h, "podevictor", tl, at, an, as)
}

func c16LimiterCase(h *vHarness, r *vRand) {
	capNode, capNs, capTotal := c16Cap(r), c16Cap(r), c16Cap(r)
	if r.Bool() {
		capTotal = r.Range(2, 6)
	}
	el := NewEvictionLimiter(c16Ptr(capNode), c16Ptr(capNs), c16Ptr(capTotal))
	h.Op("el %d %d %d", capNode, capNs, capTotal)
	tl := c16NewTally()
	seq := 0
	yes, no := 0, 0
	for s, steps := 0, r.Range(4, 16); s < steps; s++ {
		node, ns := r.Intn(c16Nodes+1), r.Intn(c16Nss)
		if r.Chance(1, 2) {
			node, ns = 1, 0
		}
		seq++
		pod := c16Pod(seq, node, ns)
		switch k := r.Intn(12); {
		case k == 0:
			h.Op("reset")
			el.Reset()
			tl = c16NewTally()
			at, an, as := c16ELReported(el)
			h.Obs("ctr %s", c16Ctr(at, an, as))
		default:
			h.Op("allow %d %d", node, ns)
			allowed := el.AllowEvict(pod)
			h.Obs("allow %d", vB(allowed))
			// oracle: allowed iff one more eviction stays within every cap that applies
			want := !(node != 0 && capNode >= 0 && tl.node[node]+1 > capNode) &&
				!(capNs >= 0 && tl.ns[ns]+1 > capNs) && !(capTotal >= 0 && tl.total+1 > capTotal)
			if allowed != want {
				h.Fail("C16:limiter-allow-wrong", "AllowEvict(node %d ns %d)=%v with counts %s caps %d/%d/%d",
					node, ns, allowed, c16Ctr(tl.total, tl.node, tl.ns), capNode, capNs, capTotal)
			}
			if allowed {
				yes++
			} else {
				no++
			}
			// the caller protocol: Done only after an allowed (and performed) eviction; sometimes the eviction fails
			if allowed && !r.Chance(1, 5) {
				h.Op("done %d %d", node, ns)
				el.Done(pod)
				tl.add(node, ns)
				at, an, as := c16ELReported(el)
				h.Obs("ctr %s", c16Ctr(at, an, as))
				c16CheckCaps(h, "limiter", tl, capNode, capNs, capTotal)
				c16CheckCounters(h, "limiter", tl, at, an, as)
			}
		}
	}
	h.Tag(fmt.Sprintf("el:captotal=%d", capTotal))
	if yes > 0 && no > 0 {
		h.Nontrivial()
	}
}
