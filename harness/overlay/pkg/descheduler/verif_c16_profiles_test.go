//go:build verif

package descheduler

import (
	"context"
	"fmt"
	"sync"
	"testing"
	"time"

	corev1 "k8s.io/api/core/v1"
	policyv1 "k8s.io/api/policy/v1"
	metav1 "k8s.io/apimachinery/pkg/apis/meta/v1"
	k8sruntime "k8s.io/apimachinery/pkg/runtime"
	"k8s.io/client-go/informers"
	"k8s.io/client-go/kubernetes/fake"
	clienttesting "k8s.io/client-go/testing"
	"k8s.io/client-go/tools/events"

	deschedulerconfig "github.com/koordinator-sh/koordinator/pkg/descheduler/apis/config"
	"github.com/koordinator-sh/koordinator/pkg/descheduler/evictions"
	"github.com/koordinator-sh/koordinator/pkg/descheduler/framework"
	frameworkruntime "github.com/koordinator-sh/koordinator/pkg/descheduler/framework/runtime"
)

// C16 harness "profiles": a REAL Descheduler built by New() with 2-4 profiles — so the frameworks, their proxies and the
// sharing of the ONE EvictionLimiter are exactly what descheduler.New -> profile.NewMap -> NewFramework make them — and
// evictions issued through `d.Profiles[name].Evictor()` of DIFFERENT profiles, sequentially and from several goroutines at
// once (what plugins with their own workers, e.g. the migration controller, do while another profile evicts).  The evict
// plugin (one object per framework, one shared barrier) holds a caller until as many callers are inside it as there are
// profiles involved, or 30 ms have passed, then posts the eviction to the fake clientset; a reactor on pods/eviction is
// the record of the evictions actually issued.  (The fake clientset serialises its reactors, so the barrier sits in the
// plugin, in front of the API call.)

const c16pcEvictName = "c16pc-evict"

type c16pcWorld struct {
	mu        sync.Mutex
	barrierN  int
	arrived   int
	release   chan struct{}
	timeout   time.Duration
	plugCalls int
	api       []string // names of the pods whose eviction reached the API server, in order
}

func (w *c16pcWorld) arm(n int) {
	w.mu.Lock()
	w.barrierN, w.arrived, w.release = n, 0, make(chan struct{})
	w.mu.Unlock()
}

func (w *c16pcWorld) disarm() {
	w.mu.Lock()
	w.barrierN = 0
	w.mu.Unlock()
}

type c16pcEvict struct {
	w      *c16pcWorld
	handle framework.Handle
}

func (p *c16pcEvict) Name() string { return c16pcEvictName }
func (p *c16pcEvict) Evict(ctx context.Context, pod *corev1.Pod, opts framework.EvictOptions) bool {
	w := p.w
	w.mu.Lock()
	w.plugCalls++
	n, rel := w.barrierN, w.release
	if n > 0 {
		w.arrived++
		if w.arrived == n {
			close(rel)
		}
	}
	w.mu.Unlock()
	if n > 0 {
		select {
		case <-rel:
		case <-time.After(w.timeout):
		}
	}
	err := p.handle.ClientSet().CoreV1().Pods(pod.Namespace).EvictV1(ctx, &policyv1.Eviction{
		ObjectMeta: metav1.ObjectMeta{Name: pod.Name, Namespace: pod.Namespace}})
	return err == nil
}

var _ framework.EvictPlugin = &c16pcEvict{}

func TestVerifC16Profiles(t *testing.T) {
	h := vOpen("C16")
	if h == nil {
		t.Skip("VERIF_OUT not set")
	}
	c16cyQuiet()
	n := h.N(60, 600)
	for idx := 0; idx < n; idx++ {
		r := h.Begin(idx)
		if r == nil {
			continue
		}
		c16pcCase(h, r, nil)
		h.End()
	}
	h.Close("one case = a real Descheduler built by New() with 2-4 profiles over one EvictionLimiter (half of the cases: exactly one of the " +
		"three caps set, below the number of profiles; otherwise caps as in harness cycle), then 2-7 steps: an eviction through the proxy of a random " +
		"profile (kept proxy or a fresh handle.Evictor()), or (1-2 times, in the tight half as the first step) 2-8 goroutines evicting at once " +
		"through proxies of at least two different profiles, identical pods or only the one capped dimension varied. Non-trivial = at least one " +
		"refusal and one granted eviction")
}

// c16pcForced fixes the whole case (exhaustive small-scope stream): profiles, caps, one burst of n identical pods (node 1,
// namespace 0) spread round-robin over the profiles as the first step, then one more eviction of the same kind of pod
type c16pcForced struct {
	nprof, capNode, capNs, capTotal, n int
	fresh                              bool
}

func TestVerifC16ProfilesExhaustive(t *testing.T) {
	h := vOpen("C16")
	if h == nil {
		t.Skip("VERIF_OUT not set")
	}
	c16cyQuiet()
	vals := []int{-1, 1, 2}
	idx := 0
	for _, cn := range vals {
		for _, cns := range vals {
			for _, ct := range vals {
				for nprof := 2; nprof <= 3; nprof++ {
					for n := 2; n <= 4; n++ {
						for f := 0; f < 2; f++ {
							r := h.Begin(idx)
							idx++
							if r == nil {
								continue
							}
							c16pcCase(h, r, &c16pcForced{nprof: nprof, capNode: cn, capNs: cns, capTotal: ct, n: n, fresh: f == 1})
							h.End()
						}
					}
				}
			}
		}
	}
	h.Close("exhaustive: every cap setting in {nil,1,2}^3 x 2-3 profiles x a burst of 2-4 goroutines (identical pods on node 1 / namespace 0, " +
		"round-robin over the profiles, kept proxies or a fresh handle.Evictor() each) as the first step of a real Descheduler built by New(), " +
		"then one more eviction of the same kind through profile 0. Non-trivial = at least one refusal and one granted eviction")
}

func c16pcCase(h *vHarness, r *vRand, fx *c16pcForced) {
	nprof := r.Range(2, 4)
	capNode, capNs, capTotal := c16cyCap(r), c16cyCap(r), c16cyCap(r)
	tight := r.Bool()
	if fx != nil {
		nprof, capNode, capNs, capTotal, tight = fx.nprof, fx.capNode, fx.capNs, fx.capTotal, false
	} else if tight {
		c := r.Range(1, nprof-1)
		capNode, capNs, capTotal = -1, -1, -1
		switch r.Intn(3) {
		case 0:
			capNode = c
		case 1:
			capNs = c
		default:
			capTotal = c
		}
	} else if r.Bool() {
		capTotal = r.Range(2, 6)
	}
	w := &c16pcWorld{timeout: 30 * time.Millisecond}
	podAt := map[string][2]int{} // pod name -> (node, namespace)

	var objs []k8sruntime.Object
	for k := 1; k <= c16cyNodes; k++ {
		objs = append(objs, &corev1.Node{ObjectMeta: metav1.ObjectMeta{Name: c16cyNodeName(k)}})
	}
	cs := fake.NewSimpleClientset(objs...)
	cs.PrependReactor("create", "pods", func(action clienttesting.Action) (bool, k8sruntime.Object, error) {
		if action.GetSubresource() != "eviction" {
			return false, nil, nil
		}
		name := "?"
		if ca, ok := action.(clienttesting.CreateAction); ok {
			if ev, ok := ca.GetObject().(*policyv1.Eviction); ok {
				name = ev.Name
			}
		}
		w.mu.Lock()
		w.api = append(w.api, name)
		w.mu.Unlock()
		return true, nil, nil
	})
	reg := frameworkruntime.Registry{}
	_ = reg.Register(c16pcEvictName, func(ctx context.Context, args k8sruntime.Object, hd framework.Handle) (framework.Plugin, error) {
		return &c16pcEvict{w: w, handle: hd}, nil
	})
	var profiles []deschedulerconfig.DeschedulerProfile
	for i := 0; i < nprof; i++ {
		profiles = append(profiles, deschedulerconfig.DeschedulerProfile{
			Name: fmt.Sprintf("c16pc-%d", i),
			Plugins: &deschedulerconfig.Plugins{
				Evict: deschedulerconfig.PluginSet{Enabled: []deschedulerconfig.Plugin{{Name: c16pcEvictName}}},
			},
		})
	}
	el := evictions.NewEvictionLimiter(c16cyPtr(capNode), c16cyPtr(capNs), c16cyPtr(capTotal))
	stop := make(chan struct{})
	defer close(stop)
	d, err := New(cs, informers.NewSharedInformerFactory(cs, 0), nil, func(string) events.EventRecorder { return &events.FakeRecorder{} }, stop,
		WithEvictionLimiter(el), WithDryRun(false), WithProfiles(profiles...), WithFrameworkOutOfTreeRegistry(reg))
	if err != nil {
		panic(fmt.Sprintf("c16pc: descheduler.New: %v", err))
	}
	fhs := make([]framework.Handle, nprof)
	kept := make([]framework.Evictor, nprof)
	for i := range fhs {
		fhs[i] = d.Profiles[profiles[i].Name]
		if fhs[i] == nil {
			panic("c16pc: profile not built")
		}
		kept[i] = fhs[i].Evictor()
	}
	distinct := map[framework.Handle]bool{}
	for _, x := range fhs {
		distinct[x] = true
	}
	h.Tag(fmt.Sprintf("pc:profiles=%d,frameworks=%d,tight=%d", nprof, len(distinct), vB(tight)))

	h.Op("cy 0 %d %d %d", capNode, capNs, capTotal)
	h.Op("pxm %d", nprof)
	seq, refusals, grants := 0, 0, 0
	// independent tally: what reached the API server
	tally := func() *c16cyTally {
		tl := c16cyNewTally()
		w.mu.Lock()
		for _, nm := range w.api {
			at := podAt[nm]
			tl.add(at[0], at[1])
		}
		w.mu.Unlock()
		return tl
	}
	check := func(fp string) bool {
		tl := tally()
		bad := false
		for k, v := range tl.node {
			if capNode >= 0 && v > capNode {
				h.Fail(fp, "node %d: %d evictions issued, cap %d", k, v, capNode)
				bad = true
			}
		}
		for k, v := range tl.ns {
			if capNs >= 0 && v > capNs {
				h.Fail(fp, "namespace %d: %d evictions issued, cap %d", k, v, capNs)
				bad = true
			}
		}
		if capTotal >= 0 && tl.total > capTotal {
			h.Fail(fp, "total: %d evictions issued, cap %d", tl.total, capTotal)
			bad = true
		}
		at, an, as := c16cyReported(el)
		if at != tl.total || !c16cySameMap(an, tl.node) || !c16cySameMap(as, tl.ns) {
			h.Fail("C16:profiles-counter-mismatch", "limiter reports %s, issued %s", c16cyCtr(at, an, as), c16cyCtr(tl.total, tl.node, tl.ns))
			bad = true
		}
		return bad
	}

	steps := r.Range(2, 7)
	conc := map[int]bool{r.Intn(steps): true}
	if tight || r.Bool() {
		conc[0] = true
	}
	if fx != nil {
		steps, conc = 2, map[int]bool{0: true}
	}
	for s := 0; s < steps; s++ {
		if !conc[s] {
			node, ns := r.Intn(c16cyNodes+1), r.Intn(c16cyNss)
			if r.Chance(1, 2) {
				node, ns = 1, 0
			}
			fresh := r.Bool()
			k := r.Intn(nprof)
			if fx != nil {
				node, ns, fresh, k = 1, 0, fx.fresh, 0
			}
			seq++
			pod := c16cyPod(seq, node, ns)
			podAt[pod.Name] = [2]int{node, ns}
			ev := kept[k]
			if fresh {
				ev = fhs[k].Evictor()
			}
			before := w.plugCalls
			bt, bn, bs := c16cyReported(el)
			var ok bool
			h.Op("pev %d %d 1 %d %d", node, ns, vB(fresh), k)
			if h.Guard(func() { ok = ev.Evict(context.TODO(), pod, framework.EvictOptions{Reason: "verif"}) }) {
				h.Obs("panic")
				h.Fail("C16:panic", "Evict through profile %d panicked", k)
				return
			}
			called := w.plugCalls - before
			at, an, as := c16cyReported(el)
			h.Obs("ev %d %d %s", vB(ok), vB(called > 0), c16cyCtr(at, an, as))
			h.Tag(fmt.Sprintf("pc:ev:ok=%d", vB(ok)))
			if ok {
				grants++
			} else {
				refusals++
				if called == 0 && (at != bt || !c16cySameMap(an, bn) || !c16cySameMap(as, bs)) {
					h.Fail("C16:proxy-refused-side-effect", "refused eviction changed the counters")
				}
			}
			if check("C16:profiles-cap-exceeded-sequential") {
				return
			}
			continue
		}
		// ---- burst
		n := r.Range(2, 8)
		fresh := r.Bool()
		type req struct{ fw, node, ns int }
		reqs := make([]req, n)
		capsSet := 0
		for _, c := range []int{capNode, capNs, capTotal} {
			if c >= 0 {
				capsSet++
			}
		}
		identical := capsSet >= 2 || r.Bool()
		fixedNode, fixedNs := r.Range(1, c16cyNodes), r.Intn(c16cyNss)
		if r.Bool() {
			fixedNode, fixedNs = 1, 0
		}
		if fx != nil {
			n, fresh, identical, fixedNode, fixedNs = fx.n, fx.fresh, true, 1, 0
			reqs = make([]req, n)
		}
		perm := r.Perm(nprof)
		used := map[int]bool{}
		for i := range reqs {
			k := perm[i%nprof]
			if i >= 2 && r.Bool() {
				k = r.Intn(nprof)
			}
			if fx != nil {
				k = i % nprof
			}
			used[k] = true
			reqs[i] = req{k, fixedNode, fixedNs}
			if !identical {
				if capNs < 0 && capTotal < 0 {
					reqs[i].node = r.Range(1, 2)
				}
				if capNode < 0 && capTotal < 0 {
					reqs[i].ns = r.Intn(2)
				}
			}
		}
		op := fmt.Sprintf("pconcm %d %d", vB(fresh), n)
		pods := make([]*corev1.Pod, n)
		for i, q := range reqs {
			op += fmt.Sprintf(" %d %d %d", q.fw, q.node, q.ns)
			seq++
			pods[i] = c16cyPod(seq, q.node, q.ns)
			podAt[pods[i].Name] = [2]int{q.node, q.ns}
		}
		h.Op("%s", op)
		h.Tag(fmt.Sprintf("pc:burst:fresh=%d,profiles=%d", vB(fresh), len(used)))
		before := w.plugCalls
		w.arm(len(used))
		var wg sync.WaitGroup
		start := make(chan struct{})
		oks := make([]bool, n)
		for i := range pods {
			wg.Add(1)
			go func(i int) {
				defer wg.Done()
				<-start
				ev := kept[reqs[i].fw]
				if fresh {
					ev = fhs[reqs[i].fw].Evictor()
				}
				oks[i] = ev.Evict(context.TODO(), pods[i], framework.EvictOptions{Reason: "verif"})
			}(i)
		}
		close(start)
		wg.Wait()
		w.disarm()
		succ := 0
		for _, ok := range oks {
			if ok {
				succ++
			}
		}
		if succ > 0 {
			grants++
		}
		if succ < n {
			refusals++
		}
		at, an, as := c16cyReported(el)
		h.Obs("conc %d %d %s", succ, w.plugCalls-before, c16cyCtr(at, an, as))
		h.Tag("pc:burst:admitted=" + []string{"none", "some", "all"}[vB(succ > 0)+vB(succ == n)])
		if check("C16:profiles-cap-exceeded-across-profiles") {
			return
		}
	}
	if refusals > 0 && grants > 0 {
		h.Nontrivial()
	}
}
