//go:build verif

package arbitrator

import (
	"context"
	"flag"
	"fmt"
	"io"
	"os"
	"sync"
	"testing"
	"time"

	corev1 "k8s.io/api/core/v1"
	apierrors "k8s.io/apimachinery/pkg/api/errors"
	metav1 "k8s.io/apimachinery/pkg/apis/meta/v1"
	"k8s.io/apimachinery/pkg/runtime"
	"k8s.io/apimachinery/pkg/types"
	clientgoscheme "k8s.io/client-go/kubernetes/scheme"
	"k8s.io/client-go/tools/events"
	"k8s.io/client-go/util/workqueue"
	"k8s.io/klog/v2"
	"sigs.k8s.io/controller-runtime/pkg/client"
	"sigs.k8s.io/controller-runtime/pkg/client/fake"
	"sigs.k8s.io/controller-runtime/pkg/event"
	"sigs.k8s.io/controller-runtime/pkg/reconcile"

	"github.com/koordinator-sh/koordinator/apis/scheduling/v1alpha1"
)

// C17 harness "arbitrator": the arbitrator's side of "a job that has reached succeeded or failed never changes phase
// again".  One case = one history of ONE PodMigrationJob against the REAL arbitratorImpl (waitingCollection,
// doOnceArbitrate, updateFailedJob / updatePassedJob) fed through the REAL event handler (NewHandler(...).Create /
// .Update) on a controller-runtime fake client with the status subresource:
//   arbinit <phase> <pod> <nonRetryFails> <retryFails>   job with that persisted phase, target pod present or not, filter script
//   arbadd            controller (re)start: the informer delivers a Create event for the existing job (real Create handler)
//   arbset <phase>    the migration controller writes a new phase (Status().Update, resourceVersion moves on) + Update event
//   arbpod <0|1>      target pod (a pod of that NAME) deleted / present
//   arbround          one arbitration round (doOnceArbitrate)
// Observation after every arbround: phase, passed-arbitration annotation, still waiting.
// Phase codes: 0 "", 1 Pending, 2 Running, 3 Succeeded, 4 Failed, 5 Aborted.
//
// The stream that ADDS an already Succeeded / Failed / Aborted job (what a controller restart does) is ARMED by default
// (VERIF_C17_ARB_RESTART=0 disarms it).  Before fix 2a5d178 updateFailedJob flipped such a job to Failed
// (fingerprint C17:terminal-phase-changed:arbitrator-after-restart; smallest history: arbinit 3 1 1 1, arbadd, arbround).

var c17aPhases = []v1alpha1.PodMigrationJobPhase{"", v1alpha1.PodMigrationJobPending, v1alpha1.PodMigrationJobRunning,
	v1alpha1.PodMigrationJobSucceeded, v1alpha1.PodMigrationJobFailed, v1alpha1.PodMigrationJobAborted}

func c17aPhaseCode(p v1alpha1.PodMigrationJobPhase) int {
	for i, x := range c17aPhases {
		if x == p {
			return i
		}
	}
	return 9
}

const (
	c17aJob = "c17a-job"
	c17aPod = "c17a-pod"
	c17aNS  = "default"
)

type c17aWorld struct {
	h        *vHarness
	cl       client.Client
	a        *arbitratorImpl
	nonRetry bool
	retry    bool
	term     string // oracle: the terminal phase the job has reached (persisted)
}

func (w *c17aWorld) job() *v1alpha1.PodMigrationJob {
	j := &v1alpha1.PodMigrationJob{}
	if err := w.cl.Get(context.TODO(), types.NamespacedName{Name: c17aJob}, j); err != nil {
		panic(err)
	}
	return j
}

func (w *c17aWorld) note() {
	p := w.job().Status.Phase
	if w.term == "" && (p == v1alpha1.PodMigrationJobSucceeded || p == v1alpha1.PodMigrationJobFailed) {
		w.term = string(p)
	}
}

func (w *c17aWorld) setPod(present bool) {
	old := &corev1.Pod{}
	err := w.cl.Get(context.TODO(), types.NamespacedName{Namespace: c17aNS, Name: c17aPod}, old)
	if err == nil && !present {
		if err := w.cl.Delete(context.TODO(), old); err != nil {
			panic(err)
		}
	}
	if apierrors.IsNotFound(err) && present {
		if err := w.cl.Create(context.TODO(), &corev1.Pod{ObjectMeta: metav1.ObjectMeta{Namespace: c17aNS, Name: c17aPod}}); err != nil {
			panic(err)
		}
	}
}

func (w *c17aWorld) newArbitrator() {
	w.a = &arbitratorImpl{
		waitingCollection: map[types.UID]*v1alpha1.PodMigrationJob{},
		filter: &filter{
			client:                     w.cl,
			nonRetryablePodFilter:      func(pod *corev1.Pod) bool { return !w.nonRetry },
			retryablePodFilter:         func(pod *corev1.Pod) bool { return !w.retry },
			arbitratedPodMigrationJobs: map[types.UID]bool{},
		},
		sorts:         []SortFn{},
		client:        w.cl,
		mu:            sync.Mutex{},
		eventRecorder: &events.FakeRecorder{},
	}
}

func TestVerifC17Arb(t *testing.T) {
	h := vOpen("C17")
	if h == nil {
		t.Skip("VERIF_OUT not set")
	}
	klog.LogToStderr(false)
	klog.SetOutput(io.Discard)
	fs := flag.NewFlagSet("klog", flag.ContinueOnError)
	klog.InitFlags(fs)
	_ = fs.Set("logtostderr", "false")
	_ = fs.Set("stderrthreshold", "FATAL")
	armed := os.Getenv("VERIF_C17_ARB_RESTART") != "0"
	scheme := runtime.NewScheme()
	_ = v1alpha1.AddToScheme(scheme)
	_ = clientgoscheme.AddToScheme(scheme)
	queue := workqueue.NewTypedRateLimitingQueue[reconcile.Request](workqueue.NewTypedItemExponentialFailureRateLimiter[reconcile.Request](time.Millisecond, time.Second))
	n := h.N(600, 6000)
	for idx := 0; idx < n; idx++ {
		r := h.Begin(idx)
		if r == nil {
			continue
		}
		w := &c17aWorld{h: h}
		w.cl = fake.NewClientBuilder().WithStatusSubresource(&v1alpha1.PodMigrationJob{}).WithScheme(scheme).Build()
		// a job is ADDED to the arbitrator (Create event) while its persisted phase is `phase0`; a live controller only ever
		// sees Create events of fresh jobs, a restarted one of every existing job
		phase0 := []int{0, 0, 1, 2, 2}[r.Intn(5)]
		if armed && r.Chance(1, 2) {
			phase0 = r.Range(3, 5)
		}
		pod := !r.Chance(1, 4)
		w.nonRetry, w.retry = r.Chance(1, 2), r.Chance(1, 4)
		job := &v1alpha1.PodMigrationJob{ObjectMeta: metav1.ObjectMeta{Name: c17aJob, UID: "c17a-uid"},
			Spec: v1alpha1.PodMigrationJobSpec{PodRef: &corev1.ObjectReference{Namespace: c17aNS, Name: c17aPod}}}
		if err := w.cl.Create(context.TODO(), job); err != nil {
			panic(err)
		}
		job.Status.Phase = c17aPhases[phase0]
		if err := w.cl.Status().Update(context.TODO(), job); err != nil {
			panic(err)
		}
		w.setPod(pod)
		h.Op("arbinit %d %d %d %d", phase0, vB(pod), vB(w.nonRetry), vB(w.retry))
		w.note()
		w.newArbitrator()
		hd := NewHandler(w.a, w.cl)
		steps := r.Range(2, 7)
		added := false
		addedTerm := false // the job was already Succeeded / Failed when the (last) Create event added it
		for s := 0; s < steps; s++ {
			c := r.Intn(10)
			if s == 0 {
				c = 0
			}
			switch {
			case c < 2: // controller (re)start: Create event for the job as it is in the API server now
				cur := w.job()
				if !armed && (cur.Status.Phase == v1alpha1.PodMigrationJobSucceeded || cur.Status.Phase == v1alpha1.PodMigrationJobFailed || cur.Status.Phase == v1alpha1.PodMigrationJobAborted) {
					// gated: a restart after the job has finished
					h.Tag("gated:restart-with-terminal-job-skipped")
					continue
				}
				w.newArbitrator()
				hd = NewHandler(w.a, w.cl)
				hd.Create(context.TODO(), event.CreateEvent{Object: cur}, nil)
				h.Op("arbadd")
				h.Tag(fmt.Sprintf("add:phase=%s", cur.Status.Phase))
				added = true
				addedTerm = w.term != ""
			case c < 4: // the migration controller moves the job on (its own Status().Update) + the Update event
				cur := w.job()
				if w.term != "" {
					continue // the controller itself never rewrites a terminal job (Props: terminal_forever)
				}
				np := []int{2, 2, 3, 4}[r.Intn(4)]
				cur.Status.Phase = c17aPhases[np]
				if err := w.cl.Status().Update(context.TODO(), cur); err != nil {
					panic(err)
				}
				hd.Update(context.TODO(), event.UpdateEvent{ObjectNew: w.job()}, queue)
				h.Op("arbset %d", np)
				w.note()
				h.Tag(fmt.Sprintf("set:phase=%s", c17aPhases[np]))
			case c < 5:
				pod = !pod
				w.setPod(pod)
				h.Op("arbpod %d", vB(pod))
			default:
				if !added {
					continue
				}
				before := w.job()
				h.Op("arbround")
				if h.Guard(func() { w.a.doOnceArbitrate() }) {
					h.Obs("panic")
					continue
				}
				after := w.job()
				_, waiting := w.a.waitingCollection[after.UID]
				h.Obs("arb %d %d %d", c17aPhaseCode(after.Status.Phase), vB(after.Annotations[AnnotationPassedArbitration] == "true"), vB(waiting))
				h.Nontrivial()
				h.Tag(fmt.Sprintf("round:%s->%s", before.Status.Phase, after.Status.Phase))
				// ----- oracle: a job that has reached Succeeded or Failed never changes phase again -----
				if w.term != "" && string(after.Status.Phase) != w.term && !addedTerm {
					// the job finished AFTER it was added: the arbitrator holds a stale copy; its write must be refused
					// (Status().Update carries the resourceVersion; Props: arbitrator_stale_copy_never_flips)
					h.Fail("C17:terminal-phase-changed:arbitrator-stale-copy",
						"job was %s (persisted, written by the controller after the arbitrator took its copy), an arbitration round (pod %q present=%v, non-retryable filter fails=%v) overwrote it with %q/%q from the stale copy",
						w.term, c17aPod, pod, w.nonRetry, after.Status.Phase, after.Status.Reason)
				} else if w.term != "" && string(after.Status.Phase) != w.term {
					h.Fail("C17:terminal-phase-changed:arbitrator-after-restart",
						"job was %s (persisted), an arbitration round after a controller restart (job re-added by the Create handler, pod %q present=%v, non-retryable filter fails=%v) made it %q/%q",
						w.term, c17aPod, pod, w.nonRetry, after.Status.Phase, after.Status.Reason)
				}
				w.note()
			}
		}
		h.End()
	}
	h.Extra("armed(VERIF_C17_ARB_RESTART)", armed)
	h.Close("one history of one PodMigrationJob against the real arbitrator (Create/Update handler, doOnceArbitrate with a scripted non-retryable / retryable filter, fake client with status subresource): " +
		"job added while live, moved on by the controller (Status().Update: the arbitrator's copy goes stale), pod present / absent, arbitration rounds; " +
		"half of the jobs are ADDED while already Succeeded / Failed / Aborted and restarts re-add finished jobs (what a controller restart does; VERIF_C17_ARB_RESTART=0 disarms); non-trivial = at least one arbitration round ran; distinct by op lines")
}
