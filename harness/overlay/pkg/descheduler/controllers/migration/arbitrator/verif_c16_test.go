//go:build verif

package arbitrator

import (
	"context"
	"fmt"
	"os"
	"path/filepath"
	"sort"
	"strings"
	"sync"
	"testing"
	"time"

	corev1 "k8s.io/api/core/v1"
	metav1 "k8s.io/apimachinery/pkg/apis/meta/v1"
	"k8s.io/apimachinery/pkg/runtime"
	"k8s.io/apimachinery/pkg/types"
	"k8s.io/apimachinery/pkg/util/intstr"
	"k8s.io/client-go/informers"
	clientset "k8s.io/client-go/kubernetes"
	kubefake "k8s.io/client-go/kubernetes/fake"
	clientgoscheme "k8s.io/client-go/kubernetes/scheme"
	restclient "k8s.io/client-go/rest"
	"k8s.io/client-go/tools/events"
	"k8s.io/client-go/util/workqueue"
	"k8s.io/utils/clock"
	"k8s.io/utils/ptr"
	"sigs.k8s.io/controller-runtime/pkg/client"
	"sigs.k8s.io/controller-runtime/pkg/client/fake"
	"sigs.k8s.io/controller-runtime/pkg/client/interceptor"
	"sigs.k8s.io/controller-runtime/pkg/event"
	"sigs.k8s.io/controller-runtime/pkg/reconcile"

	"github.com/koordinator-sh/koordinator/apis/scheduling/v1alpha1"
	deschedulerappconfig "github.com/koordinator-sh/koordinator/cmd/koord-descheduler/app/config"
	"github.com/koordinator-sh/koordinator/cmd/koord-descheduler/app/options"
	"github.com/koordinator-sh/koordinator/pkg/descheduler/apis/config"
	evictionsutil "github.com/koordinator-sh/koordinator/pkg/descheduler/evictions"
	"github.com/koordinator-sh/koordinator/pkg/descheduler/fieldindex"
	"github.com/koordinator-sh/koordinator/pkg/descheduler/framework"
	"github.com/koordinator-sh/koordinator/pkg/descheduler/utils/sorter"
)

// C16 harness "arb": multi-round histories against the REAL arbitratorImpl (doOnceArbitrate, Filter, the
// event handler) with the REAL filter built by the REAL initFilters, over a controller-runtime fake client
// with the field indexes registered, a scripted controller finder and scripted Update failures.

type c16Handle struct {
	cs clientset.Interface
	sf informers.SharedInformerFactory
}

func (h *c16Handle) ClientSet() clientset.Interface        { return h.cs }
func (h *c16Handle) KubeConfig() *restclient.Config        { return nil }
func (h *c16Handle) EventRecorder() events.EventRecorder   { return &events.FakeRecorder{} }
func (h *c16Handle) IsDryRun() bool                        { return false }
func (h *c16Handle) Evictor() framework.Evictor            { return nil }
func (h *c16Handle) NodeSelector() *metav1.LabelSelector   { return nil }
func (h *c16Handle) SharedInformerFactory() informers.SharedInformerFactory { return h.sf }
func (h *c16Handle) GetPodsAssignedToNodeFunc() framework.GetPodsAssignedToNodeFunc {
	return func(string, framework.FilterFunc) ([]*corev1.Pod, error) { return nil, nil }
}
func (h *c16Handle) RunDeschedulePlugins(ctx context.Context, nodes []*corev1.Node) *framework.Status {
	return nil
}
func (h *c16Handle) RunBalancePlugins(ctx context.Context, nodes []*corev1.Node) *framework.Status {
	return nil
}

// scripted controller finder: pods of the owner found in the API (same namespace), replicas from a table
type c16Finder struct {
	c        client.Client
	replicas map[string]int32
}

func (f *c16Finder) GetPodsForRef(ref *metav1.OwnerReference, ns string, _ *metav1.LabelSelector, _ bool) ([]*corev1.Pod, int32, error) {
	l := &corev1.PodList{}
	if err := f.c.List(context.TODO(), l, client.InNamespace(ns)); err != nil {
		return nil, 0, err
	}
	var out []*corev1.Pod
	for i := range l.Items {
		if o := metav1.GetControllerOf(&l.Items[i]); o != nil && o.UID == ref.UID {
			out = append(out, &l.Items[i])
		}
	}
	return out, f.replicas[string(ref.UID)], nil
}
func (f *c16Finder) GetExpectedScaleForPod(pod *corev1.Pod) (int32, error) {
	if o := metav1.GetControllerOf(pod); o != nil {
		return f.replicas[string(o.UID)], nil
	}
	return 0, nil
}
func (f *c16Finder) ListPodsByWorkloads([]types.UID, string, *metav1.LabelSelector, bool) ([]*corev1.Pod, error) {
	return nil, nil
}

type c16PodS struct {
	id, node, ns, wl int
	ready, ann, term bool
	phase            int // 0 Running, 1 Pending, 2 Succeeded, 3 Failed
}
// pod: the pod named by PodRef.Namespace/Name (0 = nil PodRef; an id that no pod has = a name that resolves to nothing),
// uid: the pod whose UID PodRef.UID is (0 = empty UID; an id that no pod has = a stale UID);
// nameless: PodRef carries ONLY the UID (namespace and name empty; pod is then a ghost id, ns 0)
type c16JobS struct {
	id, pod, ns, uid int
	nameless         bool
}

// PodRef shapes of directly created jobs (a job created after arbitrator.Filter always has shape 0)
const (
	c16RefFull     = iota // UID + namespace/name of the same pod
	c16RefNameOnly        // namespace/name, no UID (hand-written / external job)
	c16RefUIDOnly         // UID, no namespace/name
	c16RefStaleUID        // namespace/name of the pod, UID of an earlier incarnation
	c16RefCross           // UID of one pod, namespace/name of another (makes WF false)
)

func c16UID(uid int) types.UID {
	if uid == 0 {
		return ""
	}
	return types.UID(fmt.Sprintf("u%d", uid))
}

// per-workload limit forms and gate switches of MigrationControllerArgs
type c16Cfg struct {
	mg, mn, ms, mm, mu int
	mmKind, muKind     int // 0 nil / Int, 1 String "<v>%", 2 malformed String
	skip               []int
	skipCER            bool
}

// model gate codes (lean/KoordVerif/Model/C16Arb.lean gateSkipped)
var c16GateNames = map[int]config.EvictionGate{
	1: config.EvictionGateMaxUnavailablePerWorkload, 2: config.EvictionGateMaxMigratingPerWorkload,
	3: config.EvictionGateMaxMigratingPerNode, 4: config.EvictionGateMaxMigratingPerNamespace,
	5: config.EvictionGateMaxMigratingGlobally, 6: config.EvictionGateExpectedReplicas, 7: config.EvictionGateBarePods,
	8: config.EvictionGatePVC, 9: config.EvictionGateLocalStorage, 10: config.EvictionGateSystemCritical,
	11: config.EvictionGatePriorityThreshold, 12: config.EvictionGateLabelSelector, 13: config.EvictionGateNamespaces,
	14: config.EvictionGateNodeFit,
}

const c16Finalizer = "verif.koordinator.sh/hold"

type c16World struct {
	h       *vHarness
	c       client.Client
	a       *arbitratorImpl
	hd      interface {
		Create(context.Context, event.CreateEvent, workqueue.TypedRateLimitingInterface[reconcile.Request])
		Update(context.Context, event.UpdateEvent, workqueue.TypedRateLimitingInterface[reconcile.Request])
		Delete(context.Context, event.DeleteEvent, workqueue.TypedRateLimitingInterface[reconcile.Request])
	}
	q        workqueue.TypedRateLimitingInterface[reconcile.Request]
	failUpd  map[string]bool
	order    []int
	pods     map[int]*c16PodS
	jobs     map[int]*c16JobS
	replicas map[int]int
	c16Cfg
	badStr string
	// jobs that were pending + annotated "passed" when the controller restarted and have not been
	// re-arbitrated since: the new arbitrator holds them in its waiting collection again
	stale map[int]bool
	// the informer side of the arbitrator's own writes: while a round runs, every successful write of a job object
	// (annotation Update, Failed status) is recorded; the Update event is delivered through the real arbitrationHandler
	// either before the arbitrator's next List of jobs (eager) or after the round
	inRound, eager, flushing bool
	written                  []int // job ids written in this round and not echoed yet
	echoed                   []int // job ids echoed in this round, in order
	// via: the MigrationControllerArgs are not built as a Go struct but written into a v1alpha2 DeschedulerConfiguration file
	// (plugin config of the MigrationController) and read back by the start-up path of cmd/koord-descheduler; declMn is the
	// per-node limit as written (-1 = key absent; the world's mn is then the documented default 2)
	via    bool
	declMn int
	// ps: the paused stream — live jobs carry spec.paused in {false,true}: set at creation (1/4) and flipped later by somebody's
	// spec Update whose Update event goes through the real arbitrationHandler.  Neither the arbitrator nor the property look at
	// spec.paused: a paused job that is Running / passed keeps its reservation and its place in every budget
	ps bool
}

var c16TmpDir string

// c16ArgsViaFile: options.NewOptions + Options.ApplyTo on a generated file (decode, defaulting, conversion, validation); the
// args are those of profile 0's MigrationController plugin config, as the plugin factory receives them
func (w *c16World) c16ArgsViaFile() *config.MigrationControllerArgs {
	var b strings.Builder
	b.WriteString("apiVersion: descheduler/v1alpha2\nkind: DeschedulerConfiguration\nprofiles:\n- name: koord-descheduler\n  pluginConfig:\n  - name: MigrationController\n    args:\n")
	b.WriteString("      apiVersion: descheduler/v1alpha2\n      kind: MigrationControllerArgs\n      defaultJobMode: EvictDirectly\n")
	i32 := func(key string, v int) {
		if v >= 0 {
			fmt.Fprintf(&b, "      %s: %d\n", key, v)
		}
	}
	i32("maxMigratingGlobally", w.mg)
	i32("maxMigratingPerNode", w.declMn)
	i32("maxMigratingPerNamespace", w.ms)
	ios := func(key string, kind, v int) {
		switch {
		case kind == 1:
			fmt.Fprintf(&b, "      %s: \"%d%%\"\n", key, v)
		case v >= 0:
			fmt.Fprintf(&b, "      %s: %d\n", key, v)
		}
	}
	ios("maxMigratingPerWorkload", w.mmKind, w.mm)
	ios("maxUnavailablePerWorkload", w.muKind, w.mu)
	if w.skipCER {
		b.WriteString("      skipCheckExpectedReplicas: true\n")
	}
	if len(w.skip) > 0 {
		b.WriteString("      skipEvictionGates:\n")
		for _, g := range w.skip {
			fmt.Fprintf(&b, "      - %s\n", string(c16GateNames[g]))
		}
	}
	path := filepath.Join(c16TmpDir, "arb-args.yaml")
	if err := os.WriteFile(path, []byte(b.String()), 0o644); err != nil {
		panic(err)
	}
	o := options.NewOptions()
	o.ConfigFile = path
	o.SecureServing.BindPort = 0
	o.CombinedInsecureServing = nil
	c := &deschedulerappconfig.Config{}
	if err := o.ApplyTo(c); err != nil {
		panic(fmt.Sprintf("c16: generated MigrationControllerArgs rejected: %v\n%s", err, b.String()))
	}
	for _, pc := range c.ComponentConfig.Profiles[0].PluginConfig {
		if a, ok := pc.Args.(*config.MigrationControllerArgs); ok && pc.Name == "MigrationController" {
			return a
		}
	}
	panic("c16: decoded configuration has no MigrationControllerArgs")
}

// observation of the decoded limits, in the model's encoding (-1 = nil; per-workload: kind 0 nil / int, 1 percent, 2 other string)
func c16ShowArgs(a *config.MigrationControllerArgs) string {
	p32 := func(p *int32) int {
		if p == nil {
			return -1
		}
		return int(*p)
	}
	ios := func(p *intstr.IntOrString) (int, int) {
		if p == nil {
			return 0, -1
		}
		if p.Type == intstr.Int {
			return 0, int(p.IntVal)
		}
		var v int
		if n, err := fmt.Sscanf(p.StrVal, "%d%%", &v); n == 1 && err == nil && strings.HasSuffix(p.StrVal, "%") {
			return 1, v
		}
		return 2, 0
	}
	mk, mm := ios(a.MaxMigratingPerWorkload)
	uk, mu := ios(a.MaxUnavailablePerWorkload)
	out := fmt.Sprintf("arbcfg %d %d %d %d %d %d %d %d %d", p32(a.MaxMigratingGlobally), p32(a.MaxMigratingPerNode), p32(a.MaxMigratingPerNamespace),
		mk, mm, uk, mu, vB(a.SkipCheckExpectedReplicas != nil && *a.SkipCheckExpectedReplicas), len(a.SkipEvictionGates))
	for _, g := range a.SkipEvictionGates {
		code := 0
		for c, n := range c16GateNames {
			if n == g {
				code = c
			}
		}
		out += fmt.Sprintf(" %d", code)
	}
	return out
}

func (w *c16World) noteWrite(obj client.Object) {
	if _, ok := obj.(*v1alpha1.PodMigrationJob); !ok || !w.inRound {
		return
	}
	var id int
	fmt.Sscanf(obj.GetName(), "j%d", &id)
	w.written = append(w.written, id)
}

// echo delivers an Update event for job id with ObjectNew = the object the API holds now (as the informer would)
func (w *c16World) echo(id int) {
	obj := &v1alpha1.PodMigrationJob{}
	if err := w.c.Get(context.TODO(), types.NamespacedName{Name: c16JobName(id)}, obj); err != nil {
		return // deleted meanwhile: the informer delivers no Update
	}
	w.hd.Update(context.TODO(), event.UpdateEvent{ObjectOld: obj.DeepCopy(), ObjectNew: obj}, w.q)
}

func (w *c16World) flushWrites() {
	if w.flushing {
		return
	}
	w.flushing = true
	for _, id := range w.written {
		w.echo(id)
		w.echoed = append(w.echoed, id)
	}
	w.written = w.written[:0]
	w.flushing = false
}

func (w *c16World) skipped(code int) bool {
	for _, c := range w.skip {
		if c == code {
			return true
		}
	}
	return false
}

func c16PodName(id int) string { return fmt.Sprintf("p%d", id) }
func c16JobName(id int) string { return fmt.Sprintf("j%03d", id) }
func c16Ns(k int) string       { return fmt.Sprintf("s%d", k) }

func c16PhaseCode(p v1alpha1.PodMigrationJobPhase) int {
	switch p {
	case "":
		return 0
	case v1alpha1.PodMigrationJobPending:
		return 1
	case v1alpha1.PodMigrationJobRunning:
		return 2
	case v1alpha1.PodMigrationJobSucceeded:
		return 3
	case v1alpha1.PodMigrationJobFailed:
		return 4
	}
	return 5
}

var c16Phases = []v1alpha1.PodMigrationJobPhase{"", v1alpha1.PodMigrationJobPending, v1alpha1.PodMigrationJobRunning,
	v1alpha1.PodMigrationJobSucceeded, v1alpha1.PodMigrationJobFailed, v1alpha1.PodMigrationJobAborted}

func c16I32(v int) *int32 {
	if v < 0 {
		return nil
	}
	return ptr.To(int32(v))
}
func c16IntStr(v int) *intstr.IntOrString {
	if v < 0 {
		return nil
	}
	x := intstr.FromInt(v)
	return &x
}
func c16IntStrK(kind, v int, bad string) *intstr.IntOrString {
	switch kind {
	case 1:
		x := intstr.FromString(fmt.Sprintf("%d%%", v))
		return &x
	case 2:
		x := intstr.FromString(bad)
		return &x
	}
	return c16IntStr(v)
}

func c16NewWorld(h *vHarness, cfg c16Cfg, badStr string, replicas map[int]int, via bool) *c16World {
	w := &c16World{h: h, failUpd: map[string]bool{}, pods: map[int]*c16PodS{}, jobs: map[int]*c16JobS{}, replicas: replicas,
		c16Cfg: cfg, badStr: badStr, stale: map[int]bool{}, via: via, declMn: cfg.mn}
	if via && w.mn < 0 {
		w.mn = 2 // documented default of maxMigratingPerNode; what the oracle judges against
	}
	scheme := runtime.NewScheme()
	_ = v1alpha1.AddToScheme(scheme)
	_ = clientgoscheme.AddToScheme(scheme)
	jobIdx := func(f func(*corev1.ObjectReference) string) client.IndexerFunc {
		return func(obj client.Object) []string {
			j, ok := obj.(*v1alpha1.PodMigrationJob)
			if !ok || j.Spec.PodRef == nil {
				return []string{}
			}
			return []string{f(j.Spec.PodRef)}
		}
	}
	w.c = fake.NewClientBuilder().WithScheme(scheme).WithStatusSubresource(&v1alpha1.PodMigrationJob{}).
		WithIndex(&corev1.Pod{}, fieldindex.IndexPodByNodeName, func(obj client.Object) []string {
			if p := obj.(*corev1.Pod); p.Spec.NodeName != "" {
				return []string{p.Spec.NodeName}
			}
			return []string{}
		}).
		WithIndex(&corev1.Pod{}, fieldindex.IndexPodByOwnerRefUID, func(obj client.Object) []string {
			var o []string
			for _, r := range obj.GetOwnerReferences() {
				o = append(o, string(r.UID))
			}
			return o
		}).
		WithIndex(&v1alpha1.PodMigrationJob{}, fieldindex.IndexJobByPodUID, jobIdx(func(r *corev1.ObjectReference) string { return string(r.UID) })).
		WithIndex(&v1alpha1.PodMigrationJob{}, fieldindex.IndexJobPodNamespacedName, jobIdx(func(r *corev1.ObjectReference) string { return r.Namespace + "/" + r.Name })).
		WithIndex(&v1alpha1.PodMigrationJob{}, fieldindex.IndexJobByPodNamespace, jobIdx(func(r *corev1.ObjectReference) string { return r.Namespace })).
		WithInterceptorFuncs(interceptor.Funcs{
			Update: func(ctx context.Context, c client.WithWatch, obj client.Object, opts ...client.UpdateOption) error {
				if _, ok := obj.(*v1alpha1.PodMigrationJob); ok && w.failUpd[obj.GetName()] {
					return fmt.Errorf("verif: scripted update failure")
				}
				err := c.Update(ctx, obj, opts...)
				if err == nil {
					w.noteWrite(obj)
				}
				return err
			},
			SubResourceUpdate: func(ctx context.Context, c client.Client, sub string, obj client.Object, opts ...client.SubResourceUpdateOption) error {
				err := c.SubResource(sub).Update(ctx, obj, opts...)
				if err == nil {
					w.noteWrite(obj)
				}
				return err
			},
			List: func(ctx context.Context, c client.WithWatch, list client.ObjectList, opts ...client.ListOption) error {
				if _, ok := list.(*v1alpha1.PodMigrationJobList); ok && w.inRound && w.eager {
					w.flushWrites() // the events of the writes so far arrive before the arbitrator looks at the jobs again
				}
				return c.List(ctx, list, opts...)
			},
		}).Build()
	w.newArb()
	w.q = workqueue.NewTypedRateLimitingQueue[reconcile.Request](workqueue.NewTypedItemExponentialFailureRateLimiter[reconcile.Request](time.Millisecond, time.Second))
	return w
}

// newArb builds a fresh arbitratorImpl + filter (empty waiting collection, empty arbitrated map) over the
// world's API state, as a (re)started controller does.
func (w *c16World) newArb() {
	args := &config.MigrationControllerArgs{
		MaxMigratingGlobally: c16I32(w.mg), MaxMigratingPerNode: c16I32(w.mn), MaxMigratingPerNamespace: c16I32(w.ms),
		MaxMigratingPerWorkload: c16IntStrK(w.mmKind, w.mm, w.badStr), MaxUnavailablePerWorkload: c16IntStrK(w.muKind, w.mu, w.badStr),
	}
	if w.skipCER {
		args.SkipCheckExpectedReplicas = ptr.To(true)
	}
	for _, g := range w.skip {
		args.SkipEvictionGates = append(args.SkipEvictionGates, c16GateNames[g])
	}
	if w.via {
		args = w.c16ArgsViaFile()
	}
	rep := map[string]int32{}
	for k, v := range w.replicas {
		rep[fmt.Sprintf("w%d", k)] = int32(v)
	}
	f := &filter{client: w.c, args: args, controllerFinder: &c16Finder{c: w.c, replicas: rep}, clock: clock.RealClock{},
		arbitratedPodMigrationJobs: map[types.UID]bool{}, skipEvictionGates: newEvictionGateSet(args.SkipEvictionGates)}
	cs := kubefake.NewSimpleClientset()
	cs.Fake.Resources = []*metav1.APIResourceList{
		{GroupVersion: "policy/v1", APIResources: []metav1.APIResource{{Name: "poddisruptionbudgets", Kind: "PodDisruptionBudget"}}},
		{GroupVersion: "v1", APIResources: []metav1.APIResource{{Name: "pods/eviction", Kind: "Eviction", Group: "policy", Version: "v1"}}},
	}
	if err := f.initFilters(args, &c16Handle{cs: cs, sf: informers.NewSharedInformerFactory(cs, 0)}); err != nil {
		panic(err)
	}
	w.a = &arbitratorImpl{
		waitingCollection: map[types.UID]*v1alpha1.PodMigrationJob{},
		sorts: []SortFn{ // as in New(); the last entry only records the order the round will use
			SortJobsByCreationTime(), SortJobsByPod(sorter.PodSorter().Sort), SortJobsByController(), SortJobsByMigratingNum(w.c),
			func(jobs []*v1alpha1.PodMigrationJob, _ map[*v1alpha1.PodMigrationJob]*corev1.Pod) []*v1alpha1.PodMigrationJob {
				w.order = w.order[:0]
				for _, j := range jobs {
					var id int
					fmt.Sscanf(j.Name, "j%d", &id)
					w.order = append(w.order, id)
				}
				return jobs
			}},
		filter: f, client: w.c, eventRecorder: &events.FakeRecorder{}, mu: sync.Mutex{},
	}
	w.hd = NewHandler(w.a, w.c).(*arbitrationHandler)
}

func (w *c16World) mkPod(p *c16PodS) *corev1.Pod {
	pod := &corev1.Pod{
		ObjectMeta: metav1.ObjectMeta{Name: c16PodName(p.id), Namespace: c16Ns(p.ns), UID: types.UID(fmt.Sprintf("u%d", p.id)), Annotations: map[string]string{},
			Finalizers: []string{c16Finalizer}}, // lets Delete leave a terminating pod (deletionTimestamp set) behind
		Spec:   corev1.PodSpec{Priority: ptr.To(int32(0))},
		Status: corev1.PodStatus{Phase: []corev1.PodPhase{corev1.PodRunning, corev1.PodPending, corev1.PodSucceeded, corev1.PodFailed}[p.phase]},
	}
	if p.node > 0 {
		pod.Spec.NodeName = fmt.Sprintf("n%d", p.node)
	}
	if p.wl > 0 {
		pod.OwnerReferences = []metav1.OwnerReference{{APIVersion: "apps/v1", Kind: "ReplicaSet", Name: fmt.Sprintf("w%d", p.wl),
			UID: types.UID(fmt.Sprintf("w%d", p.wl)), Controller: ptr.To(true)}}
	}
	if p.ready {
		pod.Status.Conditions = []corev1.PodCondition{{Type: corev1.PodReady, Status: corev1.ConditionTrue}}
	}
	if p.ann {
		pod.Annotations[evictionsutil.EvictPodAnnotationKey] = "true"
	}
	return pod
}

func (w *c16World) mkJob(s *c16JobS) *v1alpha1.PodMigrationJob {
	j := &v1alpha1.PodMigrationJob{ObjectMeta: metav1.ObjectMeta{Name: c16JobName(s.id), UID: types.UID(fmt.Sprintf("ju%d", s.id)),
		CreationTimestamp: metav1.Time{Time: time.Unix(1700000000+int64(s.id), 0)}}}
	if s.pod > 0 {
		j.Spec.PodRef = &corev1.ObjectReference{UID: c16UID(s.uid)}
		if !s.nameless {
			j.Spec.PodRef.Namespace, j.Spec.PodRef.Name = c16Ns(s.ns), c16PodName(s.pod)
		}
	}
	return j
}

type c16JobView struct {
	id, pod, ns, uid, phase  int
	ann, arb, waiting, stale bool
	paused                   bool // spec.paused; deliberately NOT read by c16Live / counts / oracleRound
}

func (w *c16World) view() []c16JobView {
	l := &v1alpha1.PodMigrationJobList{}
	if err := w.c.List(context.TODO(), l); err != nil {
		panic(err)
	}
	var out []c16JobView
	for i := range l.Items {
		j := &l.Items[i]
		var id int
		fmt.Sscanf(j.Name, "j%d", &id)
		s := w.jobs[id]
		w.a.mu.Lock()
		_, waiting := w.a.waitingCollection[j.UID]
		w.a.mu.Unlock()
		out = append(out, c16JobView{id: id, pod: s.pod, ns: s.ns, uid: s.uid, phase: c16PhaseCode(j.Status.Phase),
			ann: j.Annotations[AnnotationPassedArbitration] == "true", arb: w.a.filter.checkJobPassedArbitration(j.UID), waiting: waiting,
			stale: w.stale[id], paused: j.Spec.Paused})
	}
	sort.Slice(out, func(a, b int) bool { return out[a].id < out[b].id })
	return out
}

func (w *c16World) emitState(v []c16JobView) {
	for _, j := range v {
		w.h.Obs("j %d %d %d %d %d", j.id, j.phase, vB(j.ann), vB(j.arb), vB(j.waiting))
	}
}

// ---- the property oracle (independent of the filter code): counts over API-visible state

// running, or pending and passed arbitration.  A "passed" annotation that predates a controller restart and has
// not been confirmed by the new arbitrator (the job sits in its waiting collection again) does not count: the
// restarted controller treats such a job as not yet arbitrated (see c16AnnLive for the annotation-only reading).
func c16Live(j c16JobView) bool {
	return j.phase == 2 || ((j.phase == 0 || j.phase == 1) && j.ann && !j.stale)
}
func c16AnnLive(j c16JobView) bool { return j.phase == 2 || ((j.phase == 0 || j.phase == 1) && j.ann) }

// the configured per-workload maximum: int value or percentage of the replicas rounded down, at least 1, at most the
// replica count; unset = the documented defaults (10% above 10 replicas, 2 for 4..10, else 1).
// ok=false: the configured string is not a number or percentage, no maximum can be computed.
func c16WlMaxK(replicas, kind, v int) (m int, ok bool) {
	switch kind {
	case 2:
		return 0, false
	case 1:
		m = v * replicas / 100
		if m == 0 {
			m = 1
		}
		if m > replicas {
			m = replicas
		}
		return m, true
	}
	return c16WlMax(replicas, v), true
}

func c16WlMax(replicas, v int) int {
	m := v
	if v < 0 {
		switch {
		case replicas > 10:
			m = replicas / 10
		case replicas >= 4:
			m = 2
		default:
			m = 1
		}
	}
	if m == 0 {
		m = 1
	}
	if m > replicas {
		m = replicas
	}
	return m
}

// a replica is unavailable iff it is terminating, has finished (Failed / Succeeded) or is not Ready
func c16PodUnavailable(p *corev1.Pod) bool {
	if p.DeletionTimestamp != nil || p.Status.Phase == corev1.PodFailed || p.Status.Phase == corev1.PodSucceeded {
		return true
	}
	for _, c := range p.Status.Conditions {
		if c.Type == corev1.PodReady {
			return c.Status != corev1.ConditionTrue
		}
	}
	return true
}

// API-visible pod state: id -> unavailable; also cross-checks the generator's shadow copy
func (w *c16World) apiUnavailable() map[int]bool {
	l := &corev1.PodList{}
	if err := w.c.List(context.TODO(), l); err != nil {
		panic(err)
	}
	out := map[int]bool{}
	for i := range l.Items {
		var id int
		fmt.Sscanf(l.Items[i].Name, "p%d", &id)
		sh, ok := w.pods[id]
		if !ok {
			panic(fmt.Sprintf("verif: pod %d in the API but not in the shadow state", id))
		}
		out[id] = c16PodUnavailable(&l.Items[i])
		if want := sh.term || sh.phase >= 2 || !sh.ready; want != out[id] {
			panic(fmt.Sprintf("verif: pod %d shadow %+v disagrees with API object (unavailable=%v)", id, *sh, out[id]))
		}
	}
	if len(out) != len(w.pods) {
		panic("verif: shadow pod set differs from the API")
	}
	return out
}

type c16Counts struct {
	global int
	node   map[int]int
	ns     map[int]int
	migr   map[[2]int]int // (workload, namespace) -> distinct pods with a live job
	unav   map[[2]int]int // (workload, namespace) -> pods unavailable or with a live job
}

func (w *c16World) counts(v []c16JobView, live func(c16JobView) bool, only func(c16JobView) bool, unavailable map[int]bool) c16Counts {
	c := c16Counts{node: map[int]int{}, ns: map[int]int{}, migr: map[[2]int]int{}, unav: map[[2]int]int{}}
	// podLive: the job's PodRef names the pod by namespace/name (how the job is resolved to the pod it will migrate: the
	// per-namespace and per-workload counts); podRef: the pod has a live job by the documented rule of the duplicate check,
	// PodRef.UID == pod UID OR PodRef namespace/name == the pod's (the per-node count is a count of such pods)
	podLive, podRef := map[int]bool{}, map[int]bool{}
	for _, j := range v {
		if !live(j) || j.pod == 0 || (only != nil && !only(j)) {
			continue
		}
		c.global++
		c.ns[j.ns]++
		podLive[j.pod] = true
		podRef[j.pod] = true
		podRef[j.uid] = true
	}
	for id, p := range w.pods {
		if podRef[id] && p.node > 0 {
			c.node[p.node]++
		}
		if p.wl > 0 {
			k := [2]int{p.wl, p.ns}
			if podLive[id] {
				c.migr[k]++
			}
			if podLive[id] || (only == nil && unavailable[id]) {
				c.unav[k]++
			}
		}
	}
	return c
}

func c16Min(a, b int) int {
	if a < b {
		return a
	}
	return b
}

func c16Max(a, b int) int {
	if a > b {
		return a
	}
	return b
}

func (w *c16World) oracleRound(before, after []c16JobView) {
	h := w.h
	wasLive := map[int]bool{}
	wasWaitingPending := map[int]bool{}
	for _, j := range before {
		wasLive[j.id] = c16Live(j)
		wasWaitingPending[j.id] = j.waiting && j.phase <= 1
	}
	// jobs admitted in this round for a pod that carries the evict annotation: the documented exemption of the filter
	// definition (retryablePodFilter = HaveEvictAnnotation || limits)
	bypass := func(j c16JobView) bool {
		if wasLive[j.id] {
			return false
		}
		p, ok := w.pods[j.pod]
		return ok && p.ann
	}
	// jobs admitted in this round whose pod does not exist: the code consults no limit for them (open finding)
	missing := func(j c16JobView) bool {
		if wasLive[j.id] {
			return false
		}
		_, ok := w.pods[j.pod]
		return !ok
	}
	un := w.apiUnavailable() // pods do not change during a round
	B, A, X := w.counts(before, c16Live, nil, un), w.counts(after, c16Live, nil, un), w.counts(after, c16Live, bypass, un)
	M := w.counts(after, c16Live, missing, un) // the global, per-namespace and (through a UID-only PodRef) per-node counts can contain such jobs
	if w.mg > 0 && !w.skipped(5) && A.global > c16Max(w.mg, B.global)+X.global {
		if A.global <= c16Max(w.mg, B.global)+X.global+M.global {
			h.Fail("C16:arb-missing-pod-bypasses-limits", "live jobs %d > max(limit %d, before %d) + exempt %d: %d job(s) admitted whose pod does not exist", A.global, w.mg, B.global, X.global, M.global)
		} else {
			h.Fail("C16:arb-global-exceeded", "live jobs %d > max(limit %d, before %d) + exempt %d (+ %d without pod)", A.global, w.mg, B.global, X.global, M.global)
		}
	}
	if w.mn > 0 && !w.skipped(3) {
		for n, c := range A.node {
			if c > c16Max(w.mn, B.node[n])+X.node[n] {
				if c <= c16Max(w.mn, B.node[n])+X.node[n]+M.node[n] { // a job that names its pod by UID only is passed like a job without pod
					h.Fail("C16:arb-missing-pod-bypasses-limits", "node %d: %d pods with live jobs > max(limit %d, before %d) + exempt %d: %d job(s) admitted whose pod cannot be resolved", n, c, w.mn, B.node[n], X.node[n], M.node[n])
				} else {
					h.Fail("C16:arb-node-exceeded", "node %d: %d pods with live jobs > max(limit %d, before %d) + exempt %d (+ %d unresolvable)", n, c, w.mn, B.node[n], X.node[n], M.node[n])
				}
			}
		}
	}
	if w.ms > 0 && !w.skipped(4) {
		for n, c := range A.ns {
			if c > c16Max(w.ms, B.ns[n])+X.ns[n] {
				if c <= c16Max(w.ms, B.ns[n])+X.ns[n]+M.ns[n] {
					h.Fail("C16:arb-missing-pod-bypasses-limits", "namespace %d: %d live jobs > max(limit %d, before %d) + exempt %d: %d job(s) admitted whose pod does not exist", n, c, w.ms, B.ns[n], X.ns[n], M.ns[n])
				} else {
					h.Fail("C16:arb-namespace-exceeded", "namespace %d: %d live jobs > max(limit %d, before %d) + exempt %d (+ %d without pod)", n, c, w.ms, B.ns[n], X.ns[n], M.ns[n])
				}
			}
		}
	}
	if !w.skipped(2) {
		for k, c := range A.migr {
			lim, _ := c16WlMaxK(w.replicas[k[0]], w.mmKind, w.mm) // not computable: 0, nothing may be admitted
			if c > c16Max(lim, B.migr[k])+X.migr[k] {
				h.Fail("C16:arb-workload-exceeded", "workload %d/ns %d: %d migrating pods > max(limit %d, before %d) + exempt %d", k[0], k[1], c, lim, B.migr[k], X.migr[k])
			}
		}
	}
	if !w.skipped(1) {
		for k, c := range A.unav {
			lim, _ := c16WlMaxK(w.replicas[k[0]], w.muKind, w.mu)
			if c > c16Max(lim, B.unav[k])+X.migr[k] {
				h.Fail("C16:arb-unavailable-exceeded", "workload %d/ns %d: %d unavailable-or-migrating pods > max(limit %d, before %d) + exempt %d", k[0], k[1], c, lim, B.unav[k], X.migr[k])
			}
		}
	}
	// a job refused only for lack of headroom stays waiting and does not fail
	for _, j := range after {
		if !wasWaitingPending[j.id] || c16Live(j) {
			continue
		}
		p, ok := w.pods[j.pod]
		if !ok {
			continue
		}
		if w.eligible(p) && (j.phase >= 3 || !j.waiting) && !w.failUpd[c16JobName(j.id)] {
			h.Fail("C16:arb-refused-not-waiting", "job %d (pod %d) was refused for lack of headroom but is phase %d waiting=%v", j.id, j.pod, j.phase, j.waiting)
		}
	}
	// informational (no property clause): counting every "passed" annotation, including those that predate a restart
	if w.mg > 0 && !w.skipped(5) && len(w.stale) > 0 {
		Ba, Aa, Xa := w.counts(before, c16AnnLive, nil, un), w.counts(after, c16AnnLive, nil, un), w.counts(after, c16AnnLive, func(j c16JobView) bool {
			for _, b := range before {
				if b.id == j.id && c16AnnLive(b) {
					return false
				}
			}
			p, ok := w.pods[j.pod]
			return !ok || p.ann
		}, un)
		if Aa.global > c16Max(w.mg, Ba.global)+Xa.global {
			h.Tag("restart:annotation-count-exceeds-global-limit")
		}
	}
}

// hypothesis WF of theorem round_inv, evaluated on the API state: object names unique (the API guarantees it), a PodRef
// resolves to a pod of its own namespace, a PodRef does not carry the UID of one existing pod and the namespace/name of
// another, and no pod has two open (pending / running) jobs referring to it by UID or by namespace/name
func (w *c16World) wellFormed(v []c16JobView) bool {
	seen := map[int]bool{}
	open := map[int]int{}
	for _, j := range v {
		if seen[j.id] {
			return false
		}
		seen[j.id] = true
		if j.pod == 0 {
			continue
		}
		p, nameOK := w.pods[j.pod]
		if nameOK && p.ns != j.ns {
			return false
		}
		_, uidOK := w.pods[j.uid]
		if nameOK && uidOK && j.uid != j.pod {
			return false
		}
		if j.phase <= 2 {
			if nameOK {
				open[j.pod]++
			}
			if uidOK && j.uid != j.pod {
				open[j.uid]++
			}
		}
	}
	for _, n := range open {
		if n > 1 {
			return false
		}
	}
	return true
}

// the pod may be migrated as far as the rules that do not depend on headroom are concerned: it carries the evict
// annotation, or it is controlled by a workload (unless bare pods are allowed), not terminating, and its workload has
// more than one replica and more replicas than either per-workload maximum (unless that check is switched off)
func (w *c16World) eligible(p *c16PodS) bool {
	if p.ann {
		return true
	}
	if (p.wl == 0 && !w.skipped(7)) || p.term {
		return false
	}
	if w.skipped(6) || p.wl == 0 {
		return true
	}
	r := w.replicas[p.wl]
	mm, ok1 := c16WlMaxK(r, w.mmKind, w.mm)
	mu, ok2 := c16WlMaxK(r, w.muKind, w.mu)
	if !ok1 || !ok2 {
		return false
	}
	return w.skipCER || (r != 1 && r != mm && r != mu)
}

func TestVerifC16Arb(t *testing.T) {
	h := vOpen("C16")
	if h == nil {
		t.Skip("VERIF_OUT not set")
	}
	c16TmpDir = t.TempDir()
	n := h.N(300, 3600)
	for idx := 0; idx < n; idx++ {
		r := h.Begin(idx)
		if r == nil {
			continue
		}
		c16ArbCase(h, r, idx%3 == 1, nil, false, false)
		h.End()
	}
	// exhaustive small-scope matrix of the duplicate rule: every PodRef shape x every job state, on a fixed cluster
	// (3 pods of one workload on node 1, per-node limit 1): Filter on the job's pod, a waiting job for a second pod, a
	// round, Filter on a third pod
	for m := 0; m < 5*4; m++ {
		r := h.Begin(n + m)
		if r == nil {
			continue
		}
		c16ArbCase(h, r, false, &c16Forced{shape: m % 5, state: m / 5}, false, false)
		h.End()
	}
	// handler stream: tight limits, several waiting jobs of phase "" / Pending on distinct pods, every event through the
	// real arbitrationHandler (Create, the echo of the arbitrator's own writes, resyncs, phase changes, Delete)
	nh := h.N(120, 1500)
	for k := 0; k < nh; k++ {
		r := h.Begin(n + 5*4 + k)
		if r == nil {
			continue
		}
		h.Tag("stream:handler")
		c16ArbCase(h, r, false, nil, true, false)
		h.End()
	}
	// paused stream: the set-up of the handler stream (tight limits, 3-6 waiting jobs) with spec.paused on live jobs: 1/4 of the
	// jobs are created paused, and arbitrated jobs are paused / resumed later (spec Update + Update event through the real
	// handler) between rounds and phase moves.  A paused job that is Running or has passed arbitration still fills its budgets
	np := h.N(100, 1200)
	for k := 0; k < np; k++ {
		r := h.Begin(n + 5*4 + nh + k)
		if r == nil {
			continue
		}
		h.Tag("stream:paused")
		c16ArbCase(h, r, false, nil, true, true)
		h.End()
	}
	h.Close("one case = a cluster (5-10 pods over 3 nodes x 2 namespaces x 3 workloads with replicas in {1,3,5,8,12,20}; pod states: Ready / not Ready, terminating " +
		"(deletionTimestamp, Ready or not), phase Pending / Succeeded / Failed, 1/10 with the evict annotation; limits global/node/namespace in {nil,0,1,2,3}, per-workload " +
		"nil / int / percent / malformed string, SkipEvictionGates subsets 1/5, SkipCheckExpectedReplicas 1/8), 0-4 pre-existing jobs (running / passed / finished / waiting / " +
		"dangling pod / nil PodRef; PodRef shape of a directly created job: UID + namespace/name 1/2, namespace/name only 1/5, UID only 1/10, stale UID + right name 3/20, " +
		"UID of one pod + name of another 1/20 (makes WF false)); in 1/3 of the cases with well-formed per-workload limits the MigrationControllerArgs are written into a " +
		"v1alpha2 configuration file (limits absent when nil, percent strings, skipEvictionGates, skipCheckExpectedReplicas) and read back through options.ApplyTo (decode, defaulting: " +
		"maxMigratingPerNode absent = 2, conversion, validation) instead of being a Go literal; then 6-14 ops: job created by somebody else with a partial PodRef (1/20), create-through-Filter (1/3 aimed at " +
		"a pod that already has an open job), arbitration round (1/6 with a failing Update), phase changes through the event handler, pod deletion, " +
		"readiness flips, pod becomes terminating / changes phase, controller restart (new arbitrator, Create event per job), informer resync (Update event for every job), " +
		"job deletion (API delete + Delete event), one-step phase moves of arbitrated jobs (\"\" -> Pending -> Running -> ended). Every job creation reaches the arbitrator as a Create event through the real arbitrationHandler and every " +
		"write the arbitrator makes during a round (passed annotation, Failed status) is echoed back as an Update event with the object the fake client holds, either before the " +
		"arbitrator's next job List (op roundx, 1/2) or after the round (op upd). Handler stream (120 / 1500 extra cases): 5-8 Ready pods of one workload (20 or 40 replicas) in one " +
		"namespace on 1-2 nodes, one or two of the global / per-node / per-namespace / per-workload limits set to 1-2 or (1/5) none declared and the args read from a file so that the default per-node limit 2 binds, 3-6 waiting jobs of phase \"\" (3/4) or Pending created up front, " +
		"then rounds / resyncs / phase moves (\"\" -> Pending -> Running -> terminal) / deletions. Every third case is the headroom stream: one workload of " +
		"4-8 replicas, small maxUnavailable, 1-3 replicas unavailable in the different ways, waiting jobs on the others; in 1/4 of them exactly one of the two " +
		"per-workload gates (MaxMigratingPerWorkload / MaxUnavailablePerWorkload) is skipped and the limit of the other one is set to 1-3. " +
		"Paused stream (100 / 1200 extra cases): the set-up of the handler stream with spec.paused on live jobs — 1/4 of the jobs (created directly or after Filter) are created with " +
		"spec.paused = true (op pause id 1 0) and arbitrated jobs are paused / resumed later by a spec Update whose Update event goes through the real handler (op pause id v 1), " +
		"between rounds, phase moves towards Running, Filter calls, resyncs, deletions and a restart; the oracle's counts do not look at spec.paused (a paused Running / passed job fills its budgets). " +
		"Non-trivial = some round both admitted a job and left one waiting")
}

func (w *c16World) createPod(p *c16PodS) {
	ctx := context.TODO()
	w.pods[p.id] = p
	pod := w.mkPod(p)
	if err := w.c.Create(ctx, pod); err != nil {
		panic(err)
	}
	if p.term {
		if err := w.c.Delete(ctx, pod); err != nil { // finalizer present: stays, deletionTimestamp set
			panic(err)
		}
	}
	w.h.Op("pod %d %d %d %d %d %d %d %d", p.id, p.node, p.ns, p.wl, vB(p.ready), vB(p.ann), vB(p.term), p.phase)
	w.h.Tag(fmt.Sprintf("pod:term=%d,phase=%d,ready=%d", vB(p.term), p.phase, vB(p.ready)))
}

func (w *c16World) getPod(id int) *corev1.Pod {
	cur := &corev1.Pod{}
	if err := w.c.Get(context.TODO(), types.NamespacedName{Namespace: c16Ns(w.pods[id].ns), Name: c16PodName(id)}, cur); err != nil {
		panic(err)
	}
	return cur
}

// direct creation of a job object; kind 0 running, 1 pending+passed, 2 finished, 3 waiting
func (w *c16World) createJob(r *vRand, id, pod, ns, kind, shape int) {
	w.createJobPhase(r, id, pod, ns, kind, shape, -1)
}

// forcePhase >= 0 fixes the phase of a waiting job (kind 3): 0 "" (what a plugin-created job has), 1 Pending
func (w *c16World) createJobPhase(r *vRand, id, pod, ns, kind, shape, forcePhase int) {
	ctx := context.TODO()
	js := &c16JobS{id: id, pod: pod, ns: ns, uid: pod}
	if pod == 0 || w.pods[pod] == nil {
		shape = c16RefFull
	}
	switch shape {
	case c16RefNameOnly:
		js.uid = 0
	case c16RefUIDOnly:
		js.pod, js.ns, js.nameless = 900+id, 0, true
	case c16RefStaleUID:
		js.uid = 800 + pod
	case c16RefCross:
		ids := []int{}
		for o := range w.pods {
			if o != pod {
				ids = append(ids, o)
			}
		}
		sort.Ints(ids)
		if len(ids) > 0 {
			js.uid = ids[r.Intn(len(ids))]
		} else {
			shape = c16RefFull
		}
	}
	w.h.Tag(fmt.Sprintf("job:ref=%d", shape))
	w.jobs[id] = js
	pod, ns = js.pod, js.ns
	j := w.mkJob(js)
	phase, passed, waiting := 0, false, false
	switch kind {
	case 0:
		phase = 2
		passed = r.Bool()
	case 1:
		phase, passed = r.Intn(2), true
	case 2:
		phase = r.Range(3, 5)
	default:
		phase, waiting = r.Intn(2), true
		if forcePhase >= 0 {
			phase = forcePhase
		}
	}
	if passed {
		j.Annotations = map[string]string{AnnotationPassedArbitration: "true"}
	}
	createdPaused := w.ps && r.Chance(1, 4)
	j.Spec.Paused = createdPaused
	if err := w.c.Create(ctx, j); err != nil {
		panic(err)
	}
	j.Status.Phase = c16Phases[phase]
	if err := w.c.Status().Update(ctx, j); err != nil {
		panic(err)
	}
	if passed {
		w.a.filter.markJobPassedArbitration(j.UID)
	}
	if waiting {
		w.hd.Create(ctx, event.CreateEvent{Object: j}, w.q) // the informer's Create event -> AddPodMigrationJob
	}
	w.h.Op("job %d %d %d %d %d %d %d %d", id, pod, ns, phase, vB(passed), vB(passed), vB(waiting), js.uid)
	if createdPaused {
		w.h.Op("pause %d 1 0", id) // created with spec.paused = true; no event besides the Create event
		w.h.Tag(fmt.Sprintf("pause:created-paused,kind=%d", kind))
	}
}

// c16Forced fixes cluster, configuration and op sequence of a case (the PodRef shape x job state matrix)
type c16Forced struct{ shape, state int }

func c16ArbCase(h *vHarness, r *vRand, headroom bool, fx *c16Forced, hs bool, ps bool) {
	pickLim := func() int {
		switch r.Intn(7) {
		case 0:
			return -1
		case 1:
			return 0
		default:
			return r.Range(1, 3)
		}
	}
	pickWl := func() (kind, v int) {
		switch k := r.Intn(12); {
		case k < 7:
			return 0, pickLim()
		case k < 11:
			return 1, int(r.Pick([]int64{0, 10, 20, 25, 34, 40, 50, 60, 100, 150}))
		default:
			if r.Chance(1, 3) {
				return 2, 0
			}
			return 0, pickLim()
		}
	}
	var cfg c16Cfg
	forceVia := false
	cfg.mg, cfg.mn, cfg.ms = pickLim(), pickLim(), pickLim()
	cfg.mmKind, cfg.mm = pickWl()
	cfg.muKind, cfg.mu = pickWl()
	if cfg.muKind == 0 && r.Chance(1, 3) {
		cfg.mu = r.Range(2, 4)
	}
	if r.Chance(1, 5) {
		for g := 1; g <= 14; g++ {
			if (g <= 7 && r.Chance(1, 4)) || (g > 7 && r.Chance(1, 8)) {
				cfg.skip = append(cfg.skip, g)
			}
		}
	}
	cfg.skipCER = r.Chance(1, 8)
	badStr := []string{"abc", "x%", ""}[r.Intn(3)]
	replicas := map[int]int{}
	for wl := 1; wl <= 3; wl++ {
		replicas[wl] = int(r.Pick([]int64{1, 3, 5, 5, 8, 8, 12, 20}))
	}
	if headroom {
		// one workload whose unavailability budget is the binding limit
		cfg.mg, cfg.mn, cfg.ms = -1, -1, -1
		if r.Chance(1, 4) {
			cfg.ms = r.Range(2, 3)
		}
		replicas[2] = r.Range(4, 8)
		if r.Chance(1, 5) {
			replicas[2] = 12
		}
		cfg.mmKind, cfg.mm = 0, -1
		if r.Chance(1, 3) {
			cfg.mm = r.Range(1, 3)
		}
		switch r.Intn(4) {
		case 0:
			cfg.muKind, cfg.mu = 1, int(r.Pick([]int64{20, 25, 34, 40, 50}))
		case 1:
			cfg.muKind, cfg.mu = 0, -1
		default:
			cfg.muKind, cfg.mu = 0, r.Range(1, 3)
		}
		if !r.Chance(1, 10) {
			cfg.skip = nil
		}
		if r.Chance(1, 4) {
			// exactly ONE of the two per-workload gates is skipped and the limit of the OTHER one is the binding limit: the
			// workload filter must stay in the retryable chain (initFilters drops it only when BOTH gates are skipped)
			if r.Bool() {
				cfg.skip = []int{2} // MaxMigratingPerWorkload skipped: the unavailability budget still binds
				if cfg.muKind == 0 && cfg.mu < 0 {
					cfg.mu = r.Range(1, 3)
				}
			} else {
				cfg.skip = []int{1} // MaxUnavailablePerWorkload skipped: maxMigrating still binds
				cfg.mmKind, cfg.mm = 0, r.Range(1, 2)
			}
			h.Tag(fmt.Sprintf("stream:one-workload-gate-skipped=%d", cfg.skip[0]))
		}
		cfg.skipCER = false
	}
	if hs {
		cfg = c16Cfg{mg: -1, mn: -1, ms: -1, mm: 10, mu: 10} // per-workload limits far from binding unless chosen below
		for k, n := 0, r.Range(1, 2); k < n; k++ {
			switch r.Intn(5) {
			case 4: // nothing declared: the binding limit is the documented default of maxMigratingPerNode, which only a file gives
				forceVia = true
			case 0:
				cfg.mg = r.Range(1, 2)
			case 1:
				cfg.mn = r.Range(1, 2)
			case 2:
				cfg.ms = r.Range(1, 2)
			default:
				cfg.mm = r.Range(1, 2)
			}
		}
		replicas = map[int]int{1: 20, 2: int(r.Pick([]int64{20, 40})), 3: 20}
	}
	if fx != nil {
		cfg = c16Cfg{mg: -1, mn: 1, ms: -1, mm: -1, mu: -1}
		replicas = map[int]int{1: 8, 2: 8, 3: 8}
		h.Tag(fmt.Sprintf("matrix:shape=%d,state=%d", fx.shape, fx.state))
	}
	h.Op("cfg %d %d %d %d %d", cfg.mg, cfg.mn, cfg.ms, cfg.mm, cfg.mu)
	op := fmt.Sprintf("cfgx %d %d %d %d", cfg.mmKind, cfg.muKind, vB(cfg.skipCER), len(cfg.skip))
	for _, g := range cfg.skip {
		op += fmt.Sprintf(" %d", g)
	}
	h.Op("%s", op)
	h.Tag(fmt.Sprintf("cfg:mmKind=%d", cfg.mmKind))
	h.Tag(fmt.Sprintf("cfg:muKind=%d", cfg.muKind))
	for _, g := range cfg.skip {
		h.Tag(fmt.Sprintf("cfg:skipgate=%d", g))
	}
	for wl := 1; wl <= 3; wl++ {
		h.Op("wl %d %d", wl, replicas[wl])
	}
	// 1/3 of the cases (when both per-workload limits are well-formed; a malformed one makes the start-up reject the file)
	// get their MigrationControllerArgs through a configuration file and the start-up path instead of a Go literal
	via := fx == nil && cfg.mmKind != 2 && cfg.muKind != 2 && (r.Chance(1, 3) || forceVia)
	w := c16NewWorld(h, cfg, badStr, replicas, via)
	w.ps = ps
	if via {
		h.Op("cfgvia")
		h.Obs("%s", c16ShowArgs(w.a.filter.args))
		h.Tag("cfg:via-file")
		h.Tag(fmt.Sprintf("cfg:via-file,mn-declared=%d", c16Min(cfg.mn, 1)))
	}
	ctx := context.TODO()
	// a pod state: how a replica can be unavailable
	podState := func(p *c16PodS, unavailable bool) {
		p.ready = true
		if !unavailable {
			return
		}
		switch r.Intn(7) {
		case 0:
			p.ready = false
		case 1:
			p.term = true // terminating, still Ready
		case 2:
			p.term, p.ready = true, false
		case 3:
			p.phase, p.ready = 3, r.Chance(1, 3) // Failed (a stale Ready condition may remain)
		case 4:
			p.phase, p.ready = 2, r.Chance(1, 3) // Succeeded
		case 5:
			p.phase, p.ready = 1, false // Pending
		default:
			p.phase, p.ready, p.term = r.Range(1, 3), false, true
		}
	}
	np := r.Range(5, 10)
	nextJob := 1
	// the pod already has a pending / running job: some such job refers to it by UID or by namespace/name
	hasOpenJob := func(pod int) bool {
		for _, j := range w.view() {
			if j.pod != 0 && (j.pod == pod || j.uid == pod) && j.phase <= 2 {
				return true
			}
		}
		return false
	}
	pickShape := func() int {
		switch k := r.Intn(20); {
		case k < 10:
			return c16RefFull
		case k < 14:
			return c16RefNameOnly
		case k < 16:
			return c16RefUIDOnly
		case k < 19:
			return c16RefStaleUID
		default:
			return c16RefCross
		}
	}
	if fx != nil {
		np = 4
		for id := 1; id <= np; id++ {
			node := 1
			if id == 4 {
				node = 2 // the other pod of a cross reference lives elsewhere
			}
			w.createPod(&c16PodS{id: id, node: node, ns: 1, wl: 2, ready: true})
		}
		w.createJob(r, nextJob, 1, 1, fx.state, fx.shape)
		nextJob++
	} else if hs {
		np = r.Range(5, 8)
		nodes := r.Range(1, 2)
		for id := 1; id <= np; id++ {
			w.createPod(&c16PodS{id: id, node: r.Range(1, nodes), ns: 1, wl: 2, ready: true})
		}
		perm := r.Perm(np)
		for k, nj := 0, r.Range(3, 6); k < nj && k < np; k++ {
			w.createJobPhase(r, nextJob, perm[k]+1, 1, 3, c16RefFull, vB(r.Chance(1, 4)))
			nextJob++
		}
	} else if headroom {
		np = r.Range(4, 8)
		nun := r.Range(1, 3)
		for id := 1; id <= np; id++ {
			p := &c16PodS{id: id, node: r.Range(1, 3), ns: 1, wl: 2}
			podState(p, id <= nun)
			if r.Chance(1, 20) {
				p.ann = true
			}
			w.createPod(p)
		}
		// jobs: sometimes one already running on an unavailable replica (counts once), waiting jobs on the others
		if r.Chance(1, 3) {
			w.createJob(r, nextJob, 1, 1, r.Intn(2), pickShape()%c16RefCross)
			nextJob++
		}
		for id := nun + 1; id <= np; id++ {
			if r.Chance(2, 3) {
				sh := c16RefFull
				if r.Chance(1, 4) {
					sh = []int{c16RefNameOnly, c16RefStaleUID}[r.Intn(2)]
				}
				w.createJob(r, nextJob, id, 1, 3, sh)
				nextJob++
			}
		}
	} else {
		for id := 1; id <= np; id++ {
			p := &c16PodS{id: id, node: r.Range(1, 3), ns: r.Range(1, 2), wl: r.Range(1, 3), ann: r.Chance(1, 10)}
			podState(p, r.Chance(1, 5))
			if r.Chance(1, 12) {
				p.node = 0
			}
			if r.Chance(1, 12) {
				p.wl = 0
			}
			if r.Chance(1, 2) { // concentrate so that limits bite
				p.node, p.ns, p.wl = 1, 1, 2
			}
			w.createPod(p)
		}
		// pre-existing jobs, created directly
		for k, nj := 0, r.Intn(5); k < nj; k++ {
			pod := r.Range(1, np)
			ns := w.pods[pod].ns
			kind := r.Intn(6) // 0 running, 1 pending+passed, 2 finished, 3 waiting, 4 dangling pod ref, 5 nil pod ref
			if kind == 4 {
				pod, ns = 90+k, 1
			} else if kind == 5 {
				pod, ns = 0, 0
			} else if kind != 2 && hasOpenJob(pod) && !r.Chance(1, 10) {
				// at most one open job per pod (what creation through Filter guarantees); the rare exception makes the
				// hypothesis WF of round_inv false: model and implementation are still compared, the oracle is not applied
				continue
			}
			w.createJob(r, nextJob, pod, ns, kind, pickShape())
			nextJob++
		}
	}
	podIDs := func() []int {
		ids := []int{}
		for id := range w.pods {
			ids = append(ids, id)
		}
		sort.Ints(ids)
		return ids
	}
	admittedAndWaiting := false
	fxK, fxPod := []int{6, 0, 7, 6}, []int{1, 2, 0, 3}
	for s, steps := 0, r.Range(6, 14); s < steps; s++ {
		k := r.Intn(23)
		if hs { // mostly rounds and the events around them
			k = int(r.Pick([]int64{0, 3, 3, 7, 7, 7, 7, 7, 7, 13, 13, 16, 17, 20, 20, 21, 22, 22}))
		}
		if ps { // rounds, moves towards Running, pause / resume of arbitrated jobs, new jobs through Filter
			k = int(r.Pick([]int64{0, 3, 3, 3, 7, 7, 7, 7, 7, 7, 13, 13, 16, 20, 21, 22, 22, 23, 23, 23, 23, 23}))
		}
		if fx != nil {
			if s >= len(fxK) {
				break
			}
			k = fxK[s]
		}
		switch {
		case k < 1: // somebody else (kubectl, another controller) creates a job for a pod without one; its PodRef may be partial
			ids := []int{}
			for _, id := range podIDs() {
				if !hasOpenJob(id) {
					ids = append(ids, id)
				}
			}
			if len(ids) == 0 {
				continue
			}
			pod := ids[r.Intn(len(ids))]
			sh := pickShape()
			if sh == c16RefCross || sh == c16RefFull {
				sh = c16RefNameOnly
			}
			kind := 3
			if r.Chance(1, 3) {
				kind = r.Intn(2)
			}
			if fx != nil {
				pod, sh, kind = fxPod[s], c16RefFull, 3
			}
			w.createJob(r, nextJob, pod, w.pods[pod].ns, kind, sh)
			nextJob++
			h.Tag("op:external-job")
		case k < 7: // a plugin wants to migrate a pod: Filter, then create the job and hand it to the arbitrator
			ids := podIDs()
			if len(ids) == 0 {
				continue
			}
			pod := ids[r.Intn(len(ids))]
			if r.Chance(1, 3) { // aim at the duplicate rule: a pod that already has an open job
				busy := []int{}
				for _, id := range ids {
					if hasOpenJob(id) {
						busy = append(busy, id)
					}
				}
				if len(busy) > 0 {
					pod = busy[r.Intn(len(busy))]
				}
			}
			if fx != nil {
				pod = fxPod[s]
			}
			id := nextJob
			nextJob++
			h.Op("create %d %d", id, pod)
			cur := w.getPod(pod)
			open := hasOpenJob(pod)
			var ok bool
			if h.Guard(func() { ok = w.a.Filter(cur) }) {
				h.Obs("panic")
				h.Fail("C16:panic", "arbitrator.Filter panicked")
				return
			}
			h.Obs("filter %d", vB(ok))
			h.Tag(fmt.Sprintf("filter=%d", vB(ok)))
			if open {
				h.Tag("filter:pod-has-open-job")
			}
			if ok && open {
				h.Fail("C16:arb-second-job", "Filter accepted pod %d which already has a pending/running migration job", pod)
			}
			if ok {
				w.jobs[id] = &c16JobS{id: id, pod: pod, ns: w.pods[pod].ns, uid: pod}
				j := w.mkJob(w.jobs[id])
				createdPaused := ps && r.Chance(1, 4)
				j.Spec.Paused = createdPaused
				if err := w.c.Create(ctx, j); err != nil {
					panic(err)
				}
				w.hd.Create(ctx, event.CreateEvent{Object: j}, w.q)
				if createdPaused {
					h.Op("pause %d 1 0", id)
					h.Tag("pause:created-paused,kind=filter")
				}
			}
		case k < 13: // arbitration round
			before := w.view()
			w.failUpd = map[string]bool{}
			fails := []int{}
			if r.Chance(1, 6) {
				for _, j := range before {
					if j.waiting && r.Bool() {
						w.failUpd[c16JobName(j.id)] = true
						fails = append(fails, j.id)
					}
				}
			}
			w.order = w.order[:0]
			// the informer echoes the arbitrator's own writes: before its next look at the jobs (eager) or after the round
			w.eager = r.Bool()
			w.written, w.echoed = w.written[:0], w.echoed[:0]
			w.inRound = true
			panicked := h.Guard(func() { w.a.doOnceArbitrate() })
			w.inRound = false
			if panicked {
				h.Op("round 0 0")
				h.Obs("panic")
				h.Fail("C16:panic", "doOnceArbitrate panicked")
				return
			}
			opName := "round"
			if w.eager {
				opName = "roundx"
				w.flushWrites() // whatever was written after the arbitrator's last job List
				h.Tag(fmt.Sprintf("round:eager-echoes=%d", c16Min(len(w.echoed), 3)))
			}
			op := fmt.Sprintf("%s %d", opName, len(fails))
			for _, f := range fails {
				op += fmt.Sprintf(" %d", f)
			}
			op += fmt.Sprintf(" %d", len(w.order))
			for _, o := range w.order {
				op += fmt.Sprintf(" %d", o)
			}
			h.Op("%s", op)
			for _, j := range w.view() { // re-arbitrated (passed again or failed): the annotation is current again
				if w.stale[j.id] && !j.waiting {
					delete(w.stale, j.id)
				}
			}
			after := w.view()
			wf := w.wellFormed(before)
			h.Obs("wf %d", vB(wf))
			w.emitState(after)
			if wf {
				w.oracleRound(before, after)
			} else {
				h.Tag("round:not-wellformed")
			}
			if !w.eager {
				w.flushWrites()
				op := fmt.Sprintf("upd %d", len(w.echoed))
				for _, id := range w.echoed {
					op += fmt.Sprintf(" %d", id)
				}
				h.Op("%s", op)
				w.emitState(w.view())
				h.Tag(fmt.Sprintf("round:late-echoes=%d", c16Min(len(w.echoed), 3)))
			}
			for _, id := range w.echoed {
				if s := w.jobs[id]; s != nil {
					for _, j := range after {
						if j.id == id {
							h.Tag(fmt.Sprintf("echo:phase=%d", j.phase))
						}
					}
				}
			}
			adm, wait, failed := 0, 0, 0
			for i, j := range after {
				if c16Live(j) && !c16Live(before[i]) {
					adm++
				}
				if j.waiting {
					wait++
				}
				if j.phase == 4 && before[i].phase != 4 {
					failed++
				}
			}
			h.Tag(fmt.Sprintf("round:admitted=%d", adm))
			h.Tag(fmt.Sprintf("round:failed=%d", failed))
			if wait > 3 {
				wait = 3
			}
			h.Tag(fmt.Sprintf("round:stillwaiting=%d", wait))
			if ps {
				pl := 0
				for _, j := range before {
					if c16Live(j) && j.paused {
						pl++
					}
				}
				h.Tag(fmt.Sprintf("pause:round,paused-live-before=%d,stillwaiting=%d", c16Min(pl, 2), c16Min(wait, 1)))
			}
			if adm > 0 && wait > 0 {
				admittedAndWaiting = true
			}
			w.failUpd = map[string]bool{}
		case k < 16: // the migration controller moves a passed job on; the handler sees the update
			var cand []c16JobView
			for _, j := range w.view() {
				if !j.waiting && j.phase <= 2 {
					cand = append(cand, j)
				}
			}
			if len(cand) == 0 {
				continue
			}
			j := cand[r.Intn(len(cand))]
			np := 2
			if j.phase == 2 || r.Chance(1, 4) {
				np = r.Range(3, 5)
			}
			obj := &v1alpha1.PodMigrationJob{}
			if err := w.c.Get(ctx, types.NamespacedName{Name: c16JobName(j.id)}, obj); err != nil {
				panic(err)
			}
			obj.Status.Phase = c16Phases[np]
			if err := w.c.Status().Update(ctx, obj); err != nil {
				panic(err)
			}
			w.hd.Update(ctx, event.UpdateEvent{ObjectNew: obj}, w.q)
			h.Op("phase %d %d", j.id, np)
			w.emitState(w.view())
		case k < 17: // the controller restarts: empty waiting collection and arbitrated map, one Create event per job in the API (the handler
			// ignores the Create event of a finished job)
			l := &v1alpha1.PodMigrationJobList{}
			if err := w.c.List(ctx, l); err != nil {
				panic(err)
			}
			for _, j := range w.view() {
				if j.phase <= 1 && j.ann {
					w.stale[j.id] = true
				}
			}
			w.newArb()
			for i := range l.Items {
				w.hd.Create(ctx, event.CreateEvent{Object: &l.Items[i]}, w.q)
			}
			h.Op("restart")
			h.Tag("op:restart")
			w.emitState(w.view())
		case k == 20: // informer resync (or an unrelated metadata change): Update events with the objects as they are
			var ids []int
			all := r.Chance(2, 3)
			for _, j := range w.view() {
				if all || r.Bool() {
					ids = append(ids, j.id)
				}
			}
			op := fmt.Sprintf("upd %d", len(ids))
			for _, id := range ids {
				w.echo(id)
				op += fmt.Sprintf(" %d", id)
			}
			h.Op("%s", op)
			h.Tag("op:resync")
			w.emitState(w.view())
		case k == 21: // a job object is deleted (TTL, kubectl): API delete + Delete event through the handler
			v := w.view()
			if len(v) == 0 {
				continue
			}
			j := v[r.Intn(len(v))]
			obj := &v1alpha1.PodMigrationJob{}
			if err := w.c.Get(ctx, types.NamespacedName{Name: c16JobName(j.id)}, obj); err != nil {
				panic(err)
			}
			if err := w.c.Delete(ctx, obj); err != nil {
				panic(err)
			}
			w.hd.Delete(ctx, event.DeleteEvent{Object: obj}, w.q)
			delete(w.stale, j.id)
			h.Op("deljob %d", j.id)
			h.Tag(fmt.Sprintf("op:deljob,phase=%d,waiting=%d,arb=%d", j.phase, vB(j.waiting), vB(j.arb)))
			w.emitState(w.view())
		case k == 22: // an arbitrated open job moves one phase on: "" -> Pending -> Running, or ends (timeout / abort).  (A job that is
			// still waiting is not touched: the arbitrator keeps the copy it got with the Create event and its annotation Update
			// would then fail with a resourceVersion conflict — a liveness matter outside this property and outside the model.)
			var cand []c16JobView
			for _, j := range w.view() {
				if j.phase <= 2 && !j.waiting {
					cand = append(cand, j)
				}
			}
			if len(cand) == 0 {
				continue
			}
			j := cand[r.Intn(len(cand))]
			np := j.phase + 1
			if j.phase == 2 || r.Chance(1, 4) {
				np = r.Range(3, 5)
			}
			obj := &v1alpha1.PodMigrationJob{}
			if err := w.c.Get(ctx, types.NamespacedName{Name: c16JobName(j.id)}, obj); err != nil {
				panic(err)
			}
			obj.Status.Phase = c16Phases[np]
			if err := w.c.Status().Update(ctx, obj); err != nil {
				panic(err)
			}
			w.hd.Update(ctx, event.UpdateEvent{ObjectNew: obj}, w.q)
			h.Op("phase %d %d", j.id, np)
			h.Tag(fmt.Sprintf("op:phase,from=%d,to=%d,waiting=%d", j.phase, np, vB(j.waiting)))
			w.emitState(w.view())
		case k == 23: // somebody pauses / resumes an arbitrated job (spec.paused flipped by a spec Update; the informer's Update event goes
			// through the real handler).  The job keeps phase, annotation and reservation: it is still in every count.  Jobs that are
			// still waiting are not touched (see k == 22)
			var cand []c16JobView
			anyPhase := r.Chance(1, 8)
			for _, j := range w.view() {
				if !j.waiting && (j.phase <= 2 || anyPhase) {
					cand = append(cand, j)
				}
			}
			if len(cand) == 0 {
				continue
			}
			j := cand[r.Intn(len(cand))]
			obj := &v1alpha1.PodMigrationJob{}
			if err := w.c.Get(ctx, types.NamespacedName{Name: c16JobName(j.id)}, obj); err != nil {
				panic(err)
			}
			obj.Spec.Paused = !obj.Spec.Paused
			if err := w.c.Update(ctx, obj); err != nil {
				panic(err)
			}
			w.echo(j.id)
			h.Op("pause %d %d 1", j.id, vB(obj.Spec.Paused))
			h.Tag(fmt.Sprintf("op:pause,to=%d,phase=%d,live=%d", vB(obj.Spec.Paused), j.phase, vB(c16Live(j))))
			w.emitState(w.view())
		default:
			ids := podIDs()
			if len(ids) <= 2 {
				continue
			}
			pod := ids[r.Intn(len(ids))]
			cur := w.getPod(pod)
			p := w.pods[pod]
			switch c := r.Intn(6); {
			case c < 1: // the pod goes away for good
				cur.Finalizers = nil
				if err := w.c.Update(ctx, cur); err != nil {
					panic(err)
				}
				if !p.term {
					if err := w.c.Delete(ctx, cur); err != nil {
						panic(err)
					}
				}
				delete(w.pods, pod)
				h.Op("delpod %d", pod)
			case c < 3:
				p.ready = !p.ready
				cur.Status = w.mkPod(p).Status
				if err := w.c.Status().Update(ctx, cur); err != nil { // readiness lives in the status subresource
					panic(err)
				}
				h.Op("ready %d %d", pod, vB(p.ready))
			case c < 5: // deletion requested: terminating, Ready condition unchanged
				if p.term {
					continue
				}
				if err := w.c.Delete(ctx, cur); err != nil {
					panic(err)
				}
				p.term = true
				h.Op("term %d", pod)
				h.Tag("op:term")
			default:
				p.phase = (p.phase + r.Range(1, 3)) % 4
				cur.Status = w.mkPod(p).Status
				if err := w.c.Status().Update(ctx, cur); err != nil {
					panic(err)
				}
				h.Op("pphase %d %d", pod, p.phase)
				h.Tag(fmt.Sprintf("op:pphase=%d", p.phase))
			}
		}
	}
	if admittedAndWaiting {
		h.Nontrivial()
	}
	_ = strings.Join
}
